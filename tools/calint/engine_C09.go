package main

// Derivation of "this tier/group holds an enforced (non-staged) policy"
// decisions for C09: which policy groups does a boolean look at?
//
// A bool value v is *non-staged derived* when its truth implies that
// PolicyGroup.HasNonStagedPolicies() returned true for some group drawn from a
// known set of sources.  The evaluator follows phis (a flag raised under a
// guard), helpers of the analysed packages (their parameters are substituted by
// the call's arguments) and slices.ContainsFunc with HasNonStagedPolicies as the
// predicate, so extracting the decision into a helper keeps it resolvable.

import (
	"go/constant"
	"go/token"
	"go/types"
	"sort"
	"strings"

	"golang.org/x/tools/go/ssa"
)

// c09Src is one source of groups: Base+Sel names a value of the frame being
// analysed; Elem = the groups are the elements of that slice, otherwise the
// value is the group itself.
type c09Src struct {
	Base ssa.Value
	Sel  string
	Elem bool
}

func (s c09Src) String() string {
	t := path(s.Base) + s.Sel
	if s.Elem {
		t += "[*]"
	}
	return t
}

func (s c09Src) same(o c09Src) bool { return s.Base == o.Base && s.Sel == o.Sel && s.Elem == o.Elem }

// c09Norm strips field selections and loads of locals: (base, ".F.G").
func c09Norm(v ssa.Value) (ssa.Value, string) {
	switch x := v.(type) {
	case *ssa.FieldAddr:
		b, s := c09Norm(x.X)
		return b, s + "." + fieldName(x.X.Type(), x.Field)
	case *ssa.Field:
		b, s := c09Norm(x.X)
		return b, s + "." + fieldName(x.X.Type(), x.Field)
	case *ssa.UnOp:
		if x.Op == token.MUL {
			switch x.X.(type) {
			case *ssa.FieldAddr, *ssa.Alloc:
				return c09Norm(x.X)
			}
		}
	case *ssa.ChangeType:
		return c09Norm(x.X)
	}
	return v, ""
}

// c09ElemOf: v = *(&S[i]) or S[i] -> S.
func c09ElemOf(v ssa.Value) ssa.Value {
	switch x := v.(type) {
	case *ssa.UnOp:
		if x.Op == token.MUL {
			if ia, ok := x.X.(*ssa.IndexAddr); ok {
				return ia.X
			}
		}
	case *ssa.Index:
		return x.X
	}
	return nil
}

func c09SrcOfGroup(recv ssa.Value) c09Src {
	if s := c09ElemOf(recv); s != nil {
		b, sel := c09Norm(s)
		return c09Src{b, sel, true}
	}
	b, sel := c09Norm(recv)
	return c09Src{b, sel, false}
}

type c09NSRes struct {
	OK      bool
	Srcs    []c09Src
	Why     string // why not OK
	Unknown bool   // not OK because of a shape the evaluator does not model
	Extra   bool   // a helper on the way has parameters besides the group sources (its choice of groups may depend on them)
}

func (r *c09NSRes) add(s c09Src) {
	for _, o := range r.Srcs {
		if o.same(s) {
			return
		}
	}
	r.Srcs = append(r.Srcs, s)
}

func (r *c09NSRes) merge(o *c09NSRes) {
	for _, s := range o.Srcs {
		r.add(s)
	}
	r.Extra = r.Extra || o.Extra
	if !o.OK && r.OK {
		r.OK, r.Why, r.Unknown = false, o.Why, o.Unknown
	}
}

func (r *c09NSRes) srcList() string {
	var out []string
	for _, s := range r.Srcs {
		out = append(out, s.String())
	}
	sort.Strings(out)
	return strings.Join(out, ", ")
}

type c09NS struct {
	isHNS func(*types.Func) bool // the group-level predicate (PolicyGroup.HasNonStagedPolicies)
}

func c09Bad(unknown bool, why string) *c09NSRes { return &c09NSRes{Why: why, Unknown: unknown} }

// eval: v is the value; at (may be nil) is the instruction at which a constant
// value is selected (a Return, or the terminator of a phi's predecessor).
func (e *c09NS) eval(v ssa.Value) *c09NSRes {
	return e.ev(v, nil, map[ssa.Value]bool{}, 0)
}

// edgePred accepts If edges on which a non-staged derived condition is true and
// collects the sources of the accepted conditions into acc.
func (e *c09NS) edgePred(acc *c09NSRes, busy map[ssa.Value]bool, depth int) EdgePred {
	return func(cond ssa.Value, pol bool) bool {
		if !pol || !c09Candidate(cond) {
			return false
		}
		r := e.ev(cond, nil, busy, depth)
		if !r.OK || len(r.Srcs) == 0 {
			return false
		}
		acc.merge(r)
		return true
	}
}

// c09Candidate: only calls and phis can be non-staged derived.
func c09Candidate(v ssa.Value) bool {
	switch v.(type) {
	case *ssa.Call, *ssa.Phi:
		b, ok := v.Type().Underlying().(*types.Basic)
		return ok && b.Kind() == types.Bool
	}
	return false
}

// trueAt: the constant true is selected at instruction `at` (on the edge
// from→to when to != nil): every path there crosses an accepted edge.
func (e *c09NS) trueAt(at ssa.Instruction, to *ssa.BasicBlock, busy map[ssa.Value]bool, depth int) *c09NSRes {
	acc := &c09NSRes{OK: true}
	pred := e.edgePred(acc, busy, depth)
	from := at.Block()
	if ifi, ok := at.(*ssa.If); ok && to != nil && len(from.Succs) == 2 && from.Succs[0] != from.Succs[1] {
		for k, s := range from.Succs {
			if s == to {
				if c, pol := stripNot(ifi.Cond, k == 0); pred(c, pol) {
					return acc
				}
			}
		}
	}
	if guardedCut(at, pred) {
		return acc
	}
	return c09Bad(false, "it is true on a path of "+fnName(at.Parent())+" that is not guarded by HasNonStagedPolicies()")
}

func (e *c09NS) ev(v ssa.Value, at ssa.Instruction, busy map[ssa.Value]bool, depth int) *c09NSRes {
	switch x := v.(type) {
	case *ssa.Const:
		if x.Value == nil || x.Value.Kind() != constant.Bool {
			return c09Bad(true, "non-bool constant")
		}
		if !constant.BoolVal(x.Value) {
			return &c09NSRes{OK: true}
		}
		if at == nil {
			return c09Bad(false, "it is the constant true")
		}
		return e.trueAt(at, nil, busy, depth)
	case *ssa.Phi:
		if busy[x] {
			return &c09NSRes{OK: true} // back edge of a flag carried round a loop
		}
		busy[x] = true
		defer delete(busy, x)
		out := &c09NSRes{OK: true}
		for i, ed := range x.Edges {
			pb := x.Block().Preds[i]
			last := pb.Instrs[len(pb.Instrs)-1]
			if k, ok := ed.(*ssa.Const); ok && k.Value != nil && k.Value.Kind() == constant.Bool && constant.BoolVal(k.Value) {
				out.merge(e.trueAt(last, x.Block(), busy, depth))
				continue
			}
			out.merge(e.ev(ed, last, busy, depth))
		}
		return out
	case *ssa.Call:
		return e.call(x, busy, depth)
	}
	return c09Bad(true, "it takes the value "+path(v)+", which is neither a constant nor derived from HasNonStagedPolicies()")
}

func c09FuncValue(v ssa.Value) *ssa.Function {
	switch x := v.(type) {
	case *ssa.Function:
		return x
	case *ssa.MakeClosure:
		f, _ := x.Fn.(*ssa.Function)
		return f
	case *ssa.ChangeType:
		return c09FuncValue(x.X)
	}
	return nil
}

func (e *c09NS) call(call *ssa.Call, busy map[ssa.Value]bool, depth int) *c09NSRes {
	cc := call.Common()
	callee := calleeOf(cc)
	if callee == nil {
		return c09Bad(true, "it is the result of the dynamic call "+path(call))
	}
	if e.isHNS(callee) && !cc.IsInvoke() && len(cc.Args) == 1 {
		r := &c09NSRes{OK: true}
		r.add(c09SrcOfGroup(cc.Args[0]))
		return r
	}
	if callee.Pkg() != nil && callee.Pkg().Path() == "slices" && callee.Name() == "ContainsFunc" && len(cc.Args) == 2 {
		if !e.groupPredicate(c09FuncValue(cc.Args[1]), busy, depth) {
			return c09Bad(true, "slices.ContainsFunc predicate "+path(cc.Args[1])+" is not HasNonStagedPolicies of the element")
		}
		b, sel := c09Norm(cc.Args[0])
		r := &c09NSRes{OK: true}
		r.add(c09Src{b, sel, true})
		return r
	}
	sf := calleeFn(cc)
	if sf == nil || sf.Blocks == nil || depth >= 3 || cc.IsInvoke() {
		return c09Bad(true, "it is the result of "+funcID(callee)+", which is not HasNonStagedPolicies() or a helper built on it")
	}
	rets := returnsOf(sf)
	if len(rets) == 0 || sf.Signature.Results().Len() != 1 {
		return c09Bad(true, "helper "+fnName(sf)+" does not return a single bool")
	}
	in := &c09NSRes{OK: true}
	for _, r := range rets {
		in.merge(e.ev(r.Results[0], r, busy, depth+1))
	}
	if !in.OK {
		return &c09NSRes{Why: "helper " + fnName(sf) + ": " + in.Why, Unknown: in.Unknown}
	}
	out := &c09NSRes{OK: true, Extra: in.Extra}
	used := map[int]bool{}
	for _, s := range in.Srcs {
		par, ok := s.Base.(*ssa.Parameter)
		idx := -1
		if ok {
			for i, q := range sf.Params {
				if q == par {
					idx = i
				}
			}
		}
		if idx < 0 || idx >= len(cc.Args) {
			out.add(s) // a group source that is not handed in by the caller
			continue
		}
		used[idx] = true
		b, sel := c09Norm(cc.Args[idx])
		out.add(c09Src{b, sel + s.Sel, s.Elem})
	}
	if len(sf.Params) > len(used) {
		out.Extra = true
	}
	return out
}

// groupPredicate: fn(g) reports HasNonStagedPolicies of its own parameter.
func (e *c09NS) groupPredicate(fn *ssa.Function, busy map[ssa.Value]bool, depth int) bool {
	if fn == nil || len(fn.Params) != 1 || len(fn.FreeVars) != 0 {
		return false
	}
	if fn.Blocks == nil {
		return false
	}
	rets := returnsOf(fn)
	if len(rets) == 0 {
		return false
	}
	for _, r := range rets {
		if len(r.Results) != 1 {
			return false
		}
		res := e.ev(r.Results[0], r, busy, depth+1)
		if !res.OK || len(res.Srcs) != 1 || !res.Srcs[0].same(c09Src{Base: fn.Params[0]}) {
			return false
		}
	}
	return true
}
