package main

import (
	"sort"

	"golang.org/x/tools/go/ssa"
)

// c34FamT: the function under analysis together with everything that runs on its
// behalf inside the package — its closures (goroutine bodies), the in-package
// functions and methods they statically call, and those functions' closures.  An
// extract-method refactor moves code between members of the family; the rules
// follow values across the call edges (parameters to arguments, returned values
// to call results) instead of looking at one function body.
type c34FamT struct {
	top  *ssa.Function
	ip   *c26IP
	in   map[*ssa.Function]bool
	list []*ssa.Function // deterministic order (source position)
}

func newC34Fam(p *Prog, top *ssa.Function) *c34FamT {
	var pkgFns []*ssa.Function
	for _, f := range p.AllFuncs() {
		if f.Pkg != nil && f.Pkg == top.Pkg && len(f.Blocks) > 0 {
			pkgFns = append(pkgFns, f)
		}
	}
	sort.Slice(pkgFns, func(i, j int) bool { return pkgFns[i].Pos() < pkgFns[j].Pos() })
	fm := &c34FamT{top: top, ip: c26NewIP(pkgFns)}
	fm.in = fm.ip.reach(top, nil)
	for _, f := range pkgFns {
		if fm.in[f] {
			fm.list = append(fm.list, f)
		}
	}
	return fm
}

// sites: the call instructions (call, go, defer) through which helper g is entered
// from inside the family; ok=false when g may also be entered in a way the family
// does not show (used as a value, exported API, called from outside the family).
func (fm *c34FamT) sites(g *ssa.Function) ([]ssa.CallInstruction, bool) {
	if g == fm.top || !fm.in[g] || fm.ip.escapes[g] || len(fm.ip.sites[g]) == 0 {
		return nil, false
	}
	for _, s := range fm.ip.sites[g] {
		if !fm.in[s.Parent()] {
			return nil, false
		}
	}
	return fm.ip.sites[g], true
}

// args: the arguments bound to parameter pa of a helper at each of its call sites.
func (fm *c34FamT) args(pa *ssa.Parameter) ([]ssa.Value, bool) {
	g := pa.Parent()
	idx := -1
	for i, q := range g.Params {
		if q == pa {
			idx = i
		}
	}
	sites, ok := fm.sites(g)
	if !ok || idx < 0 {
		return nil, false
	}
	var out []ssa.Value
	for _, s := range sites {
		a := s.Common().Args
		if idx >= len(a) {
			return nil, false
		}
		out = append(out, a[idx])
	}
	return out, true
}

// threadOf places a function of the family: -1 the spawning function itself, the
// index of the goroutine (res.Threads) whose body it is or from which alone it is
// called, -2 if it cannot be placed (called from several threads, spawned itself).
func (fm *c34FamT) threadOf(g *ssa.Function, res *raceResult) int {
	return fm.threadOfRec(g, res, map[*ssa.Function]bool{})
}

func (fm *c34FamT) threadOfRec(g *ssa.Function, res *raceResult, busy map[*ssa.Function]bool) int {
	if g == nil || busy[g] {
		return -2
	}
	if g == fm.top {
		return -1
	}
	for _, th := range res.Threads {
		if th.Fn == g {
			return th.Idx
		}
	}
	busy[g] = true
	defer delete(busy, g)
	if g.Parent() != nil {
		return fm.threadOfRec(g.Parent(), res, busy)
	}
	sites, ok := fm.sites(g)
	if !ok {
		return -2
	}
	t, set := -2, false
	for _, s := range sites {
		if _, isGo := s.(*ssa.Go); isGo {
			return -2
		}
		ts := fm.threadOfRec(s.Parent(), res, busy)
		if set && ts != t {
			return -2
		}
		t, set = ts, true
	}
	return t
}

// resultUses: the values that stand for result #idx of call at the call's site.
func c34ResultValues(call *ssa.Call, idx int) []ssa.Value {
	if call.Call.Signature().Results().Len() == 1 {
		if idx == 0 {
			return []ssa.Value{call}
		}
		return nil
	}
	var out []ssa.Value
	if refs := call.Referrers(); refs != nil {
		for _, r := range *refs {
			if ex, ok := r.(*ssa.Extract); ok && ex.Index == idx {
				out = append(out, ex)
			}
		}
	}
	return out
}

// derivesFrom: v is result #0 of the Authorize call `call`, possibly handed up
// through helpers every one of whose returns yields exactly that result.
func (fm *c34FamT) derivesFrom(v ssa.Value, call *ssa.Call, depth int) bool {
	if depth > 4 {
		return false
	}
	idx := 0
	var c2 *ssa.Call
	switch x := v.(type) {
	case *ssa.Extract:
		cc, ok := x.Tuple.(*ssa.Call)
		if !ok {
			return false
		}
		if cc == call {
			return x.Index == 0
		}
		c2, idx = cc, x.Index
	case *ssa.Call:
		c2 = x
	default:
		return false
	}
	h := calleeFn(c2.Common())
	if h == nil || !fm.in[h] {
		return false
	}
	rets := c34Returns(h)
	if len(rets) == 0 {
		return false
	}
	for _, r := range rets {
		if idx >= len(r.Vals) || !fm.derivesFrom(r.Vals[idx], call, depth+1) {
			return false
		}
	}
	return true
}

// storesOfResult: the stores that put result #0 of call (directly, or after it
// was returned by the helper containing the call) into a variable.
func (fm *c34FamT) storesOfResult(call *ssa.Call) []*ssa.Store {
	var out []*ssa.Store
	seen := map[ssa.Value]bool{}
	var follow func(v ssa.Value, depth int)
	follow = func(v ssa.Value, depth int) {
		if v == nil || seen[v] || depth > 4 || v.Referrers() == nil {
			return
		}
		seen[v] = true
		for _, r := range *v.Referrers() {
			switch x := r.(type) {
			case *ssa.Store:
				if x.Val == v {
					out = append(out, x)
				}
			case *ssa.Return:
				h := x.Parent()
				sites, ok := fm.sites(h)
				if !ok {
					continue
				}
				for i, res := range x.Results {
					if res != v {
						continue
					}
					for _, s := range sites {
						if c, isCall := s.(*ssa.Call); isCall {
							for _, rv := range c34ResultValues(c, i) {
								follow(rv, depth+1)
							}
						}
					}
				}
			}
		}
	}
	for _, rv := range c34ResultValues(call, 0) {
		follow(rv, 0)
	}
	return out
}

// contexts: the chains of family call sites (outermost first) through which the
// function g is reached from the spawning function or from a goroutine body.  A
// closure, a goroutine body and the top function have the empty chain.  When a
// helper is shared by several callers (the common tail of the three checks
// factored out), each chain stands for one dynamic instance of its code.
func (fm *c34FamT) contexts(g *ssa.Function, res *raceResult) [][]*ssa.Call {
	return fm.contextsRec(g, res, map[*ssa.Function]bool{}, 0)
}

func (fm *c34FamT) contextsRec(g *ssa.Function, res *raceResult, busy map[*ssa.Function]bool, depth int) [][]*ssa.Call {
	if g == fm.top || g.Parent() != nil || busy[g] || depth > 4 {
		return [][]*ssa.Call{nil}
	}
	if res != nil {
		for _, th := range res.Threads {
			if th.Fn == g {
				return [][]*ssa.Call{nil}
			}
		}
	}
	sites, ok := fm.sites(g)
	if !ok {
		return [][]*ssa.Call{nil}
	}
	busy[g] = true
	defer delete(busy, g)
	var out [][]*ssa.Call
	for _, s := range sites {
		c, isCall := s.(*ssa.Call)
		if !isCall {
			return [][]*ssa.Call{nil}
		}
		for _, outer := range fm.contextsRec(c.Parent(), res, busy, depth+1) {
			out = append(out, append(append([]*ssa.Call{}, outer...), c))
		}
	}
	return out
}

// ctxArg: the argument bound to helper parameter pa in calling context ctx
// (innermost matching frame); ok=false if no frame of ctx enters pa's function.
func c34CtxArg(ctx []*ssa.Call, pa *ssa.Parameter) (arg ssa.Value, outer []*ssa.Call, ok bool) {
	g := pa.Parent()
	for i := len(ctx) - 1; i >= 0; i-- {
		if calleeFn(ctx[i].Common()) != g {
			continue
		}
		for k, q := range g.Params {
			if q == pa && k < len(ctx[i].Call.Args) {
				return ctx[i].Call.Args[k], ctx[:i], true
			}
		}
	}
	return nil, nil, false
}

// storesOfResultCtx is storesOfResult restricted to one calling context: a value
// returned by a helper is followed only into the call site of that context.
func (fm *c34FamT) storesOfResultCtx(call *ssa.Call, ctx []*ssa.Call) []*ssa.Store {
	var out []*ssa.Store
	var follow func(v ssa.Value, ctx []*ssa.Call, depth int)
	follow = func(v ssa.Value, ctx []*ssa.Call, depth int) {
		if v == nil || depth > 6 || v.Referrers() == nil {
			return
		}
		for _, r := range *v.Referrers() {
			switch x := r.(type) {
			case *ssa.Store:
				if x.Val == v {
					out = append(out, x)
				}
			case *ssa.Return:
				h := x.Parent()
				var sites []*ssa.Call
				rest := ctx
				if n := len(ctx); n > 0 && calleeFn(ctx[n-1].Common()) == h {
					sites, rest = []*ssa.Call{ctx[n-1]}, ctx[:n-1]
				} else if ss, ok := fm.sites(h); ok {
					for _, s := range ss {
						if c, isCall := s.(*ssa.Call); isCall {
							sites = append(sites, c)
						}
					}
				}
				for i, res := range x.Results {
					if res != v {
						continue
					}
					for _, c := range sites {
						for _, rv := range c34ResultValues(c, i) {
							follow(rv, rest, depth+1)
						}
					}
				}
			}
		}
	}
	for _, rv := range c34ResultValues(call, 0) {
		follow(rv, ctx, 0)
	}
	return out
}
