package main

import (
	"fmt"
	"go/token"
	"go/types"
	"sort"
	"strings"

	"golang.org/x/tools/go/ssa"
)

func init() {
	register(&Property{
		ID:        "C21",
		Title:     "IPAM release is safe against stale requests and honours cooldown",
		Technique: "static analysis: SSA cut-set guards, path-sensitive branch facts, block-mutation summaries, value provenance, who-may-write (go/ssa over lib/ipam, backend/model, kube-controllers node)",
		DesignRef: "DESIGN.md §3 C21",
		Explanation: "Decides structural necessary conditions on allocationBlock.release/releaseByHandle/garbageCollect and their callers: " +
			"(validate) release() performs no block mutation on any path that can still end in an error return; " +
			"(stale) a sequence-number or handle mismatch can never reach the point where an ordinal is collected for release, or leads only to error returns (ErrorResourceUpdateConflict) without mutation; " +
			"(idem) only ordinals that are allocated and not already in cooldown are collected for release; " +
			"(byhandle) releaseByHandle only touches ordinals whose attribute index is in attributeIndexesByHandle(opts.Handle) and whose sequence number matches, the index only lists attributes whose sanitised handle equals the argument, and the client passes the handle through unchanged; " +
			"(cooldown) release paths only ever redirect an ordinal to a fresh ReleasedAt attribute stamped with Now(), the ordinal is returned to Unallocated only in garbageCollect and only on paths where ReleasedAt!=nil and (cooldown<0 or ReleasedAt.Before(Now-cooldown)), autoAssign only hands out ordinals taken from Unallocated and assign refuses non-free ordinals; " +
			"(fifo) garbageCollect appends at the tail of Unallocated and autoAssign consumes it from index 0 upwards; " +
			"(nowrite) after allocationBlock.release no datastore write is reachable unless its error is nil; " +
			"(blockdel) the cooldown state lives only in the block: every blockReaderWriter.deleteBlock call in lib/ipam is guarded by allocationBlock.empty()==true, and in empty() an ordinal with Allocations[i]!=nil can only be disregarded across an edge establishing that its attribute has a HandleID (cooldown attributes carry none), so a block holding only cooling-down addresses is never empty; " +
			"(seqopts) the GC's allocation.ReleaseOptions() fills every ReleaseOptions field, and ip/handle/sequenceNumber of an allocation are read for the same ordinal; only such options reach ReleaseIPs in the node controller.",
		NotDecided: "Wall-clock behaviour (clock skew between writers), that autoAssign preserves the relative order of the ordinals it leaves in Unallocated, datastore CAS (C19), interleavings across clients, and that a repeated release carrying the old sequence number is reported as a conflict rather than as success (state is unchanged either way).",
		Assumptions: []string{
			"go/types + go/ssa (x/tools v0.50.0) model of the current source, CGO_ENABLED=0 build",
			"block state is only written through field accesses on model.AllocationBlock and static calls (no reflection, no interface-dispatched mutators)",
			"metav1.Time.Before / time.Time.Add / metav1.Now have their documented meaning",
			"logrus Panic*/Fatal* do not return",
		},
		Run: runC21,
		Fixtures: []Fixture{
			{Name: "release mutates the block before validating the handle", File: "libcalico-go/lib/ipam/ipam_block.go",
				Old: "\t\tordinals = append(ordinals, ordinal)\n", New: "\t\tordinals = append(ordinals, ordinal)\n\t\tb.SetSequenceNumberForOrdinal(ordinal)\n", Expect: "C21.validate/release"},
			{Name: "stale sequence number only logged", File: "libcalico-go/lib/ipam/ipam_block.go",
				Old: "\t\t\treturn nil, nil, cerrors.ErrorResourceUpdateConflict{\n\t\t\t\tIdentifier: opts.Address,\n\t\t\t\tErr: cerrors.ErrorBadSequenceNumber{\n\t\t\t\t\tRequested: *opts.SequenceNumber,\n\t\t\t\t\tExpected:  b.GetSequenceNumberForOrdinal(ordinal),\n\t\t\t\t},\n\t\t\t}\n",
				New: "\t\t\tlog.Debugf(\"stale %d\", b.GetSequenceNumberForOrdinal(ordinal))\n", Expect: "C21.stale/release/sequence"},
			{Name: "handle mismatch skips the address but still releases it", File: "libcalico-go/lib/ipam/ipam_block.go",
				Old: "\t\t\treturn nil, nil, cerrors.ErrorResourceUpdateConflict{\n\t\t\t\tIdentifier: opts.Address,\n\t\t\t\tErr: cerrors.ErrorBadHandle{\n\t\t\t\t\tRequested: opts.Handle,\n\t\t\t\t\tExpected:  handleID,\n\t\t\t\t},\n\t\t\t}\n",
				New: "\t\t\tcontinue\n", Expect: "C21.stale/release/handle"},
			{Name: "sequence check compares the wrong way round", File: "libcalico-go/lib/ipam/ipam_block.go",
				Old: "if opts.SequenceNumber != nil && *opts.SequenceNumber != b.GetSequenceNumberForOrdinal(ordinal) {", New: "if opts.SequenceNumber != nil && *opts.SequenceNumber == b.GetSequenceNumberForOrdinal(ordinal) {", Expect: "C21.stale/release/sequence"},
			{Name: "address in cooldown is released again", File: "libcalico-go/lib/ipam/ipam_block.go",
				Old: "if attrIdx == nil || b.Attributes[*attrIdx].ReleasedAt != nil {", New: "if attrIdx == nil {", Expect: "C21.idem/release/not-in-cooldown"},
			{Name: "releaseByHandle ignores the sequence number", File: "libcalico-go/lib/ipam/ipam_block.go",
				Old: "\t\t\tif opts.SequenceNumber == nil || *opts.SequenceNumber == b.GetSequenceNumberForOrdinal(o) {", New: "\t\t\tif opts.SequenceNumber == nil || *opts.SequenceNumber != 0 {", Expect: "C21.byhandle/releaseByHandle/sequence-guard"},
			{Name: "releaseByHandle releases every allocated ordinal", File: "libcalico-go/lib/ipam/ipam_block.go",
				Old: "\t\tif intInSlice(attrIndex, attrIndexes) {\n\t\t\tif opts.SequenceNumber == nil", New: "\t\tif attrIndex >= 0 {\n\t\t\tif opts.SequenceNumber == nil", Expect: "C21.byhandle/releaseByHandle/handle-guard"},
			{Name: "handle index matches on prefix", File: "libcalico-go/lib/ipam/ipam_block.go",
				Old: "if attr.HandleID != nil && sanitizeHandle(*attr.HandleID) == handleID {", New: "if attr.HandleID != nil && strings.HasPrefix(sanitizeHandle(*attr.HandleID), handleID) {", Expect: "C21.byhandle/attributeIndexesByHandle"},
			{Name: "ReleaseByHandle passes an unsanitised empty handle", File: "libcalico-go/lib/ipam/ipam.go",
				Old: "ReleaseOptions{Handle: handleID}); err != nil {", New: "ReleaseOptions{}); err != nil {", Expect: "C21.byhandle/ReleaseByHandle/plumb"},
			{Name: "release frees the ordinal immediately (no cooldown marker)", File: "libcalico-go/lib/ipam/ipam_block.go",
				Old: "\t\tb.Allocations[ordinal] = releaseAttrIdx\n", New: "\t\tb.Allocations[ordinal] = nil\n\t\t_ = releaseAttrIdx\n\t\tb.Unallocated = append(b.Unallocated, ordinal)\n", Expect: "C21.cooldown/unallocated-producer"},
			{Name: "cooldown deadline computed in the future", File: "libcalico-go/lib/ipam/ipam_block.go",
				Old: "time.Second * time.Duration(-ipCooldownSeconds)", New: "time.Second * time.Duration(ipCooldownSeconds)", Expect: "C21.cooldown/garbageCollect"},
			{Name: "garbageCollect deallocates without looking at ReleasedAt age", File: "libcalico-go/lib/ipam/ipam_block.go",
				Old: "\t\tif canDealloc && ipCooldownSeconds >= 0 {\n\t\t\tcanDealloc = attr.ReleasedAt.Before(&deallocIfReleasedBefore)\n\t\t}\n", New: "\t\t_ = deallocIfReleasedBefore\n", Expect: "C21.cooldown/garbageCollect"},
			{Name: "cooldown comparison inverted", File: "libcalico-go/lib/ipam/ipam_block.go",
				Old: "canDealloc = attr.ReleasedAt.Before(&deallocIfReleasedBefore)", New: "canDealloc = !attr.ReleasedAt.Before(&deallocIfReleasedBefore)", Expect: "C21.cooldown/garbageCollect"},
			{Name: "cooldown attribute without a timestamp", File: "libcalico-go/lib/ipam/ipam_block.go",
				Old: "\tb.Attributes = append(b.Attributes, model.AllocationAttribute{\n\t\tReleasedAt: &now,\n\t})", New: "\t_ = now\n\tb.Attributes = append(b.Attributes, model.AllocationAttribute{})", Expect: "C21.cooldown/addCooldownAttribute"},
			{Name: "assign overwrites an address that is allocated or cooling down", File: "libcalico-go/lib/ipam/ipam_block.go",
				Old: "\tif b.Allocations[ordinal] != nil {\n\t\treturn cerrors.ErrorResourceAlreadyExists{\n\t\t\tErr:        fmt.Errorf(\"Address already assigned in block\"),\n\t\t\tIdentifier: address.String(),\n\t\t}\n\t}\n", New: "", Expect: "C21.cooldown/assign"},
			{Name: "freed ordinals pushed on the head of the free list", File: "libcalico-go/lib/ipam/ipam_block.go",
				Old: "b.Unallocated = append(b.Unallocated, o)", New: "b.Unallocated = append([]int{o}, b.Unallocated...)", Expect: "C21.fifo/garbageCollect"},
			{Name: "block written although release() failed", File: "libcalico-go/lib/ipam/ipam.go",
				Old: "\t\tif err2 != nil {\n\t\t\treturn nil, err2\n\t\t}\n", New: "\t\tif err2 != nil {\n\t\t\tlogCtx.WithError(err2).Warn(\"release failed\")\n\t\t}\n", Expect: "C21.nowrite/ipamClient.releaseIPsFromBlock"},
			{Name: "empty() ignores addresses that are cooling down", File: "libcalico-go/lib/ipam/ipam_block.go",
				Old: "\t\tattrs := b.Attributes[*attrIdx]\n\t\tif attrs.HandleID == nil ||", New: "\t\tattrs := b.Attributes[*attrIdx]\n\t\tif attrs.ReleasedAt != nil {\n\t\t\tcontinue\n\t\t}\n\t\tif attrs.HandleID == nil ||", Expect: "C21.blockdel/empty/counts-cooldown"},
			{Name: "empty() only counts allocations that have a handle", File: "libcalico-go/lib/ipam/ipam_block.go",
				Old: "\t\tif attrs.HandleID == nil || strings.ToLower(*attrs.HandleID) != WindowsReservedHandle {", New: "\t\tif attrs.HandleID != nil && strings.ToLower(*attrs.HandleID) != WindowsReservedHandle {", Expect: "C21.blockdel/empty/counts-cooldown"},
			{Name: "release by handle deletes an affinity-less block without checking it is empty", File: "libcalico-go/lib/ipam/ipam.go",
				Old: "if block.empty() && block.Affinity == nil {", New: "if block.Affinity == nil {", Expect: "C21.blockdel/guard/ipamClient.releaseByHandle"},
			{Name: "GC release options drop the sequence number", File: "kube-controllers/pkg/controllers/node/ipam_allocation.go",
				Old: "\t\tHandle:         a.handle,\n\t\tSequenceNumber: &a.sequenceNumber,\n", New: "\t\tHandle:         a.handle,\n", Expect: "C21.seqopts/ReleaseOptions"},
			{Name: "GC builds its own release options", File: "kube-controllers/pkg/controllers/node/ipam.go",
				Old: "\t\topts = append(opts, a.ReleaseOptions())\n", New: "\t\topts = append(opts, ipam.ReleaseOptions{Address: a.ip})\n", Expect: "C21.seqopts/ReleaseIPs"},
		},
	})
}

func runC21(c *Ctx) {
	p := c.Load(c21IpamPkg, c21ModelPkg, c21NodePkg)
	m := c21NewModel(c, p)

	c.Rule("C21.validate", "E-ORDER", "in allocationBlock.release no instruction that writes block state can be followed by a return with a non-nil error", 1)
	c.Rule("C21.stale", "E-GUARD", "release(): a sequence-number / handle mismatch never reaches the collection of the ordinal, or leads only to error returns (ErrorResourceUpdateConflict) with no block mutation", 4)
	c.Rule("C21.idem", "E-GUARD", "release(): an ordinal is collected for release only if Allocations[ord]!=nil and its attribute has ReleasedAt==nil", 2)
	c.Rule("C21.byhandle", "E-GUARD/E-FLOW", "releaseByHandle: every Allocations store is guarded by membership of *Allocations[o] in attributeIndexesByHandle(opts.Handle) and by the sequence-number test for o; the index lists exactly equal sanitised handles; client passes the handle through", 5)
	c.Rule("C21.cooldown", "E-FLOW/E-GUARD/E-OWN", "release paths store only fresh ReleasedAt attributes; ordinals return to Unallocated only in garbageCollect on paths with ReleasedAt!=nil && (cooldown<0 || ReleasedAt.Before(Now-cooldown)); autoAssign draws from Unallocated; assign refuses non-free ordinals", 16)
	c.Rule("C21.fifo", "E-FLOW", "garbageCollect appends freed ordinals at the tail of Unallocated; autoAssign takes Unallocated[i] for i ascending from 0", 2)
	c.Rule("C21.nowrite", "E-ERR", "after allocationBlock.release every datastore write (updateBlock/deleteBlock/handle update) is guarded by its error == nil", 3)
	c.Rule("C21.blockdel", "E-GUARD/E-PATH", "a block is deleted only when allocationBlock.empty() returned true, and empty() treats every allocated ordinal whose attribute carries no handle (in particular one in cooldown) as occupying the block", 5)
	c.Rule("C21.seqopts", "E-FIELDS/E-FLOW", "node controller: allocation.ReleaseOptions() sets every ReleaseOptions field from the allocation; ip/handle/sequenceNumber are read for one ordinal; only ReleaseOptions() results reach ReleaseIPs", 6)

	// Every family runs on its own: an anchor lost by one of them is recorded and
	// reported at the end, it does not zero its independent siblings.
	var lost []string
	var sites []ssa.Instruction
	c21Isolated(&lost, func() { c21Validate(m) })
	c21Isolated(&lost, func() { c21Stale(m, &sites) })
	c21Isolated(&lost, func() { c21Idem(m, sites) })
	c21Isolated(&lost, func() { c21ByHandle(m) })
	c21Isolated(&lost, func() { c21Cooldown(m) })
	c21Isolated(&lost, func() { c21Fifo(m) })
	c21Isolated(&lost, func() { c21NoWrite(m) })
	c21Isolated(&lost, func() { c21SeqOpts(m) })
	c21Isolated(&lost, func() { c21BlockDel(m) })
	if len(lost) > 0 {
		c.Lost("%s", strings.Join(lost, " | "))
	}
}

// c21Isolated runs one rule family; an anchor it loses is recorded instead of
// aborting the whole property (the combined loss is raised at the end of the run).
func c21Isolated(lost *[]string, f func()) {
	defer func() {
		if r := recover(); r != nil {
			al, ok := r.(anchorLost)
			if !ok {
				panic(r)
			}
			*lost = append(*lost, strings.TrimPrefix(al.msg, "ANCHOR-LOST: "))
		}
	}()
	f()
}

// ------------------------------------------------------------------ validate --

func c21ErrOperand(r *ssa.Return) ssa.Value {
	if len(r.Results) == 0 {
		return nil
	}
	last := r.Results[len(r.Results)-1]
	if types.Identical(last.Type(), types.Universe.Lookup("error").Type()) {
		return last
	}
	return nil
}

func c21Validate(m *c21Model) {
	c, p := m.c, m.p
	fn := m.fn(c21IpamPkg, "allocationBlock.release")
	muts := m.mutationsIn(fn)
	if len(muts) == 0 {
		c.Lost("allocationBlock.release: no block mutation found (mutation model broken)")
	}
	nErr := 0
	var bad []string
	for _, r := range returnsOf(fn) {
		e := c21ErrOperand(r)
		if e == nil || isNilConst(e) {
			continue
		}
		nErr++
		for _, mu := range muts {
			if instrReaches(mu, r) {
				bad = append(bad, fmt.Sprintf("mutation at %s reaches error return at %s", p.Pos(mu.Pos()), p.Pos(r.Pos())))
			}
		}
	}
	if nErr == 0 {
		c.Lost("allocationBlock.release: no error return")
	}
	sort.Strings(bad)
	c.Check(len(bad) == 0, "C21.validate/release", p.Pos(fn.Pos()),
		fmt.Sprintf("%d block-mutating instruction(s), none can precede any of the %d error return(s)", len(muts), nErr),
		"release() can fail after having modified the block: "+strings.Join(bad, "; "))
}

// --------------------------------------------------------------------- stale --

func (m *c21Model) isSeqPtr(v ssa.Value) bool {
	_, isPtr := v.Type().Underlying().(*types.Pointer)
	return isPtr && fieldVar(v) == m.fOptSeq
}
func (m *c21Model) isSeqVal(v ssa.Value) bool {
	_, isPtr := v.Type().Underlying().(*types.Pointer)
	return !isPtr && fieldVar(v) == m.fOptSeq
}
func (m *c21Model) isOptHandle(v ssa.Value) bool { return fieldVar(v) == m.fOptHandle }

// getSeqOrd: v is a call of GetSequenceNumberForOrdinal; returns its ordinal.
func (m *c21Model) getSeqOrd(v ssa.Value) (ssa.Value, bool) {
	call, ok := v.(*ssa.Call)
	if !ok || calleeOf(call.Common()) != m.getSeq {
		return nil, false
	}
	args := call.Common().Args
	return args[len(args)-1], true
}

// storedHandleOrd: v derives (through phi, sanitizeHandle, derefs, "" default)
// from Attributes[*Allocations[ord]].HandleID; returns ord.
func (m *c21Model) storedHandleOrd(v ssa.Value) (ssa.Value, bool) {
	var ord ssa.Value
	okAll := true
	n := 0
	for _, o := range m.originsX(v, m.throughSanitize) {
		switch o.Kind {
		case "const":
			if cv, isC := constOf(o.V); isC && cv.ExactString() == `""` {
				continue
			}
			okAll = false
		default:
			x, ok := m.attrFieldOrd(o.V, m.fHandleID)
			if !ok || (ord != nil && !c21SameValue(ord, x)) {
				okAll = false
				continue
			}
			ord = x
			n++
		}
	}
	return ord, okAll && n > 0
}

// throughSanitize lets value slices pass through ipam.sanitizeHandle.
func (m *c21Model) throughSanitize(v ssa.Value) []ssa.Value {
	if call, ok := v.(*ssa.Call); ok {
		if f := calleeOf(call.Common()); f != nil && isFunc(f, c21IpamPkg, "sanitizeHandle") {
			return call.Common().Args
		}
	}
	return nil
}

// seqMatch / handleMatch: edge predicates accepting the edges on which the
// request is known NOT to be stale for ordinal ord.
func (m *c21Model) seqMatch(ord ssa.Value) EdgePred {
	return func(cond ssa.Value, pol bool) bool {
		if x, isNil, ok := c21NilCmp(cond, pol); ok {
			return isNil && m.isSeqPtr(x)
		}
		a, b, equal, ok := c21Eq(cond, pol)
		if !ok || !equal {
			return false
		}
		for _, pr := range [][2]ssa.Value{{a, b}, {b, a}} {
			if m.isSeqVal(pr[0]) {
				if o, ok := m.getSeqOrd(pr[1]); ok && c21SameValue(o, ord) {
					return true
				}
			}
		}
		return false
	}
}

func (m *c21Model) handleMatch(ord ssa.Value) EdgePred {
	return func(cond ssa.Value, pol bool) bool {
		a, b, equal, ok := c21Eq(cond, pol)
		if !ok || !equal {
			return false
		}
		for _, pr := range [][2]ssa.Value{{a, b}, {b, a}} {
			if !m.isOptHandle(pr[0]) {
				continue
			}
			if cv, isC := constOf(pr[1]); isC && cv.ExactString() == `""` {
				return true
			}
			if o, ok := m.storedHandleOrd(pr[1]); ok && c21SameValue(o, ord) {
				return true
			}
		}
		return false
	}
}

// c21MismatchEdges finds the If edges on which the request is known to be stale
// (sequence or handle differs from the stored one); returns target blocks.
func (m *c21Model) mismatchEdges(fn *ssa.Function, kind string) (targets []*ssa.BasicBlock, ords []ssa.Value) {
	for _, b := range fn.Blocks {
		ifi, ok := b.Instrs[len(b.Instrs)-1].(*ssa.If)
		if !ok || len(b.Succs) != 2 {
			continue
		}
		for k, s := range b.Succs {
			cv, pol := stripNot(ifi.Cond, k == 0)
			x, y, equal, ok := c21Eq(cv, pol)
			if !ok || equal {
				continue
			}
			for _, pr := range [][2]ssa.Value{{x, y}, {y, x}} {
				switch kind {
				case "sequence":
					if m.isSeqVal(pr[0]) {
						if o, ok := m.getSeqOrd(pr[1]); ok {
							targets = append(targets, s)
							ords = append(ords, o)
						}
					}
				case "handle":
					if m.isOptHandle(pr[0]) {
						if _, isC := constOf(pr[1]); isC {
							continue
						}
						if o, ok := m.storedHandleOrd(pr[1]); ok {
							targets = append(targets, s)
							ords = append(ords, o)
						}
					}
				}
			}
		}
	}
	return
}

// collectSites: instructions of fn through which ordinal ord is selected for
// release: appends of ord to a slice, and direct stores into Allocations[ord].
func (m *c21Model) collectSites(fn *ssa.Function, ord ssa.Value) []ssa.Instruction {
	var out []ssa.Instruction
	allInstrs(fn, false, func(f *ssa.Function, in ssa.Instruction) {
		if call, ok := in.(*ssa.Call); ok {
			if _, elems, _, ok := c21AppendCall(call); ok {
				for _, e := range elems {
					if c21SameValue(e, ord) {
						out = append(out, in)
					}
				}
			}
		}
	})
	for _, as := range m.allocStores(fn) {
		if c21SameValue(as.Ord, ord) {
			out = append(out, as.St)
		}
	}
	return out
}

// errorOnlyRegion: from block s every reachable return carries a non-nil error
// and no block mutation is reachable.  Returns the error returns.
func (m *c21Model) errorOnlyRegion(fn *ssa.Function, s *ssa.BasicBlock) (rets []*ssa.Return, why string) {
	region := blockReach(s)
	region[s] = true
	for _, mu := range m.mutationsIn(fn) {
		if region[mu.Block()] {
			return nil, "block mutation at " + m.p.Pos(mu.Pos()) + " is reachable"
		}
	}
	for _, r := range returnsOf(fn) {
		if !region[r.Block()] {
			continue
		}
		e := c21ErrOperand(r)
		if e == nil || isNilConst(e) {
			return nil, "a success return at " + m.p.Pos(r.Pos()) + " is reachable"
		}
		rets = append(rets, r)
	}
	if len(rets) == 0 {
		return nil, "no return reachable"
	}
	return rets, ""
}

// errDynType: the dynamic type name of an error operand built by MakeInterface.
func c21ErrDynType(v ssa.Value) string {
	var names []string
	for _, o := range origins(v, func(x ssa.Value) []ssa.Value {
		if mi, ok := x.(*ssa.MakeInterface); ok {
			names = append(names, namedTypeName(mi.X.Type()))
			return []ssa.Value{}
		}
		return nil
	}) {
		names = append(names, "?"+o.Kind)
	}
	sort.Strings(names)
	return strings.Join(names, "|")
}

// c21ErrRet is an error return together with the dynamic error type it hands
// to the caller of release() (inherited from the helper whose error it passes on).
type c21ErrRet struct {
	r   *ssa.Return
	typ string
}

// errorOnlyLifted: from block t of the frame's function, every execution ends —
// in that function and, continuing after each call of the frame's chain with
// the results of the error return taken, in its callers up to the root — in a
// return with a non-nil error, and no block mutation is reachable on the way.
func (m *c21Model) errorOnlyLifted(fr c21Frame, t *ssa.BasicBlock) (rets []c21ErrRet, why string) {
	rs, w := m.errorOnlyRegion(fr.fn, t)
	if w != "" {
		return nil, w
	}
	for _, r := range rs {
		rets = append(rets, c21ErrRet{r, c21ErrDynType(c21ErrOperand(r))})
	}
	for i := len(fr.chain) - 1; i >= 0; i-- {
		call := fr.chain[i]
		caller := call.Parent()
		muts := m.mutationsIn(caller)
		var up []c21ErrRet
		seen := map[*ssa.Return]bool{}
		for _, er := range rets {
			region, start := m.continuation(call, er.r)
			after := func(in ssa.Instruction) bool {
				b := in.Block()
				if b != start {
					return region[b]
				}
				if region[b] {
					return true // the call's block is re-entered (loop)
				}
				ci, ii := -1, -1
				for k, x := range b.Instrs {
					if x == ssa.Instruction(call) {
						ci = k
					}
					if x == in {
						ii = k
					}
				}
				return ii > ci
			}
			for _, mu := range muts {
				if mu != ssa.Instruction(call) && after(mu) {
					return nil, "after the helper's error return, block mutation at " + m.p.Pos(mu.Pos()) + " is reachable in " + fnName(caller)
				}
			}
			n := 0
			for _, r := range returnsOf(caller) {
				if !after(r) {
					continue
				}
				n++
				e := c21ErrOperand(r)
				if e == nil || isNilConst(e) {
					return nil, "after the helper's error return, a success return at " + m.p.Pos(r.Pos()) + " is reachable in " + fnName(caller)
				}
				if seen[r] {
					continue
				}
				seen[r] = true
				typ := c21ErrDynType(e)
				passes := true
				for _, o := range origins(e, nil) {
					if o.V != ssa.Value(call) {
						passes = false
					}
				}
				if passes {
					typ = er.typ // the helper's error is handed on unchanged
				}
				up = append(up, c21ErrRet{r, typ})
			}
			if n == 0 {
				return nil, "after the helper's error return no return of " + fnName(caller) + " is reachable"
			}
		}
		rets = up
	}
	return rets, ""
}

// c21StaleHit is one place (function of release()'s closure + call string)
// where the request is compared with the stored sequence number / handle.
type c21StaleHit struct {
	fr      c21Frame
	targets []*ssa.BasicBlock
	ords    []ssa.Value
}

type c21StaleVerdict struct {
	undecided string
	ok        bool
	text      string
	regionOK  bool
	rets      []c21ErrRet
	sites     []ssa.Instruction
}

// c21JudgeStale decides one hit (run with the hit's call string as resolution
// context).
func c21JudgeStale(m *c21Model, rel *ssa.Function, kind string, h c21StaleHit, mk func(ssa.Value) EdgePred) (v c21StaleVerdict) {
	where := fnName(h.fr.fn)
	ord := h.ords[0]
	for _, o := range h.ords {
		if !c21SameValue(o, ord) {
			v.undecided = "comparisons for different ordinals in " + where
			return
		}
	}
	// the ordinal must be the one computed from the request's address
	if !m.fromIPToOrdinal(ord, h.fr.chain, 0) {
		v.text = fmt.Sprintf("the %s comparison in %s is not made for the ordinal returned by IPToOrdinal (got %s)", kind, where, path(ord))
		return
	}
	topOrd, ok := m.toRootX(ord, rel)
	if !ok {
		v.undecided = "the ordinal compared in " + where + " cannot be related to a value of release() (neither a parameter nor a result of the helper)"
		return
	}
	v.sites = m.collectSites(rel, topOrd)
	if len(v.sites) == 0 {
		m.c.Lost("allocationBlock.release: no site collecting the ordinal for release")
	}
	guarded := true
	for _, s := range v.sites {
		if !m.established(s, topOrd, mk) {
			guarded = false
		}
	}
	v.regionOK = true
	var why string
	for _, t := range h.targets {
		rs, w := m.errorOnlyLifted(h.fr, t)
		if w != "" {
			v.regionOK = false
			why = w
		}
		v.rets = append(v.rets, rs...)
	}
	if guarded || v.regionOK {
		v.ok = true
		v.text = fmt.Sprintf("%s mismatch (compared in %s): collection guarded by match=%v, mismatch edge aborts without mutation=%v", kind, where, guarded, v.regionOK)
	} else {
		v.text = fmt.Sprintf("a request with a stale %s can still release the address: the ordinal is collected for release without a dominating match test, and after the mismatch edge in %s %s", kind, where, why)
	}
	return
}

// c21Stale reports the collection sites through *collect as it finds them, so
// that an anchor lost for one kind does not take C21.idem with it.
func c21Stale(m *c21Model, collect *[]ssa.Instruction) {
	c, p := m.c, m.p
	fn := m.fn(c21IpamPkg, "allocationBlock.release")
	site := p.Pos(fn.Pos())
	// The comparisons are located by what they compare, in release() itself or
	// in any lib/ipam helper it (transitively) calls; each call string is a
	// frame of its own.
	frames := m.frames(fn, nil)
	seenSite := map[ssa.Instruction]bool{}
	var lost []string
	for _, kind := range []string{"sequence", "handle"} {
		var hits []c21StaleHit
		for _, fr := range frames {
			m.withFrame(fr, func() {
				if targets, ords := m.mismatchEdges(fr.fn, kind); len(targets) > 0 {
					hits = append(hits, c21StaleHit{fr, targets, ords})
				}
			})
		}
		if len(hits) == 0 {
			lost = append(lost, fmt.Sprintf("allocationBlock.release (and the lib/ipam helpers it calls): no comparison of ReleaseOptions %s with the stored value found", kind))
			continue
		}
		mk := m.seqMatch
		if kind == "handle" {
			mk = m.handleMatch
		}
		okAll, regionAll, undecided := true, true, ""
		var okText, badText []string
		var allRets []c21ErrRet
		for _, h := range hits {
			var v c21StaleVerdict
			m.withFrame(h.fr, func() { v = c21JudgeStale(m, fn, kind, h, mk) })
			for _, s := range v.sites {
				if !seenSite[s] {
					seenSite[s] = true
					*collect = append(*collect, s)
				}
			}
			if v.undecided != "" {
				undecided = v.undecided
				break
			}
			if v.ok {
				okText = append(okText, v.text)
			} else {
				okAll = false
				badText = append(badText, v.text)
			}
			if !v.regionOK {
				regionAll = false
			}
			allRets = append(allRets, v.rets...)
		}
		if undecided != "" {
			c.Undecided("C21.stale/release/"+kind, site, "%s", undecided)
			continue
		}
		c.Check(okAll, "C21.stale/release/"+kind, site, strings.Join(okText, "; "), strings.Join(badText, "; "))
		if okAll && regionAll {
			badT := ""
			for _, er := range allRets {
				if er.typ != "ErrorResourceUpdateConflict" {
					badT = er.typ
				}
			}
			c.Check(badT == "", "C21.stale/release/"+kind+"-conflict-error", site,
				"mismatch returns cerrors.ErrorResourceUpdateConflict", "mismatch returns "+badT+" instead of ErrorResourceUpdateConflict (callers treat only conflicts as 'stale, re-evaluate')")
		}
	}
	if len(lost) > 0 {
		c.Lost("%s", strings.Join(lost, " | "))
	}
}

// ---------------------------------------------------------------------- idem --

func c21Idem(m *c21Model, sites []ssa.Instruction) {
	c, p := m.c, m.p
	if len(sites) == 0 {
		c.Lost("C21.idem: no collection sites")
	}
	// the ordinal collected at each site
	for _, s := range sites {
		var ord ssa.Value
		if st, ok := s.(*ssa.Store); ok {
			ord, _ = m.allocElem(st.Addr)
		} else if call, ok := s.(*ssa.Call); ok {
			_, elems, _, _ := c21AppendCall(call)
			if len(elems) == 1 {
				ord = elems[0]
			}
		}
		if ord == nil {
			c.Undecided("C21.idem/release", p.Pos(s.Pos()), "cannot identify the collected ordinal")
			continue
		}
		// (established: in release() itself, or inside a helper whose results the
		// collection is conditional on)
		allocated := m.established(s, ord, func(ord ssa.Value) EdgePred {
			return func(cond ssa.Value, pol bool) bool {
				x, isNil, ok := c21NilCmp(cond, pol)
				if !ok || isNil {
					return false
				}
				o, ok := m.allocElem(x)
				return ok && c21SameValue(o, ord)
			}
		})
		c.Check(allocated, "C21.idem/release/allocated", p.Pos(s.Pos()),
			"collection guarded by Allocations[ord] != nil", "an unallocated ordinal can be collected for release (Allocations[ord] != nil is not established)")
		cool := m.established(s, ord, func(ord ssa.Value) EdgePred {
			return func(cond ssa.Value, pol bool) bool {
				x, isNil, ok := c21NilCmp(cond, pol)
				if !ok || !isNil {
					return false
				}
				o, ok := m.attrFieldOrd(x, m.fReleasedAt)
				return ok && c21SameValue(o, ord)
			}
		})
		c.Check(cool, "C21.idem/release/not-in-cooldown", p.Pos(s.Pos()),
			"collection guarded by Attributes[*Allocations[ord]].ReleasedAt == nil", "an address that is already released (in cooldown) is released again: ReleasedAt == nil is not established before the ordinal is collected (restarts the cooldown, fails handle validation)")
	}
}

// ------------------------------------------------------------------ byhandle --

func c21ByHandle(m *c21Model) {
	c, p := m.c, m.p
	fn := m.fn(c21IpamPkg, "allocationBlock.releaseByHandle")
	idxFn := m.fn(c21IpamPkg, "allocationBlock.attributeIndexesByHandle")
	stores := m.allocStores(fn)
	if len(stores) == 0 {
		c.Lost("allocationBlock.releaseByHandle: no store into Allocations")
	}
	isIndexOfHandle := func(v ssa.Value) bool {
		for _, o := range origins(v, nil) {
			call, ok := o.V.(*ssa.Call)
			if !ok || calleeFn(call.Common()) != idxFn {
				return false
			}
			args := call.Common().Args
			if !m.isOptHandle(args[len(args)-1]) {
				return false
			}
		}
		return true
	}
	for _, as := range stores {
		site := p.Pos(as.St.Pos())
		ord := as.Ord
		hg := guardedCut(as.St, callCond(true, func(cs CallSite) bool {
			if cs.Callee == nil || !(isFunc(cs.Callee, c21IpamPkg, "intInSlice") || (cs.Callee.Pkg() != nil && cs.Callee.Pkg().Path() == "slices" && cs.Callee.Name() == "Contains")) {
				return false
			}
			args := cs.Args()
			if len(args) != 2 {
				return false
			}
			for _, pr := range [][2]ssa.Value{{args[0], args[1]}, {args[1], args[0]}} {
				o, ok := m.allocElem(pr[0])
				if ok && c21SameValue(o, ord) && isIndexOfHandle(pr[1]) {
					return true
				}
			}
			return false
		}))
		c.Check(hg, "C21.byhandle/releaseByHandle/handle-guard", site,
			"store guarded by *Allocations[o] ∈ attributeIndexesByHandle(opts.Handle)", "Allocations[o] is redirected without establishing that its attribute index belongs to opts.Handle (other handles' addresses can be released)")
		sg := guardedCut(as.St, m.seqMatch(ord))
		c.Check(sg, "C21.byhandle/releaseByHandle/sequence-guard", site,
			"store guarded by opts.SequenceNumber == nil || *opts.SequenceNumber == GetSequenceNumberForOrdinal(o)", "Allocations[o] is redirected without the sequence-number test for ordinal o (a stale release-by-handle frees a re-allocated address)")
	}

	// attributeIndexesByHandle: indexes appended only under sanitised-handle equality.
	nApp := 0
	allInstrs(idxFn, false, func(f *ssa.Function, in ssa.Instruction) {
		call, ok := in.(*ssa.Call)
		if !ok {
			return
		}
		_, elems, spread, ok := c21AppendCall(call)
		if !ok {
			return
		}
		nApp++
		site := p.Pos(in.Pos())
		if spread != nil || len(elems) != 1 {
			c.Undecided("C21.byhandle/attributeIndexesByHandle", site, "append of a spread slice")
			return
		}
		idx := elems[0]
		g := guardedCut(in, func(cond ssa.Value, pol bool) bool {
			a, b, equal, ok := c21Eq(cond, pol)
			if !ok || !equal {
				return false
			}
			for _, pr := range [][2]ssa.Value{{a, b}, {b, a}} {
				if _, isParam := pr[0].(*ssa.Parameter); !isParam {
					continue
				}
				if m.handleOfAttrIndex(pr[1], idx) {
					return true
				}
			}
			return false
		})
		c.Check(g, "C21.byhandle/attributeIndexesByHandle", site,
			"index i appended only if sanitizeHandle(*Attributes[i].HandleID) == handleID", "an attribute index is listed for a handle without an equality test between that attribute's (sanitised) HandleID and the argument")
	})
	if nApp == 0 {
		c.Lost("attributeIndexesByHandle: no append")
	}

	// client plumbing
	cl := m.fn(c21IpamPkg, "ipamClient.releaseByHandle")
	n := 0
	for _, cs := range callsIn(cl, true, func(f *types.Func) bool { return true }) {
		if calleeFn(cs.Common()) != fn {
			continue
		}
		n++
		args := cs.Common().Args
		okP := true
		for _, o := range c21Origins(args[len(args)-1], nil) {
			if o.Kind != "param" {
				okP = false
			}
		}
		c.Check(okP, "C21.byhandle/ipamClient.releaseByHandle/plumb", p.Pos(cs.Instr.Pos()),
			"block.releaseByHandle receives the caller's ReleaseOptions unchanged", "block.releaseByHandle is called with options that are not the caller's (handle / sequence number dropped or replaced)")
	}
	if n == 0 {
		c.Lost("ipamClient.releaseByHandle does not call allocationBlock.releaseByHandle")
	}
	pub := m.fn(c21IpamPkg, "ipamClient.ReleaseByHandle")
	n = 0
	for _, cs := range callsIn(pub, true, func(f *types.Func) bool { return true }) {
		if calleeFn(cs.Common()) != cl {
			continue
		}
		n++
		args := cs.Common().Args
		opt := args[len(args)-1]
		okH := false
		if ld, ok := opt.(*ssa.UnOp); ok && ld.Op == token.MUL {
			vals := literalFieldStores(ld.X)["Handle"]
			okH = len(vals) > 0
			for _, v := range vals {
				for _, o := range c21Origins(v, m.throughSanitize) {
					if o.Kind != "param" || !types.Identical(o.V.Type(), types.Typ[types.String]) {
						okH = false
					}
				}
			}
		}
		c.Check(okH, "C21.byhandle/ReleaseByHandle/plumb", p.Pos(cs.Instr.Pos()),
			"ReleaseOptions.Handle is the (sanitised) handleID argument", "ReleaseByHandle does not pass its handleID argument as ReleaseOptions.Handle")
	}
	if n == 0 {
		c.Lost("ipamClient.ReleaseByHandle does not call ipamClient.releaseByHandle")
	}
}

// handleOfAttrIndex: v derives (through sanitizeHandle, derefs, a local copy of
// the ranged element) from Attributes[idx].HandleID.
func (m *c21Model) handleOfAttrIndex(v, idx ssa.Value) bool {
	n := 0
	for _, o := range c21Origins(v, m.throughSanitize) {
		x := c21StripLoads(o.V)
		if fa, ok := x.(*ssa.FieldAddr); ok {
			if structField(fa.X.Type(), fa.Field) != m.fHandleID {
				return false
			}
			x = c21StripLoads(fa.X)
		}
		ia, ok := x.(*ssa.IndexAddr)
		if !ok || fieldVar(ia.X) != m.fAttributes || !c21SameValue(ia.Index, idx) {
			return false
		}
		n++
	}
	return n > 0
}

// ------------------------------------------------------------------ cooldown --

func c21Cooldown(m *c21Model) {
	c, p := m.c, m.p
	addCool := m.fn(c21IpamPkg, "allocationBlock.addCooldownAttribute")
	gc := m.fn(c21IpamPkg, "allocationBlock.garbageCollect")

	// The five parts are independent: an anchor lost by one is raised at the end.
	var lost []string
	defer func() {
		if len(lost) > 0 {
			c.Lost("%s", strings.Join(lost, " | "))
		}
	}()

	// (1) release paths only redirect ordinals to a fresh cooldown attribute.  The
	// stores are looked for in the release function and in the lib/ipam helpers it
	// calls (each call string; garbageCollect and addCooldownAttribute have
	// their own obligations below), the stored value is resolved through helper
	// parameters and results.
	isAnchor := func(f *ssa.Function) bool { return f == gc || f == addCool }
	for _, name := range []string{"release", "releaseByHandle"} {
		c21Isolated(&lost, func() {
			fn := m.fn(c21IpamPkg, "allocationBlock."+name)
			n := 0
			seen := map[*ssa.Store]bool{}
			for _, fr := range m.frames(fn, isAnchor) {
				m.withFrame(fr, func() {
					for _, as := range m.allocStores(fr.fn) {
						n++
						nCall, bad := 0, ""
						for _, o := range m.originsXStop(as.St.Val, nil, isAnchor) {
							switch {
							case o.Kind == "call" && calleeFn(o.V.(*ssa.Call).Common()) == addCool:
								nCall++
							case o.Kind == "const" && isNilConst(o.V):
								// initial value of a lazily created marker
							default:
								bad = o.Kind + " " + path(o.V)
							}
						}
						if seen[as.St] && bad == "" && nCall > 0 {
							continue // same store, another call string, same verdict
						}
						seen[as.St] = true
						c.Check(bad == "" && nCall > 0, "C21.cooldown/"+name+"/marks", p.Pos(as.St.Pos()),
							"Allocations[ord] is redirected to the result of addCooldownAttribute()", "release stores "+bad+" into Allocations[ord] instead of a cooldown attribute index (address skips the cooldown state)")
					}
				})
			}
			if n == 0 {
				c.Lost("allocationBlock.%s (and the lib/ipam helpers it calls): no store into Allocations", name)
			}
		})
	}

	// (2) addCooldownAttribute appends {ReleasedAt: &Now()} and returns its index.
	c21Isolated(&lost, func() { c21AddCooldown(m, addCool) })

	// (3) who may put ordinals on Unallocated.
	c21Isolated(&lost, func() { c21UnallocatedOwners(m, gc) })

	// (4) garbageCollect: dealloc only when released and cooled down.
	c21Isolated(&lost, func() { c21GCGuard(m, gc) })

	// (5) autoAssign hands out only ordinals read from Unallocated; assign refuses non-free.
	aa := m.fn(c21IpamPkg, "allocationBlock.autoAssign")
	stores := m.allocStores(aa)
	if len(stores) == 0 {
		c.Lost("allocationBlock.autoAssign: no store into Allocations")
	}
	for _, as := range stores {
		_, ok := m.unallocElem(as.Ord)
		c.Check(ok, "C21.cooldown/autoAssign/from-free-list", p.Pos(as.St.Pos()),
			"allocated ordinal is an element read from Unallocated", "autoAssign allocates ordinal "+path(as.Ord)+" that is not read from the Unallocated list (addresses in cooldown are not on that list)")
	}
	asg := m.fn(c21IpamPkg, "allocationBlock.assign")
	stores = m.allocStores(asg)
	if len(stores) == 0 {
		c.Lost("allocationBlock.assign: no store into Allocations")
	}
	for _, as := range stores {
		ord := as.Ord
		g := guardedCut(as.St, func(cond ssa.Value, pol bool) bool {
			x, isNil, ok := c21NilCmp(cond, pol)
			if !ok || !isNil {
				return false
			}
			o, ok := m.allocElem(x)
			return ok && c21SameValue(o, ord)
		})
		c.Check(g, "C21.cooldown/assign/refuses-non-free", p.Pos(as.St.Pos()),
			"store guarded by Allocations[ord] == nil", "assign overwrites Allocations[ord] without establishing it is nil (an address in cooldown, or in use, is handed out)")
	}
}

func c21AddCooldown(m *c21Model, fn *ssa.Function) {
	c, p := m.c, m.p
	key := "C21.cooldown/addCooldownAttribute"
	site := p.Pos(fn.Pos())
	// the attribute literal
	var lit *ssa.Alloc
	allInstrs(fn, false, func(f *ssa.Function, in ssa.Instruction) {
		if al, ok := in.(*ssa.Alloc); ok && c21SameType(al.Type(), m.attrT) {
			lit = al
		}
	})
	if lit == nil {
		c.Violate(key+"/stamped", site, "no AllocationAttribute value is constructed")
		return
	}
	fs := literalFieldStores(lit)
	stamped := len(fs["ReleasedAt"]) > 0
	for _, v := range fs["ReleasedAt"] {
		if isNilConst(v) {
			stamped = false
			continue
		}
		var src []ssa.Value
		if al, ok := v.(*ssa.Alloc); ok {
			for _, r := range *al.Referrers() {
				if st, ok := r.(*ssa.Store); ok && st.Addr == al {
					src = append(src, st.Val)
				}
			}
		} else {
			src = []ssa.Value{v}
		}
		if len(src) == 0 {
			stamped = false
		}
		for _, s := range src {
			for _, o := range origins(s, nil) {
				call, ok := o.V.(*ssa.Call)
				if !ok || calleeOf(call.Common()) == nil || calleeOf(call.Common()).Name() != "Now" {
					stamped = false
				}
			}
		}
	}
	c.Check(stamped && len(fs["HandleID"]) == 0, key+"/stamped", site,
		"the cooldown attribute carries ReleasedAt = &Now() and no handle", "the attribute appended for released addresses has no ReleasedAt timestamp taken from Now() (or keeps a handle): garbageCollect can never/always free it")
	// appended to Attributes, and the returned index is len(Attributes) before the append
	var attrStore *ssa.Store
	for _, st := range storesToField(fn, false, "AllocationBlock", "Attributes") {
		attrStore = st
	}
	okIdx := attrStore != nil
	if okIdx {
		base, elems, _, isApp := c21AppendCall(attrStore.Val)
		okIdx = isApp && fieldVar(base) == m.fAttributes && len(elems) == 1
		if okIdx {
			if ld, ok := elems[0].(*ssa.UnOp); !ok || ld.X != ssa.Value(lit) {
				okIdx = false
			}
		}
	}
	if okIdx {
		for _, r := range returnsOf(fn) {
			al, ok := r.Results[0].(*ssa.Alloc)
			if !ok {
				okIdx = false
				continue
			}
			n := 0
			for _, ref := range *al.Referrers() {
				st, ok := ref.(*ssa.Store)
				if !ok || st.Addr != ssa.Value(al) {
					continue
				}
				n++
				call, ok := st.Val.(*ssa.Call)
				if !ok {
					okIdx = false
					continue
				}
				if b, isB := call.Call.Value.(*ssa.Builtin); !isB || b.Name() != "len" || fieldVar(call.Call.Args[0]) != m.fAttributes || !instrDominates(call, attrStore) {
					okIdx = false
				}
			}
			if n == 0 {
				okIdx = false
			}
		}
	}
	c.Check(okIdx, key+"/index", site, "returns len(Attributes) taken before appending the cooldown attribute", "the returned index is not the position of the appended cooldown attribute (released ordinals would point at another allocation's attribute)")
}

// c21FromUnallocated: every element of slice value v is drawn from the block's
// own Unallocated list (re-slicing, filtering, removal).
func (m *c21Model) fromUnallocated(v ssa.Value, seen map[ssa.Value]bool) bool {
	if seen[v] {
		return true
	}
	seen[v] = true
	switch x := v.(type) {
	case *ssa.Phi:
		for _, e := range x.Edges {
			if !m.fromUnallocated(e, seen) {
				return false
			}
		}
		return true
	case *ssa.Slice:
		return m.fromUnallocated(x.X, seen)
	case *ssa.UnOp:
		return x.Op == token.MUL && fieldVar(x) == m.fUnallocated
	case *ssa.Call:
		base, elems, spread, ok := c21AppendCall(x)
		if !ok || !m.fromUnallocated(base, seen) {
			return false
		}
		if spread != nil && !m.fromUnallocated(spread, seen) {
			return false
		}
		for _, e := range elems {
			if _, ok := m.unallocElem(e); !ok {
				return false
			}
		}
		return true
	case *ssa.Const:
		return x.Value == nil // nil slice
	}
	return false
}

var c21UnallocProducers = map[string]string{
	"garbageCollect": "the only place a released ordinal becomes free again (guarded by C21.cooldown/garbageCollect)",
	"newBlock":       "constructor: fills the free list of a block that does not exist yet",
	"DeepCopyInto":   "generated copy of the whole block",
}

func c21UnallocatedOwners(m *c21Model, gc *ssa.Function) {
	c, p := m.c, m.p
	seenProd := map[string]bool{}
	nStores := 0
	for _, f := range p.AllFuncs() {
		if f.Pkg == nil || !(strings.HasSuffix(f.Pkg.Pkg.Path(), c21IpamPkg) || strings.HasSuffix(f.Pkg.Pkg.Path(), c21ModelPkg)) {
			continue
		}
		allInstrs(f, false, func(fn *ssa.Function, in ssa.Instruction) {
			st, ok := in.(*ssa.Store)
			if !ok {
				return
			}
			whole := false
			if fa, ok := st.Addr.(*ssa.FieldAddr); ok && structField(fa.X.Type(), fa.Field) == m.fUnallocated {
				whole = true
			} else if _, ok := m.unallocElem(st.Addr); ok {
				if _, isIA := st.Addr.(*ssa.IndexAddr); !isIA {
					return
				}
			} else {
				return
			}
			nStores++
			name := fnName(topFn(fn))
			short := name[strings.LastIndex(name, ".")+1:]
			if whole && m.fromUnallocated(st.Val, map[ssa.Value]bool{}) {
				c.Ok("C21.cooldown/unallocated-writer/"+name, p.Pos(st.Pos()), "stores only elements already on Unallocated (removal / filter)")
				return
			}
			if _, ok := c21UnallocProducers[short]; ok {
				seenProd[short] = true
				c.Ok("C21.cooldown/unallocated-producer/"+name, p.Pos(st.Pos()), "confirmed producer: %s", c21UnallocProducers[short])
				return
			}
			c.Violate("C21.cooldown/unallocated-producer/"+name, p.Pos(st.Pos()), "%s puts an ordinal on AllocationBlock.Unallocated; only garbageCollect (after the cooldown test) may make a released ordinal free", name)
		})
	}
	if nStores == 0 || !seenProd["garbageCollect"] {
		c.Lost("no store to AllocationBlock.Unallocated found in garbageCollect")
	}
}

// c21DurSign computes the sign (+1/-1) with which parameter prm enters the
// duration expression v; ok=false for forms outside {const, param, -x, x*y,
// convert, 0-x}.
func c21DurSign(v ssa.Value, prm *ssa.Parameter) (sign int, dep bool, ok bool) {
	switch x := v.(type) {
	case *ssa.Parameter:
		return 1, x == prm, true
	case *ssa.Const:
		if x.Value == nil {
			return 0, false, false
		}
		if strings.HasPrefix(x.Value.ExactString(), "-") {
			return -1, false, true
		}
		return 1, false, true
	case *ssa.Convert:
		return c21DurSign(x.X, prm)
	case *ssa.ChangeType:
		return c21DurSign(x.X, prm)
	case *ssa.UnOp:
		if x.Op == token.SUB {
			s, d, ok := c21DurSign(x.X, prm)
			return -s, d, ok
		}
	case *ssa.BinOp:
		switch x.Op {
		case token.MUL:
			s1, d1, ok1 := c21DurSign(x.X, prm)
			s2, d2, ok2 := c21DurSign(x.Y, prm)
			return s1 * s2, d1 || d2, ok1 && ok2
		case token.SUB:
			if cv, isC := constOf(x.X); isC && cv.ExactString() == "0" {
				s, d, ok := c21DurSign(x.Y, prm)
				return -s, d, ok
			}
		}
	}
	return 0, false, false
}

// c21IsDeadline: v (a *metav1.Time or metav1.Time / time.Time value) is
// Now().Add(d) with d = -cooldown*k, k>0.
func c21IsDeadline(v ssa.Value, prm *ssa.Parameter) (bool, string) {
	var leaves []ssa.Value
	var collect func(v ssa.Value, depth int)
	collect = func(v ssa.Value, depth int) {
		if depth > 8 {
			return
		}
		switch x := v.(type) {
		case *ssa.Alloc:
			for _, r := range *x.Referrers() {
				if st, ok := r.(*ssa.Store); ok && st.Addr == ssa.Value(x) {
					collect(st.Val, depth+1)
				}
			}
		case *ssa.UnOp:
			if x.Op == token.MUL {
				collect(x.X, depth+1)
				return
			}
			leaves = append(leaves, v)
		case *ssa.Call:
			f := calleeOf(x.Common())
			if f != nil && f.Name() == "NewTime" && len(x.Common().Args) == 1 {
				collect(x.Common().Args[0], depth+1)
				return
			}
			leaves = append(leaves, v)
		default:
			leaves = append(leaves, v)
		}
	}
	collect(v, 0)
	if len(leaves) == 0 {
		return false, "deadline has no definition"
	}
	for _, l := range leaves {
		call, ok := l.(*ssa.Call)
		if !ok {
			return false, "deadline is not a call result: " + path(l)
		}
		f := calleeOf(call.Common())
		if f == nil || f.Name() != "Add" || f.Pkg() == nil || f.Pkg().Path() != "time" || len(call.Common().Args) != 2 {
			return false, "deadline is not time.Time.Add(...): " + path(l)
		}
		nowOK := false
		for _, o := range origins(call.Common().Args[0], func(x ssa.Value) []ssa.Value {
			if fl, ok := x.(*ssa.Field); ok {
				return []ssa.Value{fl.X}
			}
			return nil
		}) {
			if oc, ok := o.V.(*ssa.Call); ok && calleeOf(oc.Common()) != nil && calleeOf(oc.Common()).Name() == "Now" {
				nowOK = true
			} else {
				return false, "deadline base is not Now(): " + path(o.V)
			}
		}
		if !nowOK {
			return false, "deadline base is not Now()"
		}
		s, dep, ok := c21DurSign(call.Common().Args[1], prm)
		if !ok {
			return false, "offset expression outside the decidable fragment: " + path(call.Common().Args[1])
		}
		if !dep || s != -1 {
			return false, fmt.Sprintf("offset is not minus the cooldown (sign %+d, depends on cooldown=%v): the deadline is not in the past", s, dep)
		}
	}
	return true, ""
}

func c21GCGuard(m *c21Model, gc *ssa.Function) {
	c, p := m.c, m.p
	if len(gc.Params) != 2 {
		c.Lost("garbageCollect signature changed (want receiver + cooldown seconds)")
	}
	prm := gc.Params[1]
	type target struct {
		in   ssa.Instruction
		ord  ssa.Value
		what string
	}
	var targets []target
	for _, as := range m.allocStores(gc) {
		// stores of the re-indexed attribute pointers (newIndexes[...]) keep the
		// ordinal allocated; a dealloc is the store of nil.
		if isNilConst(as.St.Val) {
			targets = append(targets, target{as.St, as.Ord, "Allocations[o] = nil"})
		}
	}
	for _, st := range storesToField(gc, false, "AllocationBlock", "Unallocated") {
		_, elems, _, ok := c21AppendCall(st.Val)
		if !ok || len(elems) != 1 {
			c.Undecided("C21.cooldown/garbageCollect/unallocated", p.Pos(st.Pos()), "store to Unallocated is not append(Unallocated, ordinal)")
			continue
		}
		targets = append(targets, target{st, elems[0], "Unallocated = append(.., o)"})
	}
	for _, cs := range callsIn(gc, false, func(f *types.Func) bool { return f == m.clearSeq }) {
		args := cs.Common().Args
		targets = append(targets, target{cs.Instr, args[len(args)-1], "ClearSequenceNumberForOrdinal(o)"})
	}
	if len(targets) < 2 {
		c.Lost("garbageCollect: deallocation sites not found (%d)", len(targets))
	}
	for _, t := range targets {
		site := p.Pos(t.in.Pos())
		key := "C21.cooldown/garbageCollect/" + strings.SplitN(t.what, " ", 2)[0]
		key = strings.NewReplacer("[o]", "", "(o)", "").Replace(key)
		paths, ok := c21PathFacts(t.in, 20000)
		if !ok || len(paths) == 0 {
			c.Undecided(key, site, "cannot enumerate the paths to %s (%d)", t.what, len(paths))
			continue
		}
		bad := ""
		for _, facts := range paths {
			released, disabled, cooled := false, false, false
			why := ""
			for v, truth := range facts {
				if x, isNil, ok := c21NilCmp(v, truth); ok && !isNil {
					if o, ok := m.attrFieldOrd(x, m.fReleasedAt); ok && c21SameValue(o, t.ord) {
						released = true
					}
				}
				if bo, ok := v.(*ssa.BinOp); ok && bo.X == ssa.Value(prm) {
					if cv, isC := constOf(bo.Y); isC && cv.ExactString() == "0" {
						if (bo.Op == token.GEQ && !truth) || (bo.Op == token.LSS && truth) {
							disabled = true
						}
					}
				}
				if call, ok := v.(*ssa.Call); ok && truth {
					f := calleeOf(call.Common())
					if f != nil && f.Name() == "Before" && len(call.Common().Args) == 2 {
						recv, arg := call.Common().Args[0], call.Common().Args[1]
						if o, ok := m.attrFieldOrd(recv, m.fReleasedAt); ok && c21SameValue(o, t.ord) {
							if good, w := c21IsDeadline(arg, prm); good {
								cooled = true
							} else {
								why = w
							}
						}
					}
				}
			}
			if !released {
				bad = "a path reaches it without ReleasedAt != nil for that ordinal"
			} else if !disabled && !cooled {
				bad = "a path reaches it with neither cooldown < 0 nor ReleasedAt.Before(Now - cooldown) established"
				if why != "" {
					bad += " (" + why + ")"
				}
			}
		}
		c.Check(bad == "", key, site,
			fmt.Sprintf("%s: all %d feasible paths establish ReleasedAt != nil and (cooldown < 0 or ReleasedAt.Before(Now()-cooldown))", t.what, len(paths)),
			t.what+": "+bad+" — an address can be reused before its cooldown has passed")
	}
}

// ---------------------------------------------------------------------- fifo --

// c21AscendingFromZero: i takes the values 0,1,2,... (range index or classic
// counting loop).
func c21AscendingFromZero(i ssa.Value) bool {
	isOne := func(v ssa.Value) bool { cv, ok := constOf(v); return ok && cv.ExactString() == "1" }
	constIs := func(v ssa.Value, s string) bool { cv, ok := constOf(v); return ok && cv.ExactString() == s }
	// range form: i = phi[-1, i] + 1
	if bo, ok := i.(*ssa.BinOp); ok && bo.Op == token.ADD && isOne(bo.Y) {
		if ph, ok := bo.X.(*ssa.Phi); ok && len(ph.Edges) >= 2 {
			nInit := 0
			for _, e := range ph.Edges {
				switch {
				case constIs(e, "-1"):
					nInit++
				case e == ssa.Value(bo):
				default:
					return false
				}
			}
			return nInit == 1
		}
	}
	// for form: i = phi[0, i+1]
	if ph, ok := i.(*ssa.Phi); ok {
		nInit := 0
		for _, e := range ph.Edges {
			if constIs(e, "0") {
				nInit++
				continue
			}
			bo, ok := e.(*ssa.BinOp)
			if !ok || bo.Op != token.ADD || bo.X != ssa.Value(ph) || !isOne(bo.Y) {
				return false
			}
		}
		return nInit == 1
	}
	return false
}

func c21Fifo(m *c21Model) {
	c, p := m.c, m.p
	gc := m.fn(c21IpamPkg, "allocationBlock.garbageCollect")
	n := 0
	for _, st := range storesToField(gc, false, "AllocationBlock", "Unallocated") {
		n++
		base, elems, spread, ok := c21AppendCall(st.Val)
		tail := ok && spread == nil && len(elems) == 1
		if tail {
			for _, o := range origins(base, nil) {
				if fieldVar(o.V) != m.fUnallocated {
					tail = false
				}
			}
		}
		c.Check(tail, "C21.fifo/garbageCollect/tail", p.Pos(st.Pos()),
			"freed ordinal appended after the existing Unallocated entries", "garbageCollect does not append the freed ordinal at the tail of Unallocated (most recently freed address is reused first)")
	}
	if n == 0 {
		c.Lost("garbageCollect: no store to Unallocated")
	}
	aa := m.fn(c21IpamPkg, "allocationBlock.autoAssign")
	stores := m.allocStores(aa)
	if len(stores) == 0 {
		c.Lost("autoAssign: no store into Allocations")
	}
	for _, as := range stores {
		idx, ok := m.unallocElem(as.Ord)
		c.Check(ok && c21AscendingFromZero(idx), "C21.fifo/autoAssign/head", p.Pos(as.St.Pos()),
			"ordinals are taken as Unallocated[i], i = 0,1,2,...", "autoAssign does not take ordinals from the head of Unallocated in ascending index order")
	}
}

// ------------------------------------------------------------------- nowrite --

var c21WriteFuncs = map[string]bool{
	"blockReaderWriter.updateBlock": true, "blockReaderWriter.deleteBlock": true,
	"blockReaderWriter.updateHandle": true, "blockReaderWriter.deleteHandle": true,
	"blockReaderWriter.updateAffinity": true, "blockReaderWriter.deleteAffinity": true,
	"ipamClient.decrementHandle": true, "ipamClient.incrementHandle": true,
}

func c21NoWrite(m *c21Model) {
	c, p := m.c, m.p
	rel := m.fn(c21IpamPkg, "allocationBlock.release")
	nCallers := 0
	for _, f := range p.AllFuncs() {
		if f.Pkg == nil || !strings.HasSuffix(f.Pkg.Pkg.Path(), c21IpamPkg) {
			continue
		}
		for _, cs := range callsIn(f, false, func(fn *types.Func) bool { return true }) {
			if calleeFn(cs.Common()) != rel {
				continue
			}
			nCallers++
			relCall := cs.Instr.(*ssa.Call)
			isErr := func(v ssa.Value) bool {
				ex, ok := v.(*ssa.Extract)
				return ok && ex.Tuple == ssa.Value(relCall) && ex.Index == 2
			}
			pred := eqCond(true, isErr, isNilConst)
			nW := 0
			for _, w := range callsIn(f, false, func(fn *types.Func) bool {
				if c21WriteFuncs[recvTypeName(fn)+"."+fn.Name()] && fn.Pkg() != nil && strings.HasSuffix(fn.Pkg().Path(), c21IpamPkg) {
					return true
				}
				// raw backend writes
				return (fn.Name() == "Update" || fn.Name() == "Create" || fn.Name() == "Apply" || fn.Name() == "Delete" || fn.Name() == "DeleteKVP") && recvTypeName(fn) == "Client"
			}) {
				if !instrReaches(relCall, w.Instr) {
					continue
				}
				nW++
				c.Check(guardedCut(w.Instr, pred), "C21.nowrite/"+fnName(f)+"/"+w.Callee.Name(), p.Pos(w.Instr.Pos()),
					w.Callee.Name()+" only reachable when release() returned a nil error", w.Callee.Name()+" is reachable although allocationBlock.release returned an error (a rejected stale release is still written to the datastore)")
			}
			if nW == 0 {
				c.Lost("%s calls allocationBlock.release but no datastore write follows", fnName(f))
			}
		}
	}
	if nCallers == 0 {
		c.Lost("no caller of allocationBlock.release")
	}
}

// ------------------------------------------------------------------- seqopts --

// c21DerivesFrom: v is computed from target (operand closure, bounded).
func c21DerivesFrom(v, target ssa.Value, depth int) bool {
	if v == target {
		return true
	}
	if depth == 0 {
		return false
	}
	in, ok := v.(ssa.Instruction)
	if !ok {
		return false
	}
	for _, op := range in.Operands(nil) {
		if *op != nil && c21DerivesFrom(*op, target, depth-1) {
			return true
		}
	}
	return false
}

func c21SeqOpts(m *c21Model) {
	c, p := m.c, m.p
	allocT := p.LookupObj(c21NodePkg, "allocation")
	if allocT == nil {
		c.Lost("node.allocation type")
	}
	ro := m.fn(c21NodePkg, "allocation.ReleaseOptions")
	// (a) every field of ipam.ReleaseOptions is set, from the matching allocation field.
	var lit *ssa.Alloc
	allInstrs(ro, false, func(f *ssa.Function, in ssa.Instruction) {
		if al, ok := in.(*ssa.Alloc); ok && c21SameType(al.Type(), m.optsT) {
			lit = al
		}
	})
	if lit == nil {
		c.Lost("allocation.ReleaseOptions: no ReleaseOptions literal")
	}
	fs := literalFieldStores(lit)
	want := map[string]string{"Address": "ip", "Handle": "handle", "SequenceNumber": "sequenceNumber"}
	for _, fname := range structFieldNames(m.optsT, false) {
		src, known := want[fname]
		key := "C21.seqopts/ReleaseOptions/" + fname
		site := p.Pos(ro.Pos())
		if !known {
			c.Undecided(key, site, "ReleaseOptions has a new field %s: decide which allocation field must feed it", fname)
			continue
		}
		vals := fs[fname]
		ok := len(vals) > 0
		for _, v := range vals {
			t, f, base, isF := fieldOf(v)
			if !isF || t != "allocation" || f != src {
				ok = false
				continue
			}
			if _, isParam := base.(*ssa.Parameter); !isParam {
				ok = false
			}
		}
		c.Check(ok, key, site, "ReleaseOptions."+fname+" = a."+src, "the GC's release options do not set "+fname+" from allocation."+src+" (a stale release cannot be detected by the IPAM library)")
	}

	// (b) allocations are built with ip, handle and sequenceNumber of ONE ordinal.
	nLit := 0
	for _, f := range p.AllFuncs() {
		if f.Pkg == nil || !strings.HasSuffix(f.Pkg.Pkg.Path(), c21NodePkg) {
			continue
		}
		allInstrs(f, false, func(fn *ssa.Function, in ssa.Instruction) {
			al, ok := in.(*ssa.Alloc)
			if !ok || !c21SameType(al.Type(), allocT.Type()) {
				return
			}
			lfs := literalFieldStores(al)
			if len(lfs["sequenceNumber"]) == 0 && len(lfs["ip"]) == 0 {
				return // not a literal (copy target)
			}
			nLit++
			site := p.Pos(al.Pos())
			key := "C21.seqopts/allocation-literal/" + fnName(fn)
			var ord ssa.Value
			okSeq := len(lfs["sequenceNumber"]) == 1
			if okSeq {
				ord, okSeq = m.getSeqOrd(lfs["sequenceNumber"][0])
			}
			if !okSeq {
				c.Violate(key, site, "allocation.sequenceNumber is not read with GetSequenceNumberForOrdinal")
				return
			}
			okIP := len(lfs["ip"]) == 1 && c21DerivesFrom(lfs["ip"][0], ord, 6)
			okH := len(lfs["handle"]) == 1
			if okH {
				okH = false
				for _, o := range c21Origins(lfs["handle"][0], nil) {
					x := c21StripLoads(o.V)
					if ia, isIA := x.(*ssa.IndexAddr); isIA && fieldVar(ia.X) == m.fAttributes {
						if ao, ok := m.allocElem(ia.Index); ok && c21SameValue(ao, ord) {
							okH = true
							continue
						}
					}
					if ao, ok := m.attrFieldOrd(o.V, m.fHandleID); ok && c21SameValue(ao, ord) {
						okH = true
						continue
					}
					okH = false
					break
				}
			}
			c.Check(okIP && okH, key, site, "ip, handle and sequenceNumber are all read for the same ordinal",
				fmt.Sprintf("allocation fields are read for different ordinals (ip same ordinal=%v, handle same ordinal=%v): the sequence number would not protect that address", okIP, okH))
		})
	}
	if nLit == 0 {
		c.Lost("no construction of node.allocation with a sequence number")
	}
	// (c) every other store to allocation.sequenceNumber copies one read by GetSequenceNumberForOrdinal.
	for _, f := range p.AllFuncs() {
		if f.Pkg == nil || !strings.HasSuffix(f.Pkg.Pkg.Path(), c21NodePkg) {
			continue
		}
		for _, st := range storesToField(f, false, "allocation", "sequenceNumber") {
			if fa, ok := st.Addr.(*ssa.FieldAddr); ok {
				if al, ok := fa.X.(*ssa.Alloc); ok && len(literalFieldStores(al)["ip"]) > 0 {
					continue // the literal itself, checked above
				}
			}
			ok := true
			for _, o := range c21FieldAwareOrigins(st.Val) {
				if _, isGet := m.getSeqOrd(o.V); !isGet {
					ok = false
				}
			}
			c.Check(ok, "C21.seqopts/sequenceNumber-update/"+fnName(f), p.Pos(st.Pos()), "sequenceNumber updated from a value read with GetSequenceNumberForOrdinal", "allocation.sequenceNumber is overwritten with a value that was not read from the block")
		}
	}
	// (d) what reaches ReleaseIPs in the node controller.
	nRel := 0
	for _, f := range p.AllFuncs() {
		if f.Pkg == nil || !strings.HasSuffix(f.Pkg.Pkg.Path(), c21NodePkg) {
			continue
		}
		for _, cs := range callsIn(f, false, func(fn *types.Func) bool {
			return fn.Name() == "ReleaseIPs" && fn.Pkg() != nil && strings.HasSuffix(fn.Pkg().Path(), c21IpamPkg)
		}) {
			nRel++
			args := cs.Args()
			ok, why := c21OnlyReleaseOptions(args[len(args)-1], ro, map[ssa.Value]bool{})
			c.Check(ok, "C21.seqopts/ReleaseIPs/"+fnName(f), p.Pos(cs.Instr.Pos()), "every option passed to ReleaseIPs is the result of allocation.ReleaseOptions()", "ReleaseIPs receives options not built by allocation.ReleaseOptions(): "+why)
		}
	}
	if nRel == 0 {
		c.Lost("node controller no longer calls IPAM ReleaseIPs")
	}
}

// c21FieldAwareOrigins follows loads of fields of local struct copies through
// whole-struct copies between locals.
func c21FieldAwareOrigins(v ssa.Value) []Origin {
	var fieldVals func(al *ssa.Alloc, field int, depth int) []ssa.Value
	fieldVals = func(al *ssa.Alloc, field int, depth int) []ssa.Value {
		var vals []ssa.Value
		if depth > 4 {
			return nil
		}
		for _, r := range *al.Referrers() {
			if fa, ok := r.(*ssa.FieldAddr); ok && fa.Field == field {
				for _, rr := range *fa.Referrers() {
					if st, ok := rr.(*ssa.Store); ok && st.Addr == ssa.Value(fa) {
						vals = append(vals, st.Val)
					}
				}
			}
			if st, ok := r.(*ssa.Store); ok && st.Addr == ssa.Value(al) {
				if ld, ok := st.Val.(*ssa.UnOp); ok && ld.Op == token.MUL {
					if src, ok := ld.X.(*ssa.Alloc); ok {
						vals = append(vals, fieldVals(src, field, depth+1)...)
						continue
					}
				}
				vals = append(vals, st.Val)
			}
		}
		return vals
	}
	return origins(v, func(x ssa.Value) []ssa.Value {
		u, ok := x.(*ssa.UnOp)
		if !ok || u.Op != token.MUL {
			return nil
		}
		fa, ok := u.X.(*ssa.FieldAddr)
		if !ok {
			return nil
		}
		al, ok := fa.X.(*ssa.Alloc)
		if !ok {
			return nil
		}
		return fieldVals(al, fa.Field, 0)
	})
}

// c21OnlyReleaseOptions: every element of slice v is the result of a call of ro.
func c21OnlyReleaseOptions(v ssa.Value, ro *ssa.Function, seen map[ssa.Value]bool) (bool, string) {
	if seen[v] {
		return true, ""
	}
	seen[v] = true
	switch x := v.(type) {
	case *ssa.Phi:
		for _, e := range x.Edges {
			if ok, why := c21OnlyReleaseOptions(e, ro, seen); !ok {
				return false, why
			}
		}
		return true, ""
	case *ssa.Const:
		if x.Value == nil {
			return true, ""
		}
	case *ssa.Slice:
		return c21OnlyReleaseOptions(x.X, ro, seen)
	case *ssa.Call:
		base, elems, spread, ok := c21AppendCall(x)
		if !ok {
			break
		}
		if ok, why := c21OnlyReleaseOptions(base, ro, seen); !ok {
			return false, why
		}
		if spread != nil {
			return c21OnlyReleaseOptions(spread, ro, seen)
		}
		for _, e := range elems {
			call, isCall := e.(*ssa.Call)
			if !isCall || calleeFn(call.Common()) != ro {
				return false, "element " + path(e)
			}
		}
		return true, ""
	}
	return false, "slice built by " + path(v)
}

// ------------------------------------------------------------------ blockdel --

// c21BlockDel: the cooldown state of a released address lives only in its
// block (the ReleasedAt attribute its ordinal points to), so deleting the block
// forgets it.  Decided: (1) every call of blockReaderWriter.deleteBlock in
// lib/ipam is guarded by allocationBlock.empty() == true; (2) empty() counts
// ordinals in cooldown as occupying the block: once Allocations[i] != nil is
// established, the ordinal may only be disregarded (next iteration, or a
// result other than false) across an edge that establishes that its attribute
// carries a handle (HandleID != nil) — cooldown attributes carry none
// (C21.cooldown/addCooldownAttribute/stamped).
func c21BlockDel(m *c21Model) {
	c, p := m.c, m.p
	empty := m.fn(c21IpamPkg, "allocationBlock.empty")
	del := m.fn(c21IpamPkg, "blockReaderWriter.deleteBlock")

	// (1) delete sites
	isEmpty := callCond(true, func(cs CallSite) bool { return calleeFn(cs.Common()) == empty })
	nDel := 0
	for _, f := range p.AllFuncs() {
		if f.Pkg == nil || !strings.HasSuffix(f.Pkg.Pkg.Path(), c21IpamPkg) {
			continue
		}
		for _, cs := range callsIn(f, false, func(fn *types.Func) bool { return fn == del.Object() }) {
			nDel++
			c.Check(guardedCut(cs.Instr, isEmpty), "C21.blockdel/guard/"+fnName(f), p.Pos(cs.Instr.Pos()),
				"deleteBlock is only reachable when allocationBlock.empty() returned true",
				"deleteBlock in "+fnName(f)+" is reachable without allocationBlock.empty() having returned true: a block that still holds addresses in cooldown (or in use) is deleted and the ReleasedAt stamps are lost, so a just released address is handed out again from the re-created block")
		}
	}
	if nDel == 0 {
		c.Lost("no call of blockReaderWriter.deleteBlock in %s", c21IpamPkg)
	}

	// (2) empty() sees ordinals in cooldown
	key := "C21.blockdel/empty/counts-cooldown"
	nIf := 0
	for _, b := range empty.Blocks {
		if len(b.Instrs) == 0 {
			continue
		}
		ifi, ok := b.Instrs[len(b.Instrs)-1].(*ssa.If)
		if !ok || len(b.Succs) != 2 {
			continue
		}
		cond0, _ := stripNot(ifi.Cond, true)
		x, _, ok := c21NilCmp(cond0, true)
		if !ok {
			continue
		}
		if _, isAlloc := m.allocElem(x); !isAlloc {
			continue
		}
		nIf++
		cut := func(cond ssa.Value, pol bool) bool {
			y, isNil, ok := c21NilCmp(cond, pol)
			if !ok {
				return false
			}
			if cond == cond0 {
				return isNil // the "not allocated" edge of this test
			}
			return !isNil && fieldVar(y) == m.fHandleID // attribute carries a handle
		}
		loopBack := func(in ssa.Instruction) bool { return in.Block().Dominates(b) }
		definite := c23ReachAvoiding(ifi, nil, cut, func(in ssa.Instruction) bool {
			if loopBack(in) {
				return true
			}
			r, isRet := in.(*ssa.Return)
			if !isRet || len(r.Results) != 1 {
				return false
			}
			cv, isConst := constOf(r.Results[0])
			return isConst && cv.String() == "true"
		})
		if definite != nil {
			how := "the next loop iteration"
			if _, isRet := definite.(*ssa.Return); isRet {
				how = "`return true` at " + p.Pos(definite.Pos())
			}
			c.Violate(key, p.Pos(cond0.Pos()), "allocationBlock.empty: an ordinal with Allocations[i] != nil can be disregarded (reaching %s) without establishing that its attribute has a HandleID: "+
				"addresses in cooldown (handle-less ReleasedAt attributes) no longer keep the block non-empty, the block is deleted and the cooldown is lost", how)
			continue
		}
		unsure := c23ReachAvoiding(ifi, nil, cut, func(in ssa.Instruction) bool {
			r, isRet := in.(*ssa.Return)
			if !isRet || len(r.Results) != 1 {
				return false
			}
			cv, isConst := constOf(r.Results[0])
			return !isConst || cv.String() != "false"
		})
		if unsure != nil {
			c.Undecided(key, p.Pos(unsure.Pos()), "allocationBlock.empty: the result returned for an allocated ordinal without a handle is not a constant")
			continue
		}
		c.Ok(key, p.Pos(cond0.Pos()), "an allocated ordinal whose attribute has no handle (in use without handle, or in cooldown) always makes empty() return false")
	}
	if nIf == 0 {
		c.Undecided(key, p.Pos(empty.Pos()), "allocationBlock.empty does not test the elements of Allocations for nil: cannot decide whether it counts addresses in cooldown")
	}
}
