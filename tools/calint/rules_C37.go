package main

import (
	"fmt"
	"go/constant"
	"go/token"
	"go/types"
	"sort"
	"strings"

	"golang.org/x/tools/go/ssa"
)

func init() {
	register(&Property{
		ID:        "C37",
		Title:     "Length-limited kernel object names never collide",
		Technique: "static analysis: constant tables evaluated by the type checker, value provenance of chain-name sinks through parameters and slices, cut-set guards (go/ssa over felix/rules, felix/ipsets, libcalico-go/lib/hash)",
		DesignRef: "DESIGN.md §3 C37",
		Explanation: "(prefixes) the dynamic chain-name prefixes (constants of felix/rules of the form cali-…-) are distinct and pairwise prefix-free, no static Chain* name starts with one, each leaves room for the " +
			"shortening marker plus hash under the smaller back-end limit, and the two policy-group prefixes have the length MaxPolicyGroupUIDLength is computed from. (static) every static chain name, and every " +
			"dispatch child-chain name chainName+infix+\"-\"+1 byte of every resolved dispatch build, fits iptables.MaxChainNameLength. (sanitise) every value reaching ActionFactory.Jump/GoTo or Chain.Name in " +
			"felix/rules derives — through phis, slices, parameters (≤3 caller levels) — only from string constants, EndpointChainName, PolicyChainName, ProfileChainName, PolicyGroup.ChainName or the child-chain " +
			"Sprintf; every GetLengthLimitedID/EndpointChainName length argument is the back-end limit (r.maxNameLength or the iptables/nftables constant selected by nft). (marker) in GetLengthLimitedID the " +
			"shortened return is prefix+marker+hash[0:cut] where, as symbolic min/linear expressions over len(prefix), maxLength and the hash length, cut ≤ maxLength-len(marker)-len(prefix) (fits the limit) and cut ≤ len(hash) (the slice stays inside the hash: a min() with len(hash)/EncodedLen(digest size) or a guard/clamp); the " +
			"unshortened return is only reachable when the name fits maxLength and is not a name of exactly the shortened length L=len(prefix)+len(marker)+cut starting with the marker (the length test must compare against that same expression L). (ipsets) static " +
			"IP set IDs are distinct, contain no ':' and survive NameForMainIPSet without truncation. (fields) PolicyChainName, ProfileChainName and PolicyGroup.UniqueID read, in their static call closure, every exported field of " +
			"every identity struct they are handed (PolicyID, ProfileID, PolicyGroup and its member PolicyIDs); PolicyID.KindShortName maps kinds to pairwise distinct constants. (through) every return of EndpointChainName, " +
			"PolicyChainName, ProfileChainName, PolicyGroup.ChainName and NameForMainIPSet is a result of GetLengthLimitedID / combineAndTrunc (possibly via a helper) or constant prefix + hash cut to a constant length; " +
			"combineAndTrunc returns the untruncated string only when it fits. " +
			"(legal) in felix/nftables the result of every IPVersionConfig.NameForMainIPSet/NameForTempIPSet call, and the name parameter of every …IPSet/…IPPortSet(name) method of the package's generictables.MatchCriteria implementation, is used only as the argument of LegalizeSetName: creation, removal, member updates, lookups and rule references all address a set by the one legalised name. " +
			"(order) in every felix/rules function that feeds a hasher and reads a slice field of an identity struct (today PolicyGroup.UniqueID / PolicyGroup.Policies) no sort/reverse/shuffle call — in the function, its closures or the in-package helpers it calls (2 levels) — takes data derived from that field: an ordered identity is hashed in stored order.",
		NotDecided: "Hash collisions (SHA-256/SHA3 truncated); that policy IDs / interface names are themselves unique; injectivity of the hash input encodings (only that every identity field is read); dynamic IP set IDs; names built outside felix/rules (e.g. ARP chains in the endpoint manager); order loss by means other than a sort/reverse/shuffle call (hand-written sorts, detours through sets/maps); nftables map (vmap) names, which are static and ':'-free.",
		Assumptions: []string{
			"go/types + go/ssa (x/tools v0.50.0) model of the current source, CGO_ENABLED=0 build",
			"dynamic prefixes are recognised by value shape: constants of felix/rules starting with ChainNamePrefix and ending in '-'",
			"kernel limits are iptables.MaxChainNameLength and ipsets.MaxIPSetNameLength as declared",
		},
		Run: runC37,
		Fixtures: []Fixture{
			{Name: "profile prefix becomes a prefix of the policy prefix family", File: "felix/rules/rule_defs.go",
				Old: "ProfileInboundPfx  ProfileChainNamePrefix = ChainNamePrefix + \"pri-\"", New: "ProfileInboundPfx  ProfileChainNamePrefix = ChainNamePrefix + \"pi-r-\"", Expect: "C37.prefixes/prefix-free"},
			{Name: "two endpoint prefixes share a value", File: "felix/rules/rule_defs.go",
				Old: "HostToEndpointForwardPfx   = ChainNamePrefix + \"thfw-\"", New: "HostToEndpointForwardPfx   = ChainNamePrefix + \"th-\"", Expect: "C37.prefixes/"},
			{Name: "outbound group prefix longer than the inbound one", File: "felix/rules/rule_defs.go",
				Old: "PolicyGroupOutboundPrefix string = ChainNamePrefix + \"go-\"", New: "PolicyGroupOutboundPrefix string = ChainNamePrefix + \"gout-\"", Expect: "C37.prefixes/group-length"},
			{Name: "static chain name longer than the iptables limit", File: "felix/rules/rule_defs.go",
				Old: "ChainSetWireguardIncomingMark = ChainNamePrefix + \"wireguard-incoming-mark\"", New: "ChainSetWireguardIncomingMark = ChainNamePrefix + \"wireguard-incoming-mark-v4\"", Expect: "C37.static/ChainSetWireguardIncomingMark"},
			{Name: "longer infix pushes set-mark child chains over the limit", File: "felix/rules/dispatch.go",
				Old: "\t\t\t\tinfix = \"wep\"", New: "\t\t\t\tinfix = \"wlep\"", Expect: "C37.static/child"},
			{Name: "policy jump uses the raw policy ID", File: "felix/rules/endpoints.go",
				Old: "\t\t\t\t\t\tchainsToJumpTo = append(chainsToJumpTo, PolicyChainName(\n\t\t\t\t\t\t\tpolicyPrefix,\n\t\t\t\t\t\t\tp,\n\t\t\t\t\t\t\tr.nft,\n\t\t\t\t\t\t))", New: "\t\t\t\t\t\tchainsToJumpTo = append(chainsToJumpTo, string(policyPrefix)+p.ID())", Expect: "C37.sanitise/sink/DefaultRuleRenderer.endpointIptablesChain"},
			{Name: "endpoint chain created with the raw interface name", File: "felix/rules/endpoints.go",
				Old: "\tchainName := EndpointChainName(endpointPrefix, name, r.maxNameLength)\n\n\tif !adminUp {", New: "\tchainName := endpointPrefix + name\n\n\tif !adminUp {", Expect: "C37.sanitise/sink/DefaultRuleRenderer.endpointIptablesChain"},
			{Name: "profile chains limited to the iptables length under nftables", File: "felix/rules/policy.go",
				Old: "func ProfileChainName(prefix ProfileChainNamePrefix, profID *types.ProfileID, nft bool) string {\n\tmaxLen := iptables.MaxChainNameLength\n\tif nft {\n\t\tmaxLen = nftables.MaxChainNameLength\n\t}", New: "func ProfileChainName(prefix ProfileChainNamePrefix, profID *types.ProfileID, nft bool) string {\n\tmaxLen := iptables.MaxChainNameLength + 4\n\tif nft {\n\t\tmaxLen = nftables.MaxChainNameLength\n\t}", Expect: "C37.sanitise/maxlen/ProfileChainName"},
			{Name: "set-mark chain named with a fixed length", File: "felix/rules/endpoints.go",
				Old: "\tchainName := EndpointChainName(endpointPrefix, name, r.maxNameLength)\n\n\tif endPointMark", New: "\tchainName := EndpointChainName(endpointPrefix, name, 28)\n\n\tif endPointMark", Expect: "C37.sanitise/maxlen/DefaultRuleRenderer.endpointSetMarkChain"},
			{Name: "names of the shortened length starting with the marker kept verbatim", File: "libcalico-go/lib/hash/unique_id.go",
				Old: "if totalLen > maxLength || (totalLen == shortenedLen && suffix[0:1] == shortenedPrefix) {", New: "if totalLen > maxLength {", Expect: "C37.marker/plain-not-marker"},
			{Name: "clash test compares against maxLength although shortened names can be shorter", File: "libcalico-go/lib/hash/unique_id.go",
				Old: "(totalLen == shortenedLen && suffix[0:1]", New: "(totalLen == maxLength && suffix[0:1]", Expect: "C37.marker/plain-not-marker"},
			{Name: "names one over the limit kept verbatim", File: "libcalico-go/lib/hash/unique_id.go",
				Old: "if totalLen > maxLength || (totalLen == shortenedLen", New: "if totalLen > maxLength+1 || (totalLen == shortenedLen", Expect: "C37.marker/plain-fits"},
			{Name: "shortened names lose the marker", File: "libcalico-go/lib/hash/unique_id.go",
				Old: "return fixedPrefix + shortenedPrefix + hash[0:shortenedLen-len(shortenedPrefix)-prefixLen]", New: "return fixedPrefix + hash[0:shortenedLen-prefixLen]", Expect: "C37.marker/short-shape"},
			{Name: "F23 reintroduced: hash cut to the room under the limit without capping at the hash length", File: "libcalico-go/lib/hash/unique_id.go",
				Old: "hash[0:shortenedLen-len(shortenedPrefix)-prefixLen]", New: "hash[0:charsLeftForHash]", Expect: "C37.marker/cut-in-hash"},
			{Name: "shortened names always carry the whole hash, whatever the limit", File: "libcalico-go/lib/hash/unique_id.go",
				Old: "shortenedLen := min(maxLength, prefixLen+len(shortenedPrefix)+base64.RawURLEncoding.EncodedLen(sha256.Size))", New: "shortenedLen := prefixLen + len(shortenedPrefix) + base64.RawURLEncoding.EncodedLen(sha256.Size)", Expect: "C37.marker/short-fits"},
			{Name: "two static IP sets share an ID", File: "felix/rules/rule_defs.go",
				Old: "IPSetIDAllVXLANSourceNets = \"all-vxlan-net\"", New: "IPSetIDAllVXLANSourceNets = \"all-hosts-net\"", Expect: "C37.ipsets/distinct"},
			{Name: "policy-group UID hashes namespace and name of each member but not its kind", File: "felix/rules/endpoints.go",
				Old: "\t\twrite(policy.String())", New: "\t\twrite(policy.Namespace)\n\t\twrite(policy.Name)", Expect: "C37.fields/PolicyGroup.UniqueID/PolicyID.Kind"},
			{Name: "policy-group UID no longer covers the selector", File: "felix/rules/endpoints.go",
				Old: "\twrite(g.Selector)\n", New: "", Expect: "C37.fields/PolicyGroup.UniqueID/PolicyGroup.Selector"},
			{Name: "policy chain named after the bare policy name", File: "felix/rules/policy.go",
				Old: "\t\tpolID.ID(),", New: "\t\tpolID.Name,", Expect: "C37.fields/PolicyChainName/PolicyID.Namespace"},
			{Name: "two policy kinds share a short name", File: "felix/types/policy_id.go",
				Old: "ShortKindStagedNetworkPolicy            string = \"snp\"", New: "ShortKindStagedNetworkPolicy            string = \"np\"", Expect: "C37.fields/kind-injective"},
			{Name: "profile chain name fast path returns prefix+name when it fits", File: "felix/rules/policy.go",
				Old: "\treturn hash.GetLengthLimitedID(\n\t\tstring(prefix),\n\t\tprofID.Name,", New: "\tif len(string(prefix))+len(profID.Name) <= maxLen {\n\t\treturn string(prefix) + profID.Name\n\t}\n\treturn hash.GetLengthLimitedID(\n\t\tstring(prefix),\n\t\tprofID.Name,", Expect: "C37.through/ProfileChainName"},
			{Name: "endpoint chain name fast path for short interface names", File: "felix/rules/endpoints.go",
				Old: "func EndpointChainName(prefix string, ifaceName string, maxLen int) string {\n", New: "func EndpointChainName(prefix string, ifaceName string, maxLen int) string {\n\tif len(prefix)+len(ifaceName) <= maxLen {\n\t\treturn prefix + ifaceName\n\t}\n", Expect: "C37.through/EndpointChainName"},
			{Name: "policy-group UID no longer cut to a fixed length", File: "felix/rules/endpoints.go",
				Old: "EncodeToString(hashBytes)[:MaxPolicyGroupUIDLength]", New: "EncodeToString(hashBytes)", Expect: "C37.through/PolicyGroup.ChainName"},
			{Name: "IP set names one over the limit kept untruncated", File: "felix/ipsets/ipset_defs.go",
				Old: "\tif len(combined) > maxLength {", New: "\tif len(combined) > maxLength+1 {", Expect: "C37.through/combineAndTrunc"},
			{Name: "nftables RemoveIPSet derives the set name without legalising it", File: "felix/nftables/ipsets.go",
				Old: "\tsetName := s.nameForMainIPSet(setID)\n\n\tdelete(s.setNameToAllMetadata, setName)", New: "\tsetName := s.IPVersionConfig.NameForMainIPSet(setID)\n\n\tdelete(s.setNameToAllMetadata, setName)", Expect: "C37.legal/derive/IPSets.RemoveIPSet"},
			{Name: "nftables GetTypeOf looks the set up under the iptables-style name", File: "felix/nftables/ipsets.go",
				Old: "\tsetName := s.nameForMainIPSet(setID)\n\tsetMeta, ok := s.setNameToAllMetadata[setName]\n\tif !ok {\n\t\treturn \"\", fmt.Errorf", New: "\tsetName := s.IPVersionConfig.NameForMainIPSet(setID)\n\tsetMeta, ok := s.setNameToAllMetadata[setName]\n\tif !ok {\n\t\treturn \"\", fmt.Errorf", Expect: "C37.legal/derive/IPSets.GetTypeOf"},
			{Name: "nftables rule references a destination IP set by its unlegalised name", File: "felix/nftables/match_builder.go",
				Old: "fmt.Sprintf(\"<IPV> daddr @%s\", LegalizeSetName(name))", New: "fmt.Sprintf(\"<IPV> daddr @%s\", name)", Expect: "C37.legal/match/nftMatch.DestIPSet"},
			{Name: "policy-group UID hashes its members in sorted order (via an in-package sorting helper)", File: "felix/rules/endpoints.go",
				Old: "\tfor _, policy := range g.Policies {\n\t\twrite(policy.String())\n\t}\n", New: "\tids := make([]string, 0, len(g.Policies))\n\tfor _, policy := range g.Policies {\n\t\tids = append(ids, policy.String())\n\t}\n\t(*DefaultRuleRenderer)(nil).sortAndDivideEndpointNamesToPrefixTree(ids)\n\tfor _, id := range ids {\n\t\twrite(id)\n\t}\n", Expect: "C37.order/PolicyGroup.UniqueID/PolicyGroup.Policies"},
			{Name: "static IP set ID truncated by NameForMainIPSet", File: "felix/rules/rule_defs.go",
				Old: "IPSetIDNATOutgoingMasqPools = \"masq-ipam-pools\"", New: "IPSetIDNATOutgoingMasqPools = \"masq-ipam-pools-for-nat-outgoing\"", Expect: "C37.ipsets/fits/IPSetIDNATOutgoingMasqPools"},
		},
	})
}

const (
	c37HashPkg  = "libcalico-go/lib/hash"
	c37IPSets   = "felix/ipsets"
	c37IPTables = "felix/iptables"
	c37NFTables = "felix/nftables"
	c37TypesPkg = "felix/types"
)

func c37IntConst(c *Ctx, p *Prog, pkg, name string) int64 {
	k, ok := p.LookupExt(pkg, name).(*types.Const)
	if !ok {
		k, ok = p.LookupObj(pkg, name).(*types.Const)
	}
	if !ok {
		c.Lost("integer constant %s.%s", pkg, name)
	}
	n, exact := constant.Int64Val(k.Val())
	if !exact {
		c.Lost("integer constant %s.%s not an int64", pkg, name)
	}
	return n
}

func runC37(c *Ctx) {
	p := c.Load(c10RulesPkg, c37HashPkg, c37IPSets, c37TypesPkg, c37NFTables)
	c.Rule("C37.prefixes", "E-CONST", "dynamic chain-name prefixes: distinct, pairwise prefix-free, no static chain name inside their namespace, room for marker+hash, policy-group prefixes of equal length", 60)
	c.Rule("C37.static", "E-CONST", "static chain names and dispatch child-chain names fit iptables.MaxChainNameLength", 40)
	c.Rule("C37.sanitise", "E-FLOW", "chain-name sinks (Jump/GoTo target, Chain.Name) derive only from constants and the length-limiting name functions; length arguments are the back-end limit", 30)
	c.Rule("C37.marker", "E-GUARD/E-SYM", "GetLengthLimitedID: shortened return = prefix+marker+hash[0:cut] with cut ≤ maxLength-len(marker)-len(prefix) and cut ≤ len(hash); unshortened return only if the name fits and is not a marker-prefixed name of exactly the shortened length L = len(prefix)+len(marker)+cut (same expression)", 5)
	c.Rule("C37.ipsets", "E-CONST", "static IP set IDs distinct, ':'-free, not truncated by NameForMainIPSet", 9)
	c.Rule("C37.fields", "E-FIELDS", "every name-deriving function reads every exported field of the identity structs it is given (receiver / parameters / slice elements), so two identities differing in any field get different hash inputs; KindShortName maps kinds to pairwise distinct constants", 11)
	c.Rule("C37.through", "E-FLOW", "every return of a chain/set name function is the result of the length-limiting function (GetLengthLimitedID / combineAndTrunc, possibly via a helper) or constant prefix + fixed-length hash: no path hands the identity to the name verbatim", 6)

	c.Rule("C37.legal", "E-PAIR/E-FLOW", "felix/nftables: one set identity, one nftables name — every name derived from a set ID (IPVersionConfig.NameFor…IPSet) and every IP-set name a match method is handed reaches its use only through LegalizeSetName, so creation, removal, lookup and rule references all see the same name", 9)
	c.Rule("C37.order", "E-FLOW", "identity hashes of ordered collections keep the order: in a felix/rules function that feeds a hasher, no sort/reverse/shuffle is applied to the identity's slice field or to anything derived from its elements", 1)

	iptMax := c37IntConst(c, p, c37IPTables, "MaxChainNameLength")
	nftMax := c37IntConst(c, p, c37NFTables, "MaxChainNameLength")
	limit := iptMax
	if nftMax < limit {
		limit = nftMax
	}
	c37Prefixes(c, p, limit)
	c37Static(c, p, limit)
	c37Sanitise(c, p)
	c37Marker(c, p)
	c37IPSetIDs(c, p)
	c37Fields(c, p)
	c37Through(c, p, iptMax)
	c37Legal(c, p)
	c37Order(c, p)
}

// ---------------------------------------------------------------- prefixes --

type c37Const struct {
	Name, Val string
	Obj       *types.Const
}

func c37StringConsts(p *Prog, pkg string) []c37Const {
	var out []c37Const
	pk := p.Pkg(pkg)
	if pk == nil {
		return nil
	}
	sc := pk.Types.Scope()
	for _, n := range sc.Names() {
		if k, ok := sc.Lookup(n).(*types.Const); ok && k.Val().Kind() == constant.String {
			out = append(out, c37Const{n, constant.StringVal(k.Val()), k})
		}
	}
	return out
}

func c37DynamicPrefixes(c *Ctx, p *Prog) (dyn, static []c37Const) {
	base := c10ConstStr(c, p, c10RulesPkg, "ChainNamePrefix")
	for _, k := range c37StringConsts(p, c10RulesPkg) {
		if !strings.HasPrefix(k.Val, base) || k.Val == base {
			continue
		}
		if strings.HasSuffix(k.Val, "-") {
			dyn = append(dyn, k)
		} else {
			static = append(static, k)
		}
	}
	return
}

func c37Prefixes(c *Ctx, p *Prog, limit int64) {
	dyn, static := c37DynamicPrefixes(c, p)
	site := "felix/rules/rule_defs.go"
	if len(dyn) < 14 {
		c.Lost("expected ≥14 dynamic chain-name prefix constants, found %d", len(dyn))
	}
	for _, a := range dyn {
		var bad []string
		for _, b := range dyn {
			if a.Name == b.Name {
				continue
			}
			if a.Val == b.Val {
				bad = append(bad, "same value as "+b.Name)
			} else if strings.HasPrefix(b.Val, a.Val) {
				bad = append(bad, fmt.Sprintf("is a proper prefix of %s (%q): %s+x can equal %s+y", b.Name, b.Val, a.Name, b.Name))
			}
		}
		c.Check(len(bad) == 0, "C37.prefixes/prefix-free/"+a.Name, p.Pos(a.Obj.Pos()), fmt.Sprintf("%q is distinct from and not a prefix of the other %d dynamic prefixes", a.Val, len(dyn)-1), a.Name+" "+strings.Join(bad, "; "))
		// room: prefix + marker + ≥1 hash char (GetLengthLimitedID panics otherwise)
		c.Check(int64(len(a.Val))+2 <= limit, "C37.prefixes/room/"+a.Name, p.Pos(a.Obj.Pos()),
			fmt.Sprintf("len=%d leaves %d hash characters under limit %d", len(a.Val), limit-1-int64(len(a.Val)), limit),
			fmt.Sprintf("prefix %q (len %d) leaves no room for marker+hash under limit %d", a.Val, len(a.Val), limit))
	}
	// static chain names (constants named Chain*/RPFChain; Nftables*Map constants name maps, a separate
	// kernel namespace) must not lie in the namespace of a dynamic prefix
	nStatic := 0
	for _, s := range static {
		if !strings.HasPrefix(s.Name, "Chain") && !strings.HasPrefix(s.Name, "RPFChain") {
			continue
		}
		nStatic++
		var clash []string
		for _, d := range dyn {
			if strings.HasPrefix(s.Val, d.Val) {
				clash = append(clash, fmt.Sprintf("static chain %s=%q lies in the namespace of dynamic prefix %s=%q: the identity %q gets the static chain's name", s.Name, s.Val, d.Name, d.Val, strings.TrimPrefix(s.Val, d.Val)))
			}
		}
		// Not armed: the property quantifies over policy/profile/group/endpoint/IP-set
		// identities against each other; an identity colliding with a *static* chain name
		// (today: an interface literally named "dispatch" vs ChainARPDispatch) is beyond
		// what it states, so it is reported as information only.
		if len(clash) == 0 {
			c.Ok("C37.prefixes/static-clash/"+s.Name, p.Pos(s.Obj.Pos()), "%q starts with none of the %d dynamic prefixes", s.Val, len(dyn))
		} else {
			c.Ok("C37.prefixes/static-clash/"+s.Name, p.Pos(s.Obj.Pos()), "INFO (not armed, beyond the property): %s", strings.Join(clash, "; "))
		}
	}
	if nStatic < 30 {
		c.Lost("expected ≥30 static chain-name constants, found %d", nStatic)
	}
	gi := c10ConstStr(c, p, c10RulesPkg, "PolicyGroupInboundPrefix")
	gout := c10ConstStr(c, p, c10RulesPkg, "PolicyGroupOutboundPrefix")
	uid := c37IntConst(c, p, c10RulesPkg, "MaxPolicyGroupUIDLength")
	iptMax := c37IntConst(c, p, c37IPTables, "MaxChainNameLength")
	c.Check(int64(len(gout))+uid <= iptMax && int64(len(gi))+uid <= iptMax, "C37.prefixes/group-length", site,
		fmt.Sprintf("len(group prefix)+MaxPolicyGroupUIDLength = %d/%d ≤ %d", int64(len(gi))+uid, int64(len(gout))+uid, iptMax),
		fmt.Sprintf("policy-group chain names reach %d/%d characters (limit %d): MaxPolicyGroupUIDLength is computed from the inbound prefix only", int64(len(gi))+uid, int64(len(gout))+uid, iptMax))
}

// ------------------------------------------------------------------ static --

func c37Static(c *Ctx, p *Prog, limit int64) {
	_, static := c37DynamicPrefixes(c, p)
	for _, s := range static {
		if !strings.HasPrefix(s.Name, "Chain") && !strings.HasPrefix(s.Name, "RPFChain") {
			continue
		}
		c.Check(int64(len(s.Val)) <= limit, "C37.static/"+s.Name, p.Pos(s.Obj.Pos()), fmt.Sprintf("%q has %d ≤ %d characters", s.Val, len(s.Val), limit),
			fmt.Sprintf("static chain name %q has %d characters, limit %d", s.Val, len(s.Val), limit))
	}
	// child chains of the prefix tree: chainName + infix + "-" + 1 byte
	m := &c10Model{c: c, p: p, lits: map[*ssa.Function][]*c10Lit{}}
	for _, f := range p.AllFuncs() {
		if f.Pkg != nil && f.Pkg.Pkg.Path() == calicoPrefix+c10RulesPkg && f.Parent() == nil {
			m.funcs = append(m.funcs, f)
		}
	}
	m.tree = c10MustFunc(c, p, c10RulesPkg, "DefaultRuleRenderer.buildSingleDispatchChainTree")
	m.vmap = c10MustFunc(c, p, c10RulesPkg, "DefaultRuleRenderer.buildSingleDispatchChainsVMAP")
	m.disp = c10MustFunc(c, p, c10RulesPkg, "DefaultRuleRenderer.buildSingleDispatchChains")
	// child name = Sprintf(format, chainName, infix, nextChar): derive the infix parameter and the fixed overhead
	var sp *ssa.Call
	for _, al := range c10ChainLits(m.tree) {
		if c10Returned(m.tree, al) {
			continue
		}
		for _, nv := range literalFieldStores(al)["Name"] {
			if call, ok := nv.(*ssa.Call); ok {
				if f := calleeOf(call.Common()); f != nil && f.Pkg() != nil && f.Pkg().Path() == "fmt" && f.Name() == "Sprintf" {
					sp = call
				}
			}
		}
	}
	if sp == nil {
		c.Lost("%s: child chain Name = fmt.Sprintf(…)", fnName(m.tree))
	}
	format, ok := c10StrConst(sp.Common().Args[0])
	if !ok {
		c.Lost("child chain name format is not constant")
	}
	var parts []ssa.Value
	if len(sp.Common().Args) > 1 {
		parts = c37VarargElems(sp.Common().Args[1])
	}
	if strings.Count(format, "%s") != len(parts) || strings.Count(format, "%") != len(parts) {
		c.Undecided("C37.static/child/format", p.Pos(sp.Pos()), "child chain name format %q is not a plain %%s concatenation of %d parts", format, len(parts))
		return
	}
	fixed := int64(len(strings.ReplaceAll(format, "%s", "")))
	var paramIdx []int
	for _, part := range parts {
		if mi, ok := part.(*ssa.MakeInterface); ok {
			part = mi.X
		}
		if i := c10ParamIndex(m.tree, part); i >= 0 {
			paramIdx = append(paramIdx, i)
			continue
		}
		// the non-parameter part must be a one-byte slice of the bin key: prefix[len(commonPrefix):] with prefix = name[:len(commonPrefix)+1] (checked in C10.leaf)
		fixed++
	}
	if len(paramIdx) != 2 {
		c.Undecided("C37.static/child/parts", p.Pos(sp.Pos()), "child chain name is built from %d parameters, expected chain name and infix", len(paramIdx))
		return
	}
	// resolve (chainName, infix) per dispatch build
	roles := map[string]int{}
	for _, cs := range c10StaticCallers([]*ssa.Function{m.disp}, m.tree) {
		for k, idx := range paramIdx {
			a := cs.Common().Args[idx]
			i := c10ParamIndex(m.disp, a)
			if i < 0 {
				c.Lost("%s: tree builder's name part is not a dispatcher parameter", fnName(m.disp))
			}
			roles[fmt.Sprintf("part%d", k)] = i
		}
	}
	m.dispRoles = map[string]int{"pfx": roles["part0"], "chainName": roles["part0"], "endRules": roles["part1"]}
	n := 0
	for _, b := range m.builds() {
		site := p.Pos(b.site.Instr.Pos())
		if len(b.chain) > 0 {
			site = p.Pos(b.chain[len(b.chain)-1].Instr.Pos())
		}
		s0, ok0 := c37StrValues(b.vals["chainName"])
		s1, ok1 := c37StrValues(b.vals["endRules"])
		if !ok0 || !ok1 {
			c.Undecided("C37.static/child/"+fnName(b.outer()), site, "chain name / infix of a dispatch build do not resolve to constants (%s, %s)", path(b.vals["chainName"]), path(b.vals["endRules"]))
			continue
		}
		for _, a := range s0 {
			if a == "" {
				continue // dead build (guarded by prefix != "")
			}
			for _, bb := range s1 {
				n++
				total := int64(len(a)+len(bb)) + fixed
				c.Check(total <= limit, fmt.Sprintf("C37.static/child/%s/%s%s", fnName(b.outer()), a, bb), site,
					fmt.Sprintf("child chains %q+%q+%d more characters = %d ≤ %d", a, bb, fixed, total, limit),
					fmt.Sprintf("child chain names %s%s-<c> have %d characters, limit %d: the kernel rejects the chain and every interface in that bin loses its dispatch", a, bb, total, limit))
			}
		}
	}
	if n == 0 {
		c.Lost("no resolved dispatch build")
	}
}

// c37StrValues: the string constants a value may take (through phi / local variables).
func c37StrValues(v ssa.Value) ([]string, bool) {
	var out []string
	for _, o := range origins(v, nil) {
		if bo, ok := o.V.(*ssa.BinOp); ok && bo.Op == token.ADD {
			xs, ok1 := c37StrValues(bo.X)
			ys, ok2 := c37StrValues(bo.Y)
			if !ok1 || !ok2 {
				return nil, false
			}
			for _, x := range xs {
				for _, y := range ys {
					out = append(out, x+y)
				}
			}
			continue
		}
		s, ok := c10StrConst(o.V)
		if !ok {
			return nil, false
		}
		out = append(out, s)
	}
	return out, len(out) > 0
}

func c37VarargElems(v ssa.Value) []ssa.Value {
	sl, ok := v.(*ssa.Slice)
	if !ok {
		return nil
	}
	al, ok := sl.X.(*ssa.Alloc)
	if !ok || al.Referrers() == nil {
		return nil
	}
	type el struct {
		i int64
		v ssa.Value
	}
	var els []el
	for _, r := range *al.Referrers() {
		if ia, ok := r.(*ssa.IndexAddr); ok && ia.Referrers() != nil {
			idx := int64(-1)
			if cv, ok := constOf(ia.Index); ok {
				idx, _ = constant.Int64Val(cv)
			}
			for _, rr := range *ia.Referrers() {
				if st, ok := rr.(*ssa.Store); ok && st.Addr == ia {
					els = append(els, el{idx, st.Val})
				}
			}
		}
	}
	sort.Slice(els, func(i, j int) bool { return els[i].i < els[j].i })
	var out []ssa.Value
	for _, e := range els {
		out = append(out, e.v)
	}
	return out
}

// ---------------------------------------------------------------- sanitise --

// c37Leaves walks backwards from a string value to its sources: through phi,
// local variables, conversions, and — for elements loaded from a slice — the
// values stored into / appended to that slice.
func c37Leaves(v ssa.Value) []ssa.Value {
	seen := map[ssa.Value]bool{}
	var out []ssa.Value
	var walk func(v ssa.Value)
	var elems func(s ssa.Value)
	elems = func(s ssa.Value) {
		if s == nil || seen[s] {
			return
		}
		seen[s] = true
		switch x := s.(type) {
		case *ssa.Phi:
			for _, e := range x.Edges {
				elems(e)
			}
		case *ssa.Slice:
			elems(x.X)
		case *ssa.Alloc:
			if x.Referrers() == nil {
				return
			}
			for _, r := range *x.Referrers() {
				switch y := r.(type) {
				case *ssa.IndexAddr:
					if y.Referrers() != nil {
						for _, rr := range *y.Referrers() {
							if st, ok := rr.(*ssa.Store); ok && st.Addr == y {
								walk(st.Val)
							}
						}
					}
				case *ssa.Store:
					if y.Addr == x {
						elems(y.Val)
					}
				}
			}
		case *ssa.UnOp:
			if x.Op == token.MUL {
				elems(x.X)
				return
			}
			out = append(out, s)
		case *ssa.Call:
			if a := c10AppendArgs(x); a != nil {
				for _, e := range a {
					elems(e)
				}
				return
			}
			out = append(out, s)
		case *ssa.Const:
			if !isNilConst(x) {
				out = append(out, s)
			}
		default:
			out = append(out, s)
		}
	}
	walk = func(v ssa.Value) {
		if v == nil || seen[v] {
			return
		}
		seen[v] = true
		switch x := v.(type) {
		case *ssa.Phi:
			for _, e := range x.Edges {
				walk(e)
			}
		case *ssa.ChangeType:
			walk(x.X)
		case *ssa.Convert:
			walk(x.X)
		case *ssa.UnOp:
			if x.Op != token.MUL {
				out = append(out, v)
				return
			}
			switch a := x.X.(type) {
			case *ssa.IndexAddr:
				elems(a.X)
			case *ssa.Alloc:
				if a.Referrers() != nil {
					for _, r := range *a.Referrers() {
						if st, ok := r.(*ssa.Store); ok && st.Addr == a {
							walk(st.Val)
						}
					}
				}
			default:
				out = append(out, v)
			}
		default:
			out = append(out, v)
		}
	}
	walk(v)
	return out
}

type c37San struct {
	c       *Ctx
	p       *Prog
	funcs   []*ssa.Function
	limiter map[*types.Func]bool
	iptMax  int64
	tree    *ssa.Function
}

// classify returns "" if every source of v is acceptable, else a description.
func (s *c37San) classify(v ssa.Value, fn *ssa.Function, depth int) string {
	for _, leaf := range c37Leaves(v) {
		switch x := leaf.(type) {
		case *ssa.Const:
			str, ok := c10StrConst(x)
			if !ok {
				return "non-string constant"
			}
			if int64(len(str)) > s.iptMax {
				return fmt.Sprintf("constant %q longer than %d", str, s.iptMax)
			}
		case *ssa.Call:
			f := calleeOf(x.Common())
			if f != nil && s.limiter[f] {
				continue
			}
			if f != nil && f.Pkg() != nil && f.Pkg().Path() == "fmt" && f.Name() == "Sprintf" && fn == s.tree {
				continue // child chain name: bounded in C37.static/child
			}
			return "result of " + path(x) + " (not a length-limiting name function)"
		case *ssa.Parameter:
			if depth == 0 {
				return "parameter " + x.Name() + " (caller depth exhausted)"
			}
			top := fn
			callers := c10StaticCallers(s.funcs, top)
			if len(callers) == 0 {
				return "parameter " + x.Name() + " of " + fnName(fn) + ", which has no static caller in felix/rules"
			}
			idx := c10ParamIndex(fn, x)
			for _, cs := range callers {
				if msg := s.classify(cs.Common().Args[idx], cs.Fn, depth-1); msg != "" {
					return fmt.Sprintf("%s ← %s at %s", x.Name(), msg, s.p.Pos(cs.Instr.Pos()))
				}
			}
		case *ssa.FreeVar:
			// closure variable: find the binding in the parent
			par := fn.Parent()
			bound := false
			if par != nil {
				allInstrs(par, true, func(_ *ssa.Function, in ssa.Instruction) {
					mc, ok := in.(*ssa.MakeClosure)
					if !ok || mc.Fn != fn {
						return
					}
					for i, fv := range fn.FreeVars {
						if fv == x {
							bound = true
							_ = mc.Bindings[i]
						}
					}
				})
			}
			if !bound {
				return "free variable " + x.Name()
			}
			return "free variable " + x.Name() + " (closure capture not followed)"
		default:
			return "value " + path(leaf)
		}
	}
	return ""
}

func c37Sanitise(c *Ctx, p *Prog) {
	s := &c37San{c: c, p: p, limiter: map[*types.Func]bool{}, iptMax: c37IntConst(c, p, c37IPTables, "MaxChainNameLength")}
	for _, n := range []string{"EndpointChainName", "PolicyChainName", "ProfileChainName", "PolicyGroup.ChainName"} {
		f, _ := p.LookupObj(c10RulesPkg, n).(*types.Func)
		if f == nil {
			c.Lost("felix/rules.%s", n)
		}
		s.limiter[f] = true
	}
	var all []*ssa.Function
	for _, f := range p.AllFuncs() {
		if f.Pkg != nil && f.Pkg.Pkg.Path() == calicoPrefix+c10RulesPkg {
			all = append(all, f)
			if f.Parent() == nil {
				s.funcs = append(s.funcs, f)
			}
		}
	}
	s.tree = c10MustFunc(c, p, c10RulesPkg, "DefaultRuleRenderer.buildSingleDispatchChainTree")

	// sinks
	type sink struct {
		v    ssa.Value
		fn   *ssa.Function
		pos  token.Pos
		what string
	}
	perFn := map[*ssa.Function][]sink{}
	for _, f := range all {
		allInstrs(f, false, func(_ *ssa.Function, in ssa.Instruction) {
			switch x := in.(type) {
			case *ssa.Call:
				cc := x.Common()
				if cc.IsInvoke() && c10IsActionFactory(cc.Value.Type()) && (cc.Method.Name() == "Jump" || cc.Method.Name() == "GoTo") {
					perFn[f] = append(perFn[f], sink{cc.Args[0], f, x.Pos(), cc.Method.Name()})
				}
			case *ssa.Store:
				if fa, ok := x.Addr.(*ssa.FieldAddr); ok && qualTypeName(fa.X.Type()) == c10GTPkg+".Chain" && fieldName(fa.X.Type(), fa.Field) == "Name" {
					perFn[f] = append(perFn[f], sink{x.Val, f, x.Pos(), "Chain.Name"})
				}
			}
		})
	}
	var fns []*ssa.Function
	for f := range perFn {
		fns = append(fns, f)
	}
	sort.Slice(fns, func(i, j int) bool { return fns[i].Pos() < fns[j].Pos() })
	for _, f := range fns {
		var bad []string
		for _, sk := range perFn[f] {
			if msg := s.classify(sk.v, f, 3); msg != "" {
				bad = append(bad, fmt.Sprintf("%s at %s: %s", sk.what, p.Pos(sk.pos), msg))
			}
		}
		c.Check(len(bad) == 0, "C37.sanitise/sink/"+fnName(f), p.Pos(f.Pos()), fmt.Sprintf("%d chain-name sinks derive only from constants and length-limited names", len(perFn[f])),
			"chain name not length-limited: "+strings.Join(bad, "; "))
	}

	// length arguments
	gl, _ := p.LookupObj(c37HashPkg, "GetLengthLimitedID").(*types.Func)
	epcn, _ := p.LookupObj(c10RulesPkg, "EndpointChainName").(*types.Func)
	maxF := p.LookupObj(c10RulesPkg, "DefaultRuleRenderer.maxNameLength")
	nftF := p.LookupObj(c10RulesPkg, "DefaultRuleRenderer.nft")
	if gl == nil || epcn == nil || maxF == nil || nftF == nil {
		c.Lost("GetLengthLimitedID / EndpointChainName / maxNameLength / nft")
	}
	nftMax := c37IntConst(c, p, c37NFTables, "MaxChainNameLength")
	selectors := map[*ssa.Function]bool{
		c10MustFunc(c, p, c10RulesPkg, "PolicyChainName"):  true,
		c10MustFunc(c, p, c10RulesPkg, "ProfileChainName"): true,
	}
	okLen := func(v ssa.Value, fn *ssa.Function) string {
		for _, o := range origins(v, nil) {
			switch x := o.V.(type) {
			case *ssa.Const:
				n, exact := constant.Int64Val(x.Value)
				if !exact || (n != s.iptMax && n != nftMax) {
					return fmt.Sprintf("constant %s is neither back end's MaxChainNameLength", x.Value)
				}
				// a constant limit is only right where it is selected by the nft flag (checked by maxlen-select)
				if !selectors[fn] {
					return fmt.Sprintf("the constant %s instead of the renderer's maxNameLength", x.Value)
				}
			case *ssa.Parameter:
				if fn.Object() != epcn {
					return "parameter " + x.Name()
				}
			default:
				if fieldVar(o.V) != maxF {
					return path(o.V)
				}
			}
		}
		return ""
	}
	nLen := 0
	for _, f := range all {
		for _, cs := range callsIn(f, false, func(fn *types.Func) bool { return fn == gl || fn == epcn }) {
			if f.Object() != nil && strings.HasPrefix(fnName(f), "CalculateNFLOG") {
				continue
			}
			args := cs.Common().Args
			if cs.Callee == gl {
				// only the chain-name uses (prefix argument non-empty constant or parameter); NFLOG prefix hashing passes ""
				if s, ok := c10StrConst(args[0]); ok && s == "" {
					continue
				}
			}
			nLen++
			msg := okLen(args[2], f)
			// a constant limit must be selected by the nft flag: iptables constant when !nft
			if msg == "" {
				if phi, ok := args[2].(*ssa.Phi); ok {
					_ = phi
				}
			}
			c.Check(msg == "", fmt.Sprintf("C37.sanitise/maxlen/%s", fnName(f)), p.Pos(cs.Instr.Pos()),
				"length limit is the back-end limit", "length limit passed to "+cs.Callee.Name()+" is "+msg+": the same identity gets different names (or names over the kernel limit) depending on the call site")
		}
	}
	if nLen < 8 {
		c.Lost("expected ≥8 length-limited name call sites, found %d", nLen)
	}
	// PolicyChainName/ProfileChainName: the nftables limit only under nft == true
	for _, n := range []string{"PolicyChainName", "ProfileChainName"} {
		f := c10MustFunc(c, p, c10RulesPkg, n)
		for _, cs := range callsIn(f, false, func(fn *types.Func) bool { return fn == gl }) {
			phi, ok := cs.Common().Args[2].(*ssa.Phi)
			okSel := ok
			if ok {
				for i, e := range phi.Edges {
					cv, isC := constOf(e)
					if !isC {
						okSel = false
						continue
					}
					n64, _ := constant.Int64Val(cv)
					if n64 == nftMax && nftMax != s.iptMax {
						// this edge must come from the nft==true branch
						pred := phi.Block().Preds[i]
						g := false
						for _, gd := range guardsOfBlock(pred) {
							if par, isPar := gd.Cond.(*ssa.Parameter); isPar && gd.True {
								if b, isB := par.Type().Underlying().(*types.Basic); isB && b.Kind() == types.Bool {
									g = true
								}
							}
						}
						if !g {
							okSel = false
						}
					}
				}
			}
			c.Check(okSel, "C37.sanitise/maxlen-select/"+n, p.Pos(cs.Instr.Pos()), "nftables limit selected only under nft", "the nftables length limit is not confined to nft == true: iptables chains may get names over 28 characters")
		}
	}
}

// ------------------------------------------------------------------ marker --

func c37Marker(c *Ctx, p *Prog) {
	fn := c10MustFunc(c, p, c37HashPkg, "GetLengthLimitedID")
	marker := c10ConstStr(c, p, c37HashPkg, "shortenedPrefix")
	if len(fn.Params) != 3 {
		c.Lost("GetLengthLimitedID(prefix, suffix, maxLength)")
	}
	prefix, maxLen := fn.Params[0], fn.Params[2]
	isMarker := func(v ssa.Value) bool { s, ok := c10StrConst(v); return ok && s == marker }
	var plain, short []*ssa.Return
	suffix := fn.Params[1]
	isSuffix := func(v ssa.Value) bool {
		for _, o := range origins(v, nil) {
			if o.V != suffix && !isMarker(o.V) {
				return false
			}
		}
		return true
	}
	for _, r := range returnsOf(fn) {
		ops := c37Flatten(r.Results[0])
		if len(ops) < 2 || ops[0] != prefix {
			c.Undecided("C37.marker/shape", p.Pos(r.Pos()), "return value %s is not prefix + …", path(r.Results[0]))
			continue
		}
		if len(ops) == 2 && isSuffix(ops[1]) {
			plain = append(plain, r)
		} else {
			short = append(short, r)
		}
	}
	if len(plain) != 1 || len(short) != 1 {
		c.Lost("GetLengthLimitedID: expected one unshortened and one shortened return, found %d/%d", len(plain), len(short))
	}
	r, sr := plain[0], short[0]

	// ---- the shortened name: prefix + marker + hash[0:cut]
	ops := c37Flatten(sr.Results[0])
	var sl *ssa.Slice
	if len(ops) == 3 {
		sl, _ = ops[2].(*ssa.Slice)
	}
	shape := ""
	switch {
	case len(ops) != 3 || !isMarker(ops[1]):
		shape = "shortened name is not prefix + marker + hash"
	case sl == nil || sl.High == nil:
		shape = "shortened name does not end in a bounded slice of the hash"
	default:
		if lo := sl.Low; lo != nil {
			if cv, isC := constOf(lo); !isC || cv.ExactString() != "0" {
				shape = "the hash is not cut from its start"
			}
		}
	}
	c.Check(shape == "", "C37.marker/short-shape", p.Pos(sr.Pos()), "shortened name = prefix + marker + hash[0:cut]", shape+": shortened names no longer start with prefix+marker followed by hash characters, so they can collide with unshortened names")

	lc := &c37Lens{prefix: prefix, maxLen: maxLen, isSuffix: isSuffix}
	if shape == "" {
		lc.hash = sl.X
		lc.isHashLen = c37HashLenCalls(sl.X)
	}
	total := c37Expr{{coef: map[string]int64{"P": 1, "S": 1}}}
	M := c37Lin{coef: map[string]int64{"M": 1}}
	mlen := int64(len(marker))

	// (c) names longer than maxLength are always shortened
	fits := guardedCut(r, func(cond ssa.Value, pol bool) bool {
		rel, ok := c37EdgeRel(cond, pol)
		if !ok || (rel.Op != "<" && rel.Op != "<=") {
			return false
		}
		l, ok1 := lc.norm(rel.L)
		rr, ok2 := lc.norm(rel.R)
		return ok1 && ok2 && l.same(total) && rr.leq(M)
	})
	c.Check(fits, "C37.marker/plain-fits", p.Pos(r.Pos()), "unshortened name returned only when len(prefix)+len(suffix) ≤ maxLength", "the unshortened return is reachable with len(prefix)+len(suffix) > maxLength: the name exceeds the kernel limit")

	if shape != "" {
		c.Undecided("C37.marker/short-fits", p.Pos(sr.Pos()), "shortened name has no recognisable cut length")
		c.Undecided("C37.marker/cut-in-hash", p.Pos(sr.Pos()), "shortened name has no recognisable cut length")
		c.Undecided("C37.marker/plain-not-marker", p.Pos(r.Pos()), "length of a shortened name unknown")
		return
	}
	cut := sl.High
	cutE, cutOK := lc.norm(cut)
	cutTxt := path(cut)
	if cutOK {
		cutTxt = cutE.String()
	}

	// (a1) every shortened name fits: cut ≤ maxLength - len(marker) - len(prefix)
	room := c37Lin{coef: map[string]int64{"M": 1, "P": -1}, k: -mlen}
	c.Check(lc.bounded(cut, room, sl, 2), "C37.marker/short-fits", p.Pos(sl.Pos()),
		fmt.Sprintf("cut = %s ≤ maxLength - %d - len(prefix): a shortened name never exceeds maxLength", cutTxt, mlen),
		fmt.Sprintf("the hash is cut to %s characters, which is not provably ≤ maxLength - len(marker) - len(prefix): a shortened name can be longer than the kernel limit", cutTxt))

	// (a2) the cut lies inside the hash: cut ≤ len(hash)
	H := c37Lin{coef: map[string]int64{"H": 1}}
	c.Check(lc.bounded(cut, H, sl, 2), "C37.marker/cut-in-hash", p.Pos(sl.Pos()),
		fmt.Sprintf("cut = %s ≤ len(hash) (H): the slice stays inside the hash string", cutTxt),
		fmt.Sprintf("the hash is cut to %s characters with nothing capping that at the hash's own length (no min() with len(hash)/EncodedLen(digest size), no guard): when maxLength - len(marker) - len(prefix) exceeds the hash length (43 for base64 SHA-256; e.g. the nftables limit 256) the slice runs past the end of the hash and panics, so identities that need shortening get no name", cutTxt))

	// (b) a name as long as a shortened name and starting with the marker is never returned verbatim.
	// L = len(prefix) + len(marker) + cut, as an expression; the length test of the shorten-condition
	// must compare the total against that same expression.
	if !cutOK {
		c.Undecided("C37.marker/plain-not-marker", p.Pos(r.Pos()), "cut length %s is not a min/linear expression: cannot compare the clash test against the shortened length", path(cut))
		return
	}
	L, _ := cutE.plus(c37Expr{{coef: map[string]int64{"P": 1}, k: mlen}}, 1)
	wrongLen := ""
	notMarker := guardedCut(r, func(cond ssa.Value, pol bool) bool {
		bo, ok := cond.(*ssa.BinOp)
		if !ok {
			return false
		}
		// suffix[0:1] == marker is false
		if (bo.Op == token.EQL || bo.Op == token.NEQ) && (isMarker(bo.X) || isMarker(bo.Y)) {
			return (bo.Op == token.EQL) != pol
		}
		rel, ok := c37EdgeRel(cond, pol)
		if !ok {
			return false
		}
		l, ok1 := lc.norm(rel.L)
		rr, ok2 := lc.norm(rel.R)
		if !ok1 || !ok2 {
			return false
		}
		switch rel.Op {
		case "!=":
			if (l.same(total) && rr.same(L)) || (rr.same(total) && l.same(L)) {
				return true
			}
			if l.same(total) {
				wrongLen = rr.String()
			} else if rr.same(total) {
				wrongLen = l.String()
			}
		case "<":
			// strictly shorter than a shortened name
			return l.same(total) && rr.same(L)
		}
		return false
	})
	bad := fmt.Sprintf("a name of exactly the length of a shortened name (%s) whose suffix starts with the marker is returned unshortened: it can equal another identity's shortened name", L)
	if wrongLen != "" {
		bad += fmt.Sprintf(" (the clash test compares the total length against %s, but shortened names have length %s)", wrongLen, L)
	}
	c.Check(notMarker, "C37.marker/plain-not-marker", p.Pos(r.Pos()), fmt.Sprintf("an unshortened name of the shortened length %s never starts with the marker", L), bad)
}

// c37HashLenCalls: hash is enc.EncodeToString(digest).  Returns a predicate for
// calls that yield len(hash) by construction: enc.EncodedLen(n) on the same
// encoding with n the digest's size (pkg.Size* of the pkg.New* constructor the
// digest's Sum is taken from, or the length of the array a fixed-size digest is
// sliced from).
func c37HashLenCalls(hash ssa.Value) func(*ssa.Call) bool {
	enc, ok := hash.(*ssa.Call)
	if !ok {
		return nil
	}
	f := calleeOf(enc.Common())
	if f == nil || f.Name() != "EncodeToString" || f.Pkg() == nil || !strings.HasPrefix(f.Pkg().Path(), "encoding/") || len(enc.Call.Args) != 2 {
		return nil
	}
	encOf := func(v ssa.Value) *ssa.Global {
		if u, ok := v.(*ssa.UnOp); ok && u.Op == token.MUL {
			g, _ := u.X.(*ssa.Global)
			return g
		}
		return nil
	}
	g := encOf(enc.Call.Args[0])
	if g == nil {
		return nil
	}
	size := int64(-1)
	switch d := enc.Call.Args[1].(type) {
	case *ssa.Call: // hasher.Sum(…)
		if d.Call.IsInvoke() && d.Call.Method.Name() == "Sum" {
			for _, o := range origins(d.Call.Value, nil) {
				ctor, ok := o.V.(*ssa.Call)
				if !ok {
					return nil
				}
				cf := calleeOf(ctor.Common())
				if cf == nil || cf.Pkg() == nil || !strings.HasPrefix(cf.Name(), "New") {
					return nil
				}
				k, ok := cf.Pkg().Scope().Lookup("Size" + strings.TrimPrefix(cf.Name(), "New")).(*types.Const)
				if !ok {
					return nil
				}
				n, exact := constant.Int64Val(k.Val())
				if !exact || (size >= 0 && size != n) {
					return nil
				}
				size = n
			}
		}
	case *ssa.Slice: // sum := sha256.Sum256(x); sum[:]
		if pt, ok := d.X.Type().Underlying().(*types.Pointer); ok {
			if at, ok := pt.Elem().Underlying().(*types.Array); ok && d.Low == nil && d.High == nil {
				size = at.Len()
			}
		}
	}
	if size < 0 {
		return nil
	}
	return func(call *ssa.Call) bool {
		cf := calleeOf(call.Common())
		if cf == nil || cf.Name() != "EncodedLen" || cf.Pkg() != f.Pkg() || len(call.Call.Args) != 2 || encOf(call.Call.Args[0]) != g {
			return false
		}
		cv, ok := constOf(call.Call.Args[1])
		if !ok {
			return false
		}
		n, exact := constant.Int64Val(cv)
		return exact && n == size
	}
}

// ------------------------------------------------------------------ ipsets --

func c37IPSetIDs(c *Ctx, p *Prog) {
	maxSet := c37IntConst(c, p, c37IPSets, "MaxIPSetNameLength")
	pfx := c10ConstStr(c, p, c37IPSets, "IPSetNamePrefix")
	room := maxSet - int64(len(pfx)) - 2 // version digit + main/temp token
	var ids []c37Const
	for _, k := range c37StringConsts(p, c10RulesPkg) {
		if strings.HasPrefix(k.Name, "IPSetID") {
			ids = append(ids, k)
		}
	}
	if len(ids) < 8 {
		c.Lost("expected ≥8 IPSetID* constants, found %d", len(ids))
	}
	var dup []string
	for i, a := range ids {
		for _, b := range ids[i+1:] {
			if a.Val == b.Val {
				dup = append(dup, a.Name+" = "+b.Name+" = "+fmt.Sprintf("%q", a.Val))
			}
		}
	}
	c.Check(len(dup) == 0, "C37.ipsets/distinct", "felix/rules/rule_defs.go", fmt.Sprintf("%d static IP set IDs are pairwise distinct", len(ids)), "static IP sets share an ID: "+strings.Join(dup, "; "))
	for _, k := range ids {
		var bad []string
		if int64(len(k.Val)) > room {
			bad = append(bad, fmt.Sprintf("%d characters, but NameForMainIPSet keeps only %d: distinct IDs can be truncated to the same name", len(k.Val), room))
		}
		if strings.Contains(k.Val, ":") {
			bad = append(bad, "contains ':' like the hashed IDs of dynamic sets")
		}
		c.Check(len(bad) == 0, "C37.ipsets/fits/"+k.Name, p.Pos(k.Obj.Pos()), fmt.Sprintf("%q fits in %d characters", k.Val, room), fmt.Sprintf("%q: %s", k.Val, strings.Join(bad, "; ")))
	}
}

// ------------------------------------------------------------------ fields --

// c37IdentityStructs collects the named struct types declared in felix/types
// or felix/rules that an identity value of type t carries: t itself (through
// pointers), the elements of its slices/arrays/maps and the types of its
// exported fields.
func c37IdentityStructs(t types.Type, seen map[*types.Named]bool, out *[]*types.Named) {
	switch x := types.Unalias(t).(type) {
	case *types.Pointer:
		c37IdentityStructs(x.Elem(), seen, out)
	case *types.Slice:
		c37IdentityStructs(x.Elem(), seen, out)
	case *types.Array:
		c37IdentityStructs(x.Elem(), seen, out)
	case *types.Map:
		c37IdentityStructs(x.Key(), seen, out)
		c37IdentityStructs(x.Elem(), seen, out)
	case *types.Named:
		st, ok := x.Underlying().(*types.Struct)
		if !ok || x.Obj().Pkg() == nil || seen[x] {
			return
		}
		if pp := x.Obj().Pkg().Path(); pp != calicoPrefix+c37TypesPkg && pp != calicoPrefix+c10RulesPkg {
			return
		}
		seen[x] = true
		*out = append(*out, x)
		for i := 0; i < st.NumFields(); i++ {
			if st.Field(i).Exported() {
				c37IdentityStructs(st.Field(i).Type(), seen, out)
			}
		}
	}
}

// c37Fields: a name is a function of the identity; if the function never reads
// a field of the identity, two identities differing only in that field get the
// same name.  For each name-deriving function, every exported field of every
// identity struct it is handed (receiver, parameters, and what those contain)
// must be read somewhere in the function's static call closure.
func c37Fields(c *Ctx, p *Prog) {
	n := 0
	for _, name := range []string{"PolicyChainName", "ProfileChainName", "PolicyGroup.UniqueID"} {
		fn := c10MustFunc(c, p, c10RulesPkg, name)
		var ids []*types.Named
		seen := map[*types.Named]bool{}
		for _, par := range fn.Params {
			c37IdentityStructs(par.Type(), seen, &ids)
		}
		if len(ids) == 0 {
			c.Lost("%s takes no identity struct from felix/types or felix/rules", name)
		}
		reach := reachableFuncs([]*ssa.Function{fn}, nil)
		for _, id := range ids {
			read := fieldsRead(reach, id)
			fields := structFieldNames(id, true)
			if len(fields) == 0 {
				c.Lost("%s: identity struct %s has no exported field", name, id.Obj().Name())
			}
			for _, f := range fields {
				n++
				c.Check(len(read[f]) > 0, fmt.Sprintf("C37.fields/%s/%s.%s", name, id.Obj().Name(), f), p.Pos(fn.Pos()),
					fmt.Sprintf("%s.%s is read in the call closure of %s (%d functions)", id.Obj().Name(), f, name, len(reach)),
					fmt.Sprintf("%s never reads %s.%s (nor does anything it calls): two identities that differ only in %s get the same name", name, id.Obj().Name(), f, f))
			}
		}
	}
	if n < 10 {
		c.Lost("expected ≥10 identity fields over the name-deriving functions, found %d", n)
	}
	// the kind reaches policy chain names only through KindShortName: its constant results must be pairwise distinct
	ks := c10MustFunc(c, p, c37TypesPkg, "PolicyID.KindShortName")
	seenK := map[string]bool{}
	var dup []string
	nk := 0
	for _, r := range returnsOf(ks) {
		for _, o := range origins(r.Results[0], nil) {
			if s, ok := c10StrConst(o.V); ok {
				nk++
				if seenK[s] {
					dup = append(dup, fmt.Sprintf("%q", s))
				}
				seenK[s] = true
			}
		}
	}
	if nk < 7 {
		c.Lost("PolicyID.KindShortName: expected ≥7 constant short names, found %d", nk)
	}
	c.Check(len(dup) == 0, "C37.fields/kind-injective", p.Pos(ks.Pos()), fmt.Sprintf("%d policy kinds map to pairwise distinct short names", nk),
		"two policy kinds share the short name "+strings.Join(dup, ", ")+": policies of those kinds with the same namespace/name get the same chain name")
}

// ----------------------------------------------------------------- through --

type c37Thru struct {
	c        *Ctx
	p        *Prog
	limiters map[*types.Func]bool
	rootFns  []*ssa.Function
}

func c37Flatten(v ssa.Value) []ssa.Value {
	if bo, ok := v.(*ssa.BinOp); ok && bo.Op == token.ADD {
		return append(c37Flatten(bo.X), c37Flatten(bo.Y)...)
	}
	return []ssa.Value{v}
}

func (t *c37Thru) inRoots(f *ssa.Function) bool {
	if f == nil || f.Blocks == nil || f.Pkg == nil {
		return false
	}
	pp := f.Pkg.Pkg.Path()
	return pp == calicoPrefix+c10RulesPkg || pp == calicoPrefix+c37IPSets
}

// fixed: "" if v always has one constant length (a hash cut to a constant
// number of characters), following helper results and cached fields.
func (t *c37Thru) fixed(v ssa.Value, depth int) string {
	for _, leaf := range c37Leaves(v) {
		switch x := leaf.(type) {
		case *ssa.Slice:
			if _, ok := constOf(x.High); x.High == nil || !ok {
				return "slice " + path(x) + " without a constant upper bound"
			}
			if x.Low != nil {
				if cv, ok := constOf(x.Low); !ok || cv.ExactString() != "0" {
					return "slice " + path(x) + " with a non-zero lower bound"
				}
			}
		case *ssa.Call:
			callee := calleeFn(x.Common())
			if !t.inRoots(callee) || depth == 0 {
				return "result of " + path(x)
			}
			rs := returnsOf(callee)
			if len(rs) == 0 {
				return "result of " + path(x) + " (no return)"
			}
			for _, r := range rs {
				if len(r.Results) != 1 {
					return "result of " + path(x)
				}
				if msg := t.fixed(r.Results[0], depth-1); msg != "" {
					return fnName(callee) + " returns " + msg
				}
			}
		case *ssa.UnOp:
			fa, ok := x.X.(*ssa.FieldAddr)
			fv := fieldVar(x.X)
			if x.Op != token.MUL || !ok || fv == nil || depth == 0 {
				return "value " + path(x)
			}
			_ = fa
			nst := 0
			for _, f := range t.rootFns {
				var bad string
				allInstrs(f, false, func(_ *ssa.Function, in ssa.Instruction) {
					st, ok := in.(*ssa.Store)
					if !ok || fieldVar(st.Addr) != fv {
						return
					}
					if _, isFA := st.Addr.(*ssa.FieldAddr); !isFA {
						return
					}
					nst++
					if msg := t.fixed(st.Val, depth-1); msg != "" && bad == "" {
						bad = fmt.Sprintf("field %s is assigned %s at %s", fv.Name(), msg, t.p.Pos(st.Pos()))
					}
				})
				if bad != "" {
					return bad
				}
			}
			if nst == 0 {
				return "field " + fv.Name() + " with no visible assignment"
			}
		default:
			return "value " + path(leaf)
		}
	}
	return ""
}

// limited: "" if every source of v is a result of the length-limiting
// function (directly or through a helper in felix/rules / felix/ipsets whose
// every return is limited), a string constant, or constant + fixed-length hash.
func (t *c37Thru) limited(v ssa.Value, depth int) string {
	for _, leaf := range c37Leaves(v) {
		switch x := leaf.(type) {
		case *ssa.Const:
			if _, ok := c10StrConst(x); !ok {
				return "non-string constant"
			}
		case *ssa.Call:
			if f := calleeOf(x.Common()); f != nil && t.limiters[f] {
				continue
			}
			callee := calleeFn(x.Common())
			if !t.inRoots(callee) || depth == 0 {
				return "the result of " + path(x) + ", which is not the length-limiting function"
			}
			rs := returnsOf(callee)
			if len(rs) == 0 {
				return "the result of " + path(x) + " (no return)"
			}
			for _, r := range rs {
				if len(r.Results) != 1 {
					return "the result of " + path(x)
				}
				if msg := t.limited(r.Results[0], depth-1); msg != "" {
					return msg + " (in " + fnName(callee) + " at " + t.p.Pos(r.Pos()) + ")"
				}
			}
		case *ssa.BinOp:
			if x.Op != token.ADD {
				return "value " + path(x)
			}
			for _, op := range c37Flatten(x) {
				if _, ok := c10StrConst(op); ok {
					continue
				}
				if msg := t.fixed(op, depth); msg != "" {
					return "the concatenation " + path(x) + " whose part " + path(op) + " is neither a constant nor a fixed-length hash (" + msg + ")"
				}
			}
		default:
			return "value " + path(leaf)
		}
	}
	return ""
}

// c37Through: the sanitise family trusts the results of the name functions;
// this family looks inside them.  A name function must hand the identity to
// the length limiter on every path: a return that derives from anything else
// (say prefix+name on a "fits anyway" fast path) skips the limiter's marker
// rule, so a verbatim name can equal another identity's shortened name.
func c37Through(c *Ctx, p *Prog, iptMax int64) {
	gl, _ := p.LookupObj(c37HashPkg, "GetLengthLimitedID").(*types.Func)
	cat, _ := p.LookupObj(c37IPSets, "combineAndTrunc").(*types.Func)
	if gl == nil || cat == nil {
		c.Lost("hash.GetLengthLimitedID / ipsets.combineAndTrunc")
	}
	t := &c37Thru{c: c, p: p, limiters: map[*types.Func]bool{gl: true, cat: true}}
	for _, f := range p.AllFuncs() {
		if f.Pkg != nil && f.Parent() == nil && t.inRoots(f) {
			t.rootFns = append(t.rootFns, f)
		}
	}
	type nf struct{ pkg, name string }
	for _, n := range []nf{{c10RulesPkg, "EndpointChainName"}, {c10RulesPkg, "PolicyChainName"}, {c10RulesPkg, "ProfileChainName"},
		{c10RulesPkg, "PolicyGroup.ChainName"}, {c37IPSets, "IPVersionConfig.NameForMainIPSet"}} {
		fn := c10MustFunc(c, p, n.pkg, n.name)
		rs := returnsOf(fn)
		if len(rs) == 0 {
			c.Lost("%s has no return", n.name)
		}
		var bad []string
		for _, r := range rs {
			if len(r.Results) != 1 {
				c.Lost("%s does not return one string", n.name)
			}
			if msg := t.limited(r.Results[0], 3); msg != "" {
				bad = append(bad, fmt.Sprintf("return at %s yields %s", p.Pos(r.Pos()), msg))
			}
		}
		c.Check(len(bad) == 0, "C37.through/"+n.name, p.Pos(fn.Pos()), fmt.Sprintf("all %d returns are results of the length limiter (or constant prefix + fixed-length hash)", len(rs)),
			n.name+" can return a name that did not pass through the length limiter: "+strings.Join(bad, "; ")+" — such a name skips the shortening-marker rule and can equal another identity's shortened name (or exceed the kernel limit)")
	}
	// combineAndTrunc itself: the untruncated return is only reachable when the combination fits
	cfn := c10MustFunc(c, p, c37IPSets, "combineAndTrunc")
	if len(cfn.Params) != 3 {
		c.Lost("combineAndTrunc(prefix, suffix, maxLength)")
	}
	maxLen := cfn.Params[2]
	isLen := func(v ssa.Value) bool {
		call, ok := v.(*ssa.Call)
		if !ok {
			return false
		}
		b, ok := call.Common().Value.(*ssa.Builtin)
		return ok && b.Name() == "len"
	}
	var bad []string
	nr := 0
	for _, r := range returnsOf(cfn) {
		nr++
		if sl, ok := r.Results[0].(*ssa.Slice); ok {
			if sl.High != maxLen {
				bad = append(bad, fmt.Sprintf("truncating return at %s cuts to %s, not maxLength", p.Pos(r.Pos()), path(sl.High)))
			}
			continue
		}
		fits := guardedCut(r, func(cond ssa.Value, pol bool) bool {
			bo, ok := cond.(*ssa.BinOp)
			if !ok {
				return false
			}
			switch {
			case bo.Op == token.GTR && isLen(bo.X) && bo.Y == maxLen, bo.Op == token.LSS && bo.X == maxLen && isLen(bo.Y):
				return !pol
			case bo.Op == token.LEQ && isLen(bo.X) && bo.Y == maxLen, bo.Op == token.GEQ && bo.X == maxLen && isLen(bo.Y):
				return pol
			}
			return false
		})
		if !fits {
			bad = append(bad, fmt.Sprintf("untruncated return at %s is reachable with len > maxLength", p.Pos(r.Pos())))
		}
	}
	if nr == 0 {
		c.Lost("combineAndTrunc has no return")
	}
	c.Check(len(bad) == 0, "C37.through/combineAndTrunc", p.Pos(cfn.Pos()), "untruncated result only when it fits; truncated result cut to maxLength", "combineAndTrunc: "+strings.Join(bad, "; ")+": IP set names can exceed the kernel limit")
	_ = iptMax
}

// ------------------------------------------------------------------- legal --

// c37OnlyInto: every use of v (through phi / conversions) is as the first
// argument of a call to want.  Returns a description of the first other use.
func c37OnlyInto(p *Prog, v ssa.Value, want *types.Func) string {
	seen := map[ssa.Value]bool{}
	var walk func(v ssa.Value) string
	walk = func(v ssa.Value) string {
		if seen[v] || v.Referrers() == nil {
			return ""
		}
		seen[v] = true
		for _, r := range *v.Referrers() {
			switch x := r.(type) {
			case *ssa.DebugRef:
			case *ssa.Phi:
				if msg := walk(x); msg != "" {
					return msg
				}
			case *ssa.ChangeType:
				if msg := walk(x); msg != "" {
					return msg
				}
			case *ssa.Convert:
				if msg := walk(x); msg != "" {
					return msg
				}
			case ssa.CallInstruction:
				cc := x.Common()
				if f := calleeOf(cc); f == want && !cc.IsInvoke() && len(cc.Args) > 0 && cc.Args[0] == v {
					continue
				}
				return fmt.Sprintf("it is passed to %s at %s", c37CallName(cc), p.Pos(r.Pos()))
			case *ssa.Return:
				return fmt.Sprintf("it is returned at %s", p.Pos(r.Pos()))
			case *ssa.MapUpdate, *ssa.Lookup:
				return fmt.Sprintf("it is used as a map key/value at %s", p.Pos(r.Pos()))
			default:
				return fmt.Sprintf("it is used by `%s` at %s", r.String(), p.Pos(r.Pos()))
			}
		}
		return ""
	}
	return walk(v)
}

func c37CallName(cc *ssa.CallCommon) string {
	if f := calleeOf(cc); f != nil {
		return f.Name()
	}
	if b, ok := cc.Value.(*ssa.Builtin); ok {
		return "the builtin " + b.Name()
	}
	return "a function value"
}

// c37Legal: nftables set names may not contain ':', so felix/nftables maps
// every name through LegalizeSetName.  The kernel set, the desired-state maps of
// IPSets and the `@name` references in rules are only the same object if every
// one of them uses the legalised name.  (derive) inside felix/nftables the result
// of IPVersionConfig.NameForMainIPSet/NameForTempIPSet goes nowhere but into
// LegalizeSetName; (match) every method of the package's MatchCriteria
// implementation that the generictables API declares as taking an IP-set name
// (…IPSet / …IPPortSet(name string)) hands that name to nothing but
// LegalizeSetName.
func c37Legal(c *Ctx, p *Prog) {
	legal, _ := p.LookupObj(c37NFTables, "LegalizeSetName").(*types.Func)
	if legal == nil {
		c.Lost("felix/nftables.LegalizeSetName")
	}
	derive := map[*types.Func]bool{}
	for _, n := range []string{"IPVersionConfig.NameForMainIPSet", "IPVersionConfig.NameForTempIPSet"} {
		f, _ := p.LookupObj(c37IPSets, n).(*types.Func)
		if f == nil {
			c.Lost("felix/ipsets.%s", n)
		}
		derive[f] = true
	}
	sp := p.SSAPkg(c37NFTables)
	if sp == nil {
		c.Lost("ssa package %s", c37NFTables)
	}
	var fns []*ssa.Function
	for _, f := range p.AllFuncs() {
		if f.Pkg == sp && f.Blocks != nil {
			fns = append(fns, f)
		}
	}
	sort.Slice(fns, func(i, j int) bool { return fnName(fns[i]) < fnName(fns[j]) })
	nDerive := 0
	for _, f := range fns {
		sites := callsIn(f, false, func(fn *types.Func) bool { return derive[fn] })
		if len(sites) == 0 {
			continue
		}
		var bad []string
		for _, cs := range sites {
			v, ok := cs.Instr.(ssa.Value)
			if !ok {
				bad = append(bad, fmt.Sprintf("%s is called by go/defer at %s", cs.Callee.Name(), p.Pos(cs.Instr.Pos())))
				continue
			}
			if msg := c37OnlyInto(p, v, legal); msg != "" {
				bad = append(bad, fmt.Sprintf("the result of %s at %s does not go through LegalizeSetName: %s", cs.Callee.Name(), p.Pos(cs.Instr.Pos()), msg))
			}
		}
		nDerive++
		c.Check(len(bad) == 0, "C37.legal/derive/"+fnName(topFn(f)), p.Pos(f.Pos()), fmt.Sprintf("%d name derivation(s) flow only into LegalizeSetName", len(sites)),
			fnName(f)+": "+strings.Join(bad, "; ")+" — the other entry points key the same set by the legalised name (':' -> '-'), so for every calculated set ID (they all contain ':') this one addresses a set that does not exist: removals/lookups silently miss and the real set leaks")
	}
	if nDerive == 0 {
		c.Lost("felix/nftables derives no set name from a set ID (NameForMainIPSet/NameForTempIPSet not called)")
	}

	// match methods taking an IP set name
	iface, _ := p.LookupExt(c10GTPkg, "MatchCriteria").(*types.TypeName)
	if iface == nil {
		iface, _ = p.LookupObj(c10GTPkg, "MatchCriteria").(*types.TypeName)
	}
	if iface == nil {
		c.Lost("generictables.MatchCriteria")
	}
	it, ok := iface.Type().Underlying().(*types.Interface)
	if !ok {
		c.Lost("generictables.MatchCriteria is not an interface")
	}
	var setMethods []string
	for i := 0; i < it.NumMethods(); i++ {
		m := it.Method(i)
		sig := m.Type().(*types.Signature)
		if !(strings.HasSuffix(m.Name(), "IPSet") || strings.HasSuffix(m.Name(), "IPPortSet")) || sig.Params().Len() != 1 {
			continue
		}
		if b, ok := sig.Params().At(0).Type().Underlying().(*types.Basic); !ok || b.Kind() != types.String {
			continue
		}
		setMethods = append(setMethods, m.Name())
	}
	sort.Strings(setMethods)
	if len(setMethods) < 8 {
		c.Lost("generictables.MatchCriteria: expected ≥8 …IPSet/…IPPortSet(name string) methods, found %d", len(setMethods))
	}
	pk := p.Pkg(c37NFTables)
	if pk == nil {
		c.Lost("package %s", c37NFTables)
	}
	nImpl := 0
	for _, tn := range pk.Types.Scope().Names() {
		named, ok := pk.Types.Scope().Lookup(tn).(*types.TypeName)
		if !ok || named.IsAlias() {
			continue
		}
		if _, isIface := named.Type().Underlying().(*types.Interface); isIface {
			continue
		}
		if !types.Implements(named.Type(), it) && !types.Implements(types.NewPointer(named.Type()), it) {
			continue
		}
		nImpl++
		for _, mn := range setMethods {
			fn := p.Func(c37NFTables, tn+"."+mn)
			if fn == nil || len(fn.Params) != 2 {
				c.Lost("felix/nftables.%s.%s", tn, mn)
			}
			msg := c37OnlyInto(p, fn.Params[1], legal)
			c.Check(msg == "", "C37.legal/match/"+tn+"."+mn, p.Pos(fn.Pos()), "the set name reaches the rule only through LegalizeSetName",
				fmt.Sprintf("%s.%s uses the IP set name it is given without LegalizeSetName (%s): rules reference '@cali40s:…' while the set exists as 'cali40s-…'", tn, mn, msg))
		}
	}
	if nImpl == 0 {
		c.Lost("no MatchCriteria implementation in felix/nftables")
	}
}

// ------------------------------------------------------------------- order --

// c37Reorders: f permutes the slice it is handed (argument 0).
func c37Reorders(f *types.Func) bool {
	if f == nil || f.Pkg() == nil {
		return false
	}
	switch f.Pkg().Path() {
	case "sort":
		switch f.Name() {
		case "Sort", "Stable", "Slice", "SliceStable", "Strings", "Ints", "Float64s":
			return true
		}
	case "slices":
		switch f.Name() {
		case "Sort", "SortFunc", "SortStableFunc", "Reverse":
			return true
		}
	case "math/rand", "math/rand/v2":
		return f.Name() == "Shuffle"
	}
	return false
}

type c37Dep struct {
	p     *Prog
	funcs map[*ssa.Function]bool // the inspected functions (F, its closures, in-package callees)
	top   *ssa.Function
}

// dependsOn: the backward data-flow slice of v (operands; what is stored into the
// locals, slices and arrays on the way; call-site arguments for parameters of
// inspected callees; bindings of closure variables) contains a read of field
// target or the value target itself.
func (d *c37Dep) dependsOn(v ssa.Value, isTarget func(ssa.Value) bool) bool {
	seen := map[ssa.Value]bool{}
	work := []ssa.Value{v}
	push := func(x ssa.Value) {
		if x != nil && !seen[x] {
			seen[x] = true
			work = append(work, x)
		}
	}
	seen[v] = true
	for len(work) > 0 && len(seen) < 5000 {
		x := work[len(work)-1]
		work = work[:len(work)-1]
		if isTarget(x) {
			return true
		}
		// what is written into x (locals, backing arrays, make'd slices)
		switch x.(type) {
		case *ssa.Alloc, *ssa.MakeSlice, *ssa.Slice, *ssa.Phi, *ssa.Call:
			if refs := x.Referrers(); refs != nil {
				for _, r := range *refs {
					switch y := r.(type) {
					case *ssa.Store:
						if y.Addr == x {
							push(y.Val)
						}
					case *ssa.IndexAddr:
						if y.X == x && y.Referrers() != nil {
							for _, rr := range *y.Referrers() {
								if st, ok := rr.(*ssa.Store); ok && st.Addr == ssa.Value(y) {
									push(st.Val)
								}
							}
						}
					case *ssa.Call:
						if cc, ok := isBuiltinCall(y, "copy"); ok && len(cc.Args) == 2 && cc.Args[0] == x {
							push(cc.Args[1])
						}
					}
				}
			}
		}
		switch y := x.(type) {
		case *ssa.Parameter:
			fn := y.Parent()
			if fn == d.top {
				continue
			}
			idx := c10ParamIndex(fn, y)
			for g := range d.funcs {
				allInstrs(g, false, func(_ *ssa.Function, in ssa.Instruction) {
					ci, ok := in.(ssa.CallInstruction)
					if !ok || calleeFn(ci.Common()) != fn || idx < 0 || idx >= len(ci.Common().Args) {
						return
					}
					push(ci.Common().Args[idx])
				})
			}
		case *ssa.FreeVar:
			fn := y.Parent()
			par := fn.Parent()
			if par == nil {
				continue
			}
			allInstrs(par, false, func(_ *ssa.Function, in ssa.Instruction) {
				mc, ok := in.(*ssa.MakeClosure)
				if !ok || mc.Fn != ssa.Value(fn) {
					return
				}
				for i, fv := range fn.FreeVars {
					if fv == y && i < len(mc.Bindings) {
						push(mc.Bindings[i])
					}
				}
			})
		case ssa.Instruction:
			for _, op := range y.Operands(nil) {
				if op != nil {
					push(*op)
				}
			}
		}
	}
	return false
}

// c37Order: a PolicyGroup is an ordered sequence (enforcement order), and its
// UID — hence its chain name — must distinguish [A,B] from [B,A]: both render
// different chains.  The hash can only do that if the elements reach it in
// stored order.  Generalised: in every felix/rules function that feeds a hasher
// (writes to a hash.Hash-like value or calls into libcalico-go/lib/hash) and
// reads a slice-typed field of an identity struct declared in felix/rules or
// felix/types, nothing derived from that field is handed to a permuting
// function (sort.*, slices.Sort*/Reverse, rand.Shuffle) — in the function, its
// closures, or the in-package helpers it calls.
func c37Order(c *Ctx, p *Prog) {
	sp := p.SSAPkg(c10RulesPkg)
	if sp == nil {
		c.Lost("ssa package %s", c10RulesPkg)
	}
	inPkgs := func(f *ssa.Function) bool {
		if f == nil || f.Blocks == nil || f.Pkg == nil {
			return false
		}
		pp := f.Pkg.Pkg.Path()
		return pp == calicoPrefix+c10RulesPkg || pp == calicoPrefix+c37TypesPkg
	}
	feedsHasher := func(f *ssa.Function) bool {
		found := false
		allInstrs(f, true, func(_ *ssa.Function, in ssa.Instruction) {
			ci, ok := in.(ssa.CallInstruction)
			if !ok {
				return
			}
			cc := ci.Common()
			if cc.IsInvoke() && cc.Method.Name() == "Write" {
				if it, ok := cc.Value.Type().Underlying().(*types.Interface); ok {
					for i := 0; i < it.NumMethods(); i++ {
						if strings.HasPrefix(it.Method(i).Name(), "Sum") {
							found = true
						}
					}
				}
				return
			}
			if f := calleeOf(cc); f != nil && f.Pkg() != nil && f.Pkg().Path() == calicoPrefix+c37HashPkg {
				found = true
			}
		})
		return found
	}
	var tops []*ssa.Function
	for _, f := range p.AllFuncs() {
		if f.Pkg == sp && f.Parent() == nil && f.Blocks != nil && f.Synthetic == "" {
			tops = append(tops, f)
		}
	}
	sort.Slice(tops, func(i, j int) bool { return fnName(tops[i]) < fnName(tops[j]) })
	n := 0
	for _, top := range tops {
		if !feedsHasher(top) {
			continue
		}
		// identity slices read by top (and its closures)
		fields := map[*types.Var]string{}
		allInstrs(top, true, func(_ *ssa.Function, in ssa.Instruction) {
			var fv *types.Var
			var owner types.Type
			switch x := in.(type) {
			case *ssa.FieldAddr:
				fv, owner = fieldVar(x), derefType(x.X.Type())
			case *ssa.Field:
				fv, owner = fieldVar(x), x.X.Type()
			}
			if fv == nil {
				return
			}
			if _, isSlice := fv.Type().Underlying().(*types.Slice); !isSlice {
				return
			}
			nt, ok := types.Unalias(owner).(*types.Named)
			if !ok || nt.Obj().Pkg() == nil {
				return
			}
			if pp := nt.Obj().Pkg().Path(); pp != calicoPrefix+c10RulesPkg && pp != calicoPrefix+c37TypesPkg {
				return
			}
			fields[fv] = nt.Obj().Name() + "." + fv.Name()
		})
		if len(fields) == 0 {
			continue
		}
		// inspected functions: top, closures, in-package static callees (2 levels)
		d := &c37Dep{p: p, funcs: map[*ssa.Function]bool{}, top: top}
		var add func(f *ssa.Function, depth int)
		add = func(f *ssa.Function, depth int) {
			if d.funcs[f] {
				return
			}
			d.funcs[f] = true
			for _, a := range f.AnonFuncs {
				add(a, depth)
			}
			if depth == 0 {
				return
			}
			allInstrs(f, false, func(_ *ssa.Function, in ssa.Instruction) {
				if ci, ok := in.(ssa.CallInstruction); ok {
					if g := calleeFn(ci.Common()); inPkgs(g) {
						add(g, depth-1)
					}
				}
			})
		}
		add(top, 2)
		type site struct {
			fn   *ssa.Function
			call ssa.CallInstruction
		}
		var sorts []site
		for g := range d.funcs {
			allInstrs(g, false, func(_ *ssa.Function, in ssa.Instruction) {
				if ci, ok := in.(ssa.CallInstruction); ok && c37Reorders(calleeOf(ci.Common())) && len(ci.Common().Args) > 0 {
					sorts = append(sorts, site{g, ci})
				}
			})
		}
		sort.Slice(sorts, func(i, j int) bool { return sorts[i].call.Pos() < sorts[j].call.Pos() })
		var fvs []*types.Var
		for fv := range fields {
			fvs = append(fvs, fv)
		}
		sort.Slice(fvs, func(i, j int) bool { return fields[fvs[i]] < fields[fvs[j]] })
		for _, fv := range fvs {
			n++
			var bad []string
			for _, s := range sorts {
				isTarget := func(v ssa.Value) bool {
					switch x := v.(type) {
					case *ssa.FieldAddr:
						return fieldVar(x) == fv
					case *ssa.Field:
						return fieldVar(x) == fv
					}
					return false
				}
				if d.dependsOn(s.call.Common().Args[0], isTarget) {
					bad = append(bad, fmt.Sprintf("%s.%s at %s (in %s) permutes data derived from it", calleeOf(s.call.Common()).Pkg().Name(), calleeOf(s.call.Common()).Name(), p.Pos(s.call.Pos()), fnName(s.fn)))
				}
			}
			c.Check(len(bad) == 0, "C37.order/"+fnName(top)+"/"+fields[fv], p.Pos(top.Pos()),
				fmt.Sprintf("%s reaches the hasher in stored order: none of the %d permuting call(s) in %d inspected function(s) touches data derived from it", fields[fv], len(sorts), len(d.funcs)),
				fmt.Sprintf("%s feeds a hash from the ordered list %s, but %s: two identities that hold the same members in a different order (which render different chains) get the same hash and therefore the same name", fnName(top), fields[fv], strings.Join(bad, "; ")))
		}
	}
	if n == 0 {
		c.Lost("no felix/rules function feeds a hasher from a slice field of an identity struct (PolicyGroup.UniqueID / PolicyGroup.Policies expected)")
	}
}
