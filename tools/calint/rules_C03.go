package main

import (
	"fmt"
	"go/ast"
	"go/constant"
	"go/token"
	"go/types"
	"sort"
	"strings"

	"golang.org/x/tools/go/ssa"
)

// C03: each local endpoint gets exactly its matching policies, correctly ordered.

func init() {
	register(&Property{
		ID:        "C03",
		Title:     "Each local endpoint gets exactly its matching policies, correctly ordered",
		Technique: "static analysis: field read-set closure of the btree comparators, operand-side slicing of ordering comparisons, constant evaluation of tie-break join formats, cut-set guard analysis, mirror-index pairing (dominance/post-dominance), value provenance of the sorted tier list, path enumeration with a truth-table decision of branch conditions (sort-key refresh), guard/order analysis of the label-inheritance parent registry, backward value-flow slice from the tiers argument of the per-endpoint callback (through felix/calc helpers, with the endpoint mapped through parameters), provenance of the items handed to the sorted btrees",
		DesignRef: "DESIGN.md §3 C03",
		Explanation: "Decides the structural clauses on PolicySorter / PolicyResolver / tier conversion. (total) Each comparator handed to btree.NewG in felix/calc reads, from both of its arguments, every field of its key type " +
			"(model.PolicyKey via PolKV, tierInfoKey) and the Order it sorts by: two distinct policies or tiers can never compare equal and displace each other in the tree. (ascending) Every ordering comparison in those " +
			"comparators whose operands separate into first-argument/second-argument sides is ascending. (tiebreak) The string tie-break of each comparator orders by Name first: it compares the Name fields directly, or " +
			"fmt.Sprintf joins that begin with Name and whose separators sort below '-' (the smallest byte a name may contain), which is when comparing the joins equals comparing the tuples. (ownfirst) Both label-combining GetHandle implementations of felix/labelindex reach a parent's labels only after the item's own labels lacked the label, so own labels override inherited ones. (unsetlast) A policy without Order gets polMetaDefaultOrder, which is math.Inf(+) and is never reassigned. " +
			"(dirsplit) Appends to proto.TierInfo.IngressPolicies/EgressPolicies are guarded by GovernsIngress()/GovernsEgress(), which test exactly the ingress/egress flag, and the flags are set only under the matching " +
			"Types comparison or when Types is empty. (mirror) policyIDToEndpointIDs and endpointIDToPolicyIDs are always updated together with swapped arguments, and the per-endpoint filter keeps a policy only under " +
			"endpointIDToPolicyIDs.Contains(endpoint, policy). (sortfeeds) sortedTierData is assigned only from PolicySorter.Sorted(); the per-endpoint lists are appended only inside range loops over sortedTierData / " +
			"OrderedPolicies; Sorted() fills its slices only inside btree Ascend callbacks; OrderedPolicies has no other writer. " +
			"(keysync) Wherever a *model.Tier value is at hand and a tierInfoKey is (re-)inserted into the sorted-tier tree, each mutable key field of the TierInfo (Order, Valid; derived from the tierInfoKey struct) has been stored from its source (the Tier's same-named field, or a constant) on the path, or the branch conditions crossed imply that it already equals the source (same pointer, equal pointees, or both nil) — so no update of a tier's order, including value -> nil, can be ignored. The discipline is followed through felix/calc helpers: an insertion made by a helper that is handed the Tier value is judged in that helper (falling back to \"every caller is in sync before the call\"), a helper that stores the field counts as a store only if all of its own entry-to-return paths store it or imply equality (parameters carrying the field's / source's value are mapped from the call's arguments), and a condition computed by a helper is evaluated from the helper's paths. " +
			"(inheritreg) The plumbing that makes inherited labels reach an endpoint: a parent (profile) entry is deleted from the registry only when it has neither children nor labels; when an item's parents are updated the item is unregistered from / the registry entry dropped for an old parent only if that parent is not among the new parents (membership test with the same projection on both sides) or after re-registration; the item's parent list only holds registry objects. " +
			"(mirror/filter, sortfeeds/range, sortfeeds/owners) locate the per-endpoint filter loop by a backward value-flow slice from the []TierInfo argument of OnEndpointTierUpdate (appends, local structs, results of felix/calc helpers, local closures), so the loop may live in any helper; the endpoint being sent is the callback's first argument mapped through helper parameters, and the Contains test may sit in a predicate helper. " +
			"(treekey) Every item handed to Delete on a sorted btree of PolicySorter is rebuilt from what is stored — PolKV.Value is (a copy of) the same tier's Policies[same key], every tierInfoKey field is read from the same-named field of one TierInfo before that field is reassigned — and every item handed to ReplaceOrInsert is what is stored from then on (PolKV{k,v} accompanied by Policies[k] = *v on every path; tierInfoKey fields read after their last reassignment; when the tree operation sits in a helper that is handed the TierInfo, the ordering is judged at each of the helper's call sites): btree.Delete locates by the comparator, so an item rebuilt from the incoming update misses whenever the update changes the sort key and the policy/tier stays listed twice. " +
			"(alternate, shared with C07) The label index reports match-started / match-stopped strictly alternating per (selector, endpoint): each callback is guarded by (non-)membership in a match map and paired with Add/Discard on it and its mirror, and a match-map entry is dropped only when its own set is empty — otherwise an endpoint deletion cannot find the matches to stop and policies stay attached to (and active for) endpoints they no longer match.",
		NotDecided: "That selector evaluation picks exactly the matching endpoints (C07); antisymmetry/transitivity of the comparators beyond the direction of each comparison; nil-Order handling of TierLess; that only policies applying to a local endpoint are sent (C02 families).",
		Assumptions: []string{
			"go/types + go/ssa (x/tools v0.50.0) model of the current source, CGO_ENABLED=0 build",
			"github.com/google/btree: NewG(less) orders by less, Ascend visits in ascending order, ReplaceOrInsert replaces an item that compares equal",
			"multidict Put/Discard/Contains have set semantics",
			"resource names and namespaces consist of [a-z0-9.-] (libcalico-go validator nameLabelFmt/nameSubdomainFmt), so '-' (0x2d) is the smallest byte that can follow a common prefix",
		},
		Run: runC03,
		Fixtures: []Fixture{
			{Name: "policy tie-break ignores Kind", File: "felix/calc/policy_sorter.go",
				Old: "\t\treturn i.Key.Kind < j.Key.Kind\n", New: "\t\treturn false\n", Expect: "C03.total/PolKVLess/PolicyKey.Kind"},
			{Name: "policy tie-break compares the first policy's namespace with itself", File: "felix/calc/policy_sorter.go",
				Old: "\t\tif i.Key.Namespace != j.Key.Namespace {\n\t\t\treturn i.Key.Namespace < j.Key.Namespace\n\t\t}\n", New: "\t\tif i.Key.Namespace != i.Key.Namespace {\n\t\t\treturn i.Key.Namespace < i.Key.Namespace\n\t\t}\n", Expect: "C03.total/PolKVLess/PolicyKey.Namespace"},
			{Name: "F15 re-introduced: tie-break on a '/'-joined string", File: "felix/calc/policy_sorter.go",
				Old: "\t\tif i.Key.Name != j.Key.Name {\n\t\t\treturn i.Key.Name < j.Key.Name\n\t\t}\n\t\tif i.Key.Namespace != j.Key.Namespace {\n\t\t\treturn i.Key.Namespace < j.Key.Namespace\n\t\t}\n\t\treturn i.Key.Kind < j.Key.Kind\n",
				New: "\t\treturn fmt.Sprintf(\"%s/%s/%s\", i.Key.Name, i.Key.Namespace, i.Key.Kind) < fmt.Sprintf(\"%s/%s/%s\", j.Key.Name, j.Key.Namespace, j.Key.Kind)\n", Expect: "C03.tiebreak/PolKVLess"},
			{Name: "tiers with equal order compare equal (name ignored)", File: "felix/calc/policy_sorter.go",
				Old: "\tif i.Order == j.Order || *i.Order == *j.Order {\n\t\treturn i.Name < j.Name\n\t}\n", New: "\tif i.Order == j.Order || *i.Order == *j.Order {\n\t\treturn false\n\t}\n", Expect: "C03.total/TierLess/tierInfoKey.Name"},
			{Name: "policies sorted by descending order", File: "felix/calc/policy_sorter.go",
				Old: "\treturn i.Value.Order < j.Value.Order\n", New: "\treturn i.Value.Order > j.Value.Order\n", Expect: "C03.ascending/PolKVLess"},
			{Name: "tiers sorted by descending name", File: "felix/calc/policy_sorter.go",
				Old: "\t\treturn i.Name < j.Name\n", New: "\t\treturn j.Name < i.Name\n", Expect: "C03.ascending/TierLess"},
			{Name: "tier tie-break compares names joined with a '/' separator", File: "felix/calc/policy_sorter.go",
				Old: "\t\treturn i.Name < j.Name\n", New: "\t\treturn fmt.Sprintf(\"%s/%v\", i.Name, i.Valid) < fmt.Sprintf(\"%s/%v\", j.Name, j.Valid)\n", Expect: "C03.tiebreak/TierLess"},
			{Name: "tier tie-break puts another field before the name", File: "felix/calc/policy_sorter.go",
				Old: "\t\treturn i.Name < j.Name\n", New: "\t\treturn fmt.Sprintf(\"%v,%s\", i.Valid, i.Name) < fmt.Sprintf(\"%v,%s\", j.Valid, j.Name)\n", Expect: "C03.tiebreak/TierLess"},
			{Name: "inherited profile labels override the endpoint's own labels", File: "felix/labelindex/label_inheritance_index.go",
				Old: "\tif handle, present = itemData.labels.GetHandle(labelName); present {\n\t\treturn\n\t}\n\tfor _, parent := range itemData.parents {\n\t\tif handle, present = parent.labels.GetHandle(labelName); present {\n\t\t\treturn\n\t\t}\n\t}\n\treturn\n",
				New: "\tfor _, parent := range itemData.parents {\n\t\tif handle, present = parent.labels.GetHandle(labelName); present {\n\t\t\treturn\n\t\t}\n\t}\n\treturn itemData.labels.GetHandle(labelName)\n", Expect: "C03.ownfirst/itemData.GetHandle"},
			{Name: "named-port index consults parents even when the endpoint has the label", File: "felix/labelindex/named_port_index.go",
				Old: "\tif handle, present = d.labels.GetHandle(labelName); present {\n\t\treturn\n\t}\n", New: "\thandle, present = d.labels.GetHandle(labelName)\n", Expect: "C03.ownfirst/endpointData.GetHandle"},
			{Name: "unset policy order sorts first", File: "felix/calc/policy_sorter.go",
				Old: "var polMetaDefaultOrder = math.Inf(1)", New: "var polMetaDefaultOrder = math.Inf(-1)", Expect: "C03.unsetlast"},
			{Name: "unset policy order becomes zero", File: "felix/calc/policy_sorter.go",
				Old: "\t\tm.Order = polMetaDefaultOrder\n", New: "\t\tm.Order = 0\n", Expect: "C03.unsetlast"},
			{Name: "ingress list not filtered by policy type", File: "felix/calc/event_sequencer.go",
				Old: "\tif pol.GovernsIngress() {\n\t\ttierInfo.IngressPolicies = append(tierInfo.IngressPolicies, &id)\n\t}\n", New: "\ttierInfo.IngressPolicies = append(tierInfo.IngressPolicies, &id)\n", Expect: "C03.dirsplit/append/IngressPolicies"},
			{Name: "egress list filtered by the ingress flag", File: "felix/calc/event_sequencer.go",
				Old: "\tif egressAllowed && pol.GovernsEgress() {", New: "\tif egressAllowed && pol.GovernsIngress() {", Expect: "C03.dirsplit/append/EgressPolicies"},
			{Name: "GovernsEgress tests the ingress flag", File: "felix/calc/policy_sorter.go",
				Old: "\treturn p.Value.Flags&policyMetaEgress != 0\n", New: "\treturn p.Value.Flags&policyMetaIngress != 0\n", Expect: "C03.dirsplit/governs/GovernsEgress"},
			{Name: "every typed policy is marked ingress", File: "felix/calc/policy_sorter.go",
				Old: "\t\tif strings.EqualFold(t, \"ingress\") {\n\t\t\tm.Flags |= policyMetaIngress\n\t\t} else if", New: "\t\tm.Flags |= policyMetaIngress\n\t\tif", Expect: "C03.dirsplit/flag/"},
			{Name: "match recorded in one index only", File: "felix/calc/policy_resolver.go",
				Old: "\tpr.policyIDToEndpointIDs.Put(policyKey, endpointKey)\n\tpr.endpointIDToPolicyIDs.Put(endpointKey, policyKey)\n", New: "\tpr.policyIDToEndpointIDs.Put(policyKey, endpointKey)\n", Expect: "C03.mirror/PolicyResolver.OnPolicyMatch"},
			{Name: "match-stopped leaves the endpoint index stale", File: "felix/calc/policy_resolver.go",
				Old: "\tpr.endpointIDToPolicyIDs.Discard(endpointKey, policyKey)\n", New: "", Expect: "C03.mirror/PolicyResolver.OnPolicyMatchStopped"},
			{Name: "endpoint gets every active policy of the tier", File: "felix/calc/policy_resolver.go",
				Old: "\t\t\tif pr.endpointIDToPolicyIDs.Contains(endpointID, polKV.Key) {\n", New: "\t\t\tif pr.policyIDToEndpointIDs.ContainsKey(polKV.Key) {\n", Expect: "C03.mirror/filter/"},
			{Name: "tier list taken from the unsorted tier map", File: "felix/calc/policy_resolver.go",
				Old: "\tfor _, tier := range pr.sortedTierData {\n", New: "\tfor _, tier := range pr.policySorter.tiers {\n", Expect: "C03.sortfeeds/range/"},
			{Name: "tier order refreshed only when the new order is set (value -> nil ignored)", File: "felix/calc/policy_sorter.go",
				Old: "\t\t\tif tierInfo.Order != newTier.Order {\n", New: "\t\t\tif newTier.Order != nil && (tierInfo.Order == nil || *tierInfo.Order != *newTier.Order) {\n", Expect: "C03.keysync/PolicySorter.OnUpdate/TierInfo.Order"},
			{Name: "tier order taken from the first update only", File: "felix/calc/policy_sorter.go",
				Old: "\t\t\tif tierInfo.Order != newTier.Order {\n", New: "\t\t\tif tierInfo.Order == nil {\n", Expect: "C03.keysync/PolicySorter.OnUpdate/TierInfo.Order"},
			{Name: "tier order compared by value but a nil new order dereferenced lazily (nil vs non-nil treated as equal)", File: "felix/calc/policy_sorter.go",
				Old: "\t\t\tif tierInfo.Order != newTier.Order {\n", New: "\t\t\tif tierInfo.Order != nil && newTier.Order != nil && *tierInfo.Order != *newTier.Order {\n", Expect: "C03.keysync/PolicySorter.OnUpdate/TierInfo.Order"},
			{Name: "re-created tier keeps Valid == false in its sort key", File: "felix/calc/policy_sorter.go",
				Old: "\t\t\ttierInfo.Valid = true\n", New: "", Expect: "C03.keysync/PolicySorter.OnUpdate/TierInfo.Valid"},
			{Name: "item removed from every old parent, still-current ones included (parent dropped while referenced)", File: "felix/labelindex/label_inheritance_index.go",
				Old: "\t\tif currentParentIDs.Contains(parent.id) {\n\t\t\t// Make sure we don't delete current parents from the index.\n\t\t\tcontinue\n\t\t}\n", New: "", Expect: "C03.inheritreg/drop/InheritIndex.onItemParentsUpdate"},
			{Name: "current-parent set filled with pointers but queried with ids", File: "felix/labelindex/label_inheritance_index.go",
				Old: "\t\tcurrentParentIDs.Add(parentData.id)\n", New: "\t\tcurrentParentIDs.Add(parentData)\n", Expect: "C03.inheritreg/drop/InheritIndex.onItemParentsUpdate"},
			{Name: "parent with labels but no children forgotten", File: "felix/labelindex/label_inheritance_index.go",
				Old: "\tif parent.itemIDs == nil && parent.labels.IsNil() {\n", New: "\tif parent.itemIDs == nil || parent.labels.IsNil() {\n", Expect: "C03.inheritreg/delete/InheritIndex.discardParentIfEmpty"},
			{Name: "item references a private parent object instead of the registered one", File: "felix/labelindex/label_inheritance_index.go",
				Old: "\t\t\tparents[i] = idx.getOrCreateParent(pID)\n", New: "\t\t\tparents[i] = &parentData{id: pID}\n", Expect: "C03.inheritreg/refs/InheritIndex.UpdateLabels"},
			{Name: "seed C03-3/C01-3: policy moved to another tier is deleted from the old tier's tree with the new metadata", File: "felix/calc/policy_sorter.go",
				Old: "\t\toldPolicy := oldTierInfo.Policies[key]\n\t\toldTiKey := tierInfoKey{\n\t\t\tName:  oldTierInfo.Name,\n\t\t\tOrder: oldTierInfo.Order,\n\t\t\tValid: oldTierInfo.Valid,\n\t\t}\n\t\toldTierInfo.SortedPolicies.Delete(PolKV{Key: key, Value: &oldPolicy})\n",
				New: "\t\toldTiKey := tierInfoKey{\n\t\t\tName:  oldTierInfo.Name,\n\t\t\tOrder: oldTierInfo.Order,\n\t\t\tValid: oldTierInfo.Valid,\n\t\t}\n\t\toldTierInfo.SortedPolicies.Delete(PolKV{Key: key, Value: newPolicy})\n", Expect: "C03.treekey/delete/PolKV@PolicySorter.UpdatePolicy"},
			{Name: "policy update within a tier deletes the old tree entry with the new metadata", File: "felix/calc/policy_sorter.go",
				Old: "\t\t\ttierInfo.SortedPolicies.Delete(PolKV{Key: key, Value: oldPolicy})\n\t\t}\n\t\ttierInfo.SortedPolicies.ReplaceOrInsert(", New: "\t\t\ttierInfo.SortedPolicies.Delete(PolKV{Key: key, Value: newPolicy})\n\t\t}\n\t\ttierInfo.SortedPolicies.ReplaceOrInsert(", Expect: "C03.treekey/delete/PolKV@PolicySorter.UpdatePolicy"},
			{Name: "policy moved to another tier is deleted from the old tier's tree with the value stored in the NEW tier", File: "felix/calc/policy_sorter.go",
				Old: "\t\toldPolicy := oldTierInfo.Policies[key]\n", New: "\t\toldPolicy := tierInfo.Policies[key]\n", Expect: "C03.treekey/delete/PolKV@PolicySorter.UpdatePolicy"},
			{Name: "inserted policy not recorded in the tier's Policies map", File: "felix/calc/policy_sorter.go",
				Old: "\t\ttierInfo.Policies[key] = *newPolicy\n", New: "", Expect: "C03.treekey/insert/PolKV@PolicySorter.UpdatePolicy"},
			{Name: "deleted tier's old sort key is rebuilt after Valid was cleared", File: "felix/calc/policy_sorter.go",
				Old: "\t\t\t\toldKey := tierInfoKey{\n\t\t\t\t\tName:  tierInfo.Name,\n\t\t\t\t\tOrder: tierInfo.Order,\n\t\t\t\t\tValid: tierInfo.Valid,\n\t\t\t\t}\n\t\t\t\tpoc.sortedTiers.Delete(oldKey)\n\t\t\t\ttierInfo.Valid = false\n",
				New: "\t\t\t\ttierInfo.Valid = false\n\t\t\t\toldKey := tierInfoKey{\n\t\t\t\t\tName:  tierInfo.Name,\n\t\t\t\t\tOrder: tierInfo.Order,\n\t\t\t\t\tValid: tierInfo.Valid,\n\t\t\t\t}\n\t\t\t\tpoc.sortedTiers.Delete(oldKey)\n", Expect: "C03.treekey/delete/tierInfoKey@PolicySorter.OnUpdate"},
			{Name: "tier update deletes the old sort key using the incoming order", File: "felix/calc/policy_sorter.go",
				Old: "\t\t\t\toldKey := tierInfoKey{\n\t\t\t\t\tName:  tierInfo.Name,\n\t\t\t\t\tOrder: tierInfo.Order,\n\t\t\t\t\tValid: tierInfo.Valid,\n\t\t\t\t}\n\t\t\t\tpoc.sortedTiers.Delete(oldKey)\n\t\t\t}\n\t\t\tif tierInfo.Order != newTier.Order {",
				New: "\t\t\t\toldKey := tierInfoKey{\n\t\t\t\t\tName:  tierInfo.Name,\n\t\t\t\t\tOrder: newTier.Order,\n\t\t\t\t\tValid: tierInfo.Valid,\n\t\t\t\t}\n\t\t\t\tpoc.sortedTiers.Delete(oldKey)\n\t\t\t}\n\t\t\tif tierInfo.Order != newTier.Order {", Expect: "C03.treekey/delete/tierInfoKey@PolicySorter.OnUpdate"},
			{Name: "seed C03-4: reverse match map entry dropped when the selector's (not the endpoint's) set is empty", File: "felix/labelindex/label_inheritance_index.go",
				Old: "\t\tidx.selIdsByLabelId[labelId].Discard(selId)\n\t\tif idx.selIdsByLabelId[labelId].Len() == 0 {", New: "\t\tidx.selIdsByLabelId[labelId].Discard(selId)\n\t\tif labelIds.Len() == 0 {", Expect: "C03.alternate/drop/selIdsByLabelId@InheritIndex.deleteMatch"},
			{Name: "sorted tiers produced by a descending walk", File: "felix/calc/policy_sorter.go",
				Old: "\t\tpoc.sortedTiers.Ascend(func(t tierInfoKey) bool {", New: "\t\tpoc.sortedTiers.Descend(func(t tierInfoKey) bool {", Expect: "C03.sortfeeds/ascend/"},
		},
	})
}

const c03BtreePkg = "github.com/google/btree"

const c03LabelPkg = "felix/labelindex"

const c03TreeKeyText = "every item handed to Delete on a sorted btree of PolicySorter is rebuilt from what is stored (PolKV.Value: a copy of the same tier's Policies[same key]; tierInfoKey: each field read from the same-named field of one TierInfo before it is reassigned), and every item handed to ReplaceOrInsert is what is stored from then on (PolKV{k,v} accompanied by Policies[k] = *v of that tier on every path; tierInfoKey fields read after their last reassignment)"

func runC03(c *Ctx) {
	p := c.Load(calcPkg, c03LabelPkg)
	c.Rule("C03.total", "E-FIELDS", "each comparator passed to btree.NewG reads every field of its key type (and the Order it sorts by) from both arguments", 7)
	c.Rule("C03.ascending", "E-FLOW", "every ordering comparison in a btree comparator whose operands split into argument-0 / argument-1 sides is ascending", 4)
	c.Rule("C03.tiebreak", "E-CONST/E-FLOW", "the string tie-break of each comparator orders by the key's Name first: the operands are the Name fields themselves, or fmt.Sprintf joins that start with Name and whose separators sort below every byte admissible in a name ('-' is the smallest)", 2)
	c.Rule("C03.ownfirst", "E-ORDER/E-GUARD", "in every felix/labelindex GetHandle that combines own and inherited labels, each lookup in a parent's labels is reachable only after the lookup in the item's own labels reported the label absent", 2)
	c.Rule("C03.unsetlast", "E-CONST/E-GUARD", "policy without Order is given polMetaDefaultOrder = math.Inf(+), a variable no function reassigns", 1)
	c.Rule("C03.dirsplit", "E-GUARD", "ingress/egress lists appended only under GovernsIngress/GovernsEgress; those test exactly their flag; flags set only under the matching Types comparison or empty Types", 7)
	c.Rule("C03.mirror", "E-PAIR/E-GUARD", "the two policy<->endpoint multidicts of PolicyResolver are updated together with swapped arguments; per-endpoint policy filter is Contains(endpoint, policy) on the endpoint-keyed one", 5)
	c.Rule("C03.keysync", "E-FLOW/E-GUARD", "wherever a *model.Tier value is at hand and a tierInfoKey is (re-)inserted into the sorted tree, each mutable key field of the TierInfo (Order, Valid) was stored from its source on the path, or the path's branch conditions imply field == source (same pointer, equal pointees, both nil)", 2)
	c.Rule("C03.inheritreg", "E-GUARD/E-ORDER/E-FLOW", "label inheritance plumbing (shared with C07.parentreg): a parent registry entry is deleted only when it has no children and no labels; an item is unregistered from / the registry entry dropped for an old parent only if that parent is not among the item's new parents (or after re-registration); an item's parent list holds registry objects only", 4)
	c.Rule("C03.sortfeeds", "E-FLOW/E-OWN", "sortedTierData only from PolicySorter.Sorted(); per-endpoint appends only under range over sortedTierData/OrderedPolicies; Sorted() appends only inside Ascend callbacks; OrderedPolicies has no other writer", 6)

	// Each family runs on its own (c01Isolated): an anchor lost by one of them breaks
	// the run but does not silence the families that do not depend on it.
	c01Isolated(c, func() {
		cmps := c03Comparators(c, p)
		c01Isolated(c, func() { c03Total(c, p, cmps) })
		c01Isolated(c, func() { c03Ascending(c, p, cmps) })
		c01Isolated(c, func() { c03TieBreak(c, p, cmps) })
	})
	c01Isolated(c, func() { c03OwnFirst(c, p) })
	c01Isolated(c, func() { c03UnsetLast(c, p) })
	c01Isolated(c, func() { c03DirSplit(c, p) })
	c01Isolated(c, func() { c03Mirror(c, p) })
	c01Isolated(c, func() { c03SortFeeds(c, p) })
	c01Isolated(c, func() { c03KeySync(c, p) })
	c.Rule("C03.treekey", "E-PAIR/E-FLOW", c03TreeKeyText, 11)
	c01Isolated(c, func() { c03TreeKey(c, p) })
	// match-start/stop alternation of the label index (implemented in rules_C07.go): the policy<->endpoint
	// match relation that PolicyResolver mirrors is exactly the set of selector matches only if every
	// OnMatchStarted is eventually followed by its OnMatchStopped — the index's two match maps must stay mirrors.
	c.Alias("C07.alternate", "C03.alternate", func() {
		c.Rule("C07.alternate", "E-GUARD/E-PAIR/E-OWN", "label index (shared with C07.alternate): each OnMatchStarted/OnMatchStopped call is guarded by (non-)membership of the pair in a match map, paired with Add/Discard on that map and its mirror; match maps are mutated, created and dropped nowhere else (an entry is dropped only when its own set is empty)", 16)
		c01Isolated(c, func() { c07Alternate(c, c07BuildModel(c, p)) })
	})
	c01Isolated(c, func() { c07ParentReg(c, p, "C03.inheritreg") })
}

// ------------------------------------------------------------ comparators --

type c03Cmp struct {
	Fn   *ssa.Function
	Elem types.Type
	Site ssa.Instruction
}

func c03StripFn(v ssa.Value) *ssa.Function {
	for {
		switch x := v.(type) {
		case *ssa.ChangeType:
			v = x.X
			continue
		case *ssa.MakeClosure:
			f, _ := x.Fn.(*ssa.Function)
			return f
		case *ssa.Function:
			return x
		}
		return nil
	}
}

// c03Comparators finds the less-functions handed to btree.NewG in felix/calc.
func c03Comparators(c *Ctx, p *Prog) []c03Cmp {
	var out []c03Cmp
	seen := map[*ssa.Function]bool{}
	for _, f := range p.AllFuncs() {
		for _, cs := range callsIn(f, false, func(fn *types.Func) bool {
			return fn.Name() == "NewG" && fn.Pkg() != nil && fn.Pkg().Path() == c03BtreePkg
		}) {
			args := cs.Common().Args
			if len(args) != 2 {
				continue
			}
			lf := c03StripFn(args[1])
			if lf == nil || lf.Blocks == nil || len(lf.Params) != 2 {
				c.Undecided("C03.total/"+fnName(f), p.Pos(cs.Instr.Pos()), "comparator passed to btree.NewG is not a function of felix/calc with a body")
				continue
			}
			if seen[lf] {
				continue
			}
			seen[lf] = true
			out = append(out, c03Cmp{lf, lf.Params[0].Type(), cs.Instr})
		}
	}
	if len(out) == 0 {
		c.Lost("no btree.NewG comparator in felix/calc")
	}
	sort.Slice(out, func(i, j int) bool { return fnName(out[i].Fn) < fnName(out[j].Fn) })
	return out
}

// c03ParamRoots: indices of fn's parameters that the access chain of v is rooted at.
func c03ParamRoots(fn *ssa.Function, v ssa.Value) map[int]bool {
	out := map[int]bool{}
	mark := func(r ssa.Value) {
		if par, ok := r.(*ssa.Parameter); ok && par.Parent() == fn {
			for i, q := range fn.Params {
				if q == par {
					out[i] = true
				}
			}
		}
	}
	for _, r := range c05Roots(v) {
		mark(r)
		// a struct parameter whose fields are addressed is spilled to a local:
		// the local's content is the parameter
		if al, ok := r.(*ssa.Alloc); ok && al.Referrers() != nil {
			for _, ref := range *al.Referrers() {
				if st, ok := ref.(*ssa.Store); ok && st.Addr == ssa.Value(al) {
					mark(st.Val)
				}
			}
		}
	}
	return out
}

func c03Total(c *Ctx, p *Prog, cmps []c03Cmp) {
	for _, cm := range cmps {
		name := fnName(cm.Fn)
		site := p.Pos(cm.Fn.Pos())
		// required (type, field) pairs, derived from the element type
		type req struct {
			T     types.Type
			Field string
		}
		var reqs []req
		elem := cm.Elem
		switch namedTypeName(elem) {
		case "PolKV":
			st, _ := elem.Underlying().(*types.Struct)
			if st == nil {
				c.Lost("PolKV is not a struct")
			}
			var keyT, valT types.Type
			for i := 0; i < st.NumFields(); i++ {
				switch qualTypeName(st.Field(i).Type()) {
				case "libcalico-go/lib/backend/model.PolicyKey":
					keyT = st.Field(i).Type()
				case "felix/calc.policyMetadata":
					valT = st.Field(i).Type()
				}
			}
			if keyT == nil || valT == nil {
				c.Lost("PolKV no longer holds a model.PolicyKey and a *policyMetadata")
			}
			for _, f := range structFieldNames(keyT, false) {
				reqs = append(reqs, req{keyT, f})
			}
			has := false
			for _, f := range structFieldNames(valT, false) {
				if f == "Order" {
					has = true
				}
			}
			if !has {
				c.Lost("policyMetadata.Order")
			}
			reqs = append(reqs, req{valT, "Order"})
		default:
			// a plain key struct: every field is part of the identity
			if _, ok := elem.Underlying().(*types.Struct); !ok {
				c.Undecided("C03.total/"+name, site, "comparator element type %s is not a struct", elem)
				continue
			}
			for _, f := range structFieldNames(elem, false) {
				reqs = append(reqs, req{elem, f})
			}
		}
		cl := p.closure(cm.Fn)
		for _, r := range reqs {
			key := "C03.total/" + name + "/" + namedTypeName(r.T) + "." + r.Field
			reads := fieldsRead(cl, r.T)[r.Field]
			sides := map[int]bool{}
			inCallee := false
			for _, in := range reads {
				if in.Parent() != cm.Fn {
					inCallee = true
					continue
				}
				v, _ := in.(ssa.Value)
				if v == nil {
					continue
				}
				for i := range c03ParamRoots(cm.Fn, v) {
					sides[i] = true
				}
			}
			good := (sides[0] && sides[1]) || (inCallee && len(sides) == 0)
			c.Check(good, key, site,
				fmt.Sprintf("%s reads %s.%s of both arguments", name, namedTypeName(r.T), r.Field),
				fmt.Sprintf("%s does not read %s.%s of both arguments (first: %v, second: %v): two distinct items that differ only there compare equal and the btree keeps one of them", name, namedTypeName(r.T), r.Field, sides[0], sides[1]))
		}
	}
}

// c03Sides: parameter indices of fn in the backward slice of v (through
// operands and through stores into local allocations, e.g. variadic argument arrays).
func c03Sides(fn *ssa.Function, v ssa.Value) map[int]bool {
	out := map[int]bool{}
	seen := map[ssa.Value]bool{}
	var walk func(v ssa.Value, d int)
	walk = func(v ssa.Value, d int) {
		if v == nil || seen[v] || d > 40 {
			return
		}
		seen[v] = true
		if par, ok := v.(*ssa.Parameter); ok {
			for i, q := range fn.Params {
				if q == par {
					out[i] = true
				}
			}
			return
		}
		if al, ok := v.(*ssa.Alloc); ok && al.Referrers() != nil {
			var addrs []ssa.Value
			addrs = append(addrs, al)
			for _, r := range *al.Referrers() {
				switch x := r.(type) {
				case *ssa.IndexAddr:
					addrs = append(addrs, x)
				case *ssa.FieldAddr:
					addrs = append(addrs, x)
				}
			}
			for _, a := range addrs {
				if a.Referrers() == nil {
					continue
				}
				for _, r := range *a.Referrers() {
					if st, ok := r.(*ssa.Store); ok && st.Addr == a {
						walk(st.Val, d+1)
					}
				}
			}
			return
		}
		in, ok := v.(ssa.Instruction)
		if !ok {
			return
		}
		for _, op := range in.Operands(nil) {
			if op != nil && *op != nil {
				walk(*op, d+1)
			}
		}
	}
	walk(v, 0)
	return out
}

func c03Ascending(c *Ctx, p *Prog, cmps []c03Cmp) {
	for _, cm := range cmps {
		name := fnName(cm.Fn)
		n := 0
		allInstrs(cm.Fn, false, func(_ *ssa.Function, in ssa.Instruction) {
			bo, ok := in.(*ssa.BinOp)
			if !ok {
				return
			}
			var lessFirst bool // X on the "smaller" side
			switch bo.Op {
			case token.LSS, token.LEQ:
				lessFirst = true
			case token.GTR, token.GEQ:
				lessFirst = false
			default:
				return
			}
			sx, sy := c03Sides(cm.Fn, bo.X), c03Sides(cm.Fn, bo.Y)
			xOnly0 := sx[0] && !sx[1]
			xOnly1 := sx[1] && !sx[0]
			yOnly0 := sy[0] && !sy[1]
			yOnly1 := sy[1] && !sy[0]
			var asc bool
			switch {
			case xOnly0 && yOnly1:
				asc = lessFirst
			case xOnly1 && yOnly0:
				asc = !lessFirst
			default:
				return // not a first-vs-second comparison
			}
			n++
			what := lastField(bo.X)
			if what == "" {
				what = "tiebreak(" + bo.X.Type().String() + ")"
			}
			c.Check(asc, "C03.ascending/"+name+"/"+what, p.Pos(bo.Pos()),
				"first argument sorts before the second when its "+what+" is smaller",
				fmt.Sprintf("%s orders by %s descending (%s %s %s with the operands taken from the %s argument first): tiers/policies must be emitted in ascending order", name, what, path(bo.X), bo.Op, path(bo.Y), map[bool]string{true: "second", false: "first"}[xOnly1]))
		})
		if n == 0 {
			c.Undecided("C03.ascending/"+name, p.Pos(cm.Fn.Pos()), "no ordering comparison between the two arguments found in %s", name)
		}
	}
}

// --------------------------------------------------------------- tiebreak --

// c03MinNameByte is the smallest byte admissible in a Calico/Kubernetes resource
// name or namespace ([a-z0-9.-], libcalico-go validator nameLabelFmt /
// nameSubdomainFmt).  Comparing "A<sep>B" strings equals comparing the tuples
// (A, B) only if <sep> sorts below every byte that can follow a common prefix
// inside A, i.e. below '-'.
const c03MinNameByte = '-'

// c03Joined describes one operand of a string tie-break comparison.
type c03Joined struct {
	Direct *types.Var   // operand is this field, read directly
	Format string       // or: fmt.Sprintf with this constant format ...
	Args   []*types.Var // ... over these fields (nil entry = not a field read)
	Bad    string       // or: not understood
}

// c03SprintfArgs returns the variadic arguments of a fmt.Sprintf call in index order.
func c03SprintfArgs(call *ssa.Call) ([]ssa.Value, bool) {
	if len(call.Common().Args) != 2 {
		return nil, false
	}
	sl, ok := call.Common().Args[1].(*ssa.Slice)
	if !ok {
		if isNilConst(call.Common().Args[1]) {
			return nil, true
		}
		return nil, false
	}
	al, ok := sl.X.(*ssa.Alloc)
	if !ok || al.Referrers() == nil {
		return nil, false
	}
	byIdx := map[int64]ssa.Value{}
	var max int64 = -1
	for _, r := range *al.Referrers() {
		ia, ok := r.(*ssa.IndexAddr)
		if !ok {
			continue
		}
		cv, ok := constOf(ia.Index)
		if !ok || ia.Referrers() == nil {
			return nil, false
		}
		idx, _ := constant.Int64Val(cv)
		for _, rr := range *ia.Referrers() {
			if st, ok := rr.(*ssa.Store); ok && st.Addr == ssa.Value(ia) {
				if _, dup := byIdx[idx]; dup {
					return nil, false
				}
				byIdx[idx] = st.Val
			}
		}
		if idx > max {
			max = idx
		}
	}
	out := make([]ssa.Value, max+1)
	for i := range out {
		v, ok := byIdx[int64(i)]
		if !ok {
			return nil, false
		}
		out[i] = v
	}
	return out, true
}

func c03StripIface(v ssa.Value) ssa.Value {
	for {
		switch x := v.(type) {
		case *ssa.MakeInterface:
			v = x.X
			continue
		case *ssa.ChangeType:
			v = x.X
			continue
		}
		return v
	}
}

func c03Operand(v ssa.Value) c03Joined {
	if fv := fieldVar(v); fv != nil {
		return c03Joined{Direct: fv}
	}
	call, ok := v.(*ssa.Call)
	if !ok {
		return c03Joined{Bad: "operand " + path(v) + " is neither a field read nor a fmt.Sprintf call"}
	}
	f := calleeOf(call.Common())
	if f == nil || f.Pkg() == nil || f.Pkg().Path() != "fmt" || f.Name() != "Sprintf" {
		return c03Joined{Bad: "operand is the result of " + path(v) + ", not of fmt.Sprintf"}
	}
	cv, ok := constOf(call.Common().Args[0])
	if !ok || cv.Kind() != constant.String {
		return c03Joined{Bad: "fmt.Sprintf format is not a constant"}
	}
	args, ok := c03SprintfArgs(call)
	if !ok {
		return c03Joined{Bad: "cannot enumerate the fmt.Sprintf arguments"}
	}
	j := c03Joined{Format: constant.StringVal(cv)}
	for _, a := range args {
		j.Args = append(j.Args, fieldVar(c03StripIface(a)))
	}
	return j
}

// c03FormatSegments splits a format made only of plain %s / %v verbs into the
// literal segments around the verbs: "a%s/%s" -> ["a", "/", ""].
func c03FormatSegments(format string) ([]string, bool) {
	var segs []string
	cur := ""
	for i := 0; i < len(format); i++ {
		if format[i] != '%' {
			cur += string(format[i])
			continue
		}
		if i+1 >= len(format) {
			return nil, false
		}
		switch format[i+1] {
		case 's', 'v':
			segs = append(segs, cur)
			cur = ""
			i++
		default:
			return nil, false // %%, flags, widths, other verbs: outside the fragment
		}
	}
	return append(segs, cur), true
}

func c03TieBreak(c *Ctx, p *Prog, cmps []c03Cmp) {
	for _, cm := range cmps {
		name := fnName(cm.Fn)
		n := 0
		allInstrs(cm.Fn, false, func(_ *ssa.Function, in ssa.Instruction) {
			bo, ok := in.(*ssa.BinOp)
			if !ok {
				return
			}
			switch bo.Op {
			case token.LSS, token.LEQ, token.GTR, token.GEQ:
			default:
				return
			}
			if b, ok := bo.X.Type().Underlying().(*types.Basic); !ok || b.Info()&types.IsString == 0 {
				return
			}
			sx, sy := c03Sides(cm.Fn, bo.X), c03Sides(cm.Fn, bo.Y)
			if !((sx[0] && !sx[1] && sy[1] && !sy[0]) || (sx[1] && !sx[0] && sy[0] && !sy[1])) {
				return // not a first-vs-second comparison
			}
			site := p.Pos(bo.Pos())
			x, y := c03Operand(bo.X), c03Operand(bo.Y)
			if x.Bad != "" || y.Bad != "" {
				n++
				c.Undecided("C03.tiebreak/"+name+"/unknown", site, "string tie-break in %s: %s %s", name, x.Bad, y.Bad)
				return
			}
			if x.Direct != nil || y.Direct != nil {
				if x.Direct != y.Direct {
					n++
					c.Violate("C03.tiebreak/"+name+"/"+path(bo.X), site, "%s compares %s with %s: the two sides of the tie-break are different fields", name, path(bo.X), path(bo.Y))
					return
				}
				if x.Direct.Name() != "Name" {
					return // a secondary tie-break on another key field; not judged here
				}
				n++
				c.Ok("C03.tiebreak/"+name+"/Name", site, "%s breaks ties by comparing the Name fields directly", name)
				return
			}
			// both operands are fmt.Sprintf joins
			n++
			first := "joined"
			if len(x.Args) > 0 && x.Args[0] != nil {
				first = x.Args[0].Name()
			}
			key := "C03.tiebreak/" + name + "/" + first
			if x.Format != y.Format || len(x.Args) != len(y.Args) {
				c.Violate(key, site, "%s joins the two sides with different formats (%q vs %q)", name, x.Format, y.Format)
				return
			}
			segs, ok := c03FormatSegments(x.Format)
			if !ok || len(segs) != len(x.Args)+1 {
				c.Undecided(key, site, "format %q of the tie-break in %s is outside the decided fragment (plain %%s/%%v verbs, one per argument)", x.Format, name)
				return
			}
			var fields []string
			for i := range x.Args {
				if x.Args[i] == nil || x.Args[i] != y.Args[i] {
					c.Undecided(key, site, "argument %d of the joined tie-break in %s is not the same key field on both sides", i, name)
					return
				}
				fields = append(fields, x.Args[i].Name())
			}
			if len(fields) == 0 || fields[0] != "Name" || segs[0] != "" {
				c.Violate(key, site, "%s breaks ties on %q over %v: the join does not start with the Name field, so equal-order items are not sorted by name", name, x.Format, fields)
				return
			}
			bad := ""
			// segs[i] follows field i-1.  Between two fields a separator is required;
			// after the last field the string may simply end (a proper prefix sorts
			// first, which is the tuple order).
			for i := 1; i < len(segs); i++ {
				if segs[i] == "" {
					if i < len(segs)-1 {
						bad = fmt.Sprintf("%s and %s are joined without a separator", fields[i-1], fields[i])
						break
					}
					continue
				}
				if segs[i][0] >= c03MinNameByte {
					bad = fmt.Sprintf("%s is followed by separator %q (0x%02x), which does not sort below '-' (0x2d), the smallest byte a name may contain", fields[i-1], segs[i][:1], segs[i][0])
					break
				}
			}
			c.Check(bad == "", key, site,
				fmt.Sprintf("%s breaks ties on the join %q over %v; every separator sorts below '-'", name, x.Format, fields),
				fmt.Sprintf("%s breaks ties by comparing the joins %q over %v: %s — when one name is a prefix of another and continues with '-' or '.', the longer name sorts FIRST (e.g. \"foo-bar\" before \"foo\"), so equal-order items are not emitted in ascending name order", name, x.Format, fields, bad))
		})
		if n == 0 {
			c.Undecided("C03.tiebreak/"+name, p.Pos(cm.Fn.Pos()), "no string tie-break between the two arguments found in %s", name)
		}
	}
}

// --------------------------------------------------------------- ownfirst --

// c03ViaReceiver classifies the receiver operand of a label lookup inside
// method fn: rooted at fn's receiver through field selections only ("own"), or
// through an element of a collection held by the receiver ("inherited").
func c03ViaReceiver(fn *ssa.Function, v ssa.Value) (own, inherited bool) {
	if len(fn.Params) == 0 {
		return false, false
	}
	viaElem := false
	seen := map[ssa.Value]bool{}
	for i := 0; i < 16 && v != nil && !seen[v]; i++ {
		seen[v] = true
		switch x := v.(type) {
		case *ssa.UnOp:
			if x.Op != token.MUL {
				return false, false
			}
			v = x.X
		case *ssa.FieldAddr:
			v = x.X
		case *ssa.Field:
			v = x.X
		case *ssa.IndexAddr:
			viaElem = true
			v = x.X
		case *ssa.Index:
			viaElem = true
			v = x.X
		case *ssa.Lookup:
			viaElem = true
			v = x.X
		case *ssa.Extract:
			// element produced by a range over a map/string iterator
			if nx, ok := x.Tuple.(*ssa.Next); ok {
				if rg, ok := nx.Iter.(*ssa.Range); ok {
					viaElem = true
					v = rg.X
					continue
				}
			}
			return false, false
		case *ssa.Parameter:
			if x != fn.Params[0] {
				return false, false
			}
			return !viaElem, viaElem
		default:
			return false, false
		}
	}
	return false, false
}

func c03OwnFirst(c *Ctx, p *Prog) {
	n := 0
	var fns []*ssa.Function
	for _, f := range p.AllFuncs() {
		if f.Name() == "GetHandle" && f.Pkg != nil && strings.HasSuffix(f.Pkg.Pkg.Path(), "/"+c03LabelPkg) && f.Signature.Recv() != nil && f.Blocks != nil {
			fns = append(fns, f)
		}
	}
	sort.Slice(fns, func(i, j int) bool { return fnName(fns[i]) < fnName(fns[j]) })
	for _, f := range fns {
		var ownCalls, parentCalls []CallSite
		for _, cs := range callsIn(f, false, func(fn *types.Func) bool { return fn.Name() == "GetHandle" }) {
			if len(cs.Args()) == 0 {
				continue
			}
			own, inh := c03ViaReceiver(f, cs.Args()[0])
			switch {
			case own:
				ownCalls = append(ownCalls, cs)
			case inh:
				parentCalls = append(parentCalls, cs)
			}
		}
		if len(parentCalls) == 0 {
			continue // not a combining implementation
		}
		n++
		key := "C03.ownfirst/" + fnName(f)
		site := p.Pos(f.Pos())
		if len(ownCalls) == 0 {
			c.Violate(key, site, "%s consults inherited labels but never the item's own labels", fnName(f))
			continue
		}
		ownAbsent := func(cond ssa.Value, pol bool) bool {
			if pol {
				return false
			}
			ex, ok := cond.(*ssa.Extract)
			if !ok || ex.Index != 1 {
				return false
			}
			for _, oc := range ownCalls {
				if v, ok := oc.Instr.(ssa.Value); ok && ex.Tuple == v {
					return true
				}
			}
			return false
		}
		bad := ""
		for _, pc := range parentCalls {
			if !guardedCut(pc.Instr, ownAbsent) {
				bad = p.Pos(pc.Instr.Pos())
			}
		}
		c.Check(bad == "", key, site,
			fmt.Sprintf("%d inherited-label lookup(s) reachable only after the own-label lookup reported the label absent", len(parentCalls)),
			fmt.Sprintf("%s looks a label up in a parent's (profile's) labels at %s on a path where the item's own labels have not been consulted and found lacking it: an inherited label can override the endpoint's own label, so policies are matched against the wrong effective labels", fnName(f), bad))
	}
	if n == 0 {
		c.Lost("no GetHandle in %s that combines own and inherited labels", c03LabelPkg)
	}
}

// -------------------------------------------------------------- unsetlast --

func c03UnsetLast(c *Ctx, p *Prog) {
	fn := p.Func(calcPkg, "ExtractPolicyMetadata")
	if fn == nil {
		c.Lost("ExtractPolicyMetadata")
	}
	orderF, _ := p.LookupObj(calcPkg, "policyMetadata.Order").(*types.Var)
	polOrder, _ := p.LookupExt("libcalico-go/lib/backend/model", "Policy.Order").(*types.Var)
	if orderF == nil || polOrder == nil {
		c.Lost("policyMetadata.Order / model.Policy.Order")
	}
	key := "C03.unsetlast/ExtractPolicyMetadata"
	isPolOrder := func(v ssa.Value) bool { return fieldVar(v) == polOrder }
	orderNil := eqCond(true, isPolOrder, isNilConst)
	var glob *ssa.Global
	nDefault := 0
	bad := ""
	for _, st := range storesToField(fn, false, "policyMetadata", "Order") {
		if fieldVar(st.Addr) != orderF {
			continue
		}
		// the store of *policy.Order
		if ld, ok := st.Val.(*ssa.UnOp); ok && ld.Op == token.MUL {
			if fieldVar(ld.X) == polOrder || (func() bool {
				l2, ok := ld.X.(*ssa.UnOp)
				return ok && l2.Op == token.MUL && fieldVar(l2.X) == polOrder
			})() {
				continue
			}
			if g, ok := ld.X.(*ssa.Global); ok {
				if !guardedCut(st, orderNil) {
					bad = "the default order is stored without a dominating `policy.Order == nil` test at " + p.Pos(st.Pos())
				}
				glob = g
				nDefault++
				continue
			}
		}
		if guardedCut(st, orderNil) {
			bad = fmt.Sprintf("when policy.Order is nil, Order is set to %s at %s instead of the +Inf default", path(st.Val), p.Pos(st.Pos()))
			nDefault++
		}
	}
	site := p.Pos(fn.Pos())
	if nDefault == 0 {
		c.Violate(key, site, "ExtractPolicyMetadata has no store to policyMetadata.Order under `policy.Order == nil`: a policy without order keeps Order 0 and sorts first instead of last")
		return
	}
	if bad != "" {
		c.Violate(key, site, "%s", bad)
		return
	}
	if glob == nil {
		c.Undecided(key, site, "default order is not a package-level variable")
		return
	}
	// initialiser of the global: math.Inf(positive constant)
	gobj, _ := glob.Object().(*types.Var)
	pk := p.Pkg(calcPkg)
	var init ast.Expr
	for _, f := range pk.Syntax {
		for _, d := range f.Decls {
			gd, ok := d.(*ast.GenDecl)
			if !ok || gd.Tok != token.VAR {
				continue
			}
			for _, s := range gd.Specs {
				vs := s.(*ast.ValueSpec)
				for i, nme := range vs.Names {
					if pk.TypesInfo.Defs[nme] == gobj && i < len(vs.Values) {
						init = vs.Values[i]
					}
				}
			}
		}
	}
	okInit := false
	desc := "no initialiser"
	if init != nil {
		desc = types.ExprString(init)
		if ce, ok := ast.Unparen(init).(*ast.CallExpr); ok && len(ce.Args) == 1 {
			if f := calleeObjAST(pk.TypesInfo, ce); f != nil && f.Pkg() != nil && f.Pkg().Path() == "math" && f.Name() == "Inf" {
				if cv, ok := constValue(pk.TypesInfo, ce.Args[0]); ok && constant.Sign(cv) > 0 {
					okInit = true
				}
			}
		}
	}
	// nobody reassigns it
	var writers []string
	for _, f := range p.AllFuncs() {
		allInstrs(f, false, func(fn *ssa.Function, in ssa.Instruction) {
			if st, ok := in.(*ssa.Store); ok && st.Addr == ssa.Value(glob) {
				writers = append(writers, fnName(fn))
			}
		})
	}
	sort.Strings(writers)
	c.Check(okInit && len(writers) == 0, key, site,
		fmt.Sprintf("nil Order -> %s = %s, never reassigned", glob.Name(), desc),
		fmt.Sprintf("default order %s = %s (want math.Inf of a positive sign), writers: %v — policies with unset order must sort last", glob.Name(), desc, writers))
}

// --------------------------------------------------------------- dirsplit --

func c03ConstInt(p *Prog, name string) int64 {
	k, _ := p.LookupObj(calcPkg, name).(*types.Const)
	if k == nil {
		return -1
	}
	v, ok := constant.Int64Val(k.Val())
	if !ok {
		return -1
	}
	return v
}

func c03DirSplit(c *Ctx, p *Prog) {
	ing, egr := c03ConstInt(p, "policyMetaIngress"), c03ConstInt(p, "policyMetaEgress")
	if ing <= 0 || egr <= 0 || ing == egr {
		c.Lost("constants policyMetaIngress/policyMetaEgress")
	}
	dirs := []struct {
		Field, Governs, Word string
		Bit                  int64
	}{
		{"IngressPolicies", "GovernsIngress", "ingress", ing},
		{"EgressPolicies", "GovernsEgress", "egress", egr},
	}
	// (1) appends to proto.TierInfo.{Ingress,Egress}Policies
	for _, d := range dirs {
		fv, _ := p.LookupExt("felix/proto", "TierInfo."+d.Field).(*types.Var)
		if fv == nil {
			c.Lost("proto.TierInfo.%s", d.Field)
		}
		n := 0
		for _, f := range p.AllFuncs() {
			allInstrs(f, false, func(fn *ssa.Function, in ssa.Instruction) {
				st, ok := in.(*ssa.Store)
				if !ok || fieldVar(st.Addr) != fv {
					return
				}
				if _, isAlloc := st.Addr.(*ssa.FieldAddr).X.(*ssa.Alloc); isAlloc && isNilConst(st.Val) {
					return
				}
				n++
				g := guardedCut(st, callCond(true, func(cs CallSite) bool { return cs.Callee != nil && methodNamed(cs.Callee, "PolKV", d.Governs) }))
				c.Check(g, "C03.dirsplit/append/"+d.Field+"@"+fnName(fn), p.Pos(st.Pos()),
					d.Field+" written only under "+d.Governs+"()",
					fmt.Sprintf("%s writes proto.TierInfo.%s without a dominating %s() == true: a policy is listed for a direction its Types do not include", fnName(fn), d.Field, d.Governs))
			})
		}
		if n == 0 {
			c.Lost("no write to proto.TierInfo.%s in felix/calc", d.Field)
		}
		// (2) GovernsX tests exactly its own flag
		gf := p.Func(calcPkg, "PolKV."+d.Governs)
		if gf == nil {
			c.Lost("PolKV.%s", d.Governs)
		}
		var masks []int64
		allInstrs(gf, false, func(_ *ssa.Function, in ssa.Instruction) {
			if bo, ok := in.(*ssa.BinOp); ok && bo.Op == token.AND {
				for _, o := range []ssa.Value{bo.X, bo.Y} {
					if cv, ok := constOf(o); ok {
						if iv, ok := constant.Int64Val(cv); ok {
							masks = append(masks, iv)
						}
					}
				}
			}
		})
		c.Check(len(masks) == 1 && masks[0] == d.Bit, "C03.dirsplit/governs/"+d.Governs, p.Pos(gf.Pos()),
			d.Governs+" tests exactly the "+d.Word+" flag",
			fmt.Sprintf("%s masks Flags with %v, want exactly the %s flag (%d)", d.Governs, masks, d.Word, d.Bit))
	}
	// (3) flags set only under the matching Types test
	fn := p.Func(calcPkg, "ExtractPolicyMetadata")
	if fn == nil {
		c.Lost("ExtractPolicyMetadata")
	}
	typesF, _ := p.LookupExt("libcalico-go/lib/backend/model", "Policy.Types").(*types.Var)
	if typesF == nil {
		c.Lost("model.Policy.Types")
	}
	emptyTypes := eqCond(true,
		func(v ssa.Value) bool {
			call, ok := v.(*ssa.Call)
			if !ok {
				return false
			}
			b, ok := call.Common().Value.(*ssa.Builtin)
			return ok && b.Name() == "len" && len(call.Common().Args) == 1 && fieldVar(call.Common().Args[0]) == typesF
		},
		func(v ssa.Value) bool {
			cv, ok := constOf(v)
			return ok && constant.Sign(cv) == 0
		})
	wordIs := func(word string) EdgePred {
		return callCond(true, func(cs CallSite) bool {
			if cs.Callee == nil || cs.Callee.Pkg() == nil || cs.Callee.Pkg().Path() != "strings" || cs.Callee.Name() != "EqualFold" {
				return false
			}
			for _, a := range cs.Args() {
				if cv, ok := constOf(a); ok && cv.Kind() == constant.String && strings.EqualFold(constant.StringVal(cv), word) {
					return true
				}
			}
			return false
		})
	}
	nFlag := 0
	for _, st := range storesToField(fn, false, "policyMetadata", "Flags") {
		bo, ok := st.Val.(*ssa.BinOp)
		if !ok || bo.Op != token.OR {
			continue
		}
		var mask int64 = -1
		for _, o := range []ssa.Value{bo.X, bo.Y} {
			if cv, ok := constOf(o); ok {
				if iv, ok := constant.Int64Val(cv); ok {
					mask = iv
				}
			}
		}
		if mask < 0 || mask&(ing|egr) == 0 {
			continue
		}
		nFlag++
		var words []string
		good := true
		why := ""
		for _, d := range dirs {
			if mask&d.Bit == 0 {
				continue
			}
			words = append(words, d.Word)
			if !guardedCut(st, anyOf(emptyTypes, wordIs(d.Word))) {
				good = false
				why = fmt.Sprintf("the %s flag is set without a dominating strings.EqualFold(_, %q) or len(policy.Types) == 0", d.Word, d.Word)
			}
		}
		c.Check(good, "C03.dirsplit/flag/ExtractPolicyMetadata/"+strings.Join(words, "+"), p.Pos(st.Pos()),
			"flag(s) "+strings.Join(words, "+")+" set only under the matching Types entry or empty Types",
			"ExtractPolicyMetadata: "+why)
	}
	if nFlag == 0 {
		c.Lost("ExtractPolicyMetadata sets no ingress/egress flag")
	}
}

// ----------------------------------------------------------------- mirror --

func c03Mirror(c *Ctx, p *Prog) {
	tn, _ := p.LookupObj(calcPkg, "PolicyResolver").(*types.TypeName)
	if tn == nil {
		c.Lost("type PolicyResolver")
	}
	st, _ := tn.Type().Underlying().(*types.Struct)
	var mds []*types.Var
	for i := 0; i < st.NumFields(); i++ {
		if isMultidict(st.Field(i).Type()) {
			mds = append(mds, st.Field(i))
		}
	}
	if len(mds) != 2 {
		c.Lost("PolicyResolver: expected 2 multidict fields (policy->endpoints, endpoint->policies), found %d", len(mds))
	}
	// which one is keyed by endpoint?
	keyT := func(v *types.Var) string {
		if n, ok := types.Unalias(v.Type()).(*types.Named); ok && n.TypeArgs().Len() == 2 {
			return qualTypeName(n.TypeArgs().At(0))
		}
		return ""
	}
	var byEndpoint *types.Var
	for _, f := range mds {
		if keyT(f) == "libcalico-go/lib/backend/model.EndpointKey" {
			byEndpoint = f
		}
	}
	if byEndpoint == nil || keyT(mds[0]) == keyT(mds[1]) {
		c.Lost("PolicyResolver multidicts are not keyed PolicyKey / EndpointKey (%s, %s)", keyT(mds[0]), keyT(mds[1]))
	}
	methods := withClosures(p.methodsOf(calcPkg, "PolicyResolver"))
	onMD := func(cs CallSite) *types.Var {
		if len(cs.Args()) == 0 {
			return nil
		}
		fv := fieldVar(cs.Args()[0])
		for _, f := range mds {
			if f == fv {
				return f
			}
		}
		return nil
	}
	pds := map[*ssa.Function]map[*ssa.BasicBlock]map[*ssa.BasicBlock]bool{}
	n := 0
	for _, f := range methods {
		calls := callsIn(f, false, func(fn *types.Func) bool { return fn.Name() == "Put" || fn.Name() == "Discard" })
		for _, cs := range calls {
			a := onMD(cs)
			if a == nil || len(cs.Args()) != 3 {
				continue
			}
			n++
			other := mds[0]
			if other == a {
				other = mds[1]
			}
			k1, k2 := c01KeyID(cs.Args()[1]), c01KeyID(cs.Args()[2])
			if pds[f] == nil {
				pds[f] = postDominators(f)
			}
			good := false
			for _, o := range calls {
				if onMD(o) != other || o.Callee.Name() != cs.Callee.Name() || len(o.Args()) != 3 {
					continue
				}
				if c01KeyID(o.Args()[1]) != k2 || c01KeyID(o.Args()[2]) != k1 {
					continue
				}
				if instrDominates(o.Instr, cs.Instr) || instrPostDominates(pds[f], o.Instr, cs.Instr) {
					good = true
				}
			}
			c.Check(good, "C03.mirror/"+fnName(f)+"/"+a.Name()+"."+cs.Callee.Name(), p.Pos(cs.Instr.Pos()),
				fmt.Sprintf("%s.%s(a,b) paired with %s.%s(b,a) on every path", a.Name(), cs.Callee.Name(), other.Name(), cs.Callee.Name()),
				fmt.Sprintf("%s: %s.%s(%s, %s) has no matching %s.%s(%s, %s) on every path: the two match indexes diverge and endpoints get policies that do not match (or miss ones that do)", fnName(f), a.Name(), cs.Callee.Name(), path(cs.Args()[1]), path(cs.Args()[2]), other.Name(), cs.Callee.Name(), path(cs.Args()[2]), path(cs.Args()[1])))
		}
	}
	if n == 0 {
		c.Lost("no Put/Discard on the PolicyResolver match indexes")
	}
	// the per-endpoint filter.  The appends are located through the value flow into the tiers argument of the
	// OnEndpointTierUpdate callback (the loop may live in a helper whose result is
	// passed on); "the endpoint being sent" is the callback's first argument, mapped
	// through the parameters of the helpers on the way.
	flow := c03BuildTierFlow(p)
	if flow == nil {
		c.Lost("no OnEndpointTierUpdate call with a []TierInfo argument in felix/calc")
	}
	nf := 0
	for _, a := range flow.AppendsOf("PolKV") {
		nf++
		g := guardedCut(a.Call, callCond(true, func(cs CallSite) bool {
			return c03MatchTest(cs, byEndpoint, flow.IsEndpoint, 0)
		}))
		c.Check(g, "C03.mirror/filter/"+fnName(a.Fn), p.Pos(a.Call.Pos()),
			"policy appended to the endpoint's tier only under "+byEndpoint.Name()+".Contains(endpoint, policy)",
			fmt.Sprintf("%s appends a policy to the list that reaches OnEndpointTierUpdate without a dominating %s.Contains(<the endpoint being sent>, policy): the endpoint's list is not exactly its matching policies", fnName(a.Fn), byEndpoint.Name()))
	}
	if nf == 0 {
		c.Lost("no append of a PolKV flows into the tiers argument of OnEndpointTierUpdate")
	}
}

// -------------------------------------------------------------- sortfeeds --

func c03SortFeeds(c *Ctx, p *Prog) {
	stdF, _ := p.LookupObj(calcPkg, "PolicyResolver.sortedTierData").(*types.Var)
	ordF, _ := p.LookupObj(calcPkg, "TierInfo.OrderedPolicies").(*types.Var)
	if stdF == nil || ordF == nil {
		c.Lost("PolicyResolver.sortedTierData / TierInfo.OrderedPolicies")
	}
	sorted := p.Func(calcPkg, "PolicySorter.Sorted")
	if sorted == nil {
		c.Lost("PolicySorter.Sorted")
	}
	// (1) stores to sortedTierData come from Sorted()
	n := 0
	for _, f := range p.AllFuncs() {
		for _, st := range storesToField(f, false, "PolicyResolver", "sortedTierData") {
			if fieldVar(st.Addr) != stdF {
				continue
			}
			if _, isLit := st.Addr.(*ssa.FieldAddr).X.(*ssa.Alloc); isLit && isNilConst(st.Val) {
				continue
			}
			n++
			good := false
			if call, ok := st.Val.(*ssa.Call); ok && calleeFn(call.Common()) == sorted {
				good = true
			}
			c.Check(good, "C03.sortfeeds/store/sortedTierData@"+fnName(f), p.Pos(st.Pos()),
				"sortedTierData = policySorter.Sorted()",
				fmt.Sprintf("%s assigns sortedTierData from %s, not from PolicySorter.Sorted(): tier order is no longer the sorter's", fnName(f), path(st.Val)))
		}
	}
	if n == 0 {
		c.Lost("no assignment to PolicyResolver.sortedTierData")
	}
	// (2) per-endpoint appends happen under range over the sorted slices
	// (the appends that build what reaches the tiers argument of OnEndpointTierUpdate,
	// found by value flow: the loop may sit in a helper of the sending function)
	flow := c03BuildTierFlow(p)
	if flow == nil {
		c.Lost("no OnEndpointTierUpdate call with a []TierInfo argument in felix/calc")
	}
	c01Isolated(c, func() { c03SortFeedsRange(c, p, flow, stdF, ordF) })
	c01Isolated(c, func() { c03SortFeedsAscend(c, p, sorted) })
	c03SortFeedsOwners(c, p, flow, sorted, ordF)
}

func c03SortFeedsRange(c *Ctx, p *Prog, flow *c03TierFlow, stdF, ordF *types.Var) {
	nr := 0
	for _, a := range flow.AppendsOf("TierInfo", "PolKV") {
		nr++
		// the enclosing range statement; an append that sits in a helper / local
		// closure without a loop of its own is judged at the helper's call sites
		over := "no enclosing range statement"
		var rangedOK func(fn *ssa.Function, pos token.Pos, depth int) bool
		rangedOK = func(fn *ssa.Function, pos token.Pos, depth int) bool {
			rfs, rs := c03RangedFields(p, fn, pos)
			if rs == nil {
				sites := flow.callers()[fn]
				if depth >= 2 || len(sites) == 0 {
					return false
				}
				for _, ci := range sites {
					if !rangedOK(ci.Parent(), ci.Pos(), depth+1) {
						return false
					}
				}
				return true
			}
			over = "range over " + types.ExprString(rs.X)
			if len(rfs) == 0 {
				return false
			}
			for _, rf := range rfs {
				if rf != stdF && rf != ordF {
					return false
				}
			}
			return true
		}
		good := rangedOK(a.Fn, a.Call.Pos(), 0)
		c.Check(good, "C03.sortfeeds/range/"+a.Elem+"@"+fnName(a.Fn), p.Pos(a.Call.Pos()),
			"append([]"+a.Elem+") inside "+over,
			fmt.Sprintf("%s appends to the endpoint's []%s inside %s; only iteration over sortedTierData / OrderedPolicies preserves the sorter's order", fnName(a.Fn), a.Elem, over))
	}
	if nr == 0 {
		c.Lost("no append of TierInfo/PolKV flows into the tiers argument of OnEndpointTierUpdate")
	}
}

// (3) Sorted() appends only inside Ascend callbacks
func c03SortFeedsAscend(c *Ctx, p *Prog, sorted *ssa.Function) {
	na := 0
	for _, cl := range withClosures([]*ssa.Function{sorted}) {
		hasAppend := false
		allInstrs(cl, false, func(_ *ssa.Function, in ssa.Instruction) {
			if cc, ok := isBuiltinCall(in, "append"); ok {
				if sl, _ := cc.Args[0].Type().Underlying().(*types.Slice); sl != nil {
					switch namedTypeName(sl.Elem()) {
					case "TierInfo", "PolKV":
						hasAppend = true
					}
				}
			}
		})
		if !hasAppend {
			continue
		}
		na++
		good := false
		how := "is not a btree iteration callback"
		if par := cl.Parent(); par != nil {
			allInstrs(par, false, func(_ *ssa.Function, in ssa.Instruction) {
				ci, ok := in.(ssa.CallInstruction)
				if !ok {
					return
				}
				for _, a := range ci.Common().Args {
					if c03StripFn(a) == cl {
						f := calleeOf(ci.Common())
						if f != nil && f.Pkg() != nil && f.Pkg().Path() == c03BtreePkg {
							how = "is the callback of btree " + f.Name()
							good = f.Name() == "Ascend"
						}
					}
				}
			})
		} else {
			how = "appends outside any iteration callback"
		}
		c.Check(good, "C03.sortfeeds/ascend/"+fnName(cl), p.Pos(cl.Pos()),
			fnName(cl)+" "+how,
			fmt.Sprintf("%s fills the sorted slice but %s: the slice is in ascending comparator order only when filled from BTreeG.Ascend", fnName(cl), how))
	}
	if na == 0 {
		c.Lost("PolicySorter.Sorted: no append of TierInfo/PolKV")
	}
}

// (4) writers of OrderedPolicies: the sorter's Sorted() and the stores into the
// per-endpoint filtered copy that reaches OnEndpointTierUpdate
func c03SortFeedsOwners(c *Ctx, p *Prog, flow *c03TierFlow, sorted *ssa.Function, ordF *types.Var) {
	writers := map[string]string{}
	var extra []string
	for _, f := range p.AllFuncs() {
		for _, st := range storesToField(f, false, "TierInfo", "OrderedPolicies") {
			if fieldVar(st.Addr) != ordF {
				continue
			}
			top := topFn(f)
			if flow.Stores[st] && top != sorted {
				// a store into the per-endpoint copy that reaches OnEndpointTierUpdate
				writers[fnName(top)+" (per-endpoint copy)"] = p.Pos(st.Pos())
				continue
			}
			if _, dup := writers[fnName(top)]; dup {
				continue
			}
			writers[fnName(top)] = p.Pos(st.Pos())
			allowed := top == sorted
			if !allowed {
				extra = append(extra, fnName(top)+" ("+p.Pos(st.Pos())+")")
			}
		}
	}
	sort.Strings(extra)
	if len(writers) == 0 {
		c.Lost("no writer of TierInfo.OrderedPolicies")
	}
	c.Check(len(extra) == 0, "C03.sortfeeds/owners/OrderedPolicies", p.Pos(sorted.Pos()),
		fmt.Sprintf("OrderedPolicies written only by %v", sortedKeys(writers)),
		fmt.Sprintf("TierInfo.OrderedPolicies is also written by %v: policy order within a tier must come from the sorter's btree only", extra))
}

// c03RecvTypeName: receiver type name of an SSA function ("" for plain functions).
func c03RecvTypeName(f *ssa.Function) string {
	if o, ok := f.Object().(*types.Func); ok {
		return recvTypeName(o)
	}
	return ""
}

// ---------------------------------------------------------------- keysync --

// c03KeySync: the sorted-tier btree is keyed by tierInfoKey, whose fields are
// copies of the TierInfo's fields.  Wherever a *model.Tier value is at hand and
// a tier key is (re-)inserted into that tree, every mutable key field of the
// TierInfo must reflect the Tier value: on each path to the insertion the field
// was stored from its source, or the path's branch conditions establish that
// the field already equals the source (same pointer, equal pointees, or both
// nil).  A bypass that looks at one side only ("new order is non-nil") lets an
// update through without refreshing the key, and the tier keeps a stale rank.
//
// The discipline is followed through felix/calc helpers in every direction a
// behaviour-preserving split can take:
//   - an insertion made by a helper that is handed the Tier value is judged
//     inside that helper (it has the Tier value at hand itself); if the helper
//     does not synchronise the field, every caller must have done so before the
//     call (the guard/store lifted to the call sites);
//   - a helper that stores the field counts as a store only if its own paths
//     from entry to return all store it or imply field == source (its summary is
//     computed with the same decision procedure; parameters that carry the
//     field's / the source's value are mapped from the call's arguments);
//   - a branch condition computed by a helper (`if orderChanged(ti, t)`) is
//     evaluated from the helper's paths and results.
type c03KSWorld struct {
	p                   *Prog
	keyTN, tiTN, tierTN *types.TypeName
	tiST, tierST        *types.Struct
}

func (w *c03KSWorld) inCalc(sf *ssa.Function) bool {
	return sf != nil && sf.Blocks != nil && sf.Pkg != nil && strings.HasSuffix(sf.Pkg.Pkg.Path(), "/"+calcPkg)
}

func (w *c03KSWorld) isPtrTo(t types.Type, tn *types.TypeName) bool {
	pt, ok := types.Unalias(t).(*types.Pointer)
	return ok && types.Identical(types.Unalias(pt.Elem()), tn.Type())
}

func (w *c03KSWorld) isTierPtr(t types.Type) bool { return w.isPtrTo(t, w.tierTN) }

func (w *c03KSWorld) isKeyInsert(cc *ssa.CallCommon) bool {
	f := calleeOf(cc)
	if f == nil || f.Pkg() == nil || f.Pkg().Path() != c03BtreePkg || f.Name() != "ReplaceOrInsert" || len(cc.Args) < 1 {
		return false
	}
	pt, ok := types.Unalias(cc.Args[0].Type()).(*types.Pointer)
	if !ok {
		return false
	}
	n, ok := types.Unalias(pt.Elem()).(*types.Named)
	return ok && n.TypeArgs().Len() == 1 && types.Identical(types.Unalias(n.TypeArgs().At(0)), w.keyTN.Type())
}

// insertsVia: sf is a felix/calc helper that performs the insertion (itself or up
// to two calls further down).
func (w *c03KSWorld) insertsVia(sf *ssa.Function, depth int) bool {
	if !w.inCalc(sf) || depth > 3 {
		return false
	}
	found := false
	allInstrs(sf, true, func(_ *ssa.Function, in ssa.Instruction) {
		if ci, ok := in.(ssa.CallInstruction); ok && !found {
			if w.isKeyInsert(ci.Common()) || w.insertsVia(calleeFn(ci.Common()), depth+1) {
				found = true
			}
		}
	})
	return found
}

// storesVia: sf is a felix/calc helper that stores TierInfo.<fv> of an existing object.
func (w *c03KSWorld) storesVia(sf *ssa.Function, fv *types.Var, depth int) bool {
	if !w.inCalc(sf) || depth > 3 {
		return false
	}
	found := false
	allInstrs(sf, true, func(_ *ssa.Function, in ssa.Instruction) {
		if found {
			return
		}
		switch x := in.(type) {
		case *ssa.Store:
			if fa, ok := x.Addr.(*ssa.FieldAddr); ok && structField(fa.X.Type(), fa.Field) == fv {
				if _, fresh := fa.X.(*ssa.Alloc); !fresh {
					found = true
				}
			}
		case ssa.CallInstruction:
			if w.storesVia(calleeFn(x.Common()), fv, depth+1) {
				found = true
			}
		}
	})
	return found
}

// handsTier: the call passes a *model.Tier value to a *model.Tier parameter of h.
func (w *c03KSWorld) handsTier(cc *ssa.CallCommon, h *ssa.Function) bool {
	for i, a := range cc.Args {
		if i < len(h.Params) && w.isTierPtr(a.Type()) && w.isTierPtr(h.Params[i].Type()) {
			return true
		}
	}
	return false
}

func c03FieldNamed(st *types.Struct, name string) *types.Var {
	for i := 0; i < st.NumFields(); i++ {
		if st.Field(i).Name() == name {
			return st.Field(i)
		}
	}
	return nil
}

// c03KSVerdict is the outcome of judging one function for one field.
type c03KSVerdict struct {
	problem string
	never   bool     // the field is never stored before the insertion(s)
	bad     []string // unsynchronised ways an insertion is reached
	und     []string
	srcDesc string
	notes   []string // helpers that store the field but not on all of their paths
}

func (v c03KSVerdict) clean() bool {
	return v.problem == "" && !v.never && len(v.bad) == 0 && len(v.und) == 0
}

func (w *c03KSWorld) judge(fn *ssa.Function, targets []ssa.Instruction, fv *types.Var) c03KSVerdict {
	ks := w.newKS(fn, fv, 0)
	ks.scan(targets)
	v := c03KSVerdict{problem: ks.problem, srcDesc: ks.srcDesc, notes: ks.notes}
	if v.problem != "" {
		return v
	}
	if len(ks.syncs) == 0 {
		v.never = true
		return v
	}
	for _, t := range targets {
		b, u := ks.check(t)
		what := "insertion"
		if ci, ok := t.(ssa.CallInstruction); ok && !w.isKeyInsert(ci.Common()) {
			what = "call of " + fnName(calleeFn(ci.Common()))
		}
		for _, s := range b {
			v.bad = append(v.bad, fmt.Sprintf("%s at %s reached %s", what, w.p.Pos(t.Pos()), s))
		}
		for _, s := range u {
			v.und = append(v.und, fmt.Sprintf("%s at %s: %s", what, w.p.Pos(t.Pos()), s))
		}
	}
	return v
}

func c03KeySync(c *Ctx, p *Prog) {
	w := &c03KSWorld{p: p}
	w.keyTN, _ = p.LookupObj(calcPkg, "tierInfoKey").(*types.TypeName)
	w.tiTN, _ = p.LookupObj(calcPkg, "TierInfo").(*types.TypeName)
	w.tierTN, _ = p.LookupExt("libcalico-go/lib/backend/model", "Tier").(*types.TypeName)
	if w.keyTN == nil || w.tiTN == nil || w.tierTN == nil {
		c.Lost("calc.tierInfoKey / calc.TierInfo / model.Tier")
	}
	w.tiST, _ = w.tiTN.Type().Underlying().(*types.Struct)
	w.tierST, _ = w.tierTN.Type().Underlying().(*types.Struct)
	if w.tiST == nil || w.tierST == nil {
		c.Lost("TierInfo / model.Tier are not structs")
	}
	// key fields and the TierInfo fields they mirror
	var keyFields []*types.Var
	for _, name := range structFieldNames(w.keyTN.Type(), false) {
		fv := c03FieldNamed(w.tiST, name)
		if fv == nil {
			c.Lost("tierInfoKey.%s has no TierInfo field of the same name to be copied from", name)
		}
		keyFields = append(keyFields, fv)
	}
	// mutable = stored somewhere outside the initialisation of a fresh TierInfo
	mutable := map[*types.Var]bool{}
	for _, f := range p.AllFuncs() {
		allInstrs(f, false, func(_ *ssa.Function, in ssa.Instruction) {
			st, ok := in.(*ssa.Store)
			if !ok {
				return
			}
			fa, ok := st.Addr.(*ssa.FieldAddr)
			if !ok {
				return
			}
			if _, fresh := fa.X.(*ssa.Alloc); fresh {
				return
			}
			mutable[structField(fa.X.Type(), fa.Field)] = true
		})
	}

	var fns []*ssa.Function
	for _, f := range p.AllFuncs() {
		if w.inCalc(f) {
			fns = append(fns, f)
		}
	}
	sort.Slice(fns, func(i, j int) bool { return fnName(fns[i]) < fnName(fns[j]) })
	// own[fn]: insertions (or calls of inserting helpers that are not handed the
	// Tier value) reached with a Tier value at hand; incoming[h]: calls that hand
	// the Tier value on to the inserting helper h — judged inside h.
	own := map[*ssa.Function][]ssa.Instruction{}
	incoming := map[*ssa.Function][]ssa.CallInstruction{}
	for _, fn := range fns {
		var tierVals []ssa.Value
		for _, par := range fn.Params {
			if w.isTierPtr(par.Type()) {
				tierVals = append(tierVals, par)
			}
		}
		allInstrs(fn, false, func(_ *ssa.Function, in ssa.Instruction) {
			if ta, ok := in.(*ssa.TypeAssert); ok && w.isTierPtr(ta.AssertedType) {
				tierVals = append(tierVals, ta)
			}
		})
		if len(tierVals) == 0 {
			continue
		}
		atHand := func(in ssa.Instruction) bool {
			for _, tv := range tierVals {
				if _, isPar := tv.(*ssa.Parameter); isPar {
					return true
				}
				if ti, ok := tv.(ssa.Instruction); ok && instrDominates(ti, in) {
					return true
				}
			}
			return false
		}
		allInstrs(fn, false, func(_ *ssa.Function, in ssa.Instruction) {
			ci, ok := in.(ssa.CallInstruction)
			if !ok {
				return
			}
			direct := w.isKeyInsert(ci.Common())
			h := calleeFn(ci.Common())
			if !direct && !w.insertsVia(h, 1) {
				return
			}
			if !atHand(in) {
				return
			}
			if !direct && w.handsTier(ci.Common(), h) {
				incoming[h] = append(incoming[h], ci)
				return
			}
			own[fn] = append(own[fn], in)
		})
	}
	// syncedBefore: on every path to the call the field is in sync with the Tier
	// value (or, failing that, the caller was itself handed the Tier value by
	// callers that all were in sync).
	var syncedBefore func(ci ssa.CallInstruction, fv *types.Var, depth int) bool
	syncedBefore = func(ci ssa.CallInstruction, fv *types.Var, depth int) bool {
		g := ci.Parent()
		if w.judge(g, []ssa.Instruction{ci}, fv).clean() {
			return true
		}
		if depth >= 3 || len(incoming[g]) == 0 {
			return false
		}
		for _, up := range incoming[g] {
			if !syncedBefore(up, fv, depth+1) {
				return false
			}
		}
		return true
	}

	n := 0
	for _, fn := range fns {
		targets := own[fn]
		if len(targets) == 0 {
			continue
		}
		for _, fv := range keyFields {
			if !mutable[fv] {
				continue // identity part of the key: set once when the TierInfo is created
			}
			n++
			key := "C03.keysync/" + fnName(fn) + "/TierInfo." + fv.Name()
			site := p.Pos(targets[0].Pos())
			v := w.judge(fn, targets, fv)
			if v.problem != "" {
				c.Undecided(key, site, "%s: %s", fnName(fn), v.problem)
				continue
			}
			if !v.clean() && len(v.und) == 0 && len(incoming[fn]) > 0 {
				// the store may have been lifted to the call sites
				all := true
				var callers []string
				for _, ci := range incoming[fn] {
					callers = append(callers, fnName(ci.Parent()))
					if !syncedBefore(ci, fv, 0) {
						all = false
					}
				}
				if all {
					c.Ok(key, site, "every caller that hands the Tier value to %s (%s) has TierInfo.%s in sync with it on every path to the call", fnName(fn), strings.Join(callers, ", "), fv.Name())
					continue
				}
				v.notes = append(v.notes, fmt.Sprintf("the caller(s) %s do not synchronise TierInfo.%s on every path before handing the Tier value over either", strings.Join(callers, ", "), fv.Name()))
			}
			notes := ""
			if len(v.notes) > 0 {
				notes = " [" + strings.Join(v.notes, "; ") + "]"
			}
			switch {
			case v.never && len(v.notes) > 0:
				c.Violate(key, site, "%s (re-)inserts the tier's sort key while a Tier value is at hand, but TierInfo.%s is not brought in sync with it on every path before — %s: an update that changes %s on such a path is ignored and the tier keeps its stale position among the sorted tiers", fnName(fn), fv.Name(), strings.Join(v.notes, "; "), fv.Name())
			case v.never:
				c.Violate(key, site, "%s (re-)inserts the tier's sort key while a Tier value is at hand but never stores TierInfo.%s from it: the key keeps whatever %s the TierInfo had before the update%s", fnName(fn), fv.Name(), fv.Name(), notes)
			case len(v.bad) > 0:
				c.Violate(key, site, "%s re-inserts the tier's sort key on a path where TierInfo.%s was neither stored from %s nor shown to equal it — %s: an update that changes %s on that path is ignored and the tier keeps its stale position among the sorted tiers%s",
					fnName(fn), fv.Name(), v.srcDesc, strings.Join(v.bad, "; "), fv.Name(), notes)
			case len(v.und) > 0:
				c.Undecided(key, site, "%s%s", strings.Join(v.und, "; "), notes)
			default:
				c.Ok(key, site, "on every path to %d key insertion(s) TierInfo.%s is stored from %s or already equal to it", len(targets), fv.Name(), v.srcDesc)
			}
		}
	}
	if n == 0 {
		c.Lost("no function of felix/calc that (re-)inserts a tierInfoKey into the sorted tree with a *model.Tier value at hand")
	}
}

// c03KS decides, for one function and one TierInfo field, whether a path that
// bypasses every store of the field establishes "field == source".
type c03KS struct {
	w         *c03KSWorld
	fn        *ssa.Function
	fv        *types.Var     // TierInfo.<F>
	tierField *types.Var     // model.Tier.<F> (nil: the Tier value has no such field)
	srcField  *types.Var     // model.Tier.<F> (nil: constant source)
	srcConst  constant.Value // constant source
	srcDesc   string
	// bound: values (parameters of a helper) that carry the field's ('f') or the
	// source's ('s') value, mapped from the arguments of the call being followed
	bound   map[ssa.Value]byte
	depth   int
	syncs   map[ssa.Instruction]bool
	notes   []string
	problem string
}

func (w *c03KSWorld) newKS(fn *ssa.Function, fv *types.Var, depth int) *c03KS {
	ks := &c03KS{w: w, fn: fn, fv: fv, depth: depth, syncs: map[ssa.Instruction]bool{}, bound: map[ssa.Value]byte{}}
	ks.tierField = c03FieldNamed(w.tierST, fv.Name())
	if ks.tierField != nil {
		ks.srcField, ks.srcDesc = ks.tierField, "Tier."+ks.tierField.Name()
	}
	return ks
}

// child: the decision state for helper h entered through a call with these arguments.
func (ks *c03KS) child(h *ssa.Function, args []ssa.Value) *c03KS {
	sub := ks.w.newKS(h, ks.fv, ks.depth+1)
	sub.srcField, sub.srcConst, sub.srcDesc = ks.srcField, ks.srcConst, ks.srcDesc
	for i, a := range args {
		if i >= len(h.Params) {
			break
		}
		if r, l := ks.role(a); r != 0 && l == 1 {
			sub.bound[h.Params[i]] = r
			continue
		}
		// a constant handed to a parameter of the field's type is the constant source
		if cv, ok := constOf(a); ok && !isNilConst(a) && ks.tierField == nil && types.Identical(h.Params[i].Type(), ks.fv.Type()) {
			if sub.srcConst == nil || constant.Compare(sub.srcConst, token.EQL, cv) {
				sub.srcConst, sub.srcDesc = cv, "the constant "+cv.ExactString()
				sub.bound[h.Params[i]] = 's'
			}
		}
	}
	return sub
}

// c03Level: v reads struct field fv; level 1 = the field's value, 2 = the
// pointee of a pointer-typed field.
func c03Level(v ssa.Value) (*types.Var, int) {
	n := 0
	for {
		switch x := v.(type) {
		case *ssa.UnOp:
			if x.Op != token.MUL {
				return nil, 0
			}
			n++
			v = x.X
		case *ssa.FieldAddr:
			return structField(x.X.Type(), x.Field), n
		case *ssa.Field:
			return structField(x.X.Type(), x.Field), n + 1
		default:
			return nil, 0
		}
	}
}

// role: v carries the TierInfo field ('f') or its source ('s'); level 1 = the
// value itself, 2 = the pointee of a pointer-typed value.
func (ks *c03KS) role(v ssa.Value) (byte, int) {
	n := 0
	of := func(f *types.Var) byte {
		switch {
		case f == nil:
			return 0
		case f == ks.fv:
			return 'f'
		case ks.srcField != nil && f == ks.srcField:
			return 's'
		}
		return 0
	}
	for {
		if r, ok := ks.bound[v]; ok {
			return r, n + 1
		}
		switch x := v.(type) {
		case *ssa.UnOp:
			if x.Op != token.MUL {
				return 0, 0
			}
			n++
			v = x.X
		case *ssa.FieldAddr:
			return of(structField(x.X.Type(), x.Field)), n
		case *ssa.Field:
			return of(structField(x.X.Type(), x.Field)), n + 1
		default:
			return 0, 0
		}
	}
}

func (ks *c03KS) isTierField(v *types.Var) bool {
	for i := 0; i < ks.w.tierST.NumFields(); i++ {
		if ks.w.tierST.Field(i) == v {
			return true
		}
	}
	return false
}

// scan collects the instructions of fn after which the field is in sync with its
// source: stores of the field from the source, and calls of helpers that do so
// on all of their paths.
func (ks *c03KS) scan(targets []ssa.Instruction) {
	fv := ks.fv
	allInstrs(ks.fn, false, func(_ *ssa.Function, in ssa.Instruction) {
		// only what can happen before one of the targets matters
		relevant := false
		for _, t := range targets {
			if in != t && instrReaches(in, t) {
				relevant = true
			}
		}
		if !relevant {
			return
		}
		switch x := in.(type) {
		case *ssa.Store:
			fa, ok := x.Addr.(*ssa.FieldAddr)
			if !ok || structField(fa.X.Type(), fa.Field) != fv {
				return
			}
			if _, fresh := fa.X.(*ssa.Alloc); fresh {
				return
			}
			if r, ok := ks.bound[x.Val]; ok && r == 's' {
				ks.syncs[in] = true
				return
			}
			if cv, ok := constOf(x.Val); ok && !isNilConst(x.Val) {
				if ks.srcField != nil || (ks.srcConst != nil && !constant.Compare(ks.srcConst, token.EQL, cv)) {
					ks.problem = "TierInfo." + fv.Name() + " is stored from different sources"
				}
				ks.srcConst, ks.srcDesc = cv, "the constant "+cv.ExactString()
				ks.syncs[in] = true
				return
			}
			sf, lvl := c03Level(x.Val)
			if sf == nil || lvl != 1 || !ks.isTierField(sf) || (ks.tierField != nil && sf != ks.tierField) {
				ks.problem = fmt.Sprintf("TierInfo.%s is stored from %s, which is not a constant or the Tier value's field", fv.Name(), path(x.Val))
				return
			}
			if ks.srcConst != nil || (ks.srcField != nil && ks.srcField != sf) {
				ks.problem = "TierInfo." + fv.Name() + " is stored from different sources"
			}
			ks.srcField, ks.srcDesc = sf, "Tier."+sf.Name()
			ks.syncs[in] = true
		case *ssa.Call:
			h := calleeFn(x.Common())
			if !ks.w.storesVia(h, fv, 1) {
				return
			}
			ks.followHelper(x, h)
		}
	})
}

// followHelper: the call of helper h (which stores the field somewhere) leaves
// the field in sync iff every path of h from entry to a return does.
func (ks *c03KS) followHelper(call *ssa.Call, h *ssa.Function) {
	if ks.depth >= 3 || h == ks.fn {
		ks.problem = fmt.Sprintf("TierInfo.%s is stored by %s, more than three helper calls down", ks.fv.Name(), fnName(h))
		return
	}
	sub := ks.child(h, call.Common().Args)
	var rets []ssa.Instruction
	for _, r := range returnsOf(h) {
		if !isPanicBlock(r.Block()) {
			rets = append(rets, r)
		}
	}
	sub.scan(rets)
	if sub.problem != "" {
		ks.problem = "in " + fnName(h) + ": " + sub.problem
		return
	}
	ks.notes = append(ks.notes, sub.notes...)
	if len(sub.syncs) == 0 {
		ks.notes = append(ks.notes, fmt.Sprintf("%s does not store TierInfo.%s from %s before it returns", fnName(h), ks.fv.Name(), c03Or(sub.srcDesc, "the Tier value")))
		return
	}
	var bad, und []string
	for _, r := range rets {
		b, u := sub.check(r)
		bad = append(bad, b...)
		und = append(und, u...)
	}
	switch {
	case len(bad) > 0:
		sort.Strings(bad)
		ks.notes = append(ks.notes, fmt.Sprintf("%s returns without having stored TierInfo.%s from %s %s", fnName(h), ks.fv.Name(), c03Or(sub.srcDesc, "its source"), bad[0]))
	case len(und) > 0:
		ks.problem = "in " + fnName(h) + ": " + und[0]
	default:
		ks.syncs[call] = true
		// what the helper found out about the source holds for the caller too
		if ks.srcField == nil && ks.srcConst == nil {
			ks.srcField, ks.srcConst = sub.srcField, sub.srcConst
		}
		if ks.srcDesc == "" {
			ks.srcDesc = c03Or(sub.srcDesc, "the Tier value") + " (in " + fnName(h) + ")"
		}
	}
}

func c03Or(a, b string) string {
	if a != "" {
		return a
	}
	return b
}

// atoms of the little decision procedure
const (
	c03AtomPtrEq  = 1 << iota // field == source
	c03AtomFldNil             // field == nil
	c03AtomSrcNil             // source == nil
	c03AtomValEq              // *field == *source
)

type c03Form func(env int) (val, known bool)

// form translates a branch condition into a formula over the atoms; known is
// false for (sub)conditions that say nothing about field and source.
func (ks *c03KS) form(v ssa.Value, pred map[*ssa.BasicBlock]*ssa.BasicBlock) c03Form {
	unknown := func(int) (bool, bool) { return false, false }
	atom := func(a int) c03Form { return func(env int) (bool, bool) { return env&a != 0, true } }
	// resolve phis along the current path
	for i := 0; i < 8; i++ {
		phi, ok := v.(*ssa.Phi)
		if !ok {
			break
		}
		pb, ok := pred[phi.Block()]
		if !ok {
			return unknown
		}
		idx := -1
		for k, q := range phi.Block().Preds {
			if q == pb {
				idx = k
			}
		}
		if idx < 0 {
			return unknown
		}
		v = phi.Edges[idx]
	}
	isFld := func(x ssa.Value, lvl int) bool { r, l := ks.role(x); return r == 'f' && l == lvl }
	isSrc := func(x ssa.Value, lvl int) bool {
		if r, l := ks.role(x); r == 's' {
			return l == lvl
		}
		if ks.srcConst != nil && lvl == 1 {
			cv, ok := constOf(x)
			return ok && !isNilConst(x) && constant.Compare(cv, token.EQL, ks.srcConst)
		}
		return false
	}
	switch x := v.(type) {
	case *ssa.Const:
		if cv, ok := constOf(x); ok && cv.Kind() == constant.Bool {
			b := constant.BoolVal(cv)
			return func(int) (bool, bool) { return b, true }
		}
	case *ssa.UnOp:
		if x.Op == token.NOT {
			f := ks.form(x.X, pred)
			return func(env int) (bool, bool) { b, k := f(env); return !b, k }
		}
		// a bool field tested directly against a constant source
		if isFld(x, 1) && ks.srcConst != nil && ks.srcConst.Kind() == constant.Bool {
			want := constant.BoolVal(ks.srcConst)
			return func(env int) (bool, bool) { return (env&c03AtomPtrEq != 0) == want, true }
		}
	case *ssa.Parameter:
		if isFld(x, 1) && ks.srcConst != nil && ks.srcConst.Kind() == constant.Bool {
			want := constant.BoolVal(ks.srcConst)
			return func(env int) (bool, bool) { return (env&c03AtomPtrEq != 0) == want, true }
		}
	case *ssa.BinOp:
		if x.Op != token.EQL && x.Op != token.NEQ {
			break
		}
		neg := x.Op == token.NEQ
		wrap := func(f c03Form) c03Form {
			return func(env int) (bool, bool) { b, k := f(env); return b != neg, k }
		}
		for _, o := range [][2]ssa.Value{{x.X, x.Y}, {x.Y, x.X}} {
			switch {
			case isFld(o[0], 1) && isSrc(o[1], 1):
				return wrap(atom(c03AtomPtrEq))
			case isFld(o[0], 2) && isSrc(o[1], 2):
				return wrap(atom(c03AtomValEq))
			case isFld(o[0], 1) && isNilConst(o[1]):
				return wrap(atom(c03AtomFldNil))
			case isSrc(o[0], 1) && isNilConst(o[1]) && ks.srcField != nil:
				return wrap(atom(c03AtomSrcNil))
			}
		}
		if b, ok := x.X.Type().Underlying().(*types.Basic); ok && b.Info()&types.IsBoolean != 0 {
			fx, fy := ks.form(x.X, pred), ks.form(x.Y, pred)
			return wrap(func(env int) (bool, bool) {
				a, ka := fx(env)
				b, kb := fy(env)
				return a == b, ka && kb
			})
		}
	case *ssa.Call:
		if f := ks.callForm(x); f != nil {
			return f
		}
	}
	return unknown
}

// callForm: the formula of a condition computed by a felix/calc helper — the
// helper's acyclic paths are enumerated with its parameters mapped from the
// call's arguments; the result under an assignment of the atoms is the result
// returned on the path whose branch conditions that assignment satisfies.  nil
// when a branch or result of the helper says nothing about field and source.
func (ks *c03KS) callForm(call *ssa.Call) c03Form {
	h := calleeFn(call.Common())
	if !ks.w.inCalc(h) || ks.depth >= 3 || h == ks.fn {
		return nil
	}
	res := h.Signature.Results()
	if res.Len() != 1 {
		return nil
	}
	if b, ok := res.At(0).Type().Underlying().(*types.Basic); !ok || b.Info()&types.IsBoolean == 0 {
		return nil
	}
	sub := ks.child(h, call.Common().Args)
	type pth struct {
		conds []c03Form
		res   c03Form
	}
	var paths []pth
	ok := true
	onPath := map[*ssa.BasicBlock]bool{}
	pred := map[*ssa.BasicBlock]*ssa.BasicBlock{}
	var conds []c03Form
	var walk func(b *ssa.BasicBlock)
	follow := func(from, to *ssa.BasicBlock) {
		old, had := pred[to]
		pred[to] = from
		walk(to)
		if had {
			pred[to] = old
		} else {
			delete(pred, to)
		}
	}
	walk = func(b *ssa.BasicBlock) {
		if !ok || isPanicBlock(b) {
			return
		}
		if onPath[b] || len(paths) > 256 {
			ok = false
			return
		}
		onPath[b] = true
		defer func() { onPath[b] = false }()
		switch t := b.Instrs[len(b.Instrs)-1].(type) {
		case *ssa.Return:
			rf := sub.form(t.Results[0], pred)
			if _, known := rf(0); !known {
				ok = false
				return
			}
			paths = append(paths, pth{append([]c03Form(nil), conds...), rf})
		case *ssa.If:
			f := sub.form(t.Cond, pred)
			if _, known := f(0); !known {
				ok = false
				return
			}
			for k, s := range b.Succs {
				want := k == 0
				conds = append(conds, func(env int) (bool, bool) { v, kn := f(env); return v == want, kn })
				follow(b, s)
				conds = conds[:len(conds)-1]
			}
		default:
			for _, s := range b.Succs {
				follow(b, s)
			}
		}
	}
	walk(h.Blocks[0])
	if !ok || len(paths) == 0 {
		return nil
	}
	return func(env int) (bool, bool) {
		for _, p := range paths {
			taken := true
			for _, c := range p.conds {
				if v, _ := c(env); !v {
					taken = false
					break
				}
			}
			if taken {
				return p.res(env)
			}
		}
		return false, true
	}
}

// describe renders a branch condition with the truth value it has on the path.
func (ks *c03KS) describe(cond ssa.Value, val bool) string {
	c, pol := stripNot(cond, val)
	name := func(x ssa.Value) string {
		if isNilConst(x) {
			return "nil"
		}
		if r, l := ks.role(x); r != 0 && (l == 1 || l == 2) {
			if r == 'f' {
				return strings.Repeat("*", l-1) + "TierInfo." + ks.fv.Name()
			}
			if ks.srcField != nil {
				return strings.Repeat("*", l-1) + "Tier." + ks.srcField.Name()
			}
		}
		return path(x)
	}
	if bo, ok := c.(*ssa.BinOp); ok && (bo.Op == token.EQL || bo.Op == token.NEQ) {
		if _, isBool := bo.X.Type().Underlying().(*types.Basic); !isBool || bo.X.Type().Underlying().(*types.Basic).Info()&types.IsBoolean == 0 {
			op := "=="
			if (bo.Op == token.EQL) != pol {
				op = "!="
			}
			return name(bo.X) + " " + op + " " + name(bo.Y)
		}
	}
	if _, isPhi := c.(*ssa.Phi); isPhi {
		return fmt.Sprintf("a previously computed comparison result is %v", pol)
	}
	if call, isCall := c.(*ssa.Call); isCall {
		if h := calleeFn(call.Common()); h != nil {
			return fmt.Sprintf("%s(…) is %v", fnName(h), pol)
		}
	}
	if pol {
		return name(c)
	}
	return "!(" + name(c) + ")"
}

// mentionsBoth: v is the result of a call that is handed both the field and the
// source (their values, or the TierInfo and the Tier value they live in).
func (ks *c03KS) mentionsBoth(v ssa.Value) bool {
	v, _ = stripNot(v, true)
	call, ok := v.(*ssa.Call)
	if !ok {
		return false
	}
	var f, s bool
	for _, a := range call.Common().Args {
		if r, l := ks.role(a); l == 1 {
			if r == 'f' {
				f = true
			}
			if r == 's' {
				s = true
			}
		}
		if ks.w.isPtrTo(a.Type(), ks.w.tiTN) {
			f = true
		}
		if ks.w.isTierPtr(a.Type()) {
			s = true
		}
	}
	return f && s
}

// check enumerates the acyclic paths from entry to target.  It returns a
// description of each distinct way target is reached without a store of the
// field and without the branch conditions implying field == source.
func (ks *c03KS) check(target ssa.Instruction) (bad, undecided []string) {
	fn := ks.fn
	tb := target.Block()
	canReach := map[*ssa.BasicBlock]bool{}
	for _, b := range fn.Blocks {
		if b == tb || blockReach(b)[tb] {
			canReach[b] = true
		}
	}
	seenBad := map[string]bool{}
	nPaths := 0
	onPath := map[*ssa.BasicBlock]bool{}
	pred := map[*ssa.BasicBlock]*ssa.BasicBlock{}
	var forms []c03Form
	var descs []string
	opaque := false
	var walk func(b *ssa.BasicBlock)
	walk = func(b *ssa.BasicBlock) {
		if nPaths > 20000 || onPath[b] || !canReach[b] || isPanicBlock(b) {
			return
		}
		onPath[b] = true
		defer func() { onPath[b] = false }()
		for _, in := range b.Instrs {
			if in == target {
				nPaths++
				// does the path imply equality?
				for env := 0; env < 16; env++ {
					pe, fn_, sn, ve := env&c03AtomPtrEq != 0, env&c03AtomFldNil != 0, env&c03AtomSrcNil != 0, env&c03AtomValEq != 0
					// axioms
					if pe && fn_ != sn {
						continue
					}
					if ve && (fn_ || sn) {
						continue
					}
					if ks.srcField == nil && (sn || ve) {
						continue
					}
					consistent := true
					for _, f := range forms {
						if v, known := f(env); known && !v {
							consistent = false
							break
						}
					}
					if !consistent {
						continue
					}
					if pe || ve || (fn_ && sn) {
						continue
					}
					d := "unconditionally"
					if len(descs) > 0 {
						d = "when " + strings.Join(descs, " and ")
					}
					if opaque {
						if !seenBad["?"+d] {
							seenBad["?"+d] = true
							undecided = append(undecided, "the store is bypassed "+d+"; the comparison is made by a call this rule does not look into")
						}
					} else if !seenBad[d] {
						seenBad[d] = true
						bad = append(bad, d)
					}
					break
				}
				return
			}
			if ks.syncs[in] {
				nPaths++
				return // stored on this path: in sync from here on
			}
		}
		if ifi, ok := b.Instrs[len(b.Instrs)-1].(*ssa.If); ok && len(b.Succs) == 2 {
			for k, s := range b.Succs {
				f := ks.form(ifi.Cond, pred)
				want := k == 0
				_, known := f(0)
				savedOpaque := opaque
				if known {
					forms = append(forms, func(env int) (bool, bool) { v, kn := f(env); return v == want, kn })
					descs = append(descs, ks.describe(ifi.Cond, want))
				} else if ks.mentionsBoth(ifi.Cond) {
					opaque = true
				}
				old, had := pred[s]
				pred[s] = b
				walk(s)
				if had {
					pred[s] = old
				} else {
					delete(pred, s)
				}
				if known {
					forms = forms[:len(forms)-1]
					descs = descs[:len(descs)-1]
				}
				opaque = savedOpaque
			}
			return
		}
		for _, s := range b.Succs {
			old, had := pred[s]
			pred[s] = b
			walk(s)
			if had {
				pred[s] = old
			} else {
				delete(pred, s)
			}
		}
	}
	walk(fn.Blocks[0])
	if nPaths > 20000 {
		undecided = append(undecided, "too many paths")
	}
	if nPaths == 0 {
		undecided = append(undecided, "no path reaches the insertion")
	}
	sort.Strings(bad)
	return bad, undecided
}
