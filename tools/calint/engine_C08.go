package main

// engine_C08.go — a small context-sensitive (call-string) value-derivation
// engine used by the C08/C09 rules.  It answers, for an SSA value at a program
// point reached through a given chain of call sites, "which struct fields /
// constants may this value derive from", and — forwards — "into which
// generictables.Rule literal does this MatchCriteria value end up".
//
// The call string makes helper functions that are specialised by a parameter
// (rules.srcOrDst.MatchNet, matchBlockBuilder.Append*Block) analysable: a branch
// guarded by `sod == src` is only considered in contexts where the actual
// argument may be `src`.

import (
	"go/constant"
	"go/token"
	"go/types"
	"sort"

	"golang.org/x/tools/go/ssa"
)

// c08Ctx is one link of a call string: function fn was entered through call
// (nil for the root) from the context parent.
type c08Ctx struct {
	parent *c08Ctx
	call   ssa.CallInstruction
	fn     *ssa.Function
}

func (c *c08Ctx) depth() int {
	n := 0
	for x := c; x != nil; x = x.parent {
		n++
	}
	return n
}

func (c *c08Ctx) has(fn *ssa.Function) bool {
	for x := c; x != nil; x = x.parent {
		if x.fn == fn {
			return true
		}
	}
	return false
}

// String renders the call string as Root>Callee>Callee (names only).
func (c *c08Ctx) String() string {
	if c == nil {
		return ""
	}
	if c.parent == nil {
		return fnName(c.fn)
	}
	return c.parent.String() + ">" + fnName(c.fn)
}

// c08Facts is what a value may derive from.
type c08Facts struct {
	Fields  map[string]bool // "Type.field" reads of terminal struct types
	Sub     map[string]bool // "Type.field" reads traversed on non-terminal structs
	Wrap    map[string]bool // type names asserted on the way (oneof wrappers)
	Consts  []*ssa.Const    // constant leaves
	Calls   []*ssa.Call     // calls accepted by c08Eval.stopCall (recorded, not traversed)
	Unknown bool            // some leaf could not be resolved (root parameter, global, opaque call)
}

func newC08Facts() *c08Facts {
	return &c08Facts{Fields: map[string]bool{}, Sub: map[string]bool{}, Wrap: map[string]bool{}}
}

func (f *c08Facts) fieldList() []string { return sortedKeys(f.Fields) }

// c08Eval evaluates derivations.  terminal decides at which struct types the
// backward walk stops and records the field.
type c08Eval struct {
	terminal func(named string) bool // qualTypeName of the struct
	// bodyOK decides whether a static callee is descended into (its return
	// values are evaluated) instead of being summarised as "derives from all
	// arguments".
	bodyOK func(fn *ssa.Function) bool
	// stopCall (optional): calls it accepts are recorded in Facts.Calls and
	// not traversed.
	stopCall func(c *ssa.Call) bool
	// flagGuards: feasible() also prunes branches on a bare boolean parameter
	// (`if negated {…}` in a helper specialised by a flag) when the call string
	// binds the flag to the other constant.  Off by default: families whose
	// floors count instances per call string keep their enumeration.
	flagGuards bool
}

type c08Key struct {
	v   ssa.Value
	ctx *c08Ctx
}

func (e *c08Eval) facts(v ssa.Value, ctx *c08Ctx) *c08Facts {
	out := newC08Facts()
	seen := map[c08Key]bool{}
	e.walk(v, ctx, out, seen, 0)
	return out
}

func (e *c08Eval) walk(v ssa.Value, ctx *c08Ctx, out *c08Facts, seen map[c08Key]bool, depth int) {
	if v == nil {
		return
	}
	k := c08Key{v, ctx}
	if seen[k] {
		return
	}
	seen[k] = true
	if depth > 60 {
		out.Unknown = true
		return
	}
	d := depth + 1
	switch x := v.(type) {
	case *ssa.Const:
		out.Consts = append(out.Consts, x)
	case *ssa.Parameter:
		cx := ctx
		for cx != nil && cx.fn != x.Parent() {
			cx = cx.parent
		}
		if cx == nil || cx.call == nil {
			out.Unknown = true
			return
		}
		idx := -1
		for i, p := range x.Parent().Params {
			if p == x {
				idx = i
			}
		}
		args := cx.call.Common().Args
		if cx.call.Common().IsInvoke() || idx < 0 || idx >= len(args) {
			out.Unknown = true
			return
		}
		e.walk(args[idx], cx.parent, out, seen, d)
	case *ssa.FreeVar:
		cx := ctx
		for cx != nil && cx.fn != x.Parent() {
			cx = cx.parent
		}
		if cx == nil || cx.call == nil {
			out.Unknown = true
			return
		}
		mc, ok := cx.call.Common().Value.(*ssa.MakeClosure)
		if !ok {
			out.Unknown = true
			return
		}
		for i, fv := range x.Parent().FreeVars {
			if fv == x && i < len(mc.Bindings) {
				e.walk(mc.Bindings[i], cx.parent, out, seen, d)
				return
			}
		}
		out.Unknown = true
	case *ssa.FieldAddr:
		e.field(x.X, x.Field, ctx, out, seen, d)
	case *ssa.Field:
		e.field(x.X, x.Field, ctx, out, seen, d)
	case *ssa.UnOp:
		if x.Op == token.MUL {
			e.walk(x.X, ctx, out, seen, d)
			return
		}
		e.walk(x.X, ctx, out, seen, d)
	case *ssa.Alloc:
		n := 0
		if refs := x.Referrers(); refs != nil {
			for _, r := range *refs {
				if st, ok := r.(*ssa.Store); ok && st.Addr == x {
					e.walk(st.Val, ctx, out, seen, d)
					n++
				}
				// element stores of an array/vararg literal: &alloc[i] = v
				if ia, ok := r.(*ssa.IndexAddr); ok && ia.X == x {
					if rr := ia.Referrers(); rr != nil {
						for _, r2 := range *rr {
							if st, ok := r2.(*ssa.Store); ok && st.Addr == ia {
								e.walk(st.Val, ctx, out, seen, d)
								n++
							}
						}
					}
				}
			}
		}
		if n == 0 {
			out.Unknown = true
		}
	case *ssa.IndexAddr:
		e.walk(x.X, ctx, out, seen, d)
	case *ssa.Index:
		e.walk(x.X, ctx, out, seen, d)
	case *ssa.Lookup:
		e.walk(x.X, ctx, out, seen, d)
	case *ssa.Extract:
		e.walk(x.Tuple, ctx, out, seen, d)
	case *ssa.Next:
		e.walk(x.Iter, ctx, out, seen, d)
	case *ssa.Range:
		e.walk(x.X, ctx, out, seen, d)
	case *ssa.Phi:
		for _, ed := range x.Edges {
			e.walk(ed, ctx, out, seen, d)
		}
	case *ssa.Convert:
		e.walk(x.X, ctx, out, seen, d)
	case *ssa.ChangeType:
		e.walk(x.X, ctx, out, seen, d)
	case *ssa.MakeInterface:
		e.walk(x.X, ctx, out, seen, d)
	case *ssa.ChangeInterface:
		e.walk(x.X, ctx, out, seen, d)
	case *ssa.Slice:
		e.walk(x.X, ctx, out, seen, d)
	case *ssa.SliceToArrayPointer:
		e.walk(x.X, ctx, out, seen, d)
	case *ssa.TypeAssert:
		if n := namedTypeName(x.AssertedType); n != "" {
			out.Wrap[n] = true
		}
		e.walk(x.X, ctx, out, seen, d)
	case *ssa.BinOp:
		e.walk(x.X, ctx, out, seen, d)
		e.walk(x.Y, ctx, out, seen, d)
	case *ssa.Call:
		cc := x.Common()
		if e.stopCall != nil && e.stopCall(x) {
			out.Calls = append(out.Calls, x)
			return
		}
		// generated getter on a terminal struct: GetX() reads field X
		if f := calleeOf(cc); f != nil && len(f.Name()) > 3 && f.Name()[:3] == "Get" && !cc.IsInvoke() {
			if sig, ok := f.Type().(*types.Signature); ok && sig.Recv() != nil && e.terminal != nil && e.terminal(qualTypeName(sig.Recv().Type())) {
				out.Fields[namedTypeName(sig.Recv().Type())+"."+f.Name()[3:]] = true
				return
			}
		}
		if sf := calleeFn(cc); sf != nil && sf.Blocks != nil && e.bodyOK != nil && e.bodyOK(sf) && !ctx.has(sf) && ctx.depth() < 10 {
			sub := &c08Ctx{parent: ctx, call: x, fn: sf}
			for _, r := range returnsOf(sf) {
				for _, res := range r.Results {
					e.walk(res, sub, out, seen, d)
				}
			}
			return
		}
		// summary: the result may derive from every argument (and from the
		// bindings of a closure / the receiver of an invoke).
		if cc.IsInvoke() {
			e.walk(cc.Value, ctx, out, seen, d)
		} else if mc, ok := cc.Value.(*ssa.MakeClosure); ok {
			for _, b := range mc.Bindings {
				e.walk(b, ctx, out, seen, d)
			}
		} else if _, isBuiltin := cc.Value.(*ssa.Builtin); !isBuiltin && cc.StaticCallee() == nil {
			e.walk(cc.Value, ctx, out, seen, d) // call of a func value
		}
		if len(cc.Args) == 0 && !cc.IsInvoke() {
			out.Unknown = true
		}
		for _, a := range cc.Args {
			e.walk(a, ctx, out, seen, d)
		}
	case *ssa.MakeClosure, *ssa.Function, *ssa.Builtin:
		// code, not data
	default:
		out.Unknown = true
	}
}

func (e *c08Eval) field(base ssa.Value, idx int, ctx *c08Ctx, out *c08Facts, seen map[c08Key]bool, d int) {
	tn := qualTypeName(base.Type())
	fn := fieldName(base.Type(), idx)
	short := namedTypeName(base.Type())
	if e.terminal != nil && e.terminal(tn) {
		out.Fields[short+"."+fn] = true
		return
	}
	out.Sub[short+"."+fn] = true
	e.walk(base, ctx, out, seen, d)
}

// c08ConstInts returns the set of integer constants in facts (exact strings),
// or nil if the facts are not purely constant.
func (f *c08Facts) pureConsts() []constant.Value {
	if f.Unknown || len(f.Fields) > 0 || len(f.Consts) == 0 {
		return nil
	}
	var out []constant.Value
	for _, c := range f.Consts {
		if c.Value == nil {
			return nil
		}
		out = append(out, c.Value)
	}
	return out
}

// feasible decides whether instruction in (in ctx.fn) can execute in ctx, as
// far as equality guards against constants are concerned: a guard `X == C`
// (resp. !=) with a known truth value is contradicted when X, resolved in ctx,
// is purely constant and no possible constant gives the guard that value.  The
// same test is applied to every call site of the call string.
func (e *c08Eval) feasible(in ssa.Instruction, ctx *c08Ctx) bool {
	at := in
	for cx := ctx; cx != nil; cx = cx.parent {
		if !e.guardsFeasible(at, cx) {
			return false
		}
		if cx.call == nil {
			break
		}
		at = cx.call
	}
	return true
}

func (e *c08Eval) guardsFeasible(at ssa.Instruction, cx *c08Ctx) bool {
	for _, g := range guardsOf(at) {
		bo, ok := g.Cond.(*ssa.BinOp)
		if !ok {
			// a bare boolean condition (`if negated {…}` on a helper's flag
			// parameter): contradicted when the flag, resolved in the call
			// string, is a pure constant of the other truth value.
			if tv, known := c08FlagValue(g.Cond, cx, 0); e.flagGuards && known && tv != g.True {
				return false
			}
			continue
		}
		if bo.Op != token.EQL && bo.Op != token.NEQ {
			continue
		}
		want := g.True
		if bo.Op == token.NEQ {
			want = !want
		}
		var cst *ssa.Const
		var other ssa.Value
		if c, ok := bo.Y.(*ssa.Const); ok {
			cst, other = c, bo.X
		} else if c, ok := bo.X.(*ssa.Const); ok {
			cst, other = c, bo.Y
		}
		if cst == nil || cst.Value == nil {
			continue
		}
		vals := e.facts(other, cx).pureConsts()
		if vals == nil {
			continue
		}
		possible := false
		for _, v := range vals {
			if v.Kind() == cst.Value.Kind() && constant.Compare(v, token.EQL, cst.Value) == want {
				possible = true
			}
		}
		if !possible {
			return false
		}
	}
	return true
}

// c08FlagValue resolves a boolean that is a constant or a parameter bound —
// through the call string — to a constant at the call site(s) on the string.
func c08FlagValue(v ssa.Value, ctx *c08Ctx, depth int) (val, known bool) {
	if depth > 10 {
		return false, false
	}
	switch x := v.(type) {
	case *ssa.Const:
		if x.Value != nil && x.Value.Kind() == constant.Bool {
			return constant.BoolVal(x.Value), true
		}
	case *ssa.UnOp:
		if x.Op == token.NOT {
			if b, ok := c08FlagValue(x.X, ctx, depth+1); ok {
				return !b, true
			}
		}
	case *ssa.Parameter:
		cx := ctx
		for cx != nil && cx.fn != x.Parent() {
			cx = cx.parent
		}
		if cx == nil || cx.call == nil || cx.call.Common().IsInvoke() {
			return false, false
		}
		for i, pa := range x.Parent().Params {
			if pa == x && i < len(cx.call.Common().Args) {
				return c08FlagValue(cx.call.Common().Args[i], cx.parent, depth+1)
			}
		}
	}
	return false, false
}

// c08Instances enumerates the call-string contexts reachable from root through
// static calls (incl. directly-called closures) into functions accepted by in.
func c08Instances(root *ssa.Function, in func(*ssa.Function) bool, visit func(ctx *c08Ctx)) {
	var rec func(ctx *c08Ctx)
	rec = func(ctx *c08Ctx) {
		visit(ctx)
		if ctx.depth() >= 10 {
			return
		}
		for _, b := range ctx.fn.Blocks {
			for _, ins := range b.Instrs {
				ci, ok := ins.(ssa.CallInstruction)
				if !ok {
					continue
				}
				sf := calleeFn(ci.Common())
				if sf == nil || sf.Blocks == nil || !in(sf) || ctx.has(sf) {
					continue
				}
				rec(&c08Ctx{parent: ctx, call: ci, fn: sf})
			}
		}
	}
	rec(&c08Ctx{fn: root})
}

// c08Literal is a generictables.Rule composite literal (or variable) whose
// Match field a value was stored into.
type c08Literal struct {
	Base ssa.Value // operand X of the FieldAddr(…, Match)
	Ctx  *c08Ctx
}

// c08RuleLiterals follows a MatchCriteria value forwards (fluent chain,
// phi, return to the caller of the call string, argument into a callee, func
// value call) to the Rule literals whose `Match` field it is stored into.
func (e *c08Eval) ruleLiterals(v ssa.Value, ctx *c08Ctx, isMatchInvoke func(*ssa.CallCommon) bool) []c08Literal {
	var out []c08Literal
	seen := map[c08Key]bool{}
	var fwd func(v ssa.Value, ctx *c08Ctx, depth int)
	fwd = func(v ssa.Value, ctx *c08Ctx, depth int) {
		k := c08Key{v, ctx}
		if v == nil || seen[k] || depth > 60 {
			return
		}
		seen[k] = true
		refs := v.Referrers()
		if refs == nil {
			return
		}
		for _, r := range *refs {
			switch x := r.(type) {
			case *ssa.Return:
				if ctx != nil && ctx.call != nil {
					if cv, ok := ctx.call.(*ssa.Call); ok {
						fwd(cv, ctx.parent, depth+1)
					}
				}
			case *ssa.Phi:
				fwd(x, ctx, depth+1)
			case *ssa.MakeInterface:
				fwd(x, ctx, depth+1)
			case *ssa.ChangeInterface:
				fwd(x, ctx, depth+1)
			case *ssa.ChangeType:
				fwd(x, ctx, depth+1)
			case *ssa.TypeAssert:
				fwd(x, ctx, depth+1)
			case *ssa.Extract:
				fwd(x, ctx, depth+1)
			case *ssa.Store:
				if x.Val != v {
					continue
				}
				if fa, ok := x.Addr.(*ssa.FieldAddr); ok {
					if fieldName(fa.X.Type(), fa.Field) == "Match" && namedTypeName(fa.X.Type()) == "Rule" {
						out = append(out, c08Literal{fa.X, ctx})
					}
					continue
				}
				if al, ok := x.Addr.(*ssa.Alloc); ok {
					for _, rr := range *al.Referrers() {
						if ld, ok := rr.(*ssa.UnOp); ok && ld.Op == token.MUL {
							fwd(ld, ctx, depth+1)
						}
					}
				}
			case *ssa.Call:
				cc := x.Common()
				if cc.IsInvoke() {
					if cc.Value == v && isMatchInvoke(cc) {
						fwd(x, ctx, depth+1)
					}
					continue
				}
				sf := calleeFn(cc)
				if sf != nil && sf.Blocks != nil && e.bodyOK != nil && e.bodyOK(sf) && !ctx.has(sf) && ctx.depth() < 10 {
					sub := &c08Ctx{parent: ctx, call: x, fn: sf}
					for i, a := range cc.Args {
						if a == v && i < len(sf.Params) {
							fwd(sf.Params[i], sub, depth+1)
						}
					}
					continue
				}
				// opaque callee / func value (e.g. CombineMatches): result carries the match
				for _, a := range cc.Args {
					if a == v {
						fwd(x, ctx, depth+1)
					}
				}
			}
		}
	}
	fwd(v, ctx, 0)
	return out
}

// c08LiteralActions lists the ActionFactory method names whose results are
// stored into the Action field of the literal, with the call sites.
func c08LiteralActions(l c08Literal) (names []string, calls []*ssa.Call) {
	for _, v := range literalFieldStores(l.Base)["Action"] {
		for _, o := range origins(v, nil) {
			if c, ok := o.V.(*ssa.Call); ok {
				if f := calleeOf(c.Common()); f != nil {
					names = append(names, f.Name())
					calls = append(calls, c)
					continue
				}
			}
			names = append(names, "?")
		}
	}
	sort.Strings(names)
	return
}

// c08IfaceMethodOf reports whether cc is an invoke of a method of the named
// interface type pkg.Name (calico-relative pkg).
func c08IsInvokeOf(cc *ssa.CallCommon, qual string) bool {
	if !cc.IsInvoke() || cc.Method == nil {
		return false
	}
	return qualTypeName(cc.Value.Type()) == qual
}

// c08EmbeddedIfaceCall: call of an interface method promoted through an
// embedded interface field (r.SetMark where DefaultRuleRenderer embeds
// ActionFactory) — in SSA this is an invoke on the loaded embedded field.
func c08InvokeName(cc *ssa.CallCommon, qual string) string {
	if c08IsInvokeOf(cc, qual) {
		return cc.Method.Name()
	}
	return ""
}

var _ = types.Typ

// ---------------------------------------------------------------- leaves --

// c08Leaf is a value a (pointer / scalar) value may be *identical* to — not
// merely derived from — together with the context it lives in.
type c08Leaf struct {
	V   ssa.Value
	Ctx *c08Ctx
}

// c08ValueLeaves resolves v backwards through identity-preserving steps only
// (phi, conversions, interface boxing/unboxing, loads of address-taken locals
// and captured variables, parameters through the call string, results of
// analysable static callees accepted by bodyOK) and returns the values it may be
// equal to.  Everything else (calls without body, field loads, globals,
// parameters of the outermost function, allocations, constants) is a leaf.
func c08ValueLeaves(v ssa.Value, ctx *c08Ctx, bodyOK func(*ssa.Function) bool) []c08Leaf {
	var out []c08Leaf
	seen := map[c08Key]bool{}
	var walk func(v ssa.Value, ctx *c08Ctx, depth int)
	walkRet := func(call *ssa.Call, idx int, ctx *c08Ctx, depth int) bool {
		cc := call.Common()
		sf := calleeFn(cc)
		if sf == nil || sf.Blocks == nil || bodyOK == nil || !bodyOK(sf) || ctx.has(sf) || ctx.depth() >= 10 {
			return false
		}
		sub := &c08Ctx{parent: ctx, call: call, fn: sf}
		for _, r := range returnsOf(sf) {
			if idx < len(r.Results) {
				walk(r.Results[idx], sub, depth+1)
			}
		}
		return true
	}
	// stored values of an address-taken local
	walkAlloc := func(al *ssa.Alloc, ctx *c08Ctx, depth int) bool {
		n := 0
		if refs := al.Referrers(); refs != nil {
			for _, r := range *refs {
				if st, ok := r.(*ssa.Store); ok && st.Addr == al {
					walk(st.Val, ctx, depth+1)
					n++
				}
			}
		}
		return n > 0
	}
	walk = func(v ssa.Value, ctx *c08Ctx, depth int) {
		if v == nil {
			return
		}
		k := c08Key{v, ctx}
		if seen[k] {
			return
		}
		seen[k] = true
		leaf := func() { out = append(out, c08Leaf{v, ctx}) }
		if depth > 60 {
			leaf()
			return
		}
		switch x := v.(type) {
		case *ssa.Phi:
			for _, e := range x.Edges {
				walk(e, ctx, depth+1)
			}
		case *ssa.Convert:
			walk(x.X, ctx, depth+1)
		case *ssa.ChangeType:
			walk(x.X, ctx, depth+1)
		case *ssa.MakeInterface:
			walk(x.X, ctx, depth+1)
		case *ssa.ChangeInterface:
			walk(x.X, ctx, depth+1)
		case *ssa.TypeAssert:
			walk(x.X, ctx, depth+1)
		case *ssa.Extract:
			switch t := x.Tuple.(type) {
			case *ssa.TypeAssert:
				if x.Index == 0 {
					walk(t.X, ctx, depth+1)
					return
				}
			case *ssa.Call:
				if walkRet(t, x.Index, ctx, depth) {
					return
				}
			}
			leaf()
		case *ssa.Call:
			if !walkRet(x, 0, ctx, depth) {
				leaf()
			}
		case *ssa.Parameter:
			cx := ctx
			for cx != nil && cx.fn != x.Parent() {
				cx = cx.parent
			}
			if cx == nil || cx.call == nil || cx.call.Common().IsInvoke() {
				leaf()
				return
			}
			idx := -1
			for i, p := range x.Parent().Params {
				if p == x {
					idx = i
				}
			}
			args := cx.call.Common().Args
			if idx < 0 || idx >= len(args) {
				leaf()
				return
			}
			walk(args[idx], cx.parent, depth+1)
		case *ssa.FreeVar:
			if b, bctx := c08Binding(x, ctx); b != nil {
				walk(b, bctx, depth+1)
				return
			}
			leaf()
		case *ssa.UnOp:
			if x.Op != token.MUL {
				leaf()
				return
			}
			switch a := x.X.(type) {
			case *ssa.Alloc:
				if walkAlloc(a, ctx, depth) {
					return
				}
			case *ssa.FreeVar:
				if b, bctx := c08Binding(a, ctx); b != nil {
					if al, ok := b.(*ssa.Alloc); ok && walkAlloc(al, bctx, depth) {
						return
					}
				}
			}
			leaf()
		default:
			leaf()
		}
	}
	walk(v, ctx, 0)
	return out
}

// c08Binding resolves a free variable to the value bound to it by the
// MakeClosure through which the closure was entered in ctx (nil if the closure
// was not entered through a direct call of a MakeClosure).
func c08Binding(fv *ssa.FreeVar, ctx *c08Ctx) (ssa.Value, *c08Ctx) {
	cx := ctx
	for cx != nil && cx.fn != fv.Parent() {
		cx = cx.parent
	}
	if cx == nil || cx.call == nil {
		return nil, nil
	}
	mc, ok := cx.call.Common().Value.(*ssa.MakeClosure)
	if !ok {
		return nil, nil
	}
	for i, f := range fv.Parent().FreeVars {
		if f == fv && i < len(mc.Bindings) {
			return mc.Bindings[i], cx.parent
		}
	}
	return nil, nil
}

// c08EstablishedAt reports whether the fact accepted by mk(ctx) (an edge
// predicate whose operands are resolved in that context) holds whenever
// instruction at executes in ctx: every path to at — or, failing that, to the
// call site through which ctx.fn was entered, and so on up the call string —
// crosses an accepted If edge.
func c08EstablishedAt(at ssa.Instruction, ctx *c08Ctx, mk func(*c08Ctx) EdgePred) bool {
	for cx := ctx; cx != nil && at != nil; cx = cx.parent {
		if guardedCut(at, mk(cx)) {
			return true
		}
		if cx.call == nil {
			break
		}
		at = cx.call
	}
	return false
}

// c08EstablishedOnEdge: as c08EstablishedAt for the CFG edge from→to (used for
// the incoming edges of a phi): either the fact holds in `from`, or `from` ends
// in an If whose edge to `to` is itself accepted.
func c08EstablishedOnEdge(from, to *ssa.BasicBlock, ctx *c08Ctx, mk func(*c08Ctx) EdgePred) bool {
	last := from.Instrs[len(from.Instrs)-1]
	if ifi, ok := last.(*ssa.If); ok && len(from.Succs) == 2 && from.Succs[0] != from.Succs[1] {
		pred := mk(ctx)
		for k, s := range from.Succs {
			if s == to {
				if c, pol := stripNot(ifi.Cond, k == 0); pred(c, pol) {
					return true
				}
			}
		}
	}
	return c08EstablishedAt(last, ctx, mk)
}
