package main

// Helpers for the IPAM block rules (C21, reused by C20).  Everything here is
// resolved through go/types objects: the model.AllocationBlock struct, its
// fields, and the per-ordinal accessors.  All identifiers carry the c21 prefix.

import (
	"go/token"
	"go/types"

	"golang.org/x/tools/go/ssa"
)

const (
	c21IpamPkg  = "libcalico-go/lib/ipam"
	c21ModelPkg = "libcalico-go/lib/backend/model"
	c21NodePkg  = "kube-controllers/pkg/controllers/node"
)

// c21Model holds the resolved anchors of the IPAM block data model.
type c21Model struct {
	c *Ctx
	p *Prog

	blockT types.Type // model.AllocationBlock
	attrT  types.Type // model.AllocationAttribute
	optsT  types.Type // ipam.ReleaseOptions

	fAllocations, fUnallocated, fAttributes *types.Var // AllocationBlock fields
	fReleasedAt, fHandleID                  *types.Var // AllocationAttribute fields
	fOptAddress, fOptHandle, fOptSeq        *types.Var // ReleaseOptions fields

	getSeq, setSeq, clearSeq, ipToOrdinal *types.Func // AllocationBlock methods

	mutMemo map[*ssa.Function]int // 1 = in progress, 2 = no, 3 = yes

	// entry (engine_C21lift.go): while a helper frame is analysed, the call
	// through which each function of the current call string was entered;
	// parameters resolve to the arguments of that call.  nil = intra-procedural.
	entry map[*ssa.Function]*ssa.Call
}

func c21NewModel(c *Ctx, p *Prog) *c21Model {
	m := &c21Model{c: c, p: p, mutMemo: map[*ssa.Function]int{}}
	typ := func(pkg, name string) types.Type {
		o := p.LookupObj(pkg, name)
		if o == nil {
			o = p.LookupExt(pkg, name)
		}
		tn, _ := o.(*types.TypeName)
		if tn == nil {
			c.Lost("type %s.%s", pkg, name)
		}
		return tn.Type()
	}
	fld := func(pkg, name string) *types.Var {
		o := p.LookupObj(pkg, name)
		if o == nil {
			o = p.LookupExt(pkg, name)
		}
		v, _ := o.(*types.Var)
		if v == nil || !v.IsField() {
			c.Lost("field %s.%s", pkg, name)
		}
		return v
	}
	fn := func(pkg, name string) *types.Func {
		o := p.LookupObj(pkg, name)
		if o == nil {
			o = p.LookupExt(pkg, name)
		}
		f, _ := o.(*types.Func)
		if f == nil {
			c.Lost("func %s.%s", pkg, name)
		}
		return f
	}
	m.blockT = typ(c21ModelPkg, "AllocationBlock")
	m.attrT = typ(c21ModelPkg, "AllocationAttribute")
	m.optsT = typ(c21IpamPkg, "ReleaseOptions")
	m.fAllocations = fld(c21ModelPkg, "AllocationBlock.Allocations")
	m.fUnallocated = fld(c21ModelPkg, "AllocationBlock.Unallocated")
	m.fAttributes = fld(c21ModelPkg, "AllocationBlock.Attributes")
	m.fReleasedAt = fld(c21ModelPkg, "AllocationAttribute.ReleasedAt")
	m.fHandleID = fld(c21ModelPkg, "AllocationAttribute.HandleID")
	m.fOptAddress = fld(c21IpamPkg, "ReleaseOptions.Address")
	m.fOptHandle = fld(c21IpamPkg, "ReleaseOptions.Handle")
	m.fOptSeq = fld(c21IpamPkg, "ReleaseOptions.SequenceNumber")
	m.getSeq = fn(c21ModelPkg, "AllocationBlock.GetSequenceNumberForOrdinal")
	m.setSeq = fn(c21ModelPkg, "AllocationBlock.SetSequenceNumberForOrdinal")
	m.clearSeq = fn(c21ModelPkg, "AllocationBlock.ClearSequenceNumberForOrdinal")
	m.ipToOrdinal = fn(c21ModelPkg, "AllocationBlock.IPToOrdinal")
	return m
}

// fn resolves a function of the ipam package or aborts.
func (m *c21Model) fn(pkg, name string) *ssa.Function {
	f := m.p.Func(pkg, name)
	if f == nil || f.Blocks == nil {
		m.c.Lost("function %s.%s", pkg, name)
	}
	return f
}

func c21StripLoads(v ssa.Value) ssa.Value {
	for {
		u, ok := v.(*ssa.UnOp)
		if !ok || u.Op != token.MUL {
			return v
		}
		v = u.X
	}
}

func c21SameType(a, b types.Type) bool {
	return types.Identical(derefType(a), derefType(b))
}

// isBlockType: t is (a pointer to) model.AllocationBlock.
func (m *c21Model) isBlockType(t types.Type) bool { return c21SameType(t, m.blockT) }

// allocElem: v is (a load of ... of) &Allocations[ord]; returns ord.
func (m *c21Model) allocElem(v ssa.Value) (ssa.Value, bool) {
	ia, ok := c21StripLoads(m.upParam(v)).(*ssa.IndexAddr)
	if !ok || fieldVar(ia.X) != m.fAllocations {
		return nil, false
	}
	return ia.Index, true
}

// unallocElem: v is (a load of) &Unallocated[i]; returns i.
func (m *c21Model) unallocElem(v ssa.Value) (ssa.Value, bool) {
	ia, ok := c21StripLoads(v).(*ssa.IndexAddr)
	if !ok || fieldVar(ia.X) != m.fUnallocated {
		return nil, false
	}
	return ia.Index, true
}

// attrFieldOrd: v is (a load of) the field `f` of Attributes[*Allocations[ord]];
// returns ord.
func (m *c21Model) attrFieldOrd(v ssa.Value, f *types.Var) (ssa.Value, bool) {
	fa, ok := c21StripLoads(v).(*ssa.FieldAddr)
	if !ok || structField(fa.X.Type(), fa.Field) != f {
		return nil, false
	}
	ia, ok := c21StripLoads(fa.X).(*ssa.IndexAddr)
	if !ok || fieldVar(ia.X) != m.fAttributes {
		return nil, false
	}
	return m.allocElem(ia.Index)
}

func c21SameValue(a, b ssa.Value) bool {
	return a == b || (a != nil && b != nil && path(a) == path(b))
}

// ------------------------------------------------------- mutation summaries --

// addrInBlock: the address/value chain of v passes through a field of a
// model.AllocationBlock that is not a fresh local block.
func (m *c21Model) addrInBlock(v ssa.Value) bool {
	seen := map[ssa.Value]bool{}
	var walk func(v ssa.Value, found bool) bool
	walk = func(v ssa.Value, found bool) bool {
		if v == nil || seen[v] {
			return false
		}
		seen[v] = true
		switch x := v.(type) {
		case *ssa.FieldAddr:
			return walk(x.X, found || m.isBlockType(x.X.Type()))
		case *ssa.Field:
			return walk(x.X, found || m.isBlockType(x.X.Type()))
		case *ssa.IndexAddr:
			return walk(x.X, found)
		case *ssa.Index:
			return walk(x.X, found)
		case *ssa.Slice:
			return walk(x.X, found)
		case *ssa.ChangeType:
			return walk(x.X, found)
		case *ssa.Convert:
			return walk(x.X, found)
		case *ssa.UnOp:
			if x.Op == token.MUL {
				return walk(x.X, found)
			}
			return found
		case *ssa.Phi:
			for _, e := range x.Edges {
				if walk(e, found) {
					return true
				}
			}
			return false
		case *ssa.Alloc:
			// a block value constructed locally (newBlock) is not "the" block
			if m.isBlockType(x.Type()) {
				return false
			}
			return found
		}
		return found
	}
	return walk(v, false)
}

// mutationsIn lists the instructions of fn that write state reachable from an
// AllocationBlock: stores / map updates / deletes through a block field, and
// static calls of functions (with bodies) that do so.
func (m *c21Model) mutationsIn(fn *ssa.Function) []ssa.Instruction {
	var out []ssa.Instruction
	for _, b := range fn.Blocks {
		for _, in := range b.Instrs {
			switch x := in.(type) {
			case *ssa.Store:
				if m.addrInBlock(x.Addr) {
					out = append(out, in)
				}
			case *ssa.MapUpdate:
				if m.addrInBlock(x.Map) {
					out = append(out, in)
				}
			case ssa.CallInstruction:
				if cc, ok := isBuiltinCall(in, "delete"); ok {
					if m.addrInBlock(cc.Args[0]) {
						out = append(out, in)
					}
					continue
				}
				if sf := calleeFn(x.Common()); sf != nil && m.mutates(sf) {
					out = append(out, in)
				}
			}
		}
	}
	return out
}

// mutates: fn (or a static callee with a body) writes block state.
func (m *c21Model) mutates(fn *ssa.Function) bool {
	if fn == nil || fn.Blocks == nil {
		return false
	}
	switch m.mutMemo[fn] {
	case 1, 2:
		return false
	case 3:
		return true
	}
	m.mutMemo[fn] = 1
	r := len(m.mutationsIn(fn)) > 0
	if r {
		m.mutMemo[fn] = 3
	} else {
		m.mutMemo[fn] = 2
	}
	return r
}

// allocStores lists the stores into elements of the Allocations slice in fn,
// with the ordinal index.
type c21AllocStore struct {
	St  *ssa.Store
	Ord ssa.Value
}

func (m *c21Model) allocStores(fn *ssa.Function) []c21AllocStore {
	var out []c21AllocStore
	allInstrs(fn, false, func(f *ssa.Function, in ssa.Instruction) {
		if st, ok := in.(*ssa.Store); ok {
			if ia, ok := st.Addr.(*ssa.IndexAddr); ok && fieldVar(ia.X) == m.fAllocations {
				out = append(out, c21AllocStore{st, ia.Index})
			}
		}
	})
	return out
}

// appendCall: v is a call of the append builtin; returns base and the elements
// appended (single values for `append(s, e)`, or the spread slice for
// `append(s, t...)` as spread).
func c21AppendCall(v ssa.Value) (base ssa.Value, elems []ssa.Value, spread ssa.Value, ok bool) {
	call, isCall := v.(*ssa.Call)
	if !isCall {
		return nil, nil, nil, false
	}
	if b, isB := call.Call.Value.(*ssa.Builtin); !isB || b.Name() != "append" || len(call.Call.Args) != 2 {
		return nil, nil, nil, false
	}
	base = call.Call.Args[0]
	va := call.Call.Args[1]
	if sl, isSl := va.(*ssa.Slice); isSl {
		if al, isAl := sl.X.(*ssa.Alloc); isAl && al.Comment == "varargs" {
			for _, r := range *al.Referrers() {
				if ia, ok := r.(*ssa.IndexAddr); ok {
					for _, rr := range *ia.Referrers() {
						if st, ok := rr.(*ssa.Store); ok && st.Addr == ia {
							elems = append(elems, st.Val)
						}
					}
				}
			}
			return base, elems, nil, true
		}
	}
	return base, nil, va, true
}

// ------------------------------------------------------- path-sensitive facts --

// c21PathFacts enumerates the acyclic CFG paths from fn's entry to target's
// block.  Along a path every branch condition (negations stripped, phi nodes
// resolved to the incoming value of the edge actually taken) is recorded with
// the truth value it has on the path; a branch contradicting a recorded fact or
// a boolean constant is infeasible and pruned.  The result is one fact set per
// feasible path.  This over-approximates feasibility (facts of earlier loop
// iterations are not used), which is sound for "every path to target has
// established P".  ok=false if more than limit paths exist.
func c21PathFacts(target ssa.Instruction, limit int) (out []map[ssa.Value]bool, ok bool) {
	fn := target.Parent()
	tb := target.Block()
	facts := map[ssa.Value]bool{}
	phis := map[*ssa.Phi]ssa.Value{}
	onPath := map[*ssa.BasicBlock]bool{}
	ok = true
	resolve := func(v ssa.Value, pol bool) (ssa.Value, bool) {
		for i := 0; i < 32; i++ {
			v, pol = stripNot(v, pol)
			ph, isPhi := v.(*ssa.Phi)
			if !isPhi {
				return v, pol
			}
			r, known := phis[ph]
			if !known {
				return v, pol
			}
			v = r
		}
		return v, pol
	}
	var dfs func(b, prev *ssa.BasicBlock)
	dfs = func(b, prev *ssa.BasicBlock) {
		if !ok || onPath[b] {
			return
		}
		var setPhis []*ssa.Phi
		if prev != nil {
			idx := -1
			for i, p := range b.Preds {
				if p == prev {
					idx = i
				}
			}
			for _, in := range b.Instrs {
				ph, isPhi := in.(*ssa.Phi)
				if !isPhi {
					break
				}
				if idx >= 0 {
					phis[ph] = ph.Edges[idx]
					setPhis = append(setPhis, ph)
				}
			}
		}
		defer func() {
			for _, ph := range setPhis {
				delete(phis, ph)
			}
		}()
		if b == tb {
			cp := map[ssa.Value]bool{}
			for k, v := range facts {
				cp[k] = v
			}
			out = append(out, cp)
			if len(out) > limit {
				ok = false
			}
			return
		}
		if isPanicBlock(b) {
			return
		}
		onPath[b] = true
		defer delete(onPath, b)
		if ifi, isIf := b.Instrs[len(b.Instrs)-1].(*ssa.If); isIf && len(b.Succs) == 2 && b.Succs[0] != b.Succs[1] {
			for k, s := range b.Succs {
				cv, truth := resolve(ifi.Cond, k == 0)
				if cst, isC := cv.(*ssa.Const); isC && cst.Value != nil {
					if (cst.Value.ExactString() == "true") != truth {
						continue
					}
					dfs(s, b)
					continue
				}
				if known, has := facts[cv]; has {
					if known != truth {
						continue
					}
					dfs(s, b)
					continue
				}
				facts[cv] = truth
				dfs(s, b)
				delete(facts, cv)
			}
			return
		}
		for _, s := range b.Succs {
			dfs(s, b)
		}
	}
	dfs(fn.Blocks[0], nil)
	return out, ok
}

// c21NilCmp: v is `x == nil` / `x != nil`; returns x and the truth value of
// "x is nil" given that v has value truth.
func c21NilCmp(v ssa.Value, truth bool) (x ssa.Value, isNil bool, ok bool) {
	bo, isBo := v.(*ssa.BinOp)
	if !isBo || (bo.Op != token.EQL && bo.Op != token.NEQ) {
		return nil, false, false
	}
	switch {
	case isNilConst(bo.Y):
		x = bo.X
	case isNilConst(bo.X):
		x = bo.Y
	default:
		return nil, false, false
	}
	if bo.Op == token.NEQ {
		truth = !truth
	}
	return x, truth, true
}

// c21Eq: v is `a == b` / `a != b`; returns operands and whether they are equal
// given that v has value truth.
func c21Eq(v ssa.Value, truth bool) (a, b ssa.Value, equal bool, ok bool) {
	bo, isBo := v.(*ssa.BinOp)
	if !isBo || (bo.Op != token.EQL && bo.Op != token.NEQ) {
		return nil, nil, false, false
	}
	if bo.Op == token.NEQ {
		truth = !truth
	}
	return bo.X, bo.Y, truth, true
}

// c21Origins is origins() extended to follow loads of fields of local struct
// allocs back to the values stored into that field of the same alloc.
func c21Origins(v ssa.Value, through func(ssa.Value) []ssa.Value) []Origin {
	return origins(v, func(x ssa.Value) []ssa.Value {
		if through != nil {
			if more := through(x); more != nil {
				return more
			}
		}
		u, ok := x.(*ssa.UnOp)
		if !ok || u.Op != token.MUL {
			return nil
		}
		fa, ok := u.X.(*ssa.FieldAddr)
		if !ok {
			return nil
		}
		al, ok := fa.X.(*ssa.Alloc)
		if !ok {
			return nil
		}
		var vals []ssa.Value
		for _, r := range *al.Referrers() {
			if fa2, ok := r.(*ssa.FieldAddr); ok && fa2.Field == fa.Field {
				for _, rr := range *fa2.Referrers() {
					if st, ok := rr.(*ssa.Store); ok && st.Addr == fa2 {
						vals = append(vals, st.Val)
					}
				}
			}
			// whole-struct store: *al = x  -> field of x
			if st, ok := r.(*ssa.Store); ok && st.Addr == al {
				vals = append(vals, st.Val)
			}
		}
		return vals
	})
}
