package main

// C29.rangebound: SimplifyPorts (and whatever else feeds numorstring.PortFromRange
// on the way from K8sNetworkPolicyToCalico) coalesces ports into ranges with a
// running upper bound.  Kubernetes ORs the port entries of a rule, so a merged
// range must cover every entry merged into it: the running upper bound may never
// move down.  That is decidable structurally, without interval arithmetic: every
// value that replaces the bound on a loop back edge must be
//   - the bound itself (unchanged), a builtin max() including it, or bound+const;
//   - or assigned on an edge guarded by a comparison `new >= bound`;
//   - or the very projection of an element of a slice that was sorted ascending
//     on that same projection before the loop (then successive elements cannot
//     decrease).  An element projection that is NOT the sort key (e.g. the upper
//     end of an interval sorted by its lower end), or an element of a slice that
//     is never sorted, is a violation; anything else is reported undecided.

import (
	"fmt"
	"go/token"
	"go/types"
	"sort"
	"strings"

	"golang.org/x/tools/go/ssa"
)

const c29NumPkg = "github.com/projectcalico/api/pkg/lib/numorstring"

func c29StripConv(v ssa.Value) ssa.Value {
	for {
		switch x := v.(type) {
		case *ssa.Convert:
			v = x.X
		case *ssa.ChangeType:
			v = x.X
		default:
			return v
		}
	}
}

// c29Proj describes v as a projection (field path) of some element source.
type c29Proj struct {
	fields string    // ".MinPort" - "" for the element itself
	slice  ssa.Value // the slice indexed (nil when the element is a parameter)
	index  ssa.Value
	param  *ssa.Parameter // element handed in as a parameter (comparators)
}

// c29ElemProj recognises π(S[i]) / π(param) in its SSA spellings.
func c29ElemProj(v ssa.Value) (c29Proj, bool) {
	v = c29StripConv(v)
	fields := ""
	// value-level field selections
	for {
		if f, ok := v.(*ssa.Field); ok {
			fields = "." + fieldName(f.X.Type(), f.Field) + fields
			v = f.X
			continue
		}
		break
	}
	if pa, ok := v.(*ssa.Parameter); ok {
		return c29Proj{fields: fields, param: pa}, true
	}
	u, ok := v.(*ssa.UnOp)
	if !ok || u.Op != token.MUL {
		if ix, ok := v.(*ssa.Index); ok {
			return c29Proj{fields: fields, slice: ix.X, index: ix.Index}, true
		}
		return c29Proj{}, false
	}
	addr := u.X
	for {
		if fa, ok := addr.(*ssa.FieldAddr); ok {
			fields = "." + fieldName(fa.X.Type(), fa.Field) + fields
			addr = fa.X
			continue
		}
		break
	}
	switch a := addr.(type) {
	case *ssa.IndexAddr:
		return c29Proj{fields: fields, slice: a.X, index: a.Index}, true
	case *ssa.Alloc:
		// a local copy of the element (`next := s[0]`, a spilled parameter, a range variable)
		var src ssa.Value
		for _, st := range c29StoresTo(a) {
			if st.Addr != ssa.Value(a) || (src != nil && src != st.Val) {
				return c29Proj{}, false
			}
			src = st.Val
		}
		if src == nil {
			return c29Proj{}, false
		}
		inner, ok := c29ElemProj(src)
		if !ok {
			return c29Proj{}, false
		}
		inner.fields += fields
		return inner, true
	}
	return c29Proj{}, false
}

// c29SliceWeb: the values a slice value was derived from by re-slicing, phi
// merging and loading a local variable (the variable itself is a member).
func c29SliceWeb(v ssa.Value) map[ssa.Value]bool {
	web := map[ssa.Value]bool{}
	var walk func(v ssa.Value)
	walk = func(v ssa.Value) {
		if v == nil || web[v] {
			return
		}
		web[v] = true
		switch x := v.(type) {
		case *ssa.Phi:
			for _, e := range x.Edges {
				walk(e)
			}
		case *ssa.Slice:
			walk(x.X)
		case *ssa.ChangeType:
			walk(x.X)
		case *ssa.MakeInterface:
			walk(x.X)
		case *ssa.UnOp:
			if x.Op == token.MUL {
				walk(x.X) // the variable (Alloc / FreeVar) it is loaded from
			}
		}
	}
	walk(v)
	return web
}

func c29SameWeb(a, b ssa.Value) bool {
	wa, wb := c29SliceWeb(a), c29SliceWeb(b)
	if wa[b] || wb[a] {
		return true
	}
	for v := range wa {
		switch v.(type) {
		case *ssa.Alloc, *ssa.FreeVar, *ssa.Parameter:
			if wb[v] {
				return true
			}
		}
	}
	return false
}

type c29Sort struct {
	call   ssa.CallInstruction
	slice  ssa.Value
	key    string // projection sorted on
	asc    bool
	parsed bool
	why    string
}

// c29SortsIn lists the calls of the standard sort functions in fn.
func c29SortsIn(fn *ssa.Function) []*c29Sort {
	var out []*c29Sort
	allInstrs(fn, false, func(_ *ssa.Function, in ssa.Instruction) {
		ci, ok := in.(ssa.CallInstruction)
		if !ok {
			return
		}
		f := calleeOf(ci.Common())
		if f == nil || f.Pkg() == nil || len(ci.Common().Args) == 0 {
			return
		}
		pkg, name := f.Pkg().Path(), f.Name()
		args := ci.Common().Args
		s := &c29Sort{call: ci, slice: args[0]}
		if mi, ok := s.slice.(*ssa.MakeInterface); ok {
			s.slice = mi.X
		}
		switch {
		case pkg == "sort" && (name == "Ints" || name == "Strings" || name == "Float64s"),
			pkg == "slices" && name == "Sort":
			s.key, s.asc, s.parsed = "", true, true
		case pkg == "sort" && (name == "Slice" || name == "SliceStable") && len(args) == 2:
			s.parseComparator(args[1], true)
		case pkg == "slices" && (name == "SortFunc" || name == "SortStableFunc") && len(args) == 2:
			s.parseComparator(args[1], false)
		case pkg == "sort" && (name == "Sort" || name == "Stable"):
			s.why = "sort." + name + " through a sort.Interface is not analysed"
		default:
			return
		}
		out = append(out, s)
	})
	return out
}

// parseComparator extracts the single key a comparator orders by.
// byIndex: less(i, j int) bool over the captured slice; otherwise cmp(a, b E) int.
func (s *c29Sort) parseComparator(fv ssa.Value, byIndex bool) {
	var fn *ssa.Function
	switch x := fv.(type) {
	case *ssa.MakeClosure:
		fn, _ = x.Fn.(*ssa.Function)
	case *ssa.Function:
		fn = x
	}
	if fn == nil || len(fn.Blocks) == 0 || len(fn.Params) != 2 {
		s.why = "the comparator is not a function literal or named function with a body"
		return
	}
	rets := returnsOf(fn)
	if len(rets) != 1 || len(rets[0].Results) != 1 {
		s.why = "the comparator has several return statements (compound key)"
		return
	}
	var x, y ssa.Value
	switch r := rets[0].Results[0].(type) {
	case *ssa.BinOp:
		switch r.Op {
		case token.LSS:
			x, y = r.X, r.Y
		case token.GTR:
			x, y = r.Y, r.X
		case token.SUB:
			if byIndex {
				s.why = "the less function does not return a comparison"
				return
			}
			x, y = r.X, r.Y
		default:
			s.why = "the comparator returns " + r.Op.String() + ", not a strict comparison of one key"
			return
		}
	case *ssa.Call:
		f := calleeOf(r.Common())
		if byIndex || f == nil || f.Pkg() == nil || f.Pkg().Path() != "cmp" || f.Name() != "Compare" || len(r.Common().Args) != 2 {
			s.why = "the comparator's result is a call that is not cmp.Compare"
			return
		}
		x, y = r.Common().Args[0], r.Common().Args[1]
	default:
		s.why = "the comparator's result is not a comparison of one key"
		return
	}
	px, okx := c29ElemProj(x)
	py, oky := c29ElemProj(y)
	if !okx || !oky || px.fields != py.fields {
		s.why = "the comparator does not compare the same projection of its two elements"
		return
	}
	which := func(pr c29Proj) int {
		var pa *ssa.Parameter
		if byIndex {
			pa, _ = pr.index.(*ssa.Parameter)
		} else {
			pa = pr.param
		}
		for i, q := range fn.Params {
			if pa != nil && q == pa {
				return i
			}
		}
		return -1
	}
	kx, ky := which(px), which(py)
	if kx < 0 || ky < 0 || kx == ky {
		s.why = "the comparator's operands are not its two different elements"
		return
	}
	s.key, s.asc, s.parsed = px.fields, kx == 0, true
}

type c29BoundLeaf struct {
	v        ssa.Value
	from, to *ssa.BasicBlock
}

// c29GeGuard accepts edges establishing u >= a (or u > a) for some member a of the accumulator web.
func c29GeGuard(u ssa.Value, web map[ssa.Value]bool) EdgePred {
	same := func(x, y ssa.Value) bool {
		x, y = c29StripConv(x), c29StripConv(y)
		if x == y {
			return true
		}
		px, py := path(x), path(y)
		return px != "" && px == py && !strings.Contains(px, "?")
	}
	isU := func(x ssa.Value) bool { return same(x, u) }
	isA := func(x ssa.Value) bool { return web[c29StripConv(x)] }
	return func(cond ssa.Value, pol bool) bool {
		bo, ok := cond.(*ssa.BinOp)
		if !ok {
			return false
		}
		op := bo.Op
		switch {
		case isU(bo.X) && isA(bo.Y):
		case isU(bo.Y) && isA(bo.X):
			switch op {
			case token.LSS:
				op = token.GTR
			case token.GTR:
				op = token.LSS
			case token.LEQ:
				op = token.GEQ
			case token.GEQ:
				op = token.LEQ
			}
		default:
			return false
		}
		// now: u <op> a
		switch op {
		case token.GTR, token.GEQ:
			return pol
		case token.LSS:
			return !pol // !(u < a)  =>  u >= a
		}
		return false
	}
}

func c29RangeBound(c *Ctx, p *Prog, cl map[*ssa.Function]bool) {
	pfr, _ := p.LookupExt(c29NumPkg, "PortFromRange").(*types.Func)
	if pfr == nil {
		c.Lost("%s.PortFromRange", c29NumPkg)
	}
	var fns []*ssa.Function
	for f := range cl {
		fns = append(fns, f)
	}
	sort.Slice(fns, func(i, j int) bool { return fns[i].Pos() < fns[j].Pos() })

	// the values that become the upper bound of an emitted range, lifted through
	// parameters to the functions that compute them
	type top struct {
		fn *ssa.Function
		v  ssa.Value
	}
	var tops []top
	seenTop := map[ssa.Value]bool{}
	var lift func(fn *ssa.Function, v ssa.Value, depth int)
	lift = func(fn *ssa.Function, v ssa.Value, depth int) {
		v = c29StripConv(v)
		if seenTop[v] {
			return
		}
		seenTop[v] = true
		if pa, ok := v.(*ssa.Parameter); ok && depth > 0 {
			idx := -1
			for i, q := range fn.Params {
				if q == pa {
					idx = i
				}
			}
			n := 0
			for _, g := range fns {
				allInstrs(g, false, func(_ *ssa.Function, in ssa.Instruction) {
					ci, ok := in.(ssa.CallInstruction)
					if !ok || ci.Common().IsInvoke() || calleeFn(ci.Common()) != fn || idx >= len(ci.Common().Args) {
						return
					}
					n++
					lift(g, ci.Common().Args[idx], depth-1)
				})
			}
			if n > 0 {
				return
			}
		}
		tops = append(tops, top{fn, v})
	}
	nSinks := 0
	for _, fn := range fns {
		for _, cs := range callsIn(fn, false, func(cf *types.Func) bool { return cf == pfr }) {
			if len(cs.Common().Args) != 2 {
				c.Lost("PortFromRange(min, max) signature")
			}
			nSinks++
			lift(fn, cs.Common().Args[1], 3)
		}
	}
	if nSinks == 0 {
		c.Lost("no call of numorstring.PortFromRange in the closure of K8sNetworkPolicyToCalico")
	}

	type verdict struct {
		site               string
		ok, bad, undecided []string
	}
	res := map[string]*verdict{}
	var order []string
	for _, t := range tops {
		loops := c29Loops(t.fn)
		header := map[*ssa.BasicBlock]*c29Loop{}
		for _, l := range loops {
			header[l.Header] = l
		}
		// the phi web of the bound and its loop-header members (the accumulators)
		web := map[ssa.Value]bool{}
		var accs []*ssa.Phi
		var walk func(v ssa.Value)
		walk = func(v ssa.Value) {
			v = c29StripConv(v)
			ph, ok := v.(*ssa.Phi)
			if !ok || web[ph] {
				return
			}
			web[ph] = true
			if header[ph.Block()] != nil {
				accs = append(accs, ph)
			}
			for _, e := range ph.Edges {
				walk(e)
			}
		}
		walk(t.v)
		if len(accs) == 0 {
			continue
		}
		key := "C29.rangebound/" + fnName(t.fn) + "/upper-bound-monotone"
		vd := res[key]
		if vd == nil {
			vd = &verdict{site: p.Pos(t.fn.Pos())}
			res[key] = vd
			order = append(order, key)
		}
		sorts := c29SortsIn(t.fn)
		for _, acc := range accs {
			l := header[acc.Block()]
			for i, e := range acc.Edges {
				from := acc.Block().Preds[i]
				if !l.Blocks[from] {
					continue // initial value
				}
				// expand merges inside the loop
				var leaves []c29BoundLeaf
				seen := map[*ssa.Phi]bool{}
				var expand func(v ssa.Value, from, to *ssa.BasicBlock)
				expand = func(v ssa.Value, from, to *ssa.BasicBlock) {
					if ph, ok := c29StripConv(v).(*ssa.Phi); ok && l.Blocks[ph.Block()] {
						if ph == acc || seen[ph] {
							return // unchanged
						}
						seen[ph] = true
						for j, ee := range ph.Edges {
							expand(ee, ph.Block().Preds[j], ph.Block())
						}
						return
					}
					leaves = append(leaves, c29BoundLeaf{v, from, to})
				}
				expand(e, from, acc.Block())
				for _, lf := range leaves {
					what := pathN(lf.v, 4)
					u := c29StripConv(lf.v)
					// (a) max(), bound + const
					if call, ok := u.(*ssa.Call); ok {
						if b, isB := call.Call.Value.(*ssa.Builtin); isB && b.Name() == "max" {
							has := false
							for _, a := range call.Call.Args {
								has = has || web[c29StripConv(a)]
							}
							if has {
								vd.ok = append(vd.ok, "max() including the bound")
								continue
							}
						}
					}
					if bo, ok := u.(*ssa.BinOp); ok && bo.Op == token.ADD {
						if k, isK := c29IntConst(bo.Y); isK && k >= 0 && web[c29StripConv(bo.X)] {
							vd.ok = append(vd.ok, "bound + constant")
							continue
						}
					}
					// (b) assigned under new >= bound
					if len(lf.from.Instrs) > 0 && guardedCut(lf.from.Instrs[len(lf.from.Instrs)-1], c29GeGuard(u, web)) {
						vd.ok = append(vd.ok, "assigned under a comparison with the bound")
						continue
					}
					// (c) the sort key of a sorted slice's element
					pr, isElem := c29ElemProj(u)
					if !isElem || pr.slice == nil {
						vd.undecided = append(vd.undecided, fmt.Sprintf("the bound is replaced by %s (at %s), which is neither compared with the bound nor an element of a sorted slice", what, p.Pos(lf.v.Pos())))
						continue
					}
					proj := "the element"
					if pr.fields != "" {
						proj = "element" + pr.fields
					}
					var mine []*c29Sort
					for _, s := range sorts {
						if c29SameWeb(pr.slice, s.slice) && len(acc.Block().Instrs) > 0 && instrDominates(s.call, acc.Block().Instrs[0]) {
							mine = append(mine, s)
						}
					}
					switch {
					case len(mine) == 0:
						vd.bad = append(vd.bad, fmt.Sprintf("the running upper bound is overwritten by %s of the slice being scanned without a comparison against the current bound, and that slice is not sorted before the loop", proj))
					default:
						s := mine[len(mine)-1]
						switch {
						case !s.parsed:
							vd.undecided = append(vd.undecided, "the scanned slice is sorted, but "+s.why)
						case !s.asc:
							vd.bad = append(vd.bad, fmt.Sprintf("the running upper bound is overwritten by %s of a slice sorted in DESCENDING order, without a comparison against the current bound", proj))
						case s.key != pr.fields:
							sk := "the element itself"
							if s.key != "" {
								sk = "element" + s.key
							}
							vd.bad = append(vd.bad, fmt.Sprintf("the running upper bound is overwritten by %s of the next element without a comparison against the current bound (no max), but the slice is sorted on %s: an entry that ends before the current range does (nested inside it) moves the bound DOWN and truncates the merged range", proj, sk))
						default:
							vd.ok = append(vd.ok, "overwritten by the sort key ("+proj+") of a slice sorted ascending before the loop")
						}
					}
				}
			}
		}
	}
	if len(order) == 0 {
		c.Lost("no loop-carried upper bound reaches numorstring.PortFromRange (the range-coalescing algorithm changed shape)")
	}
	for _, key := range order {
		vd := res[key]
		switch {
		case len(vd.bad) > 0:
			c.Violate(key, vd.site, "%s: ports the Kubernetes policy allows fall out of the converted rule", strings.Join(vd.bad, "; "))
		case len(vd.undecided) > 0:
			c.Undecided(key, vd.site, "%s", strings.Join(vd.undecided, "; "))
		case len(vd.ok) == 0:
			c.Undecided(key, vd.site, "the accumulator has no update on a back edge")
		default:
			sort.Strings(vd.ok)
			c.Ok(key, vd.site, "every update of the running upper bound is monotone: %s", strings.Join(vd.ok, "; "))
		}
	}
}
