package main

import (
	"go/token"
	"go/types"

	"golang.org/x/tools/go/ssa"
)

// Helpers for "per-iteration" reasoning: the innermost natural loop around an
// instruction, the region of blocks executed once per iteration, and cut-set
// guards evaluated *within one iteration* (start at the body entry, never cross
// the loop header), so that a fact established in an earlier iteration is never
// credited to a later one.

// c27Loop is the innermost natural loop containing an instruction.
type c27Loop struct {
	Fn        *ssa.Function
	Header    *ssa.BasicBlock
	BodyEntry *ssa.BasicBlock          // the successor of Header inside the loop
	Blocks    map[*ssa.BasicBlock]bool // natural loop (blocks that can reach a back edge)
	Next      *ssa.Next                // non-nil: Header iterates with `next` (range over map/string)
}

// c27InnermostLoop returns the smallest natural loop containing in, or nil.
func c27InnermostLoop(in ssa.Instruction) *c27Loop {
	fn := in.Parent()
	if fn == nil {
		return nil
	}
	loops := map[*ssa.BasicBlock]map[*ssa.BasicBlock]bool{}
	for _, t := range fn.Blocks {
		for _, h := range t.Succs {
			if !h.Dominates(t) {
				continue
			}
			set := loops[h]
			if set == nil {
				set = map[*ssa.BasicBlock]bool{h: true}
				loops[h] = set
			}
			st := []*ssa.BasicBlock{t}
			for len(st) > 0 {
				x := st[len(st)-1]
				st = st[:len(st)-1]
				if set[x] {
					continue
				}
				set[x] = true
				st = append(st, x.Preds...)
			}
		}
	}
	var best *c27Loop
	for h, set := range loops {
		if !set[in.Block()] {
			continue
		}
		if best == nil || len(set) < len(best.Blocks) || (len(set) == len(best.Blocks) && h.Index < best.Header.Index) {
			best = &c27Loop{Fn: fn, Header: h, Blocks: set}
		}
	}
	if best == nil {
		return nil
	}
	var inside []*ssa.BasicBlock
	for _, s := range best.Header.Succs {
		if best.Blocks[s] && s != best.Header {
			inside = append(inside, s)
		}
	}
	if len(inside) != 1 {
		return nil
	}
	best.BodyEntry = inside[0]
	for _, x := range best.Header.Instrs {
		if n, ok := x.(*ssa.Next); ok {
			best.Next = n
		}
	}
	return best
}

// InRegion: b executes as part of one iteration (the loop body proper, plus the
// blocks that leave the function from inside the body, e.g. early returns).
func (l *c27Loop) InRegion(b *ssa.BasicBlock) bool { return l.BodyEntry.Dominates(b) }

// Invariant: v is defined outside the per-iteration region (or is a constant,
// parameter, global...), so it has the same value in every iteration.
func (l *c27Loop) Invariant(v ssa.Value) bool {
	in, ok := v.(ssa.Instruction)
	if !ok {
		return true
	}
	b := in.Block()
	return b != nil && !l.Blocks[b] && !l.InRegion(b)
}

// edgeGuarded: every path that starts at the body entry, stays within one
// iteration (does not pass through the header) and traverses an edge accepted
// by isTarget has first traversed an If edge accepted by pred.
func (l *c27Loop) edgeGuarded(isTarget func(from, to *ssa.BasicBlock) bool, pred EdgePred) bool {
	seen := map[*ssa.BasicBlock]bool{}
	st := []*ssa.BasicBlock{l.BodyEntry}
	for len(st) > 0 {
		b := st[len(st)-1]
		st = st[:len(st)-1]
		if seen[b] || b == l.Header {
			continue
		}
		seen[b] = true
		if isPanicBlock(b) {
			continue
		}
		ifi, isIf := b.Instrs[len(b.Instrs)-1].(*ssa.If)
		for k, s := range b.Succs {
			if isIf && len(b.Succs) == 2 && b.Succs[0] != b.Succs[1] {
				c, pol := stripNot(ifi.Cond, k == 0)
				if pred(c, pol) {
					continue
				}
			}
			if isTarget(b, s) {
				return false
			}
			st = append(st, s)
		}
	}
	return true
}

// instrGuarded: within one iteration, in is only reached across an edge accepted by pred.
func (l *c27Loop) instrGuarded(in ssa.Instruction, pred EdgePred) bool {
	tb := in.Block()
	if tb == l.BodyEntry || !l.InRegion(tb) {
		return false
	}
	return l.edgeGuarded(func(_, to *ssa.BasicBlock) bool { return to == tb }, pred)
}

// c27FieldCond accepts edges on which the boolean struct field fv has value want.
func c27FieldCond(want bool, fv *types.Var) EdgePred {
	return func(cond ssa.Value, pol bool) bool {
		return pol == want && fv != nil && fieldVar(cond) == fv
	}
}

// c27OrderCond accepts edges establishing `a >= b` (or the stronger `a > b`) for
// operands classified by isA / isB, whatever the spelling of the comparison.
func c27OrderCond(isA, isB func(ssa.Value) bool) EdgePred {
	return func(cond ssa.Value, pol bool) bool {
		bo, ok := cond.(*ssa.BinOp)
		if !ok {
			return false
		}
		op := bo.Op
		switch {
		case isA(bo.X) && isB(bo.Y):
		case isA(bo.Y) && isB(bo.X):
			switch op {
			case token.LSS:
				op = token.GTR
			case token.GTR:
				op = token.LSS
			case token.LEQ:
				op = token.GEQ
			case token.GEQ:
				op = token.LEQ
			default:
				return false
			}
		default:
			return false
		}
		switch op {
		case token.GEQ, token.GTR:
			return pol
		case token.LSS, token.LEQ:
			return !pol
		}
		return false
	}
}

// c27Unwrap strips value-preserving wrappers.
func c27Unwrap(v ssa.Value) ssa.Value {
	for {
		switch x := v.(type) {
		case *ssa.Convert:
			v = x.X
		case *ssa.ChangeType:
			v = x.X
		case *ssa.MakeInterface:
			v = x.X
		case *ssa.ChangeInterface:
			v = x.X
		default:
			return v
		}
	}
}

// c27LookupOf returns the map Lookup producing v (directly or as #0 of a comma-ok lookup).
func c27LookupOf(v ssa.Value) *ssa.Lookup {
	v = c27Unwrap(v)
	if ex, ok := v.(*ssa.Extract); ok && ex.Index == 0 {
		v = ex.Tuple
	}
	lk, _ := v.(*ssa.Lookup)
	if lk == nil {
		return nil
	}
	if _, isMap := lk.X.Type().Underlying().(*types.Map); !isMap {
		return nil
	}
	return lk
}
