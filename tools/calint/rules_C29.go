package main

import (
	"fmt"
	"go/constant"
	"go/token"
	"go/types"
	"os"
	"sort"
	"strings"

	"golang.org/x/tools/go/ssa"
)

const (
	c29ConvPkg = "libcalico-go/lib/backend/k8s/conversion"
	c29NetV1   = "k8s.io/api/networking/v1"
	c29MetaV1  = "k8s.io/apimachinery/pkg/apis/meta/v1"
	c29CoreV1  = "k8s.io/api/core/v1"
	c29APIv3   = "github.com/projectcalico/api/pkg/apis/projectcalico/v3"
	c29ConvGo  = "libcalico-go/lib/backend/k8s/conversion/conversion.go"
)

func init() {
	register(&Property{
		ID:        "C29",
		Title:     "Kubernetes NetworkPolicy keeps its Kubernetes meaning after conversion",
		Technique: "static analysis: go/types field universes of the k8s API structs, SSA enum-comparison exhaustiveness, field-/context-/branch-sensitive backward provenance slicing (go/ssa) of the converted v3 policy",
		DesignRef: "DESIGN.md §3 C29",
		Explanation: "Decides structural necessary conditions on converter.K8sNetworkPolicyToCalico and everything it reaches in the conversion package: " +
			"(cover) every field that go/types reports for NetworkPolicySpec, NetworkPolicyIngressRule, NetworkPolicyEgressRule, NetworkPolicyPeer, IPBlock, NetworkPolicyPort, LabelSelector and LabelSelectorRequirement " +
			"has a consuming read (a read whose value is used for something other than a same-field struct copy or a nil test); " +
			"(enums) every site comparing a LabelSelectorOperator / PolicyType value with constants compares it with every constant declared for the type; " +
			"(dir) the provenance of every match field of the returned v3 policy is exactly the expected set of k8s fields: ingress rules' Source.{Selector,NamespaceSelector,Nets,NotNets} derive from " +
			"NetworkPolicyIngressRule.From → NetworkPolicyPeer.{PodSelector,NamespaceSelector}, IPBlock.CIDR, IPBlock.Except respectively and nothing reaches Destination except ports; mirrored for egress (To → Destination, nothing reaches Source); " +
			"ports only reach Destination.Ports and derive from Port and EndPort; Protocol derives from NetworkPolicyPort.Protocol or the constant TCP, stored under Protocol==nil; Action is the constant Allow; " +
			"pod selectors are converted with SelectorPod and namespace selectors with SelectorNamespace.",
		NotDecided: "That the generated selector strings and port strings mean the same as the k8s objects (string formats, all() for the empty namespace selector, SimplifyPorts arithmetic); " +
			"evaluation of the converted policy on traffic; PolicyTypes→Types (control dependence only; the switch exhaustiveness is decided); the v3→model conversion in syncersv1/updateprocessors; AdminNetworkPolicy conversion.",
		Assumptions: []string{
			"go/types + go/ssa (x/tools v0.50.0) model of the current source; k8s.io/api and apimachinery types from the module cache version selected by /repo/go.mod",
			"data dependence only: opaque callees (fmt.Sprintf, strings.Join, net.ParseCIDR, numorstring.PortFromString…) derive their result from all their arguments and nothing else",
			"no writes through pointers that escape to opaque callees",
		},
		Run: runC29,
		Fixtures: []Fixture{
			{Name: "endPort ignored when building the port", File: c29ConvGo,
				Old: "\t\tif port.EndPort != nil {\n\t\t\tcalicoPort = fmt.Sprintf(\"%s:%d\", calicoPort, *port.EndPort)\n\t\t}\n", New: "", Expect: "C29.cover/NetworkPolicyPort.EndPort"},
			{Name: "ipBlock.except ignored", File: c29ConvGo,
				Old: "\t\t\tnotNets = append(notNets, ipNet.String())\n", New: "", Expect: "C29.dir/Egress.Destination.NotNets"},
			{Name: "DoesNotExist operator dropped from the switch", File: c29ConvGo,
				Old: "\t\tcase metav1.LabelSelectorOpDoesNotExist:\n\t\t\tselectors = append(selectors, fmt.Sprintf(\"! has(%s)\", e.Key))\n", New: "", Expect: "C29.enums/k8sSelectorToCalico/LabelSelectorOperator/LabelSelectorOpDoesNotExist"},
			{Name: "Egress policy type not recognised", File: c29ConvGo,
				Old: "\t\tcase networkingv1.PolicyTypeEgress:\n\t\t\tegress = true\n", New: "", Expect: "K8sNetworkPolicyToCalico/PolicyType/PolicyTypeEgress"},
			{Name: "ingress peers: nets and notNets swapped", File: c29ConvGo,
				Old: "\t\t\t\t\tSource: apiv3.EntityRule{\n\t\t\t\t\t\tSelector:          selector,\n\t\t\t\t\t\tNamespaceSelector: nsSelector,\n\t\t\t\t\t\tNets:              nets,\n\t\t\t\t\t\tNotNets:           notNets,",
				New: "\t\t\t\t\tSource: apiv3.EntityRule{\n\t\t\t\t\t\tSelector:          selector,\n\t\t\t\t\t\tNamespaceSelector: nsSelector,\n\t\t\t\t\t\tNets:              notNets,\n\t\t\t\t\t\tNotNets:           nets,", Expect: "C29.dir/Ingress.Source.NotNets"},
			{Name: "egress rules converted as ingress (peers land in Source)", File: c29ConvGo,
				Old: "c.k8sRuleToCalico(r.To, r.Ports, false)", New: "c.k8sRuleToCalico(r.To, r.Ports, true)", Expect: "C29.dir/Egress.Source.Selector"},
			{Name: "exceptions appended to the allowed nets", File: c29ConvGo,
				Old: "\t\t\tnotNets = append(notNets, ipNet.String())\n", New: "\t\t\tnets = append(nets, ipNet.String())\n", Expect: "C29.dir/Ingress.Source.Nets"},
			{Name: "peer copy swaps pod and namespace selector", File: c29ConvGo,
				Old: "\t\t\tNamespaceSelector: f.NamespaceSelector,\n\t\t\tPodSelector:       f.PodSelector,\n", New: "\t\t\tNamespaceSelector: f.PodSelector,\n\t\t\tPodSelector:       f.NamespaceSelector,\n", Expect: "C29.dir/Egress.Destination.Selector"},
			{Name: "egress rule action Deny", File: c29ConvGo,
				Old: "\t\t\t\t\tAction:   \"Allow\",\n\t\t\t\t\tProtocol: protocol,\n\t\t\t\t\tDestination:", New: "\t\t\t\t\tAction:   \"Deny\",\n\t\t\t\t\tProtocol: protocol,\n\t\t\t\t\tDestination:", Expect: "C29.dir/Egress.Action"},
			{Name: "default protocol applied when protocol IS set", File: c29ConvGo,
				Old: "\t\tif p.Protocol != nil {\n\t\t\tprotval := kapiv1.Protocol(fmt.Sprintf(\"%s\", *p.Protocol))\n\t\t\tport.Protocol = &protval\n\t\t} else {", New: "\t\tif p.Protocol == nil {\n\t\t\tprotval := kapiv1.Protocol(fmt.Sprintf(\"%s\", \"UDP\"))\n\t\t\tport.Protocol = &protval\n\t\t} else {", Expect: "C29.dir/default-protocol"},
			{Name: "namespace selector converted as a pod selector", File: c29ConvGo,
				Old: "k8sSelectorToCalico(peer.NamespaceSelector, SelectorNamespace)", New: "k8sSelectorToCalico(peer.NamespaceSelector, SelectorPod)", Expect: "C29.dir/seltype"},
			{Name: "ports matched on the source", File: c29ConvGo,
				Old: "\t\t\t\t\tDestination: apiv3.EntityRule{\n\t\t\t\t\t\tPorts: calicoPorts,\n\t\t\t\t\t},", New: "", Expect: "C29.dir/Ingress.Destination.Ports"},
		},
	})
}

// c29Types resolves the k8s / v3 API types used by the rules.
type c29Types struct {
	k8s   map[string]*types.TypeName // bare name -> type
	order []string
	opT   *types.TypeName // LabelSelectorOperator
	ptT   *types.TypeName // PolicyType
	specT *types.TypeName // v3 NetworkPolicySpec
	ruleT *types.TypeName // v3 Rule
}

func c29Resolve(c *Ctx, p *Prog) *c29Types {
	t := &c29Types{k8s: map[string]*types.TypeName{}}
	get := func(pkg, name string) *types.TypeName {
		tn, _ := p.LookupExt(pkg, name).(*types.TypeName)
		if tn == nil {
			c.Lost("type %s.%s", pkg, name)
		}
		return tn
	}
	for _, n := range []string{"NetworkPolicySpec", "NetworkPolicyIngressRule", "NetworkPolicyEgressRule", "NetworkPolicyPeer", "IPBlock", "NetworkPolicyPort"} {
		t.k8s[n] = get(c29NetV1, n)
		t.order = append(t.order, n)
	}
	for _, n := range []string{"LabelSelector", "LabelSelectorRequirement"} {
		t.k8s[n] = get(c29MetaV1, n)
		t.order = append(t.order, n)
	}
	t.opT = get(c29MetaV1, "LabelSelectorOperator")
	t.ptT = get(c29NetV1, "PolicyType")
	t.specT = get(c29APIv3, "NetworkPolicySpec")
	t.ruleT = get(c29APIv3, "Rule")
	return t
}

func runC29(c *Ctx) {
	p := c.Load(c29ConvPkg)
	ty := c29Resolve(c, p)
	top := p.Func(c29ConvPkg, "converter.K8sNetworkPolicyToCalico")
	if top == nil {
		c.Lost("converter.K8sNetworkPolicyToCalico")
	}
	cl := map[*ssa.Function]bool{}
	for f := range p.closure(top) {
		if f.Blocks != nil && topFn(f).Pkg != nil && topFn(f).Pkg == p.SSAPkg(c29ConvPkg) {
			cl[f] = true
		}
	}

	c.Rule("C29.cover", "E-FIELDS", "every field of the k8s NetworkPolicy API structs (go/types) has a consuming read in the closure of K8sNetworkPolicyToCalico (not only a same-field copy or a nil test)", 21)
	c.Rule("C29.enums", "E-ENUM", "every site comparing a LabelSelectorOperator/PolicyType value with constants covers every constant declared for the type", 6)
	c.Rule("C29.dir", "E-FLOW", "provenance of every match field of the returned v3 policy equals the expected k8s fields (direction wiring, Except→NotNets, ports→Destination, Action Allow, default TCP, selector kinds)", 55)

	c29Cover(c, p, ty, cl)
	c29Enums(c, p, ty, cl)
	c29Dir(c, p, ty, top, cl)
}

// ------------------------------------------------------------------ cover --

// c29Consuming counts, per field of struct type tn, the reads in fns whose
// value is used for something other than (a) being stored into the same field of
// the same type (struct copy) or (b) a comparison with nil.
func c29Consuming(fns map[*ssa.Function]bool, tn *types.TypeName) map[string][]ssa.Instruction {
	out := map[string][]ssa.Instruction{}
	isT := func(t types.Type) bool {
		for {
			if pt, ok := t.Underlying().(*types.Pointer); ok {
				t = pt.Elem()
				continue
			}
			break
		}
		n, ok := types.Unalias(t).(*types.Named)
		return ok && n.Origin().Obj() == tn
	}
	valueConsumed := func(v ssa.Value, field string) bool {
		refs := v.Referrers()
		if refs == nil {
			return true
		}
		for _, r := range *refs {
			switch x := r.(type) {
			case *ssa.DebugRef:
				continue
			case *ssa.Store:
				if x.Val == v {
					if fa, ok := x.Addr.(*ssa.FieldAddr); ok && isT(fa.X.Type()) && fieldName(fa.X.Type(), fa.Field) == field {
						continue // same-field copy
					}
				}
				return true
			case *ssa.BinOp:
				if (x.Op == token.EQL || x.Op == token.NEQ) && (isNilConst(x.X) || isNilConst(x.Y)) {
					continue // nil test
				}
				return true
			default:
				return true
			}
		}
		return false
	}
	for fn := range fns {
		for _, b := range fn.Blocks {
			for _, in := range b.Instrs {
				switch x := in.(type) {
				case *ssa.Field:
					if isT(x.X.Type()) {
						f := fieldName(x.X.Type(), x.Field)
						if valueConsumed(x, f) {
							out[f] = append(out[f], in)
						}
					}
				case *ssa.FieldAddr:
					if !isT(x.X.Type()) {
						continue
					}
					f := fieldName(x.X.Type(), x.Field)
					refs := x.Referrers()
					if refs == nil {
						continue
					}
					for _, r := range *refs {
						switch y := r.(type) {
						case *ssa.DebugRef:
						case *ssa.Store:
							if y.Addr == x {
								continue // a write
							}
							out[f] = append(out[f], in) // address stored somewhere
						case *ssa.UnOp:
							if y.Op == token.MUL {
								if valueConsumed(y, f) {
									out[f] = append(out[f], in)
								}
							} else {
								out[f] = append(out[f], in)
							}
						default:
							out[f] = append(out[f], in) // sub-access, passed on…
						}
					}
				}
			}
		}
	}
	return out
}

func c29Cover(c *Ctx, p *Prog, ty *c29Types, cl map[*ssa.Function]bool) {
	for _, name := range ty.order {
		tn := ty.k8s[name]
		reads := c29Consuming(cl, tn)
		fields := structFieldNames(tn.Type(), false)
		if len(fields) == 0 {
			c.Lost("no fields for %s", name)
		}
		for _, f := range fields {
			key := "C29.cover/" + name + "." + f
			if rs := reads[f]; len(rs) > 0 {
				fnset := map[string]bool{}
				for _, r := range rs {
					fnset[fnName(r.Parent())] = true
				}
				c.Ok(key, p.Pos(rs[0].Pos()), "%d consuming read(s) in %v", len(rs), sortedKeys(fnset))
			} else {
				c.Violate(key, p.Pos(tn.Pos()), "field %s.%s of the Kubernetes API is never consumed on the path from K8sNetworkPolicyToCalico (only copied / nil-tested / not read): the converted policy cannot depend on it", name, f)
			}
		}
	}
}

// ------------------------------------------------------------------ enums --

func c29Enums(c *Ctx, p *Prog, ty *c29Types, cl map[*ssa.Function]bool) {
	for _, tn := range []*types.TypeName{ty.opT, ty.ptT} {
		decl := c29ConstsOfType(tn)
		if len(decl) < 2 {
			c.Lost("constants of %s (found %d)", tn.Name(), len(decl))
		}
		type group struct {
			fn   *ssa.Function
			path string
			vals map[string]bool
			pos  token.Pos
		}
		groups := map[string]*group{}
		var fns []*ssa.Function
		for f := range cl {
			fns = append(fns, f)
		}
		sort.Slice(fns, func(i, j int) bool { return fns[i].Pos() < fns[j].Pos() })
		for _, fn := range fns {
			allInstrs(fn, false, func(f *ssa.Function, in ssa.Instruction) {
				bo, ok := in.(*ssa.BinOp)
				if !ok || (bo.Op != token.EQL && bo.Op != token.NEQ) {
					return
				}
				x, y := bo.X, bo.Y
				if _, isC := x.(*ssa.Const); isC {
					x, y = y, x
				}
				cst, isC := y.(*ssa.Const)
				if !isC || cst.Value == nil {
					return
				}
				n, ok := types.Unalias(x.Type()).(*types.Named)
				if !ok || n.Obj() != tn {
					return
				}
				k := fnName(f) + "|" + c29ShortPath(x)
				g := groups[k]
				if g == nil {
					g = &group{fn: f, path: c29ShortPath(x), vals: map[string]bool{}, pos: bo.Pos()}
					groups[k] = g
				}
				g.vals[cst.Value.ExactString()] = true
			})
		}
		if len(groups) == 0 {
			c.Lost("no comparison of a %s value with a constant in the closure of K8sNetworkPolicyToCalico", tn.Name())
		}
		for _, k := range sortedKeys(groups) {
			g := groups[k]
			for _, d := range decl {
				key := fmt.Sprintf("C29.enums/%s/%s/%s", fnName(g.fn), tn.Name(), d.Name())
				c.Check(g.vals[d.Val().ExactString()], key, p.Pos(g.pos),
					fmt.Sprintf("%s is compared with %s", g.path, d.Name()),
					fmt.Sprintf("%s compares %s with %d constant(s) of %s but not with %s (=%s): that value falls through unhandled", fnName(g.fn), g.path, len(g.vals), tn.Name(), d.Name(), d.Val().ExactString()))
			}
		}
	}
}

// -------------------------------------------------------------------- dir --

type c29Row struct {
	key    string   // obligation key suffix
	pend   []string // access path below the returned KVPair
	want   []string // field leaves that must be present
	extra  []string // further field leaves that may be present
	consts []string // if non-nil: non-nil const leaves must be exactly these (ExactString form)
	wantC  []string // const leaves that must be present
}

func c29Dir(c *Ctx, p *Prog, ty *c29Types, top *ssa.Function, cl map[*ssa.Function]bool) {
	var tracked []types.Object
	for _, n := range ty.order {
		tracked = append(tracked, ty.k8s[n])
	}
	npT := p.LookupExt(c29NetV1, "NetworkPolicy")
	if npT == nil {
		c.Lost("networking/v1.NetworkPolicy")
	}
	tracked = append(tracked, npT)
	sl := newC29Slicer(p, tracked...)

	tcp, _ := p.LookupExt(c29CoreV1, "ProtocolTCP").(*types.Const)
	allow, _ := p.LookupExt(c29APIv3, "Allow").(*types.Const)
	if tcp == nil || allow == nil {
		c.Lost("core/v1.ProtocolTCP or v3.Allow")
	}

	selLeaves := []string{"LabelSelector.MatchLabels", "LabelSelector.MatchExpressions", "LabelSelectorRequirement.Key", "LabelSelectorRequirement.Values"}
	var rows []c29Row
	rows = append(rows, c29Row{key: "Spec.Selector", pend: []string{"Selector"},
		want: append([]string{"NetworkPolicy.Spec", "NetworkPolicySpec.PodSelector"}, selLeaves...)})
	for _, d := range []struct{ dir, ruleT, peers, peerSide, otherSide string }{
		{"Ingress", "NetworkPolicyIngressRule", "From", "Source", "Destination"},
		{"Egress", "NetworkPolicyEgressRule", "To", "Destination", "Source"},
	} {
		base := []string{"NetworkPolicy.Spec", "NetworkPolicySpec." + d.dir}
		peerBase := append(append([]string{}, base...), d.ruleT+"."+d.peers)
		portBase := append(append([]string{}, base...), d.ruleT+".Ports")
		cat := func(a []string, b ...string) []string { return append(append([]string{}, a...), b...) }
		rows = append(rows,
			c29Row{key: d.dir + "." + d.peerSide + ".Selector", pend: []string{d.dir, d.peerSide, "Selector"},
				want: cat(peerBase, append([]string{"NetworkPolicyPeer.PodSelector"}, selLeaves...)...)},
			c29Row{key: d.dir + "." + d.peerSide + ".NamespaceSelector", pend: []string{d.dir, d.peerSide, "NamespaceSelector"},
				want: cat(peerBase, append([]string{"NetworkPolicyPeer.NamespaceSelector"}, selLeaves...)...)},
			c29Row{key: d.dir + "." + d.peerSide + ".Nets", pend: []string{d.dir, d.peerSide, "Nets"},
				want: cat(peerBase, "NetworkPolicyPeer.IPBlock", "IPBlock.CIDR")},
			c29Row{key: d.dir + "." + d.peerSide + ".NotNets", pend: []string{d.dir, d.peerSide, "NotNets"},
				want: cat(peerBase, "NetworkPolicyPeer.IPBlock", "IPBlock.Except")},
			c29Row{key: d.dir + ".Destination.Ports", pend: []string{d.dir, "Destination", "Ports"},
				want: cat(portBase, "NetworkPolicyPort.Port", "NetworkPolicyPort.EndPort")},
			c29Row{key: d.dir + ".Protocol", pend: []string{d.dir, "Protocol"},
				want: cat(portBase, "NetworkPolicyPort.Protocol"), wantC: []string{tcp.Val().ExactString()}},
			c29Row{key: d.dir + ".Action", pend: []string{d.dir, "Action"}, consts: []string{allow.Val().ExactString()}},
			c29Row{key: d.dir + ".Source.Ports", pend: []string{d.dir, "Source", "Ports"}},
		)
		for _, f := range []string{"Selector", "NamespaceSelector", "Nets", "NotNets"} {
			rows = append(rows, c29Row{key: d.dir + "." + d.otherSide + "." + f, pend: []string{d.dir, d.otherSide, f}})
		}
		// every other field of v3.Rule / v3.EntityRule (from go/types, so a field added to the
		// v3 API is covered too) must stay unset: no k8s provenance, no constant.
		have := map[string]bool{}
		for _, r := range rows {
			have[r.key] = true
		}
		erT, _ := p.LookupExt(c29APIv3, "EntityRule").(*types.TypeName)
		if erT == nil {
			c.Lost("v3.EntityRule")
		}
		for _, f := range structFieldNames(ty.ruleT.Type(), true) {
			switch f {
			case "Metadata": // annotations, not a match
				continue
			case "Source", "Destination":
				for _, g := range structFieldNames(erT.Type(), true) {
					if k := d.dir + "." + f + "." + g; !have[k] {
						rows = append(rows, c29Row{key: k, pend: []string{d.dir, f, g}, consts: []string{}})
					}
				}
			default:
				if k := d.dir + "." + f; !have[k] {
					rows = append(rows, c29Row{key: k, pend: []string{d.dir, f}, consts: []string{}})
				}
			}
		}
	}
	// the v3 structs must really have the fields the rows name (else the rows are vacuous)
	c29CheckV3Paths(c, p, rows)

	debug := os.Getenv("C29_DEBUG") != ""
	site := p.Pos(top.Pos())
	for _, r := range rows {
		pend := append([]string{"Value", "Spec"}, r.pend...)
		sl.reset()
		for _, ret := range returnsOf(top) {
			if len(ret.Results) > 0 {
				sl.val(ret.Results[0], pend, nil)
			}
		}
		if sl.overflow {
			c.Undecided("C29.dir/"+r.key, site, "slicer step budget exhausted")
			continue
		}
		got := sl.FieldLeaves()
		if debug {
			fmt.Printf("C29 %s: %v  consts=%v\n", r.key, sl.Leaves(), sl.ConstLeaves())
		}
		allowed := map[string]bool{}
		for _, w := range r.want {
			allowed[w] = true
		}
		for _, w := range r.extra {
			allowed[w] = true
		}
		miss := c29Subset(r.want, sl.Has)
		var surplus []string
		for _, g := range got {
			if !allowed[g] {
				surplus = append(surplus, g)
			}
		}
		constBad := ""
		if r.consts != nil {
			var have []string
			for _, h := range sl.ConstLeaves() {
				if h != "nil" {
					have = append(have, h)
				}
			}
			sort.Strings(have)
			wantC := append([]string{}, r.consts...)
			sort.Strings(wantC)
			if strings.Join(have, ",") != strings.Join(wantC, ",") {
				constBad = fmt.Sprintf("constant value(s) %v, expected %v", have, wantC)
			}
		}
		for _, w := range r.wantC {
			if !sl.Has("const:" + w) {
				constBad = fmt.Sprintf("constant %s never reaches it", w)
			}
		}
		key := "C29.dir/" + r.key
		if len(miss) == 0 && len(surplus) == 0 && constBad == "" {
			c.Ok(key, site, "provenance of KVPair.Value.Spec.%s = %v %s", strings.Join(r.pend, "."), got, c29ConstNote(r))
		} else {
			var parts []string
			if len(miss) > 0 {
				parts = append(parts, fmt.Sprintf("does not derive from %v", miss))
			}
			if len(surplus) > 0 {
				parts = append(parts, fmt.Sprintf("derives from %v which must not reach it", surplus))
			}
			if constBad != "" {
				parts = append(parts, constBad)
			}
			c.Violate(key, site, "v3 policy field Spec.%s built by K8sNetworkPolicyToCalico %s", strings.Join(r.pend, "."), strings.Join(parts, "; "))
		}
	}

	// default protocol: a value that is only ever the constant TCP is stored into
	// NetworkPolicyPort.Protocol under Protocol == nil (and Protocol reaches Rule.Protocol, row above).
	portT := ty.k8s["NetworkPolicyPort"]
	protoField, _, _ := types.LookupFieldOrMethod(portT.Type(), true, portT.Pkg(), "Protocol")
	if protoField == nil {
		c.Lost("NetworkPolicyPort.Protocol")
	}
	isProtoLoad := func(v ssa.Value) bool { return fieldVar(v) == protoField }
	nDefault, nGuarded := 0, 0
	var defSite ssa.Instruction
	var fns []*ssa.Function
	for f := range cl {
		fns = append(fns, f)
	}
	sort.Slice(fns, func(i, j int) bool { return fns[i].Pos() < fns[j].Pos() })
	for _, fn := range fns {
		allInstrs(fn, false, func(f *ssa.Function, in ssa.Instruction) {
			st, ok := in.(*ssa.Store)
			if !ok || fieldVar(st.Addr) != protoField {
				return
			}
			if _, isFA := st.Addr.(*ssa.FieldAddr); !isFA {
				return
			}
			sl.SliceVal(st.Val)
			cs := sl.ConstLeaves()
			if len(sl.FieldLeaves()) == 0 && len(cs) == 1 && cs[0] == tcp.Val().ExactString() {
				nDefault++
				defSite = in
				if guardedCut(st, eqCond(true, isProtoLoad, isNilConst)) {
					nGuarded++
				}
			}
		})
	}
	switch {
	case nDefault == 0:
		c.Violate("C29.dir/default-protocol", site, "no store of the constant %s (core/v1.ProtocolTCP) into NetworkPolicyPort.Protocol: a port without protocol is not defaulted to TCP", tcp.Val().ExactString())
	case nGuarded != nDefault:
		c.Violate("C29.dir/default-protocol", p.Pos(defSite.Pos()), "TCP is stored into NetworkPolicyPort.Protocol on a path where Protocol == nil is not established (%d of %d stores guarded)", nGuarded, nDefault)
	default:
		c.Ok("C29.dir/default-protocol", p.Pos(defSite.Pos()), "%d store(s) of constant TCP into NetworkPolicyPort.Protocol, all under Protocol == nil", nDefault)
	}
	c29SelType(c, p, ty, sl, cl)
}

func c29ConstNote(r c29Row) string {
	if r.consts != nil {
		return fmt.Sprintf("constants=%v", r.consts)
	}
	return ""
}

// c29CheckV3Paths makes sure each row names existing fields of v3.NetworkPolicySpec/Rule/EntityRule.
func c29CheckV3Paths(c *Ctx, p *Prog, rows []c29Row) {
	spec, _ := p.LookupExt(c29APIv3, "NetworkPolicySpec").(*types.TypeName)
	for _, r := range rows {
		var t types.Type = spec.Type()
		for _, f := range r.pend {
			for {
				switch u := t.Underlying().(type) {
				case *types.Pointer:
					t = u.Elem()
					continue
				case *types.Slice:
					t = u.Elem()
					continue
				}
				break
			}
			obj, _, _ := types.LookupFieldOrMethod(t, true, spec.Pkg(), f)
			v, ok := obj.(*types.Var)
			if !ok || !v.IsField() {
				c.Lost("v3 path Spec.%s: no field %s in %s", strings.Join(r.pend, "."), f, t)
			}
			t = v.Type()
		}
	}
}

// c29SelType: every call of the selector converter passes SelectorPod for a
// pod selector and SelectorNamespace for a namespace selector.
func c29SelType(c *Ctx, p *Prog, ty *c29Types, sl *c29Slicer, cl map[*ssa.Function]bool) {
	podK, _ := p.LookupObj(c29ConvPkg, "SelectorPod").(*types.Const)
	nsK, _ := p.LookupObj(c29ConvPkg, "SelectorNamespace").(*types.Const)
	if podK == nil || nsK == nil || !types.Identical(podK.Type(), nsK.Type()) {
		c.Lost("SelectorPod / SelectorNamespace constants")
	}
	lsPtr := types.NewPointer(ty.k8s["LabelSelector"].Type())
	var fns []*ssa.Function
	for f := range cl {
		fns = append(fns, f)
	}
	sort.Slice(fns, func(i, j int) bool { return fns[i].Pos() < fns[j].Pos() })
	n := 0
	for _, fn := range fns {
		for _, cs := range callsIn(fn, false, func(f *types.Func) bool {
			sig := f.Type().(*types.Signature)
			if f.Pkg() == nil || f.Pkg().Path() != calicoPrefix+c29ConvPkg || sig.Params().Len() != 2 {
				return false
			}
			return types.Identical(sig.Params().At(0).Type(), lsPtr) && types.Identical(sig.Params().At(1).Type(), podK.Type())
		}) {
			args := cs.Common().Args
			sl.SliceVal(args[0])
			var want *types.Const
			kind := ""
			switch {
			case sl.Has("NetworkPolicyPeer.PodSelector") && !sl.Has("NetworkPolicyPeer.NamespaceSelector"), sl.Has("NetworkPolicySpec.PodSelector"):
				want, kind = podK, "pod"
			case sl.Has("NetworkPolicyPeer.NamespaceSelector") && !sl.Has("NetworkPolicyPeer.PodSelector"):
				want, kind = nsK, "namespace"
			default:
				c.Undecided("C29.dir/seltype/"+fnName(fn), p.Pos(cs.Instr.Pos()), "selector argument with provenance %v", sl.FieldLeaves())
				continue
			}
			n++
			cv, isC := constOf(args[1])
			key := fmt.Sprintf("C29.dir/seltype/%s/%s", fnName(fn), kind)
			c.Check(isC && constant.Compare(cv, token.EQL, want.Val()), key, p.Pos(cs.Instr.Pos()),
				fmt.Sprintf("%s selector converted with %s", kind, want.Name()),
				fmt.Sprintf("%s selector is converted with selector type %v, expected %s (pod selectors get the orchestrator prefix, an empty namespace selector means all())", kind, path(args[1]), want.Name()))
		}
	}
	if n == 0 {
		c.Lost("no call of the label-selector converter in the closure")
	}
}

// c29ShortPath renders an access path with index expressions elided.
func c29ShortPath(v ssa.Value) string {
	s := path(v)
	for {
		i := strings.Index(s, "[")
		j := strings.LastIndex(s, "]")
		if i < 0 || j < i {
			return s
		}
		s = s[:i] + "<elem>" + s[j+1:]
	}
}
