package main

import (
	"fmt"
	"go/constant"
	"go/token"
	"go/types"
	"os"
	"sort"
	"strings"

	"golang.org/x/tools/go/ssa"
)

const (
	c29ConvPkg = "libcalico-go/lib/backend/k8s/conversion"
	c29NetV1   = "k8s.io/api/networking/v1"
	c29MetaV1  = "k8s.io/apimachinery/pkg/apis/meta/v1"
	c29CoreV1  = "k8s.io/api/core/v1"
	c29APIv3   = "github.com/projectcalico/api/pkg/apis/projectcalico/v3"
	c29ConvGo  = "libcalico-go/lib/backend/k8s/conversion/conversion.go"
	c29UpdPkg  = "libcalico-go/lib/backend/syncersv1/updateprocessors"
	c29WepGo   = "libcalico-go/lib/backend/k8s/conversion/workload_endpoint_default.go"
)

func init() {
	register(&Property{
		ID:        "C29",
		Title:     "Kubernetes NetworkPolicy keeps its Kubernetes meaning after conversion",
		Technique: "static analysis: go/types field universes of the k8s API structs, SSA enum-comparison exhaustiveness, field-/context-/branch-sensitive backward provenance slicing (go/ssa) of the converted v3 policy, natural-loop loop-carried dependence and accumulator monotonicity",
		DesignRef: "DESIGN.md §3 C29",
		Explanation: "Decides structural necessary conditions on converter.K8sNetworkPolicyToCalico and everything it reaches in the conversion package: " +
			"(cover) every field that go/types reports for NetworkPolicySpec, NetworkPolicyIngressRule, NetworkPolicyEgressRule, NetworkPolicyPeer, IPBlock, NetworkPolicyPort, LabelSelector and LabelSelectorRequirement " +
			"has a consuming read (a read whose value is used for something other than a same-field struct copy or a nil test); " +
			"(enums) every site comparing a LabelSelectorOperator / PolicyType value with constants compares it with every constant declared for the type; " +
			"(dir) the provenance of every match field of the returned v3 policy is exactly the expected set of k8s fields: ingress rules' Source.{Selector,NamespaceSelector,Nets,NotNets} derive from " +
			"NetworkPolicyIngressRule.From → NetworkPolicyPeer.{PodSelector,NamespaceSelector}, IPBlock.CIDR, IPBlock.Except respectively and nothing reaches Destination except ports; mirrored for egress (To → Destination, nothing reaches Source); " +
			"ports only reach Destination.Ports and derive from Port and EndPort; Protocol derives from NetworkPolicyPort.Protocol or the constant TCP, stored under Protocol==nil; Action is the constant Allow; " +
			"pod selectors are converted with SelectorPod and namespace selectors with SelectorNamespace; " +
			"(types) a v3 PolicyType constant is placed into the Types list only on paths that established that spec.policyTypes contains the Kubernetes constant of the same value " +
			"(path cut over comparison edges, bool flags followed through phis/helpers; Ingress additionally under 'no type established'), and every condition such a site is control-dependent on " +
			"(post-dominator control dependence, transitive) has a provenance inside spec.policyTypes — nothing derived from spec.ingress/spec.egress; " +
			"(ownlabels) in the conversion and update-processor packages a store of projectcalico.org/namespace, /orchestrator or /serviceaccount into a label map is never followed (CFG reachability, closures placed at their MakeClosure) " +
			"by a bulk copy, a non-constant-key store or a delete/clear on the same map, so the labels that namespace-scope converted policies cannot be overridden by the pod's own labels; " +
			"(peerlocal) Kubernetes ORs the peers of a rule and an ipBlock's except list only cuts into its own cidr, while a Calico rule ANDs NotNets against all its Nets: in every loop that walks NetworkPolicyPeer elements, the value stored into EntityRule.Nets / NotNets and the rule object written to have no loop-carried dependence (no accumulator across peers, no element of the rules built so far; natural loops + backward data slice, helpers lifted to their call sites); " +
			"(rangebound) the running upper bound of a coalesced port range - the loop-carried value that reaches numorstring.PortFromRange's max argument - never moves down: every back-edge update is the bound itself, max() with it, bound+const, assigned under a comparison new >= bound, or the sort key of an element of a slice sorted ascending on that very key before the loop (sort.Ints/slices.Sort/sort.Slice/slices.SortFunc comparators are parsed); an element projection other than the sort key, or an element of an unsorted slice, is a violation.",
		NotDecided: "That the generated selector strings and port strings mean the same as the k8s objects (string formats, all() for the empty namespace selector); SimplifyPorts arithmetic beyond the monotonicity of the range's upper bound (gap test, lower bound, that the scan visits the sorted slice front to back, uint16 overflow); merging of peers that would be semantically harmless (ipBlocks without except) is rejected by peerlocal as well; " +
			"evaluation of the converted policy on traffic; that the PolicyTypes flag variables are initialised false is decided, but not what Felix does with a given Types list; the values stored under the owned label keys; label maps built outside the two packages (clientv3); the v3→model conversion in syncersv1/updateprocessors; AdminNetworkPolicy conversion.",
		Assumptions: []string{
			"go/types + go/ssa (x/tools v0.50.0) model of the current source; k8s.io/api and apimachinery types from the module cache version selected by /repo/go.mod",
			"data dependence only: opaque callees (fmt.Sprintf, strings.Join, net.ParseCIDR, numorstring.PortFromString…) derive their result from all their arguments and nothing else",
			"no writes through pointers that escape to opaque callees",
			"ownlabels: callees without a body other than maps.Copy/Insert/DeleteFunc and the builtins delete/clear do not write the label map passed to them",
		},
		Run: runC29,
		Fixtures: []Fixture{
			{Name: "endPort ignored when building the port", File: c29ConvGo,
				Old: "\t\tif port.EndPort != nil {\n\t\t\tcalicoPort = fmt.Sprintf(\"%s:%d\", calicoPort, *port.EndPort)\n\t\t}\n", New: "", Expect: "C29.cover/NetworkPolicyPort.EndPort"},
			{Name: "ipBlock.except ignored", File: c29ConvGo,
				Old: "\t\t\tnotNets = append(notNets, ipNet.String())\n", New: "", Expect: "C29.dir/Egress.Destination.NotNets"},
			{Name: "DoesNotExist operator dropped from the switch", File: c29ConvGo,
				Old: "\t\tcase metav1.LabelSelectorOpDoesNotExist:\n\t\t\tselectors = append(selectors, fmt.Sprintf(\"! has(%s)\", e.Key))\n", New: "", Expect: "C29.enums/k8sSelectorToCalico/LabelSelectorOperator/LabelSelectorOpDoesNotExist"},
			{Name: "Egress policy type not recognised", File: c29ConvGo,
				Old: "\t\tcase networkingv1.PolicyTypeEgress:\n\t\t\tegress = true\n", New: "", Expect: "K8sNetworkPolicyToCalico/PolicyType/PolicyTypeEgress"},
			{Name: "ingress peers: nets and notNets swapped", File: c29ConvGo,
				Old: "\t\t\t\t\tSource: apiv3.EntityRule{\n\t\t\t\t\t\tSelector:          selector,\n\t\t\t\t\t\tNamespaceSelector: nsSelector,\n\t\t\t\t\t\tNets:              nets,\n\t\t\t\t\t\tNotNets:           notNets,",
				New: "\t\t\t\t\tSource: apiv3.EntityRule{\n\t\t\t\t\t\tSelector:          selector,\n\t\t\t\t\t\tNamespaceSelector: nsSelector,\n\t\t\t\t\t\tNets:              notNets,\n\t\t\t\t\t\tNotNets:           nets,", Expect: "C29.dir/Ingress.Source.NotNets"},
			{Name: "egress rules converted as ingress (peers land in Source)", File: c29ConvGo,
				Old: "c.k8sRuleToCalico(r.To, r.Ports, false)", New: "c.k8sRuleToCalico(r.To, r.Ports, true)", Expect: "C29.dir/Egress.Source.Selector"},
			{Name: "exceptions appended to the allowed nets", File: c29ConvGo,
				Old: "\t\t\tnotNets = append(notNets, ipNet.String())\n", New: "\t\t\tnets = append(nets, ipNet.String())\n", Expect: "C29.dir/Ingress.Source.Nets"},
			{Name: "peer copy swaps pod and namespace selector", File: c29ConvGo,
				Old: "\t\t\tNamespaceSelector: f.NamespaceSelector,\n\t\t\tPodSelector:       f.PodSelector,\n", New: "\t\t\tNamespaceSelector: f.PodSelector,\n\t\t\tPodSelector:       f.NamespaceSelector,\n", Expect: "C29.dir/Egress.Destination.Selector"},
			{Name: "egress rule action Deny", File: c29ConvGo,
				Old: "\t\t\t\t\tAction:   \"Allow\",\n\t\t\t\t\tProtocol: protocol,\n\t\t\t\t\tDestination:", New: "\t\t\t\t\tAction:   \"Deny\",\n\t\t\t\t\tProtocol: protocol,\n\t\t\t\t\tDestination:", Expect: "C29.dir/Egress.Action"},
			{Name: "default protocol applied when protocol IS set", File: c29ConvGo,
				Old: "\t\tif p.Protocol != nil {\n\t\t\tprotval := kapiv1.Protocol(fmt.Sprintf(\"%s\", *p.Protocol))\n\t\t\tport.Protocol = &protval\n\t\t} else {", New: "\t\tif p.Protocol == nil {\n\t\t\tprotval := kapiv1.Protocol(fmt.Sprintf(\"%s\", \"UDP\"))\n\t\t\tport.Protocol = &protval\n\t\t} else {", Expect: "C29.dir/default-protocol"},
			{Name: "namespace selector converted as a pod selector", File: c29ConvGo,
				Old: "k8sSelectorToCalico(peer.NamespaceSelector, SelectorNamespace)", New: "k8sSelectorToCalico(peer.NamespaceSelector, SelectorPod)", Expect: "C29.dir/seltype"},
			{Name: "Egress type inferred from the presence of egress rules", File: c29ConvGo,
				Old: "\tif egress {\n\t\tpolicyTypes = append(policyTypes, apiv3.PolicyTypeEgress)\n", New: "\tif egress || len(egressRules) > 0 {\n\t\tpolicyTypes = append(policyTypes, apiv3.PolicyTypeEgress)\n", Expect: "C29.types/guard/PolicyTypeEgress"},
			{Name: "Egress type dropped when the egress section is empty", File: c29ConvGo,
				Old: "\tif egress {\n\t\tpolicyTypes = append(policyTypes, apiv3.PolicyTypeEgress)\n", New: "\tif egress && len(np.Spec.Egress) > 0 {\n\t\tpolicyTypes = append(policyTypes, apiv3.PolicyTypeEgress)\n", Expect: "C29.types/indep/PolicyTypeEgress"},
			{Name: "Ingress type inferred from the presence of ingress rules", File: c29ConvGo,
				Old: "\tif ingress {\n\t\tpolicyTypes = append(policyTypes, apiv3.PolicyTypeIngress)\n", New: "\tif ingress || len(ingressRules) > 0 {\n\t\tpolicyTypes = append(policyTypes, apiv3.PolicyTypeIngress)\n", Expect: "C29.types/guard/PolicyTypeIngress"},
			{Name: "policyTypes flags crossed", File: c29ConvGo,
				Old: "\t\tcase networkingv1.PolicyTypeIngress:\n\t\t\tingress = true\n\t\tcase networkingv1.PolicyTypeEgress:\n\t\t\tegress = true\n", New: "\t\tcase networkingv1.PolicyTypeIngress:\n\t\t\tegress = true\n\t\tcase networkingv1.PolicyTypeEgress:\n\t\t\tingress = true\n", Expect: "C29.types/guard/PolicyTypeEgress"},
			{Name: "egress flag preset from the rule list", File: c29ConvGo,
				Old: "\tegress := false\n", New: "\tegress := len(egressRules) > 0\n", Expect: "C29.types/guard/PolicyTypeEgress"},
			{Name: "pod labels copied over the Calico-owned labels", File: c29WepGo,
				Old: "\tmaps.Copy(labels, pod.Labels)\n\tlabels[apiv3.LabelNamespace] = pod.Namespace\n\tlabels[apiv3.LabelOrchestrator] = apiv3.OrchestratorKubernetes\n", New: "\tlabels[apiv3.LabelNamespace] = pod.Namespace\n\tlabels[apiv3.LabelOrchestrator] = apiv3.OrchestratorKubernetes\n\tmaps.Copy(labels, pod.Labels)\n", Expect: "C29.ownlabels/defaultWorkloadEndpointConverter.podToDefaultWorkloadEndpoint/LabelNamespace"},
			{Name: "pod labels looped in after the serviceaccount label", File: c29WepGo,
				Old: "\t\tlabels[apiv3.LabelServiceAccount] = pod.Spec.ServiceAccountName\n\t}\n", New: "\t\tlabels[apiv3.LabelServiceAccount] = pod.Spec.ServiceAccountName\n\t}\n\tfor k, v := range pod.Labels {\n\t\tlabels[k] = v\n\t}\n", Expect: "C29.ownlabels/defaultWorkloadEndpointConverter.podToDefaultWorkloadEndpoint/LabelServiceAccount"},
			{Name: "network set labels copied over the namespace label", File: "libcalico-go/lib/backend/syncersv1/updateprocessors/networksetprocessor.go",
				Old: "\tmaps.Copy(labelsWithCalicoNamespace, v3res.GetLabels())\n\tlabelsWithCalicoNamespace[apiv3.LabelNamespace] = v3res.Namespace\n", New: "\tlabelsWithCalicoNamespace[apiv3.LabelNamespace] = v3res.Namespace\n\tmaps.Copy(labelsWithCalicoNamespace, v3res.GetLabels())\n", Expect: "C29.ownlabels/convertNetworkSetV2ToV1Value/LabelNamespace"},
			{Name: "ipBlock exceptions accumulated across the peers of a rule", File: c29ConvGo,
				Old:    "\t\tfor _, peer := range peers {\n\t\t\tselector, nsSelector, nets, notNets := c.k8sPeerToCalicoFields(peer)\n",
				New:    "\t\tvar allNotNets []string\n\t\tfor _, peer := range peers {\n\t\t\tselector, nsSelector, nets, peerNotNets := c.k8sPeerToCalicoFields(peer)\n\t\t\tallNotNets = append(allNotNets, peerNotNets...)\n\t\t\tnotNets := allNotNets\n",
				Expect: "C29.peerlocal/converter.k8sRuleToCalico/NotNets"},
			{Name: "ipBlock CIDRs accumulated across the peers of a rule (each peer's exceptions then apply to the union)", File: c29ConvGo,
				Old:    "\t\tfor _, peer := range peers {\n\t\t\tselector, nsSelector, nets, notNets := c.k8sPeerToCalicoFields(peer)\n",
				New:    "\t\tvar allNets []string\n\t\tfor _, peer := range peers {\n\t\t\tselector, nsSelector, peerNets, notNets := c.k8sPeerToCalicoFields(peer)\n\t\t\tallNets = append(allNets, peerNets...)\n\t\t\tnets := allNets\n",
				Expect: "C29.peerlocal/converter.k8sRuleToCalico/Nets"},
			{Name: "further ipBlock peers folded into the rule generated for the first one", File: c29ConvGo,
				Old:    "\t\tfor _, peer := range peers {\n\t\t\tselector, nsSelector, nets, notNets := c.k8sPeerToCalicoFields(peer)\n",
				New:    "\t\tipBlockRule := -1\n\t\tfor _, peer := range peers {\n\t\t\tselector, nsSelector, nets, notNets := c.k8sPeerToCalicoFields(peer)\n\t\t\tif len(nets) > 0 {\n\t\t\t\tif ipBlockRule >= 0 {\n\t\t\t\t\ter := &rules[ipBlockRule].Destination\n\t\t\t\t\tif ingress {\n\t\t\t\t\t\ter = &rules[ipBlockRule].Source\n\t\t\t\t\t}\n\t\t\t\t\ter.Nets = append(er.Nets, nets...)\n\t\t\t\t\ter.NotNets = append(er.NotNets, notNets...)\n\t\t\t\t\tcontinue\n\t\t\t\t}\n\t\t\t\tipBlockRule = len(rules)\n\t\t\t}\n",
				Expect: "C29.peerlocal/converter.k8sRuleToCalico/NotNets"},
			{Name: "numeric ports no longer sorted before they are coalesced into ranges", File: c29ConvGo,
				Old: "\tsort.Ints(numericPorts)\n", New: "", Expect: "C29.rangebound/SimplifyPorts/upper-bound-monotone"},
			{Name: "SimplifyPorts coalesces [min,max] intervals sorted by min and overwrites the range end with the next interval's max", File: c29ConvGo,
				Old:    "\tvar numericPorts []int\n\tvar outputPorts []numorstring.Port\n\tfor _, p := range ports {\n\t\tif p.PortName != \"\" {\n\t\t\t// Pass named ports through immediately, there's nothing to be done for them.\n\t\t\toutputPorts = append(outputPorts, p)\n\t\t} else {\n\t\t\t// Work with ints to avoid overflow with the uint16 port type.\n\t\t\t// In practice, we currently only get single ports here so this\n\t\t\t// loop should run exactly once.\n\t\t\tfor i := int(p.MinPort); i <= int(p.MaxPort); i++ {\n\t\t\t\tnumericPorts = append(numericPorts, i)\n\t\t\t}\n\t\t}\n\t}\n\n\tif len(numericPorts) <= 1 {\n\t\t// We have nothing to combine, short-circuit.\n\t\treturn ports\n\t}\n\n\t// Sort the ports so it will be easy to find ranges.\n\tsort.Ints(numericPorts)\n\n\t// Each pass around this outer loop extracts one port range from the sorted slice\n\t// and it moves the slice along to the start of the next range.\n\tfor len(numericPorts) > 0 {\n\t\t// Initialise the next range to the contain only the first port in the slice.\n\t\tfirstPortInRange := numericPorts[0]\n\t\tlastPortInRange := firstPortInRange\n\n\t\t// Scan ahead, looking for ports that can be combined into this range.\n\t\tnumericPorts = numericPorts[1:]\n\t\tfor len(numericPorts) > 0 {\n\t\t\tnextPort := numericPorts[0]\n\t\t\tif nextPort > lastPortInRange+1 {\n\t\t\t\t// This port can't be coalesced with the existing range, break out so\n\t\t\t\t// that we record the range; then we'll loop again and pick up this\n\t\t\t\t// port as the start of a new range.\n\t\t\t\tbreak\n\t\t\t}\n\t\t\t// The next port is either equal to the last port (due to a duplicate port\n\t\t\t// in the input) or it is exactly one greater.  Extend the range to include\n\t\t\t// it.\n\t\t\tlastPortInRange = nextPort\n",
				New:    "\tvar numericPorts []numorstring.Port\n\tvar outputPorts []numorstring.Port\n\tfor _, p := range ports {\n\t\tif p.PortName != \"\" {\n\t\t\t// Pass named ports through immediately, there's nothing to be done for them.\n\t\t\toutputPorts = append(outputPorts, p)\n\t\t} else {\n\t\t\t// Single port or a port range (from endPort); either way it's a [MinPort, MaxPort]\n\t\t\t// interval.  Keep it as an interval rather than expanding it port-by-port; a\n\t\t\t// policy with a wide endPort range would otherwise cost tens of thousands of entries.\n\t\t\tnumericPorts = append(numericPorts, p)\n\t\t}\n\t}\n\n\tif len(numericPorts) <= 1 {\n\t\t// We have nothing to combine, short-circuit.\n\t\treturn ports\n\t}\n\n\t// Sort the intervals by their first port so it will be easy to find ranges.\n\tsort.Slice(numericPorts, func(i, j int) bool {\n\t\treturn numericPorts[i].MinPort < numericPorts[j].MinPort\n\t})\n\n\t// Each pass around this outer loop extracts one port range from the sorted slice\n\t// and it moves the slice along to the start of the next range.\n\tfor len(numericPorts) > 0 {\n\t\t// Initialise the next range to the contain only the first interval in the slice.\n\t\t// Work with ints to avoid overflow with the uint16 port type.\n\t\tfirstPortInRange := int(numericPorts[0].MinPort)\n\t\tlastPortInRange := int(numericPorts[0].MaxPort)\n\n\t\t// Scan ahead, looking for intervals that can be combined into this range.\n\t\tnumericPorts = numericPorts[1:]\n\t\tfor len(numericPorts) > 0 {\n\t\t\tnext := numericPorts[0]\n\t\t\tif int(next.MinPort) > lastPortInRange+1 {\n\t\t\t\t// This interval can't be coalesced with the existing range, break out so\n\t\t\t\t// that we record the range; then we'll loop again and pick up this\n\t\t\t\t// interval as the start of a new range.\n\t\t\t\tbreak\n\t\t\t}\n\t\t\t// The next interval either overlaps the range (e.g. due to a duplicate port\n\t\t\t// in the input) or it starts exactly one port after it.  Extend the range to\n\t\t\t// include it.\n\t\t\tlastPortInRange = int(next.MaxPort)\n",
				Expect: "C29.rangebound/SimplifyPorts/upper-bound-monotone"},
			{Name: "ports matched on the source", File: c29ConvGo,
				Old: "\t\t\t\t\tDestination: apiv3.EntityRule{\n\t\t\t\t\t\tPorts: calicoPorts,\n\t\t\t\t\t},", New: "", Expect: "C29.dir/Ingress.Destination.Ports"},
		},
	})
}

// c29Types resolves the k8s / v3 API types used by the rules.
type c29Types struct {
	k8s   map[string]*types.TypeName // bare name -> type
	order []string
	opT   *types.TypeName // LabelSelectorOperator
	ptT   *types.TypeName // PolicyType
	specT *types.TypeName // v3 NetworkPolicySpec
	ruleT *types.TypeName // v3 Rule
}

func c29Resolve(c *Ctx, p *Prog) *c29Types {
	t := &c29Types{k8s: map[string]*types.TypeName{}}
	get := func(pkg, name string) *types.TypeName {
		tn, _ := p.LookupExt(pkg, name).(*types.TypeName)
		if tn == nil {
			c.Lost("type %s.%s", pkg, name)
		}
		return tn
	}
	for _, n := range []string{"NetworkPolicySpec", "NetworkPolicyIngressRule", "NetworkPolicyEgressRule", "NetworkPolicyPeer", "IPBlock", "NetworkPolicyPort"} {
		t.k8s[n] = get(c29NetV1, n)
		t.order = append(t.order, n)
	}
	for _, n := range []string{"LabelSelector", "LabelSelectorRequirement"} {
		t.k8s[n] = get(c29MetaV1, n)
		t.order = append(t.order, n)
	}
	t.opT = get(c29MetaV1, "LabelSelectorOperator")
	t.ptT = get(c29NetV1, "PolicyType")
	t.specT = get(c29APIv3, "NetworkPolicySpec")
	t.ruleT = get(c29APIv3, "Rule")
	return t
}

func runC29(c *Ctx) {
	p := c.Load(c29ConvPkg, c29UpdPkg)
	ty := c29Resolve(c, p)
	top := p.Func(c29ConvPkg, "converter.K8sNetworkPolicyToCalico")
	if top == nil {
		c.Lost("converter.K8sNetworkPolicyToCalico")
	}
	cl := map[*ssa.Function]bool{}
	for f := range p.closure(top) {
		if f.Blocks != nil && topFn(f).Pkg != nil && topFn(f).Pkg == p.SSAPkg(c29ConvPkg) {
			cl[f] = true
		}
	}

	c.Rule("C29.cover", "E-FIELDS", "every field of the k8s NetworkPolicy API structs (go/types) has a consuming read in the closure of K8sNetworkPolicyToCalico (not only a same-field copy or a nil test)", 21)
	c.Rule("C29.enums", "E-ENUM", "every site comparing a LabelSelectorOperator/PolicyType value with constants covers every constant declared for the type", 6)
	c.Rule("C29.dir", "E-FLOW", "provenance of every match field of the returned v3 policy equals the expected k8s fields (direction wiring, Except→NotNets, ports→Destination, Action Allow, default TCP, selector kinds)", 55)

	c.Rule("C29.types", "E-GUARD/E-FLOW", "a v3 PolicyType constant is placed into Spec.Types only on paths that established that spec.policyTypes contains the Kubernetes constant of the same value (Ingress additionally as the default when no type was established), and every condition such a site is control-dependent on derives from spec.policyTypes only (nothing derived from the rule sections)", 4)
	c.Rule("C29.ownlabels", "E-ORDER", "a store of a Calico-owned label key (projectcalico.org/namespace, /orchestrator, /serviceaccount) into a label map is never followed by a write of user-controlled keys into the same map (bulk copy, non-constant key, delete/clear): the owned value wins over a pod's own label of that key", 5)

	c.Rule("C29.peerlocal", "E-FLOW (loop-carried dependence)", "the Nets / NotNets of every generated v3 rule come from ONE Kubernetes peer: in each loop over NetworkPolicyPeer elements neither the value stored into EntityRule.Nets/NotNets nor the rule object written to depends on an earlier iteration (no accumulator, no element of the rules built so far)", 2)

	c.Rule("C29.rangebound", "E-FLOW (loop-carried accumulator monotonicity)", "the running upper bound of a coalesced port range (the loop-carried value that reaches PortFromRange's max) never moves down: each back-edge update is the bound itself, max()/bound+const, assigned under a comparison new >= bound, or the sort key of an element of a slice sorted ascending on that key before the loop", 1)

	c29Cover(c, p, ty, cl)
	c29Enums(c, p, ty, cl)
	c29Dir(c, p, ty, top, cl)
	c29TypesRule(c, p, ty, cl)
	c29OwnLabels(c, p)
	c29PeerLocal(c, p, ty, cl)
	c29RangeBound(c, p, cl)
}

// ------------------------------------------------------------------ cover --

// c29Consuming counts, per field of struct type tn, the reads in fns whose
// value is used for something other than (a) being stored into the same field of
// the same type (struct copy) or (b) a comparison with nil.
func c29Consuming(fns map[*ssa.Function]bool, tn *types.TypeName) map[string][]ssa.Instruction {
	out := map[string][]ssa.Instruction{}
	isT := func(t types.Type) bool {
		for {
			if pt, ok := t.Underlying().(*types.Pointer); ok {
				t = pt.Elem()
				continue
			}
			break
		}
		n, ok := types.Unalias(t).(*types.Named)
		return ok && n.Origin().Obj() == tn
	}
	valueConsumed := func(v ssa.Value, field string) bool {
		refs := v.Referrers()
		if refs == nil {
			return true
		}
		for _, r := range *refs {
			switch x := r.(type) {
			case *ssa.DebugRef:
				continue
			case *ssa.Store:
				if x.Val == v {
					if fa, ok := x.Addr.(*ssa.FieldAddr); ok && isT(fa.X.Type()) && fieldName(fa.X.Type(), fa.Field) == field {
						continue // same-field copy
					}
				}
				return true
			case *ssa.BinOp:
				if (x.Op == token.EQL || x.Op == token.NEQ) && (isNilConst(x.X) || isNilConst(x.Y)) {
					continue // nil test
				}
				return true
			default:
				return true
			}
		}
		return false
	}
	for fn := range fns {
		for _, b := range fn.Blocks {
			for _, in := range b.Instrs {
				switch x := in.(type) {
				case *ssa.Field:
					if isT(x.X.Type()) {
						f := fieldName(x.X.Type(), x.Field)
						if valueConsumed(x, f) {
							out[f] = append(out[f], in)
						}
					}
				case *ssa.FieldAddr:
					if !isT(x.X.Type()) {
						continue
					}
					f := fieldName(x.X.Type(), x.Field)
					refs := x.Referrers()
					if refs == nil {
						continue
					}
					for _, r := range *refs {
						switch y := r.(type) {
						case *ssa.DebugRef:
						case *ssa.Store:
							if y.Addr == x {
								continue // a write
							}
							out[f] = append(out[f], in) // address stored somewhere
						case *ssa.UnOp:
							if y.Op == token.MUL {
								if valueConsumed(y, f) {
									out[f] = append(out[f], in)
								}
							} else {
								out[f] = append(out[f], in)
							}
						default:
							out[f] = append(out[f], in) // sub-access, passed on…
						}
					}
				}
			}
		}
	}
	return out
}

func c29Cover(c *Ctx, p *Prog, ty *c29Types, cl map[*ssa.Function]bool) {
	for _, name := range ty.order {
		tn := ty.k8s[name]
		reads := c29Consuming(cl, tn)
		fields := structFieldNames(tn.Type(), false)
		if len(fields) == 0 {
			c.Lost("no fields for %s", name)
		}
		for _, f := range fields {
			key := "C29.cover/" + name + "." + f
			if rs := reads[f]; len(rs) > 0 {
				fnset := map[string]bool{}
				for _, r := range rs {
					fnset[fnName(r.Parent())] = true
				}
				c.Ok(key, p.Pos(rs[0].Pos()), "%d consuming read(s) in %v", len(rs), sortedKeys(fnset))
			} else {
				c.Violate(key, p.Pos(tn.Pos()), "field %s.%s of the Kubernetes API is never consumed on the path from K8sNetworkPolicyToCalico (only copied / nil-tested / not read): the converted policy cannot depend on it", name, f)
			}
		}
	}
}

// ------------------------------------------------------------------ enums --

func c29Enums(c *Ctx, p *Prog, ty *c29Types, cl map[*ssa.Function]bool) {
	for _, tn := range []*types.TypeName{ty.opT, ty.ptT} {
		decl := c29ConstsOfType(tn)
		if len(decl) < 2 {
			c.Lost("constants of %s (found %d)", tn.Name(), len(decl))
		}
		type group struct {
			fn   *ssa.Function
			path string
			vals map[string]bool
			pos  token.Pos
		}
		groups := map[string]*group{}
		var fns []*ssa.Function
		for f := range cl {
			fns = append(fns, f)
		}
		sort.Slice(fns, func(i, j int) bool { return fns[i].Pos() < fns[j].Pos() })
		for _, fn := range fns {
			allInstrs(fn, false, func(f *ssa.Function, in ssa.Instruction) {
				bo, ok := in.(*ssa.BinOp)
				if !ok || (bo.Op != token.EQL && bo.Op != token.NEQ) {
					return
				}
				x, y := bo.X, bo.Y
				if _, isC := x.(*ssa.Const); isC {
					x, y = y, x
				}
				cst, isC := y.(*ssa.Const)
				if !isC || cst.Value == nil {
					return
				}
				n, ok := types.Unalias(x.Type()).(*types.Named)
				if !ok || n.Obj() != tn {
					return
				}
				k := fnName(f) + "|" + c29ShortPath(x)
				g := groups[k]
				if g == nil {
					g = &group{fn: f, path: c29ShortPath(x), vals: map[string]bool{}, pos: bo.Pos()}
					groups[k] = g
				}
				g.vals[cst.Value.ExactString()] = true
			})
		}
		if len(groups) == 0 {
			c.Lost("no comparison of a %s value with a constant in the closure of K8sNetworkPolicyToCalico", tn.Name())
		}
		for _, k := range sortedKeys(groups) {
			g := groups[k]
			for _, d := range decl {
				key := fmt.Sprintf("C29.enums/%s/%s/%s", fnName(g.fn), tn.Name(), d.Name())
				c.Check(g.vals[d.Val().ExactString()], key, p.Pos(g.pos),
					fmt.Sprintf("%s is compared with %s", g.path, d.Name()),
					fmt.Sprintf("%s compares %s with %d constant(s) of %s but not with %s (=%s): that value falls through unhandled", fnName(g.fn), g.path, len(g.vals), tn.Name(), d.Name(), d.Val().ExactString()))
			}
		}
	}
}

// -------------------------------------------------------------------- dir --

type c29Row struct {
	key    string   // obligation key suffix
	pend   []string // access path below the returned KVPair
	want   []string // field leaves that must be present
	extra  []string // further field leaves that may be present
	consts []string // if non-nil: non-nil const leaves must be exactly these (ExactString form)
	wantC  []string // const leaves that must be present
}

func c29Dir(c *Ctx, p *Prog, ty *c29Types, top *ssa.Function, cl map[*ssa.Function]bool) {
	var tracked []types.Object
	for _, n := range ty.order {
		tracked = append(tracked, ty.k8s[n])
	}
	npT := p.LookupExt(c29NetV1, "NetworkPolicy")
	if npT == nil {
		c.Lost("networking/v1.NetworkPolicy")
	}
	tracked = append(tracked, npT)
	sl := newC29Slicer(p, tracked...)

	tcp, _ := p.LookupExt(c29CoreV1, "ProtocolTCP").(*types.Const)
	allow, _ := p.LookupExt(c29APIv3, "Allow").(*types.Const)
	if tcp == nil || allow == nil {
		c.Lost("core/v1.ProtocolTCP or v3.Allow")
	}

	selLeaves := []string{"LabelSelector.MatchLabels", "LabelSelector.MatchExpressions", "LabelSelectorRequirement.Key", "LabelSelectorRequirement.Values"}
	var rows []c29Row
	rows = append(rows, c29Row{key: "Spec.Selector", pend: []string{"Selector"},
		want: append([]string{"NetworkPolicy.Spec", "NetworkPolicySpec.PodSelector"}, selLeaves...)})
	for _, d := range []struct{ dir, ruleT, peers, peerSide, otherSide string }{
		{"Ingress", "NetworkPolicyIngressRule", "From", "Source", "Destination"},
		{"Egress", "NetworkPolicyEgressRule", "To", "Destination", "Source"},
	} {
		base := []string{"NetworkPolicy.Spec", "NetworkPolicySpec." + d.dir}
		peerBase := append(append([]string{}, base...), d.ruleT+"."+d.peers)
		portBase := append(append([]string{}, base...), d.ruleT+".Ports")
		cat := func(a []string, b ...string) []string { return append(append([]string{}, a...), b...) }
		rows = append(rows,
			c29Row{key: d.dir + "." + d.peerSide + ".Selector", pend: []string{d.dir, d.peerSide, "Selector"},
				want: cat(peerBase, append([]string{"NetworkPolicyPeer.PodSelector"}, selLeaves...)...)},
			c29Row{key: d.dir + "." + d.peerSide + ".NamespaceSelector", pend: []string{d.dir, d.peerSide, "NamespaceSelector"},
				want: cat(peerBase, append([]string{"NetworkPolicyPeer.NamespaceSelector"}, selLeaves...)...)},
			c29Row{key: d.dir + "." + d.peerSide + ".Nets", pend: []string{d.dir, d.peerSide, "Nets"},
				want: cat(peerBase, "NetworkPolicyPeer.IPBlock", "IPBlock.CIDR")},
			c29Row{key: d.dir + "." + d.peerSide + ".NotNets", pend: []string{d.dir, d.peerSide, "NotNets"},
				want: cat(peerBase, "NetworkPolicyPeer.IPBlock", "IPBlock.Except")},
			c29Row{key: d.dir + ".Destination.Ports", pend: []string{d.dir, "Destination", "Ports"},
				want: cat(portBase, "NetworkPolicyPort.Port", "NetworkPolicyPort.EndPort")},
			c29Row{key: d.dir + ".Protocol", pend: []string{d.dir, "Protocol"},
				want: cat(portBase, "NetworkPolicyPort.Protocol"), wantC: []string{tcp.Val().ExactString()}},
			c29Row{key: d.dir + ".Action", pend: []string{d.dir, "Action"}, consts: []string{allow.Val().ExactString()}},
			c29Row{key: d.dir + ".Source.Ports", pend: []string{d.dir, "Source", "Ports"}},
		)
		for _, f := range []string{"Selector", "NamespaceSelector", "Nets", "NotNets"} {
			rows = append(rows, c29Row{key: d.dir + "." + d.otherSide + "." + f, pend: []string{d.dir, d.otherSide, f}})
		}
		// every other field of v3.Rule / v3.EntityRule (from go/types, so a field added to the
		// v3 API is covered too) must stay unset: no k8s provenance, no constant.
		have := map[string]bool{}
		for _, r := range rows {
			have[r.key] = true
		}
		erT, _ := p.LookupExt(c29APIv3, "EntityRule").(*types.TypeName)
		if erT == nil {
			c.Lost("v3.EntityRule")
		}
		for _, f := range structFieldNames(ty.ruleT.Type(), true) {
			switch f {
			case "Metadata": // annotations, not a match
				continue
			case "Source", "Destination":
				for _, g := range structFieldNames(erT.Type(), true) {
					if k := d.dir + "." + f + "." + g; !have[k] {
						rows = append(rows, c29Row{key: k, pend: []string{d.dir, f, g}, consts: []string{}})
					}
				}
			default:
				if k := d.dir + "." + f; !have[k] {
					rows = append(rows, c29Row{key: k, pend: []string{d.dir, f}, consts: []string{}})
				}
			}
		}
	}
	// the v3 structs must really have the fields the rows name (else the rows are vacuous)
	c29CheckV3Paths(c, p, rows)

	debug := os.Getenv("C29_DEBUG") != ""
	site := p.Pos(top.Pos())
	for _, r := range rows {
		pend := append([]string{"Value", "Spec"}, r.pend...)
		sl.reset()
		for _, ret := range returnsOf(top) {
			if len(ret.Results) > 0 {
				sl.val(ret.Results[0], pend, nil)
			}
		}
		if sl.overflow {
			c.Undecided("C29.dir/"+r.key, site, "slicer step budget exhausted")
			continue
		}
		got := sl.FieldLeaves()
		if debug {
			fmt.Printf("C29 %s: %v  consts=%v\n", r.key, sl.Leaves(), sl.ConstLeaves())
		}
		allowed := map[string]bool{}
		for _, w := range r.want {
			allowed[w] = true
		}
		for _, w := range r.extra {
			allowed[w] = true
		}
		miss := c29Subset(r.want, sl.Has)
		var surplus []string
		for _, g := range got {
			if !allowed[g] {
				surplus = append(surplus, g)
			}
		}
		constBad := ""
		if r.consts != nil {
			var have []string
			for _, h := range sl.ConstLeaves() {
				if h != "nil" {
					have = append(have, h)
				}
			}
			sort.Strings(have)
			wantC := append([]string{}, r.consts...)
			sort.Strings(wantC)
			if strings.Join(have, ",") != strings.Join(wantC, ",") {
				constBad = fmt.Sprintf("constant value(s) %v, expected %v", have, wantC)
			}
		}
		for _, w := range r.wantC {
			if !sl.Has("const:" + w) {
				constBad = fmt.Sprintf("constant %s never reaches it", w)
			}
		}
		key := "C29.dir/" + r.key
		if len(miss) == 0 && len(surplus) == 0 && constBad == "" {
			c.Ok(key, site, "provenance of KVPair.Value.Spec.%s = %v %s", strings.Join(r.pend, "."), got, c29ConstNote(r))
		} else {
			var parts []string
			if len(miss) > 0 {
				parts = append(parts, fmt.Sprintf("does not derive from %v", miss))
			}
			if len(surplus) > 0 {
				parts = append(parts, fmt.Sprintf("derives from %v which must not reach it", surplus))
			}
			if constBad != "" {
				parts = append(parts, constBad)
			}
			c.Violate(key, site, "v3 policy field Spec.%s built by K8sNetworkPolicyToCalico %s", strings.Join(r.pend, "."), strings.Join(parts, "; "))
		}
	}

	// default protocol: a value that is only ever the constant TCP is stored into
	// NetworkPolicyPort.Protocol under Protocol == nil (and Protocol reaches Rule.Protocol, row above).
	portT := ty.k8s["NetworkPolicyPort"]
	protoField, _, _ := types.LookupFieldOrMethod(portT.Type(), true, portT.Pkg(), "Protocol")
	if protoField == nil {
		c.Lost("NetworkPolicyPort.Protocol")
	}
	isProtoLoad := func(v ssa.Value) bool { return fieldVar(v) == protoField }
	nDefault, nGuarded := 0, 0
	var defSite ssa.Instruction
	var fns []*ssa.Function
	for f := range cl {
		fns = append(fns, f)
	}
	sort.Slice(fns, func(i, j int) bool { return fns[i].Pos() < fns[j].Pos() })
	for _, fn := range fns {
		allInstrs(fn, false, func(f *ssa.Function, in ssa.Instruction) {
			st, ok := in.(*ssa.Store)
			if !ok || fieldVar(st.Addr) != protoField {
				return
			}
			if _, isFA := st.Addr.(*ssa.FieldAddr); !isFA {
				return
			}
			sl.SliceVal(st.Val)
			cs := sl.ConstLeaves()
			if len(sl.FieldLeaves()) == 0 && len(cs) == 1 && cs[0] == tcp.Val().ExactString() {
				nDefault++
				defSite = in
				if guardedCut(st, eqCond(true, isProtoLoad, isNilConst)) {
					nGuarded++
				}
			}
		})
	}
	switch {
	case nDefault == 0:
		c.Violate("C29.dir/default-protocol", site, "no store of the constant %s (core/v1.ProtocolTCP) into NetworkPolicyPort.Protocol: a port without protocol is not defaulted to TCP", tcp.Val().ExactString())
	case nGuarded != nDefault:
		c.Violate("C29.dir/default-protocol", p.Pos(defSite.Pos()), "TCP is stored into NetworkPolicyPort.Protocol on a path where Protocol == nil is not established (%d of %d stores guarded)", nGuarded, nDefault)
	default:
		c.Ok("C29.dir/default-protocol", p.Pos(defSite.Pos()), "%d store(s) of constant TCP into NetworkPolicyPort.Protocol, all under Protocol == nil", nDefault)
	}
	c29SelType(c, p, ty, sl, cl)
}

func c29ConstNote(r c29Row) string {
	if r.consts != nil {
		return fmt.Sprintf("constants=%v", r.consts)
	}
	return ""
}

// c29CheckV3Paths makes sure each row names existing fields of v3.NetworkPolicySpec/Rule/EntityRule.
func c29CheckV3Paths(c *Ctx, p *Prog, rows []c29Row) {
	spec, _ := p.LookupExt(c29APIv3, "NetworkPolicySpec").(*types.TypeName)
	for _, r := range rows {
		var t types.Type = spec.Type()
		for _, f := range r.pend {
			for {
				switch u := t.Underlying().(type) {
				case *types.Pointer:
					t = u.Elem()
					continue
				case *types.Slice:
					t = u.Elem()
					continue
				}
				break
			}
			obj, _, _ := types.LookupFieldOrMethod(t, true, spec.Pkg(), f)
			v, ok := obj.(*types.Var)
			if !ok || !v.IsField() {
				c.Lost("v3 path Spec.%s: no field %s in %s", strings.Join(r.pend, "."), f, t)
			}
			t = v.Type()
		}
	}
}

// c29SelType: every call of the selector converter passes SelectorPod for a
// pod selector and SelectorNamespace for a namespace selector.
func c29SelType(c *Ctx, p *Prog, ty *c29Types, sl *c29Slicer, cl map[*ssa.Function]bool) {
	podK, _ := p.LookupObj(c29ConvPkg, "SelectorPod").(*types.Const)
	nsK, _ := p.LookupObj(c29ConvPkg, "SelectorNamespace").(*types.Const)
	if podK == nil || nsK == nil || !types.Identical(podK.Type(), nsK.Type()) {
		c.Lost("SelectorPod / SelectorNamespace constants")
	}
	lsPtr := types.NewPointer(ty.k8s["LabelSelector"].Type())
	var fns []*ssa.Function
	for f := range cl {
		fns = append(fns, f)
	}
	sort.Slice(fns, func(i, j int) bool { return fns[i].Pos() < fns[j].Pos() })
	n := 0
	for _, fn := range fns {
		for _, cs := range callsIn(fn, false, func(f *types.Func) bool {
			sig := f.Type().(*types.Signature)
			if f.Pkg() == nil || f.Pkg().Path() != calicoPrefix+c29ConvPkg || sig.Params().Len() != 2 {
				return false
			}
			return types.Identical(sig.Params().At(0).Type(), lsPtr) && types.Identical(sig.Params().At(1).Type(), podK.Type())
		}) {
			args := cs.Common().Args
			sl.SliceVal(args[0])
			var want *types.Const
			kind := ""
			switch {
			case sl.Has("NetworkPolicyPeer.PodSelector") && !sl.Has("NetworkPolicyPeer.NamespaceSelector"), sl.Has("NetworkPolicySpec.PodSelector"):
				want, kind = podK, "pod"
			case sl.Has("NetworkPolicyPeer.NamespaceSelector") && !sl.Has("NetworkPolicyPeer.PodSelector"):
				want, kind = nsK, "namespace"
			default:
				c.Undecided("C29.dir/seltype/"+fnName(fn), p.Pos(cs.Instr.Pos()), "selector argument with provenance %v", sl.FieldLeaves())
				continue
			}
			n++
			cv, isC := constOf(args[1])
			key := fmt.Sprintf("C29.dir/seltype/%s/%s", fnName(fn), kind)
			c.Check(isC && constant.Compare(cv, token.EQL, want.Val()), key, p.Pos(cs.Instr.Pos()),
				fmt.Sprintf("%s selector converted with %s", kind, want.Name()),
				fmt.Sprintf("%s selector is converted with selector type %v, expected %s (pod selectors get the orchestrator prefix, an empty namespace selector means all())", kind, path(args[1]), want.Name()))
		}
	}
	if n == 0 {
		c.Lost("no call of the label-selector converter in the closure")
	}
}

// c29ShortPath renders an access path with index expressions elided.
func c29ShortPath(v ssa.Value) string {
	s := path(v)
	for {
		i := strings.Index(s, "[")
		j := strings.LastIndex(s, "]")
		if i < 0 || j < i {
			return s
		}
		s = s[:i] + "<elem>" + s[j+1:]
	}
}

// ------------------------------------------------------------------ types --

// c29TypesCtx carries what the PolicyTypes→Types checks need.
type c29TypesCtx struct {
	p    *Prog
	ty   *c29Types
	sl   *c29Slicer
	v3PT *types.TypeName
	lax  int // >0 while inside a local helper: the compared value is (an element of) a parameter
}

func c29IsNamed(t types.Type, tn *types.TypeName) bool {
	n, ok := types.Unalias(t).(*types.Named)
	return ok && n.Obj() == tn
}

// fromPolicyTypes: v derives from NetworkPolicySpec.PolicyTypes.
func (t *c29TypesCtx) fromPolicyTypes(v ssa.Value) bool {
	if t.lax > 0 {
		return true
	}
	t.sl.SliceVal(v)
	return t.sl.Has("NetworkPolicySpec.PolicyTypes")
}

// c29CutLive computes the blocks reachable from fn's entry when the If edges
// accepted by pred are removed, and reports whether a CFG edge is still live.
func c29CutLive(fn *ssa.Function, pred EdgePred) (reach map[*ssa.BasicBlock]bool, edgeLive func(from, to *ssa.BasicBlock) bool) {
	cut := func(b *ssa.BasicBlock, k int) bool {
		ifi, ok := b.Instrs[len(b.Instrs)-1].(*ssa.If)
		if !ok || len(b.Succs) != 2 || b.Succs[0] == b.Succs[1] {
			return false
		}
		cnd, pol := stripNot(ifi.Cond, k == 0)
		return pred(cnd, pol)
	}
	reach = map[*ssa.BasicBlock]bool{}
	st := []*ssa.BasicBlock{fn.Blocks[0]}
	for len(st) > 0 {
		b := st[len(st)-1]
		st = st[:len(st)-1]
		if reach[b] {
			continue
		}
		reach[b] = true
		if isPanicBlock(b) {
			continue
		}
		for k, s := range b.Succs {
			if !cut(b, k) {
				st = append(st, s)
			}
		}
	}
	edgeLive = func(from, to *ssa.BasicBlock) bool {
		if !reach[from] || isPanicBlock(from) {
			return false
		}
		for k, s := range from.Succs {
			if s == to && !cut(from, k) {
				return true
			}
		}
		return false
	}
	return
}

// typeFact: on the edge where cnd has truth value pol, "spec.policyTypes contains
// the constant kc" is established.  Recognised shapes: a comparison of a value
// taken from spec.policyTypes with kc; slices.Contains(spec.policyTypes, kc); a
// bool flag (phi / address-taken local / result of a local helper) that is only
// true where such a comparison held.
func (t *c29TypesCtx) typeFact(cnd ssa.Value, pol bool, kc *types.Const, seen map[ssa.Value]bool) bool {
	cnd, pol = stripNot(cnd, pol)
	if t.baseFact(cnd, pol, kc) {
		return true
	}
	if _, isCmp := cnd.(*ssa.BinOp); isCmp || !pol {
		return false
	}
	return t.impliesType(cnd, kc, seen)
}

// baseFact: the edge (cnd, pol) directly compares a value taken from
// spec.policyTypes with kc (==, !=) or is slices.Contains(spec.policyTypes, kc).
func (t *c29TypesCtx) baseFact(cnd ssa.Value, pol bool, kc *types.Const) bool {
	cnd, pol = stripNot(cnd, pol)
	switch x := cnd.(type) {
	case *ssa.BinOp:
		if (x.Op != token.EQL && x.Op != token.NEQ) || (x.Op == token.EQL) != pol {
			return false
		}
		for _, xy := range [2][2]ssa.Value{{x.X, x.Y}, {x.Y, x.X}} {
			k, isC := constOf(xy[1])
			if isC && c29IsNamed(xy[0].Type(), t.ty.ptT) && constant.Compare(k, token.EQL, kc.Val()) && t.fromPolicyTypes(xy[0]) {
				return true
			}
		}
	case *ssa.Call:
		cc := x.Common()
		if f := calleeOf(cc); pol && f != nil && f.Pkg() != nil && f.Pkg().Path() == "slices" && f.Name() == "Contains" && len(cc.Args) == 2 {
			k, isC := constOf(cc.Args[1])
			return isC && constant.Compare(k, token.EQL, kc.Val()) && t.fromPolicyTypes(cc.Args[0])
		}
	}
	return false
}

// impliesType: whenever bool value v is true, spec.policyTypes contains kc.
func (t *c29TypesCtx) impliesType(v ssa.Value, kc *types.Const, seen map[ssa.Value]bool) bool {
	if seen[v] {
		return true // coinductive: a loop-carried flag keeps what the other edges establish
	}
	seen[v] = true
	eqK := func(cnd ssa.Value, pol bool) bool { return t.baseFact(cnd, pol, kc) }
	switch x := v.(type) {
	case *ssa.Const:
		return x.Value != nil && x.Value.Kind() == constant.Bool && !constant.BoolVal(x.Value)
	case *ssa.UnOp:
		if x.Op == token.NOT {
			return false
		}
		if x.Op != token.MUL {
			return false
		}
		al, ok := x.X.(*ssa.Alloc)
		if !ok || al.Referrers() == nil {
			return false
		}
		for _, r := range *al.Referrers() {
			switch y := r.(type) {
			case *ssa.DebugRef:
			case *ssa.UnOp:
				if y.Op != token.MUL {
					return false
				}
			case *ssa.Store:
				if y.Addr != al {
					return false
				}
				if guardedCut(y, eqK) || t.impliesType(y.Val, kc, seen) {
					continue
				}
				return false
			default:
				return false // escapes (closure capture, address passed on)
			}
		}
		return true
	case *ssa.BinOp:
		return t.baseFact(x, true, kc)
	case *ssa.Phi:
		_, live := c29CutLive(x.Parent(), eqK)
		for i, e := range x.Edges {
			if i >= len(x.Block().Preds) {
				return false
			}
			if !live(x.Block().Preds[i], x.Block()) {
				continue // this edge is only taken after the comparison with kc held
			}
			if !t.impliesType(e, kc, seen) {
				return false
			}
		}
		return true
	case *ssa.Extract:
		if call, ok := x.Tuple.(*ssa.Call); ok {
			return t.callImplies(call, x.Index, kc, seen)
		}
	case *ssa.Call:
		return t.callImplies(x, 0, kc, seen)
	}
	return false
}

func (t *c29TypesCtx) callImplies(call *ssa.Call, idx int, kc *types.Const, seen map[ssa.Value]bool) bool {
	cc := call.Common()
	if idx == 0 && t.baseFact(call, true, kc) {
		return true
	}
	fn := calleeFn(cc)
	if fn == nil || fn.Blocks == nil || len(seen) > 64 {
		return false
	}
	// a local helper computing the flag from spec.policyTypes: every returned value must imply it
	okArg := false
	for _, a := range cc.Args {
		if t.fromPolicyTypes(a) {
			okArg = true
		}
	}
	if !okArg {
		return false
	}
	rets := returnsOf(fn)
	if len(rets) == 0 {
		return false
	}
	for _, r := range rets {
		if idx >= len(r.Results) || !t.impliesTypeInCallee(r.Results[idx], kc, seen) {
			return false
		}
	}
	return true
}

// impliesTypeInCallee: like impliesType, but inside a helper the compared value is
// an element of a parameter (provenance cannot name the k8s field there), so the
// comparison side only has to have the k8s PolicyType type.
func (t *c29TypesCtx) impliesTypeInCallee(v ssa.Value, kc *types.Const, seen map[ssa.Value]bool) bool {
	t.lax++
	defer func() { t.lax-- }()
	return t.impliesType(v, kc, seen)
}

// isNoTypesYet: on the edge (cnd, pol) the slice of policy types (the v3 list
// being built, or spec.policyTypes itself) is known to be empty.
func (t *c29TypesCtx) isNoTypesYet(cnd ssa.Value, pol bool) bool {
	bo, ok := cnd.(*ssa.BinOp)
	if !ok {
		return false
	}
	typesList := func(v ssa.Value) bool {
		sl, ok := v.Type().Underlying().(*types.Slice)
		return ok && (c29IsNamed(sl.Elem(), t.v3PT) || c29IsNamed(sl.Elem(), t.ty.ptT))
	}
	lenOf := func(v ssa.Value) bool {
		call, ok := v.(*ssa.Call)
		if !ok {
			return false
		}
		b, isB := call.Common().Value.(*ssa.Builtin)
		return isB && b.Name() == "len" && len(call.Common().Args) == 1 && typesList(call.Common().Args[0])
	}
	intIs := func(v ssa.Value, n int64) bool {
		k, ok := constOf(v)
		if !ok || k.Kind() != constant.Int {
			return false
		}
		i, exact := constant.Int64Val(k)
		return exact && i == n
	}
	switch {
	case (bo.Op == token.EQL || bo.Op == token.NEQ) && (bo.Op == token.EQL) == pol:
		return (lenOf(bo.X) && intIs(bo.Y, 0)) || (lenOf(bo.Y) && intIs(bo.X, 0)) ||
			(typesList(bo.X) && isNilConst(bo.Y)) || (typesList(bo.Y) && isNilConst(bo.X))
	case bo.Op == token.GTR && !pol: // !(len > 0)
		return lenOf(bo.X) && intIs(bo.Y, 0)
	case bo.Op == token.LSS && !pol: // !(0 < len)
		return lenOf(bo.Y) && intIs(bo.X, 0)
	case bo.Op == token.LSS && pol: // len < 1
		return lenOf(bo.X) && intIs(bo.Y, 1)
	case bo.Op == token.GEQ && !pol: // !(len >= 1)
		return lenOf(bo.X) && intIs(bo.Y, 1)
	}
	return false
}

// c29ControlConds: the If instructions the block of `in` is (transitively)
// control-dependent on (Ferrante: X is control-dependent on edge B→s iff X
// post-dominates s and does not post-dominate B).
func c29ControlConds(in ssa.Instruction) []*ssa.If {
	fn := in.Parent()
	pd := postDominators(fn)
	var out []*ssa.If
	seenB := map[*ssa.BasicBlock]bool{}
	work := []*ssa.BasicBlock{in.Block()}
	done := map[*ssa.BasicBlock]bool{}
	for len(work) > 0 {
		x := work[len(work)-1]
		work = work[:len(work)-1]
		if done[x] {
			continue
		}
		done[x] = true
		for _, b := range fn.Blocks {
			ifi, ok := b.Instrs[len(b.Instrs)-1].(*ssa.If)
			if !ok || len(b.Succs) != 2 || b.Succs[0] == b.Succs[1] {
				continue
			}
			if b != x && pd[b][x] {
				continue
			}
			dep := false
			for _, s := range b.Succs {
				if pd[s][x] {
					dep = true
				}
			}
			if dep && !(pd[b.Succs[0]][x] && pd[b.Succs[1]][x] && b != x) {
				if !seenB[b] {
					seenB[b] = true
					out = append(out, ifi)
				}
				work = append(work, b)
			}
		}
	}
	return out
}

func c29TypesRule(c *Ctx, p *Prog, ty *c29Types, cl map[*ssa.Function]bool) {
	v3PT, _ := p.LookupExt(c29APIv3, "PolicyType").(*types.TypeName)
	v3In, _ := p.LookupExt(c29APIv3, "PolicyTypeIngress").(*types.Const)
	npT := p.LookupExt(c29NetV1, "NetworkPolicy")
	if v3PT == nil || v3In == nil || npT == nil {
		c.Lost("v3.PolicyType / v3.PolicyTypeIngress / networking/v1.NetworkPolicy")
	}
	var tracked []types.Object
	for _, n := range ty.order {
		tracked = append(tracked, ty.k8s[n])
	}
	tracked = append(tracked, npT)
	t := &c29TypesCtx{p: p, ty: ty, sl: newC29Slicer(p, tracked...), v3PT: v3PT}

	v3Consts := c29ConstsOfType(v3PT)
	k8sConsts := c29ConstsOfType(ty.ptT)
	if len(v3Consts) < 2 {
		c.Lost("constants of v3.PolicyType (found %d)", len(v3Consts))
	}
	var fns []*ssa.Function
	for f := range cl {
		fns = append(fns, f)
	}
	sort.Slice(fns, func(i, j int) bool { return fns[i].Pos() < fns[j].Pos() })

	allowedCtl := map[string]bool{"NetworkPolicy.Spec": true, "NetworkPolicySpec.PolicyTypes": true, "NetworkPolicy.ObjectMeta": true, "NetworkPolicy.TypeMeta": true}
	for _, vc := range v3Consts {
		var kc *types.Const
		for _, k := range k8sConsts {
			if constant.Compare(k.Val(), token.EQL, vc.Val()) {
				kc = k
			}
		}
		if kc == nil {
			c.Lost("no networking/v1.PolicyType constant with the value of v3.%s", vc.Name())
		}
		isDefault := vc == v3In
		// sites: stores of this constant (typed v3.PolicyType) in the conversion closure
		var sites []*ssa.Store
		for _, fn := range fns {
			allInstrs(fn, false, func(_ *ssa.Function, in ssa.Instruction) {
				st, ok := in.(*ssa.Store)
				if !ok {
					return
				}
				k, isC := st.Val.(*ssa.Const)
				if isC && k.Value != nil && c29IsNamed(k.Type(), v3PT) && constant.Compare(k.Value, token.EQL, vc.Val()) {
					sites = append(sites, st)
				}
			})
		}
		gkey := "C29.types/guard/" + vc.Name()
		ikey := "C29.types/indep/" + vc.Name()
		if len(sites) == 0 {
			c.Violate(gkey, p.Pos(vc.Pos()), "no site in the closure of K8sNetworkPolicyToCalico places v3.%s into a policy-type list: a NetworkPolicy whose policyTypes contain %s is converted without that type", vc.Name(), kc.Name())
			continue
		}
		var gbad, ibad []string
		nDefault := 0
		for _, st := range sites {
			fact := func(cnd ssa.Value, pol bool) bool { return t.typeFact(cnd, pol, kc, map[ssa.Value]bool{}) }
			byFlag := guardedCut(st, fact)
			byDefault := false
			if !byFlag && isDefault {
				byDefault = guardedCut(st, anyOf(fact, t.isNoTypesYet))
				if byDefault {
					nDefault++
				}
			}
			conds := c29ControlConds(st)
			if !byFlag && !byDefault {
				var cs []string
				for _, ifi := range conds {
					cs = append(cs, c29CondStr(ifi.Cond))
				}
				what := "spec.policyTypes contains " + kc.Name()
				if isDefault {
					what += " (or that no policy type was established: the Ingress default)"
				}
				gbad = append(gbad, fmt.Sprintf("%s: v3.%s is added on a path that did not establish that %s; the site is control-dependent on %v", c29SitePos(p, st), vc.Name(), what, cs))
			}
			for _, ifi := range conds {
				t.sl.SliceVal(ifi.Cond)
				var surplus []string
				for _, l := range t.sl.FieldLeaves() {
					if !allowedCtl[l] {
						surplus = append(surplus, l)
					}
				}
				if t.sl.overflow {
					c.Undecided(ikey, c29SitePos(p, st), "slicer step budget exhausted")
				}
				if len(surplus) > 0 {
					ibad = append(ibad, fmt.Sprintf("%s: whether v3.%s is added depends on condition %s which derives from %v (only spec.policyTypes may decide the policy types; rule sections must not)", c29SitePos(p, st), vc.Name(), c29CondStr(ifi.Cond), surplus))
				}
			}
		}
		site := c29SitePos(p, sites[0])
		c.Check(len(gbad) == 0, gkey, site,
			fmt.Sprintf("%d site(s) add v3.%s, each only where spec.policyTypes was found to contain %s (%d as the no-types default)", len(sites), vc.Name(), kc.Name(), nDefault),
			strings.Join(gbad, "; "))
		c.Check(len(ibad) == 0, ikey, site,
			fmt.Sprintf("every condition controlling the %d site(s) derives from spec.policyTypes only", len(sites)),
			strings.Join(ibad, "; "))
	}
}

// c29SitePos: a store of a constant has no position of its own; use the next
// positioned instruction of the block (the append that consumes the element).
func c29SitePos(p *Prog, st *ssa.Store) string {
	if st.Pos().IsValid() {
		return p.Pos(st.Pos())
	}
	after := false
	for _, in := range st.Block().Instrs {
		if in == ssa.Instruction(st) {
			after = true
			continue
		}
		if after && in.Pos().IsValid() {
			return p.Pos(in.Pos())
		}
	}
	return p.Pos(st.Parent().Pos())
}

// c29CondStr renders a branch condition compactly (local variable name for a phi).
func c29CondStr(v ssa.Value) string {
	v, pol := stripNot(v, true)
	s := ""
	if ph, ok := v.(*ssa.Phi); ok && ph.Comment != "" {
		s = ph.Comment
	} else {
		s = c29ShortPath(v)
		if len(s) > 100 {
			s = s[:100] + "…"
		}
	}
	if !pol {
		s = "!" + s
	}
	return "`" + s + "`"
}

// -------------------------------------------------------------- ownlabels --

// c29MapRoot canonicalises a map-typed value: loads of an (address-taken) local
// or of a captured variable resolve to the local's Alloc.
func c29MapRoot(v ssa.Value) ssa.Value {
	for i := 0; i < 8; i++ {
		switch x := v.(type) {
		case *ssa.ChangeType:
			v = x.X
			continue
		case *ssa.UnOp:
			if x.Op == token.MUL {
				v = x.X
				continue
			}
		case *ssa.FreeVar:
			cl := x.Parent()
			if encl := cl.Parent(); encl != nil {
				idx := -1
				for i, fv := range cl.FreeVars {
					if fv == x {
						idx = i
					}
				}
				var bound ssa.Value
				allInstrs(encl, false, func(_ *ssa.Function, in ssa.Instruction) {
					if mc, ok := in.(*ssa.MakeClosure); ok && mc.Fn == cl && idx >= 0 && idx < len(mc.Bindings) {
						bound = mc.Bindings[idx]
					}
				})
				if bound != nil {
					v = bound
					continue
				}
			}
		}
		break
	}
	return v
}

// c29PosIn maps an instruction of top or of one of its (nested) closures to an
// instruction of top: itself, or the MakeClosure that creates its function.
func c29PosIn(top *ssa.Function, in ssa.Instruction) ssa.Instruction {
	fn := in.Parent()
	for fn != nil && fn != top {
		encl := fn.Parent()
		if encl == nil {
			return nil
		}
		var mk ssa.Instruction
		allInstrs(encl, false, func(_ *ssa.Function, x ssa.Instruction) {
			if mc, ok := x.(*ssa.MakeClosure); ok && mc.Fn == fn {
				mk = x
			}
		})
		if mk == nil {
			return nil
		}
		in, fn = mk, encl
	}
	if fn == nil {
		return nil
	}
	return in
}

// c29WritesParam: does fn (a function with a body) write user-controlled keys into
// its idx-th parameter (a map)?
func c29WritesParam(fn *ssa.Function, idx, depth int) bool {
	if fn == nil || fn.Blocks == nil || idx >= len(fn.Params) || depth > 3 {
		return false
	}
	root := ssa.Value(fn.Params[idx])
	w := false
	allInstrs(fn, true, func(_ *ssa.Function, in ssa.Instruction) {
		if c29Clobber(in, root, depth+1) != "" {
			w = true
		}
	})
	return w
}

// c29Clobber: does `in` write keys that a user controls into the map rooted at
// root (or remove keys from it)?  Returns a description, "" if not.
func c29Clobber(in ssa.Instruction, root ssa.Value, depth int) string {
	switch x := in.(type) {
	case *ssa.MapUpdate:
		if c29MapRoot(x.Map) != root {
			return ""
		}
		if _, isC := constOf(x.Key); !isC {
			return "a store with the non-constant key " + c29ShortPath(x.Key)
		}
	case ssa.CallInstruction:
		cc := x.Common()
		for i, a := range cc.Args {
			if _, isMap := a.Type().Underlying().(*types.Map); !isMap || c29MapRoot(a) != root {
				continue
			}
			if b, ok := cc.Value.(*ssa.Builtin); ok {
				switch b.Name() {
				case "clear":
					return "clear()"
				case "delete":
					if _, isC := constOf(cc.Args[1]); !isC {
						return "delete() with a non-constant key"
					}
				}
				continue
			}
			f := calleeOf(cc)
			if f != nil && f.Pkg() != nil && f.Pkg().Path() == "maps" {
				switch f.Name() {
				case "Copy", "Insert":
					if i == 0 {
						return "maps." + f.Name() + " into it"
					}
				case "DeleteFunc":
					return "maps.DeleteFunc"
				}
				continue
			}
			if fn := calleeFn(cc); fn != nil && fn.Blocks != nil {
				pi := i
				if cc.IsInvoke() {
					continue
				}
				if c29WritesParam(fn, pi, depth) {
					return "a call of " + fnName(fn) + ", which writes non-constant keys into it"
				}
			}
		}
	}
	return ""
}

func c29OwnLabels(c *Ctx, p *Prog) {
	type owned struct {
		k    *types.Const
		must bool // a store must exist in the pod conversion
	}
	var keys []owned
	for _, n := range []struct {
		name string
		must bool
	}{{"LabelNamespace", true}, {"LabelOrchestrator", true}, {"LabelServiceAccount", false}} {
		k, _ := p.LookupExt(c29APIv3, n.name).(*types.Const)
		if k == nil || k.Val().Kind() != constant.String {
			c.Lost("v3.%s", n.name)
		}
		keys = append(keys, owned{k, n.must})
	}
	inScope := func(f *ssa.Function) bool {
		t := topFn(f)
		return t.Pkg != nil && (t.Pkg == p.SSAPkg(c29ConvPkg) || t.Pkg == p.SSAPkg(c29UpdPkg))
	}
	var fns []*ssa.Function
	for _, f := range p.AllFuncs() {
		if inScope(f) && f.Blocks != nil {
			fns = append(fns, f)
		}
	}
	sort.Slice(fns, func(i, j int) bool { return fns[i].Pos() < fns[j].Pos() })
	seenInConv := map[*types.Const]bool{}
	n := 0
	for _, fn := range fns {
		allInstrs(fn, false, func(_ *ssa.Function, in ssa.Instruction) {
			mu, ok := in.(*ssa.MapUpdate)
			if !ok {
				return
			}
			kv, isC := constOf(mu.Key)
			if !isC || kv.Kind() != constant.String {
				return
			}
			var ok0 *owned
			for i := range keys {
				if constant.Compare(kv, token.EQL, keys[i].k.Val()) {
					ok0 = &keys[i]
				}
			}
			if ok0 == nil {
				return
			}
			n++
			top := topFn(fn)
			if top.Pkg == p.SSAPkg(c29ConvPkg) {
				seenInConv[ok0.k] = true
			}
			root := c29MapRoot(mu.Map)
			key := fmt.Sprintf("C29.ownlabels/%s/%s", fnName(fn), ok0.k.Name())
			site := p.Pos(mu.Pos())
			posM := c29PosIn(top, mu)
			var bad []string
			undec := ""
			allInstrs(top, true, func(_ *ssa.Function, w ssa.Instruction) {
				if w == ssa.Instruction(mu) {
					return
				}
				what := c29Clobber(w, root, 0)
				if what == "" {
					return
				}
				after := false
				if w.Parent() == mu.Parent() {
					after = instrReaches(mu, w)
				} else {
					posW := c29PosIn(top, w)
					if posM == nil || posW == nil {
						undec = "cannot order " + p.Pos(w.Pos()) + " against the store (closure without a MakeClosure in " + fnName(top) + ")"
						return
					}
					after = posM == posW || instrReaches(posM, posW)
				}
				if after {
					bad = append(bad, fmt.Sprintf("%s at %s", what, p.Pos(w.Pos())))
				}
			})
			sort.Strings(bad)
			switch {
			case len(bad) > 0:
				c.Violate(key, site, "%s stores the Calico-owned label %s (%s) and the same map is written afterwards by %s: a label of that key carried by the pod/resource itself overrides the owned value, so namespace/orchestrator/serviceaccount scoping of converted policies can be forged or escaped",
					fnName(fn), ok0.k.Name(), kv.ExactString(), strings.Join(bad, "; "))
			case undec != "":
				c.Undecided(key, site, "%s", undec)
			default:
				c.Ok(key, site, "no user-controlled write into the label map can follow the store of %s", ok0.k.Name())
			}
		})
	}
	for _, k := range keys {
		if k.must && !seenInConv[k.k] {
			c.Lost("no store of the owned label key v3.%s into a label map in %s", k.k.Name(), c29ConvPkg)
		}
	}
	if n == 0 {
		c.Lost("no store of a Calico-owned label key")
	}
}
