package main

// C14.pair: provenance pairing at the cleanup-queue producer.
//
// Scanner.updateCleanupMap(key, revKey, ts, rev_ts) writes the record the kernel
// cleaner acts on: it deletes ct[key] only if ct[key].last_seen == ts (revKey
// dummy), or the pair only if ct[revKey].last_seen == rev_ts.  A timestamp that
// was read from a different object than the key it travels with can never match
// (the idle entry is never removed) - or matches an entry that was not the one
// judged.
//
// Discipline: at every call, the key and the timestamp of each position
// (key/ts, revKey/rev_ts) derive from a common source object: the same conntrack
// entry (the key and value the scanner callback was invoked with, and the Check
// judgement computed from them), the same cached record (a map lookup or range
// step and the accessors applied to its result, or the key it was looked up
// with), or the same call.  In addition an entry value's own LastSeen() never
// travels with a key obtained from that value by an accessor (ReverseNATKey() is
// another entry).  The reverse position is exempt when revKey is the version
// helper's dummy key (the kernel then ignores rev_last_seen).
//
// Sources are computed by a backward walk over SSA (conversions, phis, local
// cells, tuple extracts, free variables; a call contributes itself and the
// sources of its entry-typed arguments; parameters of package-private functions
// are resolved through all their static call sites).

import (
	"fmt"
	"go/token"
	"go/types"
	"sort"
	"strings"

	"golang.org/x/tools/go/ssa"
)

type c14Src struct {
	roots      map[any]string    // root token -> description
	lookupKeys map[any]ssa.Value // lookup root -> the key it was indexed with
	consts     int
}

type c14SrcWalker struct {
	p       *Prog
	callers map[*ssa.Function][]ssa.CallInstruction
	opaque  map[*ssa.Function]bool // used as a value / exported / reachable through an interface
	invoked map[string]bool
}

func newC14SrcWalker(p *Prog) *c14SrcWalker {
	w := &c14SrcWalker{p: p, callers: map[*ssa.Function][]ssa.CallInstruction{}, opaque: map[*ssa.Function]bool{}, invoked: map[string]bool{}}
	for _, fn := range p.AllFuncs() {
		for _, b := range fn.Blocks {
			for _, in := range b.Instrs {
				var calleeVal ssa.Value
				if ci, ok := in.(ssa.CallInstruction); ok {
					cc := ci.Common()
					if cc.IsInvoke() {
						w.invoked[cc.Method.Name()] = true
					} else {
						calleeVal = cc.Value
						if sf := cc.StaticCallee(); sf != nil {
							w.callers[sf] = append(w.callers[sf], ci)
						}
					}
				}
				for _, op := range in.Operands(nil) {
					if op == nil || *op == nil {
						continue
					}
					if g, ok := (*op).(*ssa.Function); ok && *op != calleeVal {
						w.opaque[g] = true
					}
				}
			}
		}
	}
	return w
}

// c14EntryTyped: t can carry (part of) a conntrack entry or a cleanup record: a key/value
// type of a felix/bpf/conntrack sub-package, raw bytes, or a 64-bit integer.
func c14EntryTyped(t types.Type) bool {
	t = types.Unalias(t)
	if pt, ok := t.(*types.Pointer); ok {
		t = types.Unalias(pt.Elem())
	}
	if n, ok := t.(*types.Named); ok {
		return n.Obj().Pkg() != nil && strings.HasPrefix(n.Obj().Pkg().Path(), calicoPrefix+ctPkg+"/")
	}
	switch u := t.Underlying().(type) {
	case *types.Basic:
		return u.Kind() == types.Int64 || u.Kind() == types.Uint64
	case *types.Slice:
		b, ok := u.Elem().Underlying().(*types.Basic)
		return ok && b.Kind() == types.Uint8
	}
	return false
}

func c14Strip(v ssa.Value) ssa.Value {
	for {
		switch x := v.(type) {
		case *ssa.Convert:
			v = x.X
		case *ssa.ChangeType:
			v = x.X
		case *ssa.ChangeInterface:
			v = x.X
		case *ssa.MakeInterface:
			v = x.X
		default:
			return v
		}
	}
}

func (w *c14SrcWalker) sources(v ssa.Value) *c14Src {
	out := &c14Src{roots: map[any]string{}, lookupKeys: map[any]ssa.Value{}}
	seen := map[ssa.Value]bool{}
	onParam := map[*ssa.Parameter]bool{}
	var walk func(v ssa.Value)
	call := func(c *ssa.Call) {
		out.roots[c] = "call " + c13calleeName(c.Common()) + " at " + w.p.Pos(c.Pos())
		args := c.Common().Args
		if c.Common().IsInvoke() {
			args = append([]ssa.Value{c.Common().Value}, args...)
		}
		for _, a := range args {
			if c14EntryTyped(a.Type()) {
				walk(a)
			}
		}
	}
	lookup := func(l *ssa.Lookup) {
		out.roots[l] = "lookup " + path(l.X) + "[" + path(l.Index) + "]"
		out.lookupKeys[l] = l.Index
	}
	cellStores := func(a *ssa.Alloc) bool {
		n := 0
		for _, r := range *a.Referrers() {
			if st, ok := r.(*ssa.Store); ok && st.Addr == ssa.Value(a) {
				walk(st.Val)
				n++
			}
		}
		return n > 0
	}
	binding := func(fv *ssa.FreeVar) ssa.Value {
		fn := fv.Parent()
		idx := -1
		for i, x := range fn.FreeVars {
			if x == fv {
				idx = i
			}
		}
		if fn.Parent() == nil || idx < 0 {
			return nil
		}
		for _, b := range fn.Parent().Blocks {
			for _, in := range b.Instrs {
				if mc, ok := in.(*ssa.MakeClosure); ok && mc.Fn == ssa.Value(fn) && idx < len(mc.Bindings) {
					return mc.Bindings[idx]
				}
			}
		}
		return nil
	}
	walk = func(v ssa.Value) {
		if v == nil || seen[v] {
			return
		}
		seen[v] = true
		switch x := v.(type) {
		case *ssa.Const:
			out.consts++
		case *ssa.Convert:
			walk(x.X)
		case *ssa.ChangeType:
			walk(x.X)
		case *ssa.ChangeInterface:
			walk(x.X)
		case *ssa.MakeInterface:
			walk(x.X)
		case *ssa.TypeAssert:
			walk(x.X)
		case *ssa.Slice:
			walk(x.X)
		case *ssa.Phi:
			for _, e := range x.Edges {
				walk(e)
			}
		case *ssa.Extract:
			switch t := x.Tuple.(type) {
			case *ssa.Lookup:
				lookup(t)
			case *ssa.Next:
				out.roots[t.Iter] = "range step at " + w.p.Pos(t.Iter.Pos())
			case *ssa.TypeAssert:
				walk(t.X)
			case *ssa.Call:
				call(t)
			default:
				out.roots[x] = path(x)
			}
		case *ssa.Lookup:
			lookup(x)
		case *ssa.Call:
			call(x)
		case *ssa.UnOp:
			if x.Op == token.MUL {
				switch a := x.X.(type) {
				case *ssa.Alloc:
					if cellStores(a) {
						return
					}
				case *ssa.FreeVar:
					if b, ok := binding(a).(*ssa.Alloc); ok && cellStores(b) {
						return
					}
				}
			}
			out.roots[x] = path(x)
		case *ssa.FreeVar:
			if b := binding(x); b != nil {
				walk(b)
				return
			}
			out.roots[x] = path(x)
		case *ssa.Parameter:
			fn := x.Parent()
			idx := -1
			for i, q := range fn.Params {
				if q == x {
					idx = i
				}
			}
			known := fn.Parent() == nil && idx >= 0 && !token.IsExported(fn.Name()) && !w.opaque[fn] && len(w.callers[fn]) > 0 &&
				!(fn.Signature.Recv() != nil && w.invoked[fn.Name()])
			if !known || onParam[x] {
				// callers are not enumerable: the arguments of one invocation belong together
				out.roots[fn] = "arguments of one invocation of " + fnName(fn)
				return
			}
			onParam[x] = true
			for _, ci := range w.callers[fn] {
				if args := ci.Common().Args; idx < len(args) {
					walk(args[idx])
				}
			}
		default:
			out.roots[v] = path(v)
		}
	}
	walk(v)
	return out
}

func c14SameValue(a, b ssa.Value) bool {
	a, b = c14Strip(a), c14Strip(b)
	if a == b {
		return true
	}
	pa, pb := path(a), path(b)
	return pa == pb && pa != "" && !strings.Contains(pa, "…")
}

// c14Compatible: the key and the timestamp share a source object.
func c14Compatible(k ssa.Value, ks *c14Src, ts *c14Src) (bool, string) {
	var common []string
	for r, d := range ks.roots {
		if _, ok := ts.roots[r]; ok {
			common = append(common, d)
		}
	}
	if len(common) > 0 {
		sort.Strings(common)
		return true, common[0]
	}
	for r, kv := range ts.lookupKeys {
		if c14SameValue(kv, k) {
			return true, "the record the timestamp is read from was looked up with this key (" + ts.roots[r] + ")"
		}
		for _, kv2 := range ks.lookupKeys {
			if c14SameValue(kv, kv2) {
				return true, "key and timestamp are looked up with the same map key"
			}
		}
	}
	return false, ""
}

func c14Describe(s *c14Src) string {
	var ds []string
	for _, d := range s.roots {
		ds = append(ds, d)
	}
	sort.Strings(ds)
	if len(ds) == 0 {
		if s.consts > 0 {
			return "a constant"
		}
		return "nothing"
	}
	return strings.Join(ds, ", ")
}

// c14Pair checks every call of Scanner.updateCleanupMap.
func c14Pair(c *Ctx, p *Prog) {
	sink := p.Func(ctPkg, "Scanner.updateCleanupMap")
	if sink == nil {
		c.Lost("Scanner.updateCleanupMap")
	}
	// positions: the two key-typed and the two uint64 parameters, in order
	var kIdx, tIdx []int
	for i, prm := range sink.Params {
		if i == 0 {
			continue // receiver
		}
		if b, ok := prm.Type().Underlying().(*types.Basic); ok && b.Kind() == types.Uint64 {
			tIdx = append(tIdx, i)
		} else if _, ok := prm.Type().Underlying().(*types.Interface); ok && c14EntryTyped(prm.Type()) {
			kIdx = append(kIdx, i)
		}
	}
	if len(kIdx) != 2 || len(tIdx) != 2 {
		c.Lost("Scanner.updateCleanupMap no longer takes two keys and two uint64 timestamps (%d/%d): re-derive the position pairing", len(kIdx), len(tIdx))
	}
	helper, _ := p.LookupObj(ctPkg, "ipVersionHelper").(*types.TypeName)
	if helper == nil {
		c.Lost("conntrack.ipVersionHelper")
	}
	dummyObj, _, _ := types.LookupFieldOrMethod(helper.Type(), false, helper.Pkg(), "dummyKey")
	if dummyObj == nil {
		c.Lost("ipVersionHelper.dummyKey")
	}
	valueIface, _ := p.LookupExt("felix/bpf/conntrack/v4", "ValueInterface").(*types.TypeName)
	if valueIface == nil {
		if o := p.LookupObj("felix/bpf/conntrack/v4", "ValueInterface"); o != nil {
			valueIface, _ = o.(*types.TypeName)
		}
	}
	if valueIface == nil {
		c.Lost("v4.ValueInterface")
	}
	lastSeenObj, _, _ := types.LookupFieldOrMethod(valueIface.Type(), false, valueIface.Pkg(), "LastSeen")
	if lastSeenObj == nil {
		c.Lost("v4.ValueInterface.LastSeen")
	}
	isDummy := func(v ssa.Value) bool {
		call, ok := c14Strip(v).(*ssa.Call)
		return ok && calleeOf(call.Common()) == dummyObj
	}
	// accessor: X.M() with no further arguments; returns the receiver
	accessor := func(v ssa.Value) (recv ssa.Value, callee *types.Func) {
		call, ok := c14Strip(v).(*ssa.Call)
		if !ok {
			return nil, nil
		}
		callee = calleeOf(call.Common())
		if callee == nil || callee.Type().(*types.Signature).Recv() == nil {
			return nil, nil
		}
		args := CallSite{call, callee, call.Parent()}.Args()
		if len(args) != 1 {
			return nil, nil
		}
		return args[0], callee
	}
	isLastSeen := func(f *types.Func) bool {
		if f == nil || f.Name() != lastSeenObj.Name() {
			return false
		}
		if f == lastSeenObj {
			return true
		}
		// a concrete implementation of ValueInterface
		rt := f.Type().(*types.Signature).Recv().Type()
		return types.Implements(rt, valueIface.Type().Underlying().(*types.Interface))
	}

	w := newC14SrcWalker(p)
	var sites []CallSite
	for _, fn := range p.AllFuncs() {
		if fn.Pkg == nil || fn.Pkg != sink.Pkg {
			continue
		}
		for _, cs := range callsIn(fn, false, func(f *types.Func) bool { return f == sink.Object() }) {
			sites = append(sites, cs)
		}
	}
	sort.Slice(sites, func(i, j int) bool { return sites[i].Instr.Pos() < sites[j].Instr.Pos() })
	if len(sites) == 0 {
		c.Lost("no call of Scanner.updateCleanupMap")
	}
	ord := map[string]int{}
	for _, cs := range sites {
		where := fnName(topFn(cs.Fn))
		ord[where]++
		args := cs.Args()
		site := p.Pos(cs.Instr.Pos())
		for pos, name := range []string{"fwd", "rev"} {
			key := fmt.Sprintf("C14.pair/%s/updateCleanupMap#%d/%s", where, ord[where], name)
			k, t := args[kIdx[pos]], args[tIdx[pos]]
			if pos == 1 && isDummy(k) {
				c.Ok(key, site, "reverse key is the dummy key: the kernel cleaner does not consult rev_last_seen")
				continue
			}
			ks, ts := w.sources(k), w.sources(t)
			if len(ts.roots) == 0 {
				c.Violate(key, site, "the %s timestamp %s is %s, not read from the entry or record that %s names: the kernel cleaner compares it with that entry's last_seen", name, path(t), c14Describe(ts), path(k))
				continue
			}
			// an entry's own LastSeen() must not travel with a key obtained from that entry by an accessor
			if kr, kf := accessor(k); kr != nil {
				if tr, tf := accessor(t); tr != nil && isLastSeen(tf) && c14SameValue(kr, tr) {
					c.Violate(key, site, "the %s key is %s.%s() - another entry than %s - but the timestamp travelling with it is %s.%s(), that value's own last_seen: the kernel cleaner compares the timestamp with the last_seen of the entry the key names and never finds them equal",
						name, path(kr), kf.Name(), path(kr), path(tr), tf.Name())
					continue
				}
			}
			ok, why := c14Compatible(k, ks, ts)
			c.Check(ok, key, site,
				fmt.Sprintf("key %s and timestamp %s share a source: %s", path(k), path(t), why),
				fmt.Sprintf("the %s key %s derives from {%s} but the timestamp %s passed in the same position derives from {%s}: they are read from different objects, so the kernel cleaner compares the last_seen of the entry named by the key with a timestamp of another entry (arguments swapped?)",
					name, path(k), c14Describe(ks), path(t), c14Describe(ts)))
		}
	}
}
