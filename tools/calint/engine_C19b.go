package main

// Helpers for C19.handledel (a handle record is only deleted when it has no
// blocks left) and C19.attreq (allocation attributes are only shared between
// allocations when they are equal in every field).

import (
	"go/constant"
	"go/token"
	"go/types"
	"sort"

	"golang.org/x/tools/go/ssa"
)

// ------------------------------------------------------------- handle model --

type c19HandleModel struct {
	m          *c19Model
	valueField *types.Var   // model.KVPair.Value
	blockField *types.Var   // model.IPAMHandle.Block
	handleT    *types.Named // model.IPAMHandle
	handleKeys map[string]bool
	visiting   map[*ssa.Function]bool
}

// through follows a pair to the record it denotes: the result of a Client
// write is the record that was written; the result of an in-package helper is
// what the helper returns, with the helper's parameters replaced by the
// arguments of the call.
func (h *c19HandleModel) through(v ssa.Value) []ssa.Value {
	call, ok := v.(*ssa.Call)
	if !ok {
		return h.m.through(v)
	}
	args := call.Common().Args
	if c19ClientCall(call.Common(), "Create", "Update", "Apply", "DeleteKVP") != "" && len(args) > 1 {
		return []ssa.Value{args[1]}
	}
	sf := calleeFn(call.Common())
	if !h.m.inPkg(sf) || h.visiting[sf] {
		return nil
	}
	h.visiting[sf] = true
	defer delete(h.visiting, sf)
	var out []ssa.Value
	found := false
	for _, r := range returnsOf(sf) {
		for _, res := range r.Results {
			if !h.m.carrying(res.Type()) {
				continue
			}
			found = true
			for _, o := range origins(res, h.through) {
				if par, isPar := o.V.(*ssa.Parameter); isPar && par.Parent() == sf {
					if i := c19ParamIndex(par); i >= 0 && i < len(args) {
						out = append(out, args[i])
						continue
					}
				}
				out = append(out, o.V)
			}
		}
	}
	if !found {
		return nil
	}
	if out == nil {
		out = []ssa.Value{}
	}
	return out
}

func c19NewHandleModel(c *Ctx, m *c19Model) *c19HandleModel {
	h := &c19HandleModel{m: m, handleKeys: map[string]bool{}, visiting: map[*ssa.Function]bool{}}
	named := func(name string) *types.Named {
		o := m.p.LookupExt(c19ModelPkg, name)
		if o == nil {
			c.Lost("model.%s", name)
		}
		n, _ := types.Unalias(o.Type()).(*types.Named)
		if n == nil {
			c.Lost("model.%s is not a named type", name)
		}
		return n
	}
	fld := func(n *types.Named, f string) *types.Var {
		if st, _ := n.Underlying().(*types.Struct); st != nil {
			for i := 0; i < st.NumFields(); i++ {
				if st.Field(i).Name() == f {
					return st.Field(i)
				}
			}
		}
		c.Lost("field %s.%s", n.Obj().Name(), f)
		return nil
	}
	h.handleT = named("IPAMHandle")
	h.blockField = fld(h.handleT, "Block")
	h.valueField = fld(m.kvPair, "Value")
	if _, ok := h.blockField.Type().Underlying().(*types.Map); !ok {
		c.Lost("model.IPAMHandle.Block is no longer a map (block → count)")
	}
	// the key / list-options types under which handle records are read and written
	for _, n := range []string{"IPAMHandleKey", "IPAMHandleListOptions"} {
		h.handleKeys[qualTypeName(named(n))] = true
	}
	return h
}

func (h *c19HandleModel) isHandlePtr(t types.Type) bool {
	pt, ok := types.Unalias(t).(*types.Pointer)
	return ok && types.Identical(types.Unalias(pt.Elem()), h.handleT)
}

// c19StructStores: the values a load of a local struct variable may yield
// pieces of: whole-value stores and the stores into its fields.
func c19StructStores(al *ssa.Alloc) []ssa.Value {
	var out []ssa.Value
	refs := al.Referrers()
	if refs == nil {
		return nil
	}
	for _, r := range *refs {
		switch x := r.(type) {
		case *ssa.Store:
			if x.Addr == al {
				out = append(out, x.Val)
			}
		case *ssa.FieldAddr:
			if x.X != al || x.Referrers() == nil {
				continue
			}
			for _, rr := range *x.Referrers() {
				if st, ok := rr.(*ssa.Store); ok && st.Addr == x {
					out = append(out, st.Val)
				}
			}
		}
	}
	return out
}

// c19Deriv is where a handle-valued expression comes from: the Value of a pair
// (Pair != nil) or a parameter of the enclosing function (Param != nil).
type c19Deriv struct {
	Pair  ssa.Value
	Param *ssa.Parameter
}

// handleSources walks backwards from a value holding (or wrapping) a
// *model.IPAMHandle to the pairs whose Value it was taken from
// (`pair.Value.(*model.IPAMHandle)`, through wrapper structs, locals, phis and
// in-package helper calls) and to the parameters it is handed in by.
func (h *c19HandleModel) handleSources(v ssa.Value, depth int) []c19Deriv {
	var out []c19Deriv
	thr := func(x ssa.Value) []ssa.Value {
		switch y := x.(type) {
		case *ssa.FieldAddr:
			if structField(y.X.Type(), y.Field) == h.valueField {
				return nil // leaf: pair.Value
			}
			return []ssa.Value{y.X}
		case *ssa.Field:
			return []ssa.Value{y.X}
		case *ssa.UnOp:
			if al, ok := y.X.(*ssa.Alloc); ok && y.Op == token.MUL {
				if _, isStruct := al.Type().(*types.Pointer).Elem().Underlying().(*types.Struct); isStruct {
					if vals := c19StructStores(al); len(vals) > 0 {
						return vals
					}
				}
			}
		}
		return nil
	}
	for _, o := range origins(v, thr) {
		switch x := o.V.(type) {
		case *ssa.FieldAddr:
			if structField(x.X.Type(), x.Field) == h.valueField && h.m.isPairPtr(x.X.Type()) {
				out = append(out, c19Deriv{Pair: x.X})
			}
		case *ssa.Parameter:
			out = append(out, c19Deriv{Param: x})
		case *ssa.Call:
			// helper that builds the handle from its arguments
			sf := calleeFn(x.Common())
			if depth >= 3 || !h.m.inPkg(sf) {
				continue
			}
			for _, r := range returnsOf(sf) {
				for _, res := range r.Results {
					for _, d := range h.handleSources(res, depth+1) {
						switch {
						case d.Param != nil:
							if i := c19ParamIndex(d.Param); i >= 0 && i < len(x.Common().Args) {
								out = append(out, h.handleSources(x.Common().Args[i], depth+1)...)
							}
						case d.Pair != nil:
							// a pair inside the helper: only meaningful if it is one of the helper's parameters
							for _, po := range origins(d.Pair, nil) {
								if par, ok := po.V.(*ssa.Parameter); ok && par.Parent() == sf {
									if i := c19ParamIndex(par); i >= 0 && i < len(x.Common().Args) {
										out = append(out, c19Deriv{Pair: x.Common().Args[i]})
									}
								}
							}
						}
					}
				}
			}
		}
	}
	return out
}

// c19SameObject: two pair-valued SSA values of one function denote the same
// pair object: identical, or built from a common non-constant leaf.
func c19SameObject(a, b ssa.Value) bool {
	if a == b {
		return true
	}
	la := map[ssa.Value]bool{}
	for _, o := range origins(a, nil) {
		if o.Kind != "const" {
			la[o.V] = true
		}
	}
	for _, o := range origins(b, nil) {
		if o.Kind != "const" && la[o.V] {
			return true
		}
	}
	return false
}

// lenOfBlock: v is len(X.Block) for a handle X; returns X.
func (h *c19HandleModel) lenOfBlock(v ssa.Value) ssa.Value {
	call, ok := v.(*ssa.Call)
	if !ok {
		return nil
	}
	b, ok := call.Common().Value.(*ssa.Builtin)
	if !ok || b.Name() != "len" || len(call.Common().Args) != 1 {
		return nil
	}
	arg := call.Common().Args[0]
	if fieldVar(arg) != h.blockField {
		return nil
	}
	for {
		switch x := arg.(type) {
		case *ssa.UnOp:
			arg = x.X
			continue
		case *ssa.FieldAddr:
			return x.X
		case *ssa.Field:
			return x.X
		}
		return nil
	}
}

func c19IntConst(v ssa.Value) (int64, bool) {
	cv, ok := constOf(v)
	if !ok || cv.Kind() != constant.Int {
		return 0, false
	}
	return constant.Int64Val(cv)
}

// emptyBases: if `cond == pol` establishes that a handle has no blocks left
// (len(h.Block) == 0 in any of its spellings, or a call of an in-package
// predicate all of whose returns are such a test of one of its parameters),
// returns the handle-valued expressions (in cond's function) that are known to
// be empty on that edge; nil otherwise.
func (h *c19HandleModel) emptyBases(cond ssa.Value, pol bool, depth int) []ssa.Value {
	cond, pol = stripNot(cond, pol)
	switch x := cond.(type) {
	case *ssa.BinOp:
		// normalise to  len(B) <op> k
		l, r, op := x.X, x.Y, x.Op
		if h.lenOfBlock(l) == nil {
			l, r = r, l
			switch op {
			case token.LSS:
				op = token.GTR
			case token.GTR:
				op = token.LSS
			case token.LEQ:
				op = token.GEQ
			case token.GEQ:
				op = token.LEQ
			}
		}
		base := h.lenOfBlock(l)
		k, isK := c19IntConst(r)
		if base == nil || !isK {
			return nil
		}
		// truth of "len == 0" when cond is true (1), false (-1), or unrelated (0)
		emptyWhen := 0
		switch {
		case op == token.EQL && k == 0, op == token.LEQ && k == 0, op == token.LSS && k == 1:
			emptyWhen = 1
		case op == token.NEQ && k == 0, op == token.GTR && k == 0, op == token.GEQ && k == 1:
			emptyWhen = -1
		}
		if (emptyWhen == 1 && pol) || (emptyWhen == -1 && !pol) {
			return []ssa.Value{base}
		}
		return nil
	case *ssa.Call:
		sf := calleeFn(x.Common())
		if depth >= 3 || !h.m.inPkg(sf) || sf.Signature.Results().Len() != 1 {
			return nil
		}
		var out []ssa.Value
		rets := returnsOf(sf)
		if len(rets) == 0 {
			return nil
		}
		for _, r := range rets {
			bs := h.emptyBases(r.Results[0], pol, depth+1)
			if len(bs) == 0 {
				return nil // some return does not establish emptiness
			}
			for _, b := range bs {
				mapped := false
				for _, d := range h.handleSources(b, 0) {
					if d.Param != nil && d.Param.Parent() == sf {
						if i := c19ParamIndex(d.Param); i >= 0 && i < len(x.Common().Args) {
							out = append(out, x.Common().Args[i])
							mapped = true
						}
					}
				}
				if !mapped {
					return nil // tests something that is not handed in by the caller
				}
			}
		}
		return out
	}
	return nil
}

// relates: the handle-valued expression `base` is the handle held in pair
// `pair` (both in the same function).  `up` is the stack of call sites through
// which the function was entered when the check descended into a helper: a
// base and a pair that are both parameters are related if the corresponding
// arguments are related at the call site.
func (h *c19HandleModel) relates(base, pair ssa.Value, up []ssa.CallInstruction) bool {
	for _, d := range h.handleSources(base, 0) {
		if d.Pair != nil && c19SameObject(d.Pair, pair) {
			return true
		}
		if d.Param != nil && len(up) > 0 {
			site := up[len(up)-1]
			if calleeFn(site.Common()) != d.Param.Parent() {
				continue
			}
			bi := c19ParamIndex(d.Param)
			for _, po := range origins(pair, nil) {
				pp, ok := po.V.(*ssa.Parameter)
				if !ok || pp.Parent() != d.Param.Parent() {
					continue
				}
				pi := c19ParamIndex(pp)
				args := site.Common().Args
				if bi < len(args) && pi < len(args) && h.relates(args[bi], args[pi], up[:len(up)-1]) {
					return true
				}
			}
		}
	}
	return false
}

// c19DynTypes: the concrete (qualified) type names an interface-typed value can hold.
func c19DynTypes(v ssa.Value) (names []string, unknown bool) {
	for _, o := range origins(v, nil) {
		t := o.V.Type()
		if al, ok := o.V.(*ssa.Alloc); ok {
			t = al.Type().(*types.Pointer).Elem()
		}
		if types.IsInterface(t) {
			unknown = true
			continue
		}
		names = append(names, qualTypeName(t))
	}
	sort.Strings(names)
	return
}

// c19RecordKind classifies what kind of record a pair holds, from local
// evidence in its function: the key / list options of the Client read it comes
// from, the Key of a literal, or a type assertion of its Value.
type c19RecordKind struct {
	Handle  bool     // some evidence says it is an IPAM handle record
	Keys    []string // key types seen
	Params  []*ssa.Parameter
	Unknown bool // some leaf could not be classified
}

func (h *c19HandleModel) recordKind(pair ssa.Value, fn *ssa.Function, depth int) c19RecordKind {
	var k c19RecordKind
	m := h.m
	addKeys := func(v ssa.Value) {
		ns, unk := c19DynTypes(v)
		if unk || len(ns) == 0 {
			k.Unknown = true
		}
		for _, n := range ns {
			k.Keys = append(k.Keys, n)
			if h.handleKeys[n] {
				k.Handle = true
			}
		}
	}
	for _, o := range origins(pair, h.through) {
		switch o.Kind {
		case "call":
			call := o.V.(*ssa.Call)
			args := call.Common().Args
			switch n := c19ClientCall(call.Common()); n {
			case "Get", "List":
				if len(args) > 1 {
					addKeys(args[1])
				} else {
					k.Unknown = true
				}
			default:
				k.Unknown = true
			}
		case "param":
			if par := o.V.(*ssa.Parameter); fn == nil || topFn(par.Parent()) == topFn(fn) {
				k.Params = append(k.Params, par)
			} else {
				k.Unknown = true
			}
		case "const":
			// nil pair: nothing is deleted
		case "alloc":
			al := o.V.(*ssa.Alloc)
			if !types.Identical(types.Unalias(al.Type().(*types.Pointer).Elem()), m.kvPair) {
				if !m.carrying(al.Type().(*types.Pointer).Elem()) {
					k.Unknown = true
				}
				continue
			}
			fields, copies := c19FieldStores(al, 0)
			for _, kv := range fields[m.keyField.Name()] {
				addKeys(kv)
			}
			for _, cp := range copies {
				if m.isPairPtr(cp.Type()) && depth < 3 {
					sub := h.recordKind(cp, fn, depth+1)
					k.Handle = k.Handle || sub.Handle
					k.Unknown = k.Unknown || sub.Unknown
					k.Keys = append(k.Keys, sub.Keys...)
					k.Params = append(k.Params, sub.Params...)
				}
			}
			if len(fields[m.keyField.Name()]) == 0 && len(copies) == 0 {
				k.Unknown = true
			}
		default:
			k.Unknown = true
		}
	}
	// `pair.Value.(*model.IPAMHandle)` in the same function
	if fn != nil {
		allInstrs(fn, false, func(_ *ssa.Function, in ssa.Instruction) {
			ta, ok := in.(*ssa.TypeAssert)
			if !ok || !h.isHandlePtr(ta.AssertedType) {
				return
			}
			ld, ok := ta.X.(*ssa.UnOp)
			if !ok {
				return
			}
			fa, ok := ld.X.(*ssa.FieldAddr)
			if ok && structField(fa.X.Type(), fa.Field) == h.valueField && c19SameObject(fa.X, pair) {
				k.Handle = true
			}
		})
	}
	return k
}

// --------------------------------------------------- attribute index sources --

// c19AttrIndexProducers: the in-package functions whose result is stored (as an
// attribute index) into an element of AllocationBlock.Allocations.
func c19AttrIndexProducers(m *c19Model, allocsField *types.Var) (prods map[*ssa.Function][]ssa.Instruction, nStores int) {
	prods = map[*ssa.Function][]ssa.Instruction{}
	var thr func(x ssa.Value) []ssa.Value
	thr = func(x ssa.Value) []ssa.Value {
		// &local (the address of an int variable holding the index): what is stored into it
		if al, ok := x.(*ssa.Alloc); ok {
			if _, isInt := al.Type().(*types.Pointer).Elem().Underlying().(*types.Basic); isInt {
				if vals := c19StructStores(al); len(vals) > 0 {
					return vals
				}
			}
		}
		return nil
	}
	for _, f := range m.funcs {
		allInstrs(f, false, func(fn *ssa.Function, in ssa.Instruction) {
			st, ok := in.(*ssa.Store)
			if !ok {
				return
			}
			ia, ok := st.Addr.(*ssa.IndexAddr)
			if !ok || fieldVar(ia.X) != allocsField {
				return
			}
			nStores++
			for _, o := range origins(st.Val, thr) {
				if call, ok := o.V.(*ssa.Call); ok {
					if sf := calleeFn(call.Common()); m.inPkg(sf) {
						prods[sf] = append(prods[sf], st)
					}
				}
			}
		})
	}
	return
}

// c19WholeStructEquality: a call in fns that compares two whole values of type
// t (reflect.DeepEqual / go-cmp Equal / apimachinery DeepEqual on t or *t).
func c19WholeStructEquality(fns map[*ssa.Function]bool, t types.Type) ssa.Instruction {
	isT := func(v ssa.Value) bool {
		mi, ok := v.(*ssa.MakeInterface)
		if !ok {
			return false
		}
		return types.Identical(derefType(mi.X.Type()), derefType(t))
	}
	var found ssa.Instruction
	for fn := range fns {
		if fn.Blocks == nil {
			continue
		}
		allInstrs(fn, false, func(_ *ssa.Function, in ssa.Instruction) {
			ci, ok := in.(ssa.CallInstruction)
			if !ok || found != nil {
				return
			}
			f := calleeOf(ci.Common())
			if f == nil || f.Pkg() == nil {
				return
			}
			switch {
			case f.Pkg().Path() == "reflect" && f.Name() == "DeepEqual",
				f.Pkg().Path() == "github.com/google/go-cmp/cmp" && f.Name() == "Equal",
				f.Pkg().Path() == "k8s.io/apimachinery/third_party/forked/golang/reflect" && f.Name() == "DeepEqual":
			default:
				return
			}
			var vals []ssa.Value
			for _, a := range ci.Common().Args {
				if isT(a) {
					vals = append(vals, a)
				}
			}
			if len(vals) >= 2 {
				found = in
			}
		})
	}
	return found
}
