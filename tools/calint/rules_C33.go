package main

import (
	"fmt"
	"go/ast"
	"go/constant"
	"go/token"
	"go/types"
	"strings"

	"golang.org/x/tools/go/ssa"
)

const (
	c33Pkg    = "felix/bpf/consistenthash"
	c33File   = "felix/bpf/consistenthash/consistenthash.go"
	c33Primes = "libcalico-go/lib/consistenthash"
	c33Config = "felix/config"
)

func init() {
	register(&Property{
		ID:        "C33",
		Title:     "Maglev lookup tables are complete, balanced and node-independent",
		Technique: "static analysis: determinism lint over the call closure (E-DET, go/ast+go/types), SSA dominance of sort/reset/dedupe guards, constant evaluation of the prime table, product/provenance of the map capacity, natural-loop loop-carried-dependence of the consistent-hash instance",
		DesignRef: "DESIGN.md §3 C33",
		Explanation: "Node-independence clauses of the consistent-hash table builder: (arch) no function in the call closure of New/AddBackend/Generate uses an architecture- or process-dependent primitive (binary.NativeEndian, unsafe, runtime.GOARCH, maphash, rand, clock, hostname...); " +
			"(order) no function of the closure iterates a map with an order-sensitive effect, and in Generate a total-order sort of the backend-name slice dominates every store into the returned table and every lookup into the backend map is keyed by an element of that slice; " +
			"(dedupe) a backend is inserted into the by-name map only when it is not already present, and the name is appended to the name slice on the same paths; " +
			"(reset) every Write/Sum on a hash.Hash value is dominated by a Reset of that value (hash state cannot carry over from previously learned backends); " +
			"(perm) each backend's preference list is a permutation of the slots: the table-size field m is stored only in the constructor literal, every value stored into a []int of length m lies in [0, m-1] and the factor of the list index (the Maglev skip) lies in [1, m-1] for every m >= 2 - interval evaluation with bounds affine in m, through the results of offsetAndSKip/hashFromString (error returns excluded where the use is guarded by err == nil); with m prime (next clause) skip is then coprime to m; " +
			"(prime) Config.BPFLUTSizeMaglev returns the result of NextPrimeUint16, which returns only elements of the table `pr`, and `pr` is exactly the ascending list of all primes below 2^16 and is never written; " +
			"(capacity) Config.BPFMapSizeMaglev is (a result of BPFLUTSizeMaglev / NextPrimeUint16) × BPFMaglevMaxServices, i.e. the BPF map is sized from the same per-service table size the generator fills, not from a separately computed budget; " +
			"(instance) outside the consistenthash package every ConsistentHash on which AddBackend/Generate is called is constructed (consistenthash.New, possibly through a wrapper) by the calling invocation, inside every loop that generates a table per iteration, and the receiver has no loop-carried dependence: one instance per service (the type accumulates backends and has no reset).",
		NotDecided: "Balance (Maglev bound) and that the fill loop of Generate itself terminates with a full table given permutations (run-time indices into slices; needs M prime, which is decided only up to the config accessor); that the hash functions passed to New by the proxy are node-independent (fnv today); that the configured LUT size reaches New unchanged through the dataplane config plumbing; 32-bit int truncation of the uint32 hash.",
		Assumptions: []string{
			"go/types + go/ssa (x/tools v0.50.0) model of the current source, CGO_ENABLED=0 build",
			"hash.Hash implementations are pure functions of the bytes written since Reset",
			"slices.Sort / sort.Strings on []string is a total order",
			"int is 64 bits (uint32 -> int conversion is value-preserving, index arithmetic on operands below 2^32 does not overflow); table size m >= 2",
		},
		Run: runC33,
		Fixtures: []Fixture{
			{Name: "F2 re-introduced: hash decoded with the host byte order", File: c33File,
				Old: "binary.Read(reader, binary.LittleEndian, &result)", New: "binary.Read(reader, binary.NativeEndian, &result)", Expect: "C33.arch/hashFromString"},
			{Name: "fill loop iterates the backend map", File: c33File,
				Old: "\t\tfor i, backend := range ch.backendNames {\n", New: "\t\ti := -1\n\t\tfor backend := range ch.backendsByName {\n\t\t\ti++\n", Expect: "C33.order/maprange/ConsistentHash.Generate"},
			{Name: "backend names sorted only for large services", File: c33File,
				Old: "\tslices.Sort(ch.backendNames)\n", New: "\tif len(ch.backendNames) > 64 {\n\t\tslices.Sort(ch.backendNames)\n\t}\n", Expect: "C33.order/sort-before-fill"},
			{Name: "re-learned backend added twice", File: c33File,
				Old: "\tif _, exists := ch.backendsByName[name]; exists {\n\t\tlogrus.WithField(\"backend\", name).Info(\"Will not regenerate permutation for pre-existing backend\")\n\t\treturn\n\t}\n", New: "", Expect: "C33.dedupe/ConsistentHash.AddBackend/guard"},
			{Name: "backend stored but its name not recorded", File: c33File,
				Old: "\tch.backendNames = append(ch.backendNames, name)\n", New: "", Expect: "C33.dedupe/ConsistentHash.AddBackend/paired"},
			{Name: "skip taken modulo m: can be 0 mod m", File: c33File,
				Old: "(skip % (ch.m - 1)) + 1", New: "(skip % ch.m) + 1", Expect: "C33.perm/ConsistentHash.permutation/skip"},
			{Name: "skip can be zero", File: c33File,
				Old: "(skip % (ch.m - 1)) + 1", New: "skip % (ch.m - 1)", Expect: "C33.perm/ConsistentHash.permutation/skip"},
			{Name: "preference can be the slot one past the table", File: c33File,
				Old: "permutation[j] = (offset + (j * skip)) % ch.m", New: "permutation[j] = (offset + (j * skip)) % (ch.m + 1)", Expect: "C33.perm/ConsistentHash.permutation/slot"},
			{Name: "table size changed after backends were added", File: c33File,
				Old: "\tslices.Sort(ch.backendNames)\n", New: "\tslices.Sort(ch.backendNames)\n\tif len(ch.backendNames) > ch.m {\n\t\tch.m = len(ch.backendNames)\n\t}\n", Expect: "C33.perm/size-immutable"},
			{Name: "hash state carried over between backends", File: c33File,
				Old: "\th.Reset()\n", New: "", Expect: "C33.reset/"},
			{Name: "LUT size no longer rounded to a prime", File: "felix/config/config_params.go",
				Old: "return int(consistenthash.NextPrimeUint16(config.BPFMaglevMaxEndpointsPerService * consistenthash.MaglevEndpointLUTFactor))", New: "return int(uint16(config.BPFMaglevMaxEndpointsPerService * consistenthash.MaglevEndpointLUTFactor))", Expect: "C33.prime/BPFLUTSizeMaglev"},
			{Name: "map sized from the un-rounded per-service budget", File: "felix/config/config_params.go",
				Old: "return int(config.BPFLUTSizeMaglev()) * config.BPFMaglevMaxServices", New: "return config.BPFMaglevMaxEndpointsPerService * consistenthash.MaglevEndpointLUTFactor * config.BPFMaglevMaxServices", Expect: "C33.capacity/BPFMapSizeMaglev"},
			{Name: "map sized for one table per endpoint instead of per service", File: "felix/config/config_params.go",
				Old: "return int(config.BPFLUTSizeMaglev()) * config.BPFMaglevMaxServices", New: "return int(config.BPFLUTSizeMaglev()) * config.BPFMaglevMaxEndpointsPerService", Expect: "C33.capacity/BPFMapSizeMaglev"},
			{Name: "constructor memoises the consistent-hash instance", File: "felix/bpf/proxy/syncer.go",
				Old: "func (s *Syncer) newConsistentHash() *consistenthash.ConsistentHash {\n\treturn consistenthash.New(",
				New: "var sharedCH *consistenthash.ConsistentHash\n\nfunc (s *Syncer) newConsistentHash() (ch *consistenthash.ConsistentHash) {\n\tif sharedCH != nil {\n\t\treturn sharedCH\n\t}\n\tdefer func() { sharedCH = ch }()\n\treturn consistenthash.New(", Expect: "C33.instance/Syncer.apply/Generate"},
			{Name: "one lazily created consistent-hash instance shared by all services of an apply", File: "felix/bpf/proxy/syncer.go",
				Old: "\t// insert or update existing services\n\tfor sname, sinfo := range state.SvcMap {\n\t\tsvc := sinfo.(Service)\n\t\tlog.WithField(\"service\", sname).Debug(\"Applying service\")\n\t\tskey := getSvcKey(sname, \"\")\n\t\ttopologyMode := svc.TopologyMode()\n\n\t\t// Topology Aware Routing has precedence over Traffic Distribution.\n\t\teps, topologyAwareApplied := FilterEpsByTopologyAwareRouting(state.EpsMap[sname], topologyMode, nodeZone)\n\t\tif !topologyAwareApplied {\n\t\t\tlog.Debugf(\"Topology Aware Routing not applied for service %s, mode %s. Trying Traffic Distribution...\", sname, topologyMode)\n\t\t\t// If Traffic Distribution can't be applied, it will return the original endpoints (cluster-wide).\n\t\t\teps = FilterEpsByTrafficDistribution(state.EpsMap[sname], nodeName, nodeZone)\n\t\t} else {\n\t\t\tlog.Debugf(\"Topology Aware Routing applied for service %s, mode %s.\", sname, topologyMode)\n\t\t}\n\n\t\t// In bpfNetworkBootstrap mode Felix reaches the API server through this service's\n\t\t// NAT; dropping its backends would sever and deadlock its own recovery, so keep the last-known-good.\n\t\tif isKubernetesAPIServerService(sname) && countReadyEndpoints(eps) == 0 {\n\t\t\tif fallback := s.apiServerFallbackEps(sname); len(fallback) > 0 {\n\t\t\t\tlog.WithField(\"service\", sname).Warn(\n\t\t\t\t\t\"Kubernetes API server service has no ready endpoints; retaining \" +\n\t\t\t\t\t\t\"last-known-good backends to avoid severing Felix's connection to the API server.\")\n\t\t\t\teps = fallback\n\t\t\t}\n\t\t}\n\n\t\tvar maglevEPs []k8sp.Endpoint\n\t\tif svc.UseMaglev() {\n\t\t\tch := s.newConsistentHash()\n",
				New: "\tvar ch *consistenthash.ConsistentHash\n\t// insert or update existing services\n\tfor sname, sinfo := range state.SvcMap {\n\t\tsvc := sinfo.(Service)\n\t\tlog.WithField(\"service\", sname).Debug(\"Applying service\")\n\t\tskey := getSvcKey(sname, \"\")\n\t\ttopologyMode := svc.TopologyMode()\n\n\t\t// Topology Aware Routing has precedence over Traffic Distribution.\n\t\teps, topologyAwareApplied := FilterEpsByTopologyAwareRouting(state.EpsMap[sname], topologyMode, nodeZone)\n\t\tif !topologyAwareApplied {\n\t\t\tlog.Debugf(\"Topology Aware Routing not applied for service %s, mode %s. Trying Traffic Distribution...\", sname, topologyMode)\n\t\t\t// If Traffic Distribution can't be applied, it will return the original endpoints (cluster-wide).\n\t\t\teps = FilterEpsByTrafficDistribution(state.EpsMap[sname], nodeName, nodeZone)\n\t\t} else {\n\t\t\tlog.Debugf(\"Topology Aware Routing applied for service %s, mode %s.\", sname, topologyMode)\n\t\t}\n\n\t\t// In bpfNetworkBootstrap mode Felix reaches the API server through this service's\n\t\t// NAT; dropping its backends would sever and deadlock its own recovery, so keep the last-known-good.\n\t\tif isKubernetesAPIServerService(sname) && countReadyEndpoints(eps) == 0 {\n\t\t\tif fallback := s.apiServerFallbackEps(sname); len(fallback) > 0 {\n\t\t\t\tlog.WithField(\"service\", sname).Warn(\n\t\t\t\t\t\"Kubernetes API server service has no ready endpoints; retaining \" +\n\t\t\t\t\t\t\"last-known-good backends to avoid severing Felix's connection to the API server.\")\n\t\t\t\teps = fallback\n\t\t\t}\n\t\t}\n\n\t\tvar maglevEPs []k8sp.Endpoint\n\t\tif svc.UseMaglev() {\n\t\t\tif ch == nil {\n\t\t\t\tch = s.newConsistentHash()\n\t\t\t}\n", Expect: "C33.instance/Syncer.apply/Generate"},
			{Name: "composite number in the prime table", File: "libcalico-go/lib/consistenthash/primes.go",
				Old: "\t2, 3, 5, 7, 11, 13, 17, 19, 23, 29,\n", New: "\t2, 3, 5, 7, 11, 13, 17, 19, 23, 27,\n", Expect: "C33.prime/table"},
		},
	})
}

func runC33(c *Ctx) {
	p := c.Load(c33Pkg, c33Config, c33Primes)
	c.Rule("C33.arch", "E-DET", "no architecture- or process-dependent primitive in the call closure of ConsistentHash New/AddBackend/Generate", 7)
	c.Rule("C33.order", "E-DET/E-ORDER", "no order-sensitive map iteration in the closure; in Generate a total-order sort of the name slice dominates the table fill, which looks backends up by sorted name", 9)
	c.Rule("C33.dedupe", "E-GUARD/E-PAIR", "insert into the by-name map only if absent, paired with the append to the name slice", 2)
	c.Rule("C33.reset", "E-ORDER", "every hash.Hash Write/Sum is dominated by a Reset of the same hash value (directly or through a helper that resets its parameter)", 3)
	c.Rule("C33.prime", "E-FLOW/E-CONST", "BPFLUTSizeMaglev derives from NextPrimeUint16, which returns elements of the complete ascending table of primes < 2^16", 3)

	var roots []*ssa.Function
	for _, n := range []string{"New", "ConsistentHash.AddBackend", "ConsistentHash.Generate"} {
		f := p.Func(c33Pkg, n)
		if f == nil {
			c.Lost("%s.%s", c33Pkg, n)
		}
		roots = append(roots, f)
	}
	cl := detClosure(p, roots...)
	rep := detLint(p, cl, detOpts{AllowCall: c33LogCall})
	if len(rep.Funcs) < 3 {
		c.Lost("call closure of ConsistentHash has %d functions", len(rep.Funcs))
	}
	for _, f := range rep.Funcs {
		site := p.Pos(f.Pos())
		na, ta := detDescribe(p, rep.PerFn[f], "arch")
		np, tp := detDescribe(p, rep.PerFn[f], "process")
		c.Check(na+np == 0, "C33.arch/"+fnName(f), site,
			"no architecture-/process-dependent identifier used",
			fnName(f)+" is on the table-building path and uses "+strings.TrimPrefix(ta+"; "+tp, "; ")+": the table differs between nodes")
		nm, tm := detDescribe(p, rep.PerFn[f], "maporder")
		c.Check(nm == 0, "C33.order/maprange/"+fnName(f), site,
			fmt.Sprintf("%d map iteration(s), none with an order-sensitive effect", rep.MapRanges[f]),
			fnName(f)+": "+tm)
	}

	c.Rule("C33.perm", "E-RANGE", "every backend's preference list is a permutation of the table slots: the size field is immutable, each stored slot lies in [0, m-1] and the per-index step (skip) lies in [1, m-1] (symbolic interval evaluation, m >= 2)", 3)
	c33Perm(c, p, cl)
	c33Order(c, p)
	c33Dedupe(c, p)
	c33Reset(c, p, cl)
	c33Prime(c)
	c.Rule("C33.capacity", "E-FLOW", "BPFMapSizeMaglev = (result of BPFLUTSizeMaglev / NextPrimeUint16) × BPFMaglevMaxServices: the map capacity is derived from the same per-service table size the generator fills", 1)
	c33Capacity(c, p)
	c.Rule("C33.instance", "E-LOOP", "every ConsistentHash on which AddBackend/Generate is called outside the package is constructed by the calling invocation, inside every loop that generates a table per iteration, with no loop-carried dependence of the receiver (one instance per service)", 2)
	c33Instance(c)
}

func c33LogCall(f *types.Func) bool {
	return f.Pkg() != nil && f.Pkg().Path() == "github.com/sirupsen/logrus"
}

// c33Fields derives the two bookkeeping fields of ConsistentHash from their types.
func c33Fields(c *Ctx, p *Prog) (names, byName *types.Var) {
	tn, _ := p.LookupObj(c33Pkg, "ConsistentHash").(*types.TypeName)
	if tn == nil {
		c.Lost("type ConsistentHash")
	}
	st, _ := tn.Type().Underlying().(*types.Struct)
	if st == nil {
		c.Lost("ConsistentHash is not a struct")
	}
	for i := 0; i < st.NumFields(); i++ {
		f := st.Field(i)
		switch t := f.Type().Underlying().(type) {
		case *types.Slice:
			if b, ok := t.Elem().Underlying().(*types.Basic); ok && b.Kind() == types.String {
				if names != nil {
					c.Lost("ConsistentHash has more than one []string field")
				}
				names = f
			}
		case *types.Map:
			if b, ok := t.Key().Underlying().(*types.Basic); ok && b.Kind() == types.String {
				if byName != nil {
					c.Lost("ConsistentHash has more than one map[string] field")
				}
				byName = f
			}
		}
	}
	if names == nil || byName == nil {
		c.Lost("ConsistentHash bookkeeping fields ([]string names, map[string]backend)")
	}
	return
}

func c33IsTotalStringSort(f *types.Func) bool {
	if f == nil || f.Pkg() == nil {
		return false
	}
	return (f.Pkg().Path() == "slices" && f.Name() == "Sort") || (f.Pkg().Path() == "sort" && f.Name() == "Strings")
}

func c33Order(c *Ctx, p *Prog) {
	names, byName := c33Fields(c, p)
	gen := p.Func(c33Pkg, "ConsistentHash.Generate")
	site := p.Pos(gen.Pos())
	// the returned table
	var luts []*ssa.MakeSlice
	for _, r := range returnsOf(gen) {
		for _, res := range r.Results {
			for _, o := range origins(res, nil) {
				if ms, ok := o.V.(*ssa.MakeSlice); ok {
					luts = append(luts, ms)
				}
			}
		}
	}
	if len(luts) == 0 {
		c.Lost("Generate does not return a slice it makes (the lookup table)")
	}
	var fills []ssa.Instruction
	seen := map[ssa.Instruction]bool{}
	for _, ms := range luts {
		for _, r := range *ms.Referrers() {
			ia, ok := r.(*ssa.IndexAddr)
			if !ok {
				continue
			}
			for _, rr := range *ia.Referrers() {
				if st, ok := rr.(*ssa.Store); ok && st.Addr == ia && !seen[st] {
					seen[st] = true
					fills = append(fills, st)
				}
			}
		}
	}
	if len(fills) == 0 {
		c.Lost("no store into the lookup table in Generate")
	}
	var sorts []CallSite
	var otherSorts []string
	for _, cs := range callsIn(gen, false, func(f *types.Func) bool {
		return f.Pkg() != nil && (f.Pkg().Path() == "slices" || f.Pkg().Path() == "sort") && strings.Contains(f.Name(), "Sort") || c33IsTotalStringSort(f)
	}) {
		if len(cs.Args()) == 0 || fieldVar(cs.Args()[0]) != names {
			continue
		}
		if c33IsTotalStringSort(cs.Callee) {
			sorts = append(sorts, cs)
		} else {
			otherSorts = append(otherSorts, cs.Callee.Name())
		}
	}
	key := "C33.order/sort-before-fill/" + fnName(gen)
	switch {
	case len(sorts) == 0 && len(otherSorts) > 0:
		c.Undecided(key, site, "%s is sorted with %v: cannot decide that the order is total", names.Name(), otherSorts)
	case len(sorts) == 0:
		c.Violate(key, site, "Generate fills the table without sorting %s: the table depends on the order backends were learned in", names.Name())
	default:
		bad := ""
		for _, st := range fills {
			dom := false
			for _, s := range sorts {
				if instrDominates(s.Instr, st) {
					dom = true
				}
			}
			if !dom {
				bad = fmt.Sprintf("the table store at %s is not dominated by the sort of %s at %s (some path fills the table in learning order)", p.Pos(st.Pos()), names.Name(), p.Pos(sorts[0].Instr.Pos()))
			}
		}
		c.Check(bad == "", key, site, fmt.Sprintf("total-order sort of %s dominates all %d store(s) into the returned table", names.Name(), len(fills)), bad)
	}
	// lookups into the backend map are keyed by elements of the sorted slice
	key = "C33.order/lookup-by-sorted-name/" + fnName(gen)
	n, bad := 0, ""
	allInstrs(gen, true, func(f *ssa.Function, in ssa.Instruction) {
		lk, ok := in.(*ssa.Lookup)
		if !ok || fieldVar(lk.X) != byName {
			return
		}
		n++
		okKey := false
		if ld, ok := lk.Index.(*ssa.UnOp); ok && ld.Op == token.MUL {
			if ia, ok := ld.X.(*ssa.IndexAddr); ok && fieldVar(ia.X) == names {
				okKey = true
			}
		}
		if !okKey {
			bad = fmt.Sprintf("lookup %s[%s] at %s is not keyed by an element of %s", byName.Name(), path(lk.Index), p.Pos(lk.Pos()), names.Name())
		}
	})
	if n == 0 {
		c.Violate(key, site, "Generate never looks a backend up by name in %s (the table is not filled from the sorted names)", byName.Name())
	} else {
		c.Check(bad == "", key, site, fmt.Sprintf("%d lookup(s) into %s keyed by elements of %s", n, byName.Name(), names.Name()), bad)
	}
}

// c33Perm: Generate fills the table by walking each backend's preference list;
// it is complete only if every list visits every slot, i.e. list[j] =
// (offset + j*skip) mod m with skip not a multiple of the (prime) size m.  Decided
// by interval evaluation with bounds affine in m: the values stored into the
// list are in [0, m-1] (valid slots) and the factor of the element index is in
// [1, m-1].  The list is found structurally: a []int made with length m whose
// elements are stored to.
func c33Perm(c *Ctx, p *Prog, cl map[*ssa.Function]bool) {
	tn, _ := p.LookupObj(c33Pkg, "ConsistentHash").(*types.TypeName)
	if tn == nil {
		c.Lost("type ConsistentHash")
	}
	st, _ := tn.Type().Underlying().(*types.Struct)
	if st == nil {
		c.Lost("ConsistentHash is not a struct")
	}
	var m *types.Var
	for i := 0; i < st.NumFields(); i++ {
		if b, ok := st.Field(i).Type().(*types.Basic); ok && b.Kind() == types.Int {
			if m != nil {
				c.Lost("ConsistentHash has more than one int field (table size not identifiable)")
			}
			m = st.Field(i)
		}
	}
	if m == nil {
		c.Lost("ConsistentHash table-size field (int)")
	}
	sp := p.SSAPkg(c33Pkg)
	if sp == nil {
		c.Lost("ssa package %s", c33Pkg)
	}
	isM := func(v ssa.Value) bool {
		ld, ok := v.(*ssa.UnOp)
		return ok && ld.Op == token.MUL && fieldVar(ld.X) == m
	}
	// the size is fixed at construction
	bad := ""
	var fns []*ssa.Function
	for _, f := range p.AllFuncs() {
		if f.Pkg == sp {
			fns = append(fns, f)
		}
	}
	c33SortFuncs(fns)
	for _, f := range fns {
		allInstrs(f, false, func(g *ssa.Function, in ssa.Instruction) {
			s, ok := in.(*ssa.Store)
			if !ok || fieldVar(s.Addr) != m {
				return
			}
			if fa, ok := s.Addr.(*ssa.FieldAddr); ok {
				if _, lit := fa.X.(*ssa.Alloc); lit {
					return
				}
			}
			bad = fmt.Sprintf("%s stores to %s at %s: preference lists computed for the old size are walked against the new one", fnName(g), m.Name(), p.Pos(in.Pos()))
		})
	}
	c.Check(bad == "", "C33.perm/size-immutable", p.Pos(m.Pos()), "table size is only set in the constructor literal", bad)

	ev := &symEval{M: m, MinM: 2}
	slotRange := symRange{symConst(0), symBound{A: 1, B: -1}}
	skipRange := symRange{symConst(1), symBound{A: 1, B: -1}}
	found := 0
	for _, f := range fns {
		if !cl[f] {
			continue
		}
		allInstrs(f, false, func(g *ssa.Function, in ssa.Instruction) {
			ms, ok := in.(*ssa.MakeSlice)
			if !ok || !isM(ms.Len) {
				return
			}
			sl, _ := ms.Type().Underlying().(*types.Slice)
			if sl == nil {
				return
			}
			if b, ok := sl.Elem().Underlying().(*types.Basic); !ok || b.Kind() != types.Int {
				return
			}
			refs := ms.Referrers()
			if refs == nil {
				return
			}
			for _, r := range *refs {
				ia, ok := r.(*ssa.IndexAddr)
				if !ok || ia.Referrers() == nil {
					continue
				}
				for _, rr := range *ia.Referrers() {
					sto, ok := rr.(*ssa.Store)
					if !ok || sto.Addr != ssa.Value(ia) {
						continue
					}
					found++
					site := p.Pos(sto.Pos())
					name := fnName(g)
					// slot
					r := ev.Range(sto.Val, sto)
					c.Check(ev.within(r, slotRange), "C33.perm/"+name+"/slot", site,
						"stored preference is in [0, m-1]",
						fmt.Sprintf("the preference stored at %s ranges over %s, not within [0, m-1]: Generate indexes the m-slot table with it", site, r))
					// skip: the factor of the element index
					var muls []*ssa.BinOp
					seen := map[ssa.Value]bool{}
					var walk func(v ssa.Value)
					walk = func(v ssa.Value) {
						if seen[v] {
							return
						}
						seen[v] = true
						bo, ok := v.(*ssa.BinOp)
						if !ok {
							return
						}
						switch bo.Op {
						case token.MUL:
							if bo.X == ia.Index || bo.Y == ia.Index {
								muls = append(muls, bo)
							}
						case token.ADD, token.SUB:
							walk(bo.X)
							walk(bo.Y)
						case token.REM:
							walk(bo.X)
						}
					}
					walk(sto.Val)
					key := "C33.perm/" + name + "/skip"
					if len(muls) != 1 {
						c.Undecided(key, site, "preference %s is not of the form (offset + index*skip) %% m (%d products with the element index)", path(sto.Val), len(muls))
						continue
					}
					skip := muls[0].X
					if skip == ia.Index {
						skip = muls[0].Y
					}
					sr := ev.Range(skip, muls[0])
					why := ""
					switch {
					case !ev.loGE(sr, skipRange.Lo):
						why = "skip can be 0 (or negative): every preference of the backend is the same slot"
					case !ev.hiLE(sr, skipRange.Hi):
						why = "skip can reach m, i.e. 0 modulo the table size: the backend's list is one slot repeated m times"
					}
					c.Check(why == "", key, site, "skip is in [1, m-1]: with m prime the list visits every slot once",
						fmt.Sprintf("the step %s multiplied with the list index in %s ranges over %s, not within [1, m-1]; %s and Generate cannot complete the table", path(skip), name, sr, why))
				}
			}
		})
	}
	if found == 0 {
		c.Lost("no []int of length %s with element stores (the preference list) in the closure of AddBackend/Generate", m.Name())
	}
}

func c33Dedupe(c *Ctx, p *Prog) {
	names, byName := c33Fields(c, p)
	nUpd := 0
	for _, f := range p.AllFuncs() {
		pd := postDominators(f)
		for _, mu := range mapUpdatesOfField(f, false, "", byName.Name()) {
			if fieldVar(mu.Map) != byName {
				continue
			}
			nUpd++
			site := p.Pos(mu.Pos())
			kp := path(mu.Key)
			g := guardedCut(mu, func(cond ssa.Value, pol bool) bool {
				if pol {
					return false
				}
				ex, ok := cond.(*ssa.Extract)
				if !ok || ex.Index != 1 {
					return false
				}
				lk, ok := ex.Tuple.(*ssa.Lookup)
				return ok && lk.CommaOk && fieldVar(lk.X) == byName && path(lk.Index) == kp
			})
			c.Check(g, "C33.dedupe/"+fnName(f)+"/guard", site,
				"insert reachable only when the same key is absent from "+byName.Name(),
				fmt.Sprintf("%s[%s] is stored without a dominating not-present test on the same key: a backend learned twice is added twice and gets a double share on this node only", byName.Name(), kp))
			// paired append of the same key to the name slice
			paired := false
			for _, st := range storesToField(f, false, "", names.Name()) {
				if fieldVar(st.Addr) != names {
					continue
				}
				call, ok := st.Val.(*ssa.Call)
				if !ok {
					continue
				}
				if b, ok := call.Call.Value.(*ssa.Builtin); !ok || b.Name() != "append" || len(call.Call.Args) != 2 {
					continue
				}
				if fieldVar(call.Call.Args[0]) != names || !c33SliceHolds(call.Call.Args[1], mu.Key) {
					continue
				}
				if (instrDominates(mu, st) && instrPostDominates(pd, st, mu)) || (instrDominates(st, mu) && instrPostDominates(pd, mu, st)) {
					paired = true
				}
			}
			c.Check(paired, "C33.dedupe/"+fnName(f)+"/paired", site,
				"the inserted key is appended to "+names.Name()+" on exactly the same paths",
				fmt.Sprintf("insert into %s is not paired with an append of the same key to %s: the backend never gets table slots (or the slice holds names without a backend)", byName.Name(), names.Name()))
		}
	}
	if nUpd == 0 {
		c.Lost("no insert into ConsistentHash.%s", byName.Name())
	}
}

// c33SliceHolds: v is the variadic slice `[]T{key}` built for append(s, key).
func c33SliceHolds(v ssa.Value, key ssa.Value) bool {
	sl, ok := v.(*ssa.Slice)
	if !ok {
		return false
	}
	al, ok := sl.X.(*ssa.Alloc)
	if !ok {
		return false
	}
	for _, r := range *al.Referrers() {
		if ia, ok := r.(*ssa.IndexAddr); ok {
			for _, rr := range *ia.Referrers() {
				if st, ok := rr.(*ssa.Store); ok && st.Val == key {
					return true
				}
			}
		}
	}
	return false
}

func c33IsHashIface(t types.Type) bool {
	t = types.Unalias(t)
	n, ok := t.(*types.Named)
	return ok && n.Obj().Pkg() != nil && n.Obj().Pkg().Path() == "hash"
}

// c33ResetsParam: g invokes Reset on its k-th parameter before every return.
func c33ResetsParam(g *ssa.Function, k int) bool {
	if g == nil || g.Blocks == nil || k >= len(g.Params) {
		return false
	}
	for _, b := range g.Blocks {
		for _, in := range b.Instrs {
			call, ok := in.(*ssa.Call)
			if !ok || !call.Call.IsInvoke() || call.Call.Method.Name() != "Reset" || call.Call.Value != ssa.Value(g.Params[k]) {
				continue
			}
			all := true
			for _, r := range returnsOf(g) {
				if !instrDominates(call, r) {
					all = false
				}
			}
			if all {
				return true
			}
		}
	}
	return false
}

func c33Reset(c *Ctx, p *Prog, cl map[*ssa.Function]bool) {
	n := 0
	var fns []*ssa.Function
	for f := range cl {
		fns = append(fns, f)
	}
	c33SortFuncs(fns)
	for _, f := range fns {
		allInstrs(f, false, func(_ *ssa.Function, in ssa.Instruction) {
			call, ok := in.(*ssa.Call)
			if !ok || !call.Call.IsInvoke() || !c33IsHashIface(call.Call.Value.Type()) {
				return
			}
			m := call.Call.Method.Name()
			if m != "Write" && !strings.HasPrefix(m, "Sum") {
				return
			}
			n++
			h := call.Call.Value
			reset := ""
			allInstrs(f, false, func(_ *ssa.Function, in2 ssa.Instruction) {
				c2, ok := in2.(*ssa.Call)
				if !ok || !instrDominates(c2, call) {
					return
				}
				if c2.Call.IsInvoke() && c2.Call.Method.Name() == "Reset" && c2.Call.Value == h {
					reset = "Reset at " + p.Pos(c2.Pos())
					return
				}
				if g := calleeFn(c2.Common()); g != nil {
					for k, a := range c2.Call.Args {
						if a == h && c33ResetsParam(g, k) {
							reset = fnName(g) + " (resets its parameter) at " + p.Pos(c2.Pos())
						}
					}
				}
			})
			c.Check(reset != "", "C33.reset/"+fnName(f)+"/"+m, p.Pos(call.Pos()),
				"hash "+m+" dominated by "+reset,
				fmt.Sprintf("%s.%s in %s is not dominated by a Reset of the same hash: its state carries over from the backends hashed before, so the permutation depends on the learning order", path(h), m, fnName(f)))
		})
	}
	if n == 0 {
		c.Lost("no hash.Hash Write/Sum in the ConsistentHash closure")
	}
}

func c33SortFuncs(fns []*ssa.Function) {
	for i := 1; i < len(fns); i++ {
		for j := i; j > 0 && (fns[j].Pos() < fns[j-1].Pos()); j-- {
			fns[j], fns[j-1] = fns[j-1], fns[j]
		}
	}
}

func c33Prime(c *Ctx) {
	p := c.Load(c33Pkg, c33Config, c33Primes)
	next, _ := p.LookupObj(c33Primes, "NextPrimeUint16").(*types.Func)
	if next == nil {
		c.Lost("%s.NextPrimeUint16", c33Primes)
	}
	// (a) the accessor
	acc := p.Func(c33Config, "Config.BPFLUTSizeMaglev")
	if acc == nil {
		c.Lost("Config.BPFLUTSizeMaglev")
	}
	var bad []string
	nres := 0
	for _, r := range returnsOf(acc) {
		for _, res := range r.Results {
			for _, o := range origins(res, func(v ssa.Value) []ssa.Value {
				// follow an in-package helper that computes the size
				if call, ok := v.(*ssa.Call); ok && calleeOf(call.Common()) != next {
					if g := call.Call.StaticCallee(); g != nil && g.Blocks != nil && g.Pkg == acc.Pkg {
						var more []ssa.Value
						for _, rr := range returnsOf(g) {
							more = append(more, rr.Results...)
						}
						return more
					}
				}
				return nil
			}) {
				nres++
				call, ok := o.V.(*ssa.Call)
				if !ok || calleeOf(call.Common()) != next {
					bad = append(bad, fmt.Sprintf("value %s returned at %s does not come from NextPrimeUint16", path(o.V), p.Pos(r.Pos())))
				}
			}
		}
	}
	c.Check(len(bad) == 0 && nres > 0, "C33.prime/BPFLUTSizeMaglev", p.Pos(acc.Pos()),
		"every returned value is a result of NextPrimeUint16", "the Maglev table size is not rounded to a prime (the permutation `offset + j*skip mod M` is then not a full cycle for every skip): "+strings.Join(bad, "; "))

	// (b) NextPrimeUint16 returns table elements only
	nf := p.SSA.FuncValue(next)
	prObj := p.LookupObj(c33Primes, "pr")
	if nf == nil || prObj == nil {
		c.Lost("%s.NextPrimeUint16 body / table pr", c33Primes)
	}
	bad = nil
	nres = 0
	for _, r := range returnsOf(nf) {
		for _, res := range r.Results {
			for _, o := range origins(res, nil) {
				nres++
				ia, ok := o.V.(*ssa.IndexAddr)
				okT := false
				if ok {
					if ld, ok := ia.X.(*ssa.UnOp); ok && ld.Op == token.MUL {
						if g, ok := ld.X.(*ssa.Global); ok && g.Object() == prObj {
							okT = true
						}
					}
				}
				if !okT {
					bad = append(bad, fmt.Sprintf("value %s returned at %s is not an element of the prime table", path(o.V), p.Pos(r.Pos())))
				}
			}
		}
	}
	c.Check(len(bad) == 0 && nres > 0, "C33.prime/NextPrimeUint16", p.Pos(nf.Pos()), "every returned value is an element of the table", strings.Join(bad, "; "))

	// (c) the table
	pk := p.Pkg(c33Primes)
	var lit *ast.CompositeLit
	for _, f := range pk.Syntax {
		ast.Inspect(f, func(n ast.Node) bool {
			vs, ok := n.(*ast.ValueSpec)
			if !ok {
				return true
			}
			for i, id := range vs.Names {
				if pk.TypesInfo.Defs[id] == prObj && i < len(vs.Values) {
					lit, _ = ast.Unparen(vs.Values[i]).(*ast.CompositeLit)
				}
			}
			return true
		})
	}
	if lit == nil {
		c.Lost("composite literal initialising the prime table")
	}
	const lim = 1 << 16
	sieve := make([]bool, lim)
	nPrimes := 0
	for i := 2; i < lim; i++ {
		if !sieve[i] {
			nPrimes++
			for j := i * i; j < lim; j += i {
				sieve[j] = true
			}
		}
	}
	bad = nil
	prev := int64(-1)
	for i, e := range lit.Elts {
		cv, ok := constValue(pk.TypesInfo, e)
		if !ok {
			c.Undecided("C33.prime/table", p.Pos(e.Pos()), "element %d of the prime table is not a constant", i)
			return
		}
		v, _ := constant.Int64Val(cv)
		if v < 2 || v >= lim || sieve[v] {
			bad = append(bad, fmt.Sprintf("element %d = %d is not prime", i, v))
		}
		if v <= prev {
			bad = append(bad, fmt.Sprintf("element %d = %d is not greater than its predecessor %d (sort.Search needs an ascending table)", i, v, prev))
		}
		prev = v
	}
	if len(lit.Elts) != nPrimes {
		bad = append(bad, fmt.Sprintf("table has %d elements, there are %d primes below 2^16", len(lit.Elts), nPrimes))
	}
	// never written after initialisation
	for _, f := range p.AllFuncs() {
		allInstrs(f, false, func(_ *ssa.Function, in ssa.Instruction) {
			st, ok := in.(*ssa.Store)
			if !ok {
				return
			}
			a := st.Addr
			if ia, ok := a.(*ssa.IndexAddr); ok {
				if ld, ok := ia.X.(*ssa.UnOp); ok {
					a = ld.X
				}
			}
			if g, ok := a.(*ssa.Global); ok && g.Object() == prObj && f.Name() != "init" {
				bad = append(bad, fmt.Sprintf("%s writes the prime table at %s", fnName(f), p.Pos(st.Pos())))
			}
		})
	}
	if len(bad) > 4 {
		bad = append(bad[:4], fmt.Sprintf("... %d problems", len(bad)))
	}
	c.Check(len(bad) == 0, "C33.prime/table", p.Pos(lit.Pos()),
		fmt.Sprintf("%d elements: ascending, all prime, complete below 2^16, written only by the initialiser", len(lit.Elts)), strings.Join(bad, "; "))
}

// ----------------------------------------------------------------- capacity --

// c33Capacity: the Maglev BPF map must hold BPFMaglevMaxServices complete
// tables, so its size has to be derived from the very per-service table size the
// generator is configured with: some additive term of BPFMapSizeMaglev's result
// is a product with one factor that IS the LUT size (a result of
// BPFLUTSizeMaglev or of NextPrimeUint16, possibly through an in-package helper
// all of whose returns are such) and another factor computed from the
// BPFMaglevMaxServices field.  A separately computed per-service budget
// (endpoints × factor, not rounded to the prime) is not the LUT size.
func c33Capacity(c *Ctx, p *Prog) {
	lut := p.Func(c33Config, "Config.BPFLUTSizeMaglev")
	size := p.Func(c33Config, "Config.BPFMapSizeMaglev")
	next, _ := p.LookupObj(c33Primes, "NextPrimeUint16").(*types.Func)
	maxSvc, _ := p.LookupObj(c33Config, "Config.BPFMaglevMaxServices").(*types.Var)
	if lut == nil || size == nil || next == nil || maxSvc == nil {
		c.Lost("Config.BPFLUTSizeMaglev / Config.BPFMapSizeMaglev / NextPrimeUint16 / Config.BPFMaglevMaxServices")
	}
	cfgPkg := p.SSAPkg(c33Config)
	strip := func(v ssa.Value) ssa.Value {
		for {
			switch y := v.(type) {
			case *ssa.Convert:
				v = y.X
			case *ssa.ChangeType:
				v = y.X
			default:
				return v
			}
		}
	}
	var isLUT func(v ssa.Value, d int) bool
	isLUT = func(v ssa.Value, d int) bool {
		if d > 4 {
			return false
		}
		switch y := strip(v).(type) {
		case *ssa.Phi:
			for _, e := range y.Edges {
				if !isLUT(e, d+1) {
					return false
				}
			}
			return len(y.Edges) > 0
		case *ssa.Call:
			if calleeOf(y.Common()) == next {
				return true
			}
			g := y.Call.StaticCallee()
			if g == nil {
				return false
			}
			if g == lut {
				return true
			}
			if g.Pkg != cfgPkg || g.Blocks == nil {
				return false
			}
			rets := returnsOf(g)
			for _, r := range rets {
				if len(r.Results) != 1 || !isLUT(r.Results[0], d+1) {
					return false
				}
			}
			return len(rets) > 0
		}
		return false
	}
	var usesSvc func(v ssa.Value, d int) bool
	usesSvc = func(v ssa.Value, d int) bool {
		hit := false
		c44BackSlice(v, func(o ssa.Value) {
			if fieldVar(o) == maxSvc {
				hit = true
			}
			if call, ok := o.(*ssa.Call); ok && d < 3 {
				if g := call.Call.StaticCallee(); g != nil && g.Pkg == cfgPkg && g.Blocks != nil {
					for _, r := range returnsOf(g) {
						for _, res := range r.Results {
							if usesSvc(res, d+1) {
								hit = true
							}
						}
					}
				}
			}
		})
		return hit
	}
	var split func(v ssa.Value, op token.Token, out *[]ssa.Value)
	split = func(v ssa.Value, op token.Token, out *[]ssa.Value) {
		if bo, ok := strip(v).(*ssa.BinOp); ok && bo.Op == op {
			split(bo.X, op, out)
			split(bo.Y, op, out)
			return
		}
		*out = append(*out, strip(v))
	}
	rets := returnsOf(size)
	if len(rets) == 0 {
		c.Lost("BPFMapSizeMaglev has no return")
	}
	bad := ""
	for _, r := range rets {
		if len(r.Results) != 1 {
			c.Lost("BPFMapSizeMaglev does not return one value")
		}
		var vals []ssa.Value
		for _, o := range origins(r.Results[0], func(v ssa.Value) []ssa.Value {
			// follow an in-package helper that computes the size
			if call, ok := v.(*ssa.Call); ok {
				if g := call.Call.StaticCallee(); g != nil && g != lut && g.Pkg == cfgPkg && g.Blocks != nil && !isLUT(call, 0) {
					var more []ssa.Value
					for _, rr := range returnsOf(g) {
						more = append(more, rr.Results...)
					}
					return more
				}
			}
			return nil
		}) {
			vals = append(vals, o.V)
		}
		for _, v := range vals {
			var terms []ssa.Value
			split(v, token.ADD, &terms)
			good := false
			for _, t := range terms {
				var fs []ssa.Value
				split(t, token.MUL, &fs)
				for i := range fs {
					for j := range fs {
						if i != j && isLUT(fs[i], 0) && usesSvc(fs[j], 0) {
							good = true
						}
					}
				}
			}
			if !good {
				bad = fmt.Sprintf("the value %s returned at %s is not (per-service LUT size) × %s", pathN(v, 4), p.Pos(r.Pos()), maxSvc.Name())
			}
		}
	}
	c.Check(bad == "", "C33.capacity/BPFMapSizeMaglev", p.Pos(size.Pos()),
		"map size = BPFLUTSizeMaglev/NextPrimeUint16 result × "+maxSvc.Name(),
		bad+", with the LUT size taken from BPFLUTSizeMaglev()/NextPrimeUint16: the Maglev map is sized from a per-service budget that is not the (prime) table size the generator fills, so "+maxSvc.Name()+" complete tables do not fit and the last services' tables are left partly unwritten")
}

// ----------------------------------------------------------------- instance --

const c33Proxy = "felix/bpf/proxy"

// c33Instance: ConsistentHash accumulates backends and has no reset, so a table
// is the table of ONE service only if the instance it is generated from was
// built for it.  For every call of Generate / AddBackend outside the
// consistenthash package: every non-nil origin of the receiver is a call, in
// the same function, of a constructor returning a fresh instance
// (consistenthash.New, or a function all of whose returns are such calls); and
// for every natural loop containing a Generate call the receiver is created
// inside that loop and has no loop-carried dependence (no header phi, no outer
// variable read before this iteration wrote it): one instance per iteration.
func c33Instance(c *Ctx) {
	p := c.Load(c33Pkg, c33Proxy)
	gen, _ := p.LookupObj(c33Pkg, "ConsistentHash.Generate").(*types.Func)
	add, _ := p.LookupObj(c33Pkg, "ConsistentHash.AddBackend").(*types.Func)
	newF := p.Func(c33Pkg, "New")
	chPkg := p.SSAPkg(c33Pkg)
	if gen == nil || add == nil || newF == nil || chPkg == nil {
		c.Lost("consistenthash.New / ConsistentHash.Generate / ConsistentHash.AddBackend")
	}
	var fresh func(g *ssa.Function, d int) bool
	fresh = func(g *ssa.Function, d int) bool {
		if g == nil || d > 3 {
			return false
		}
		if g == newF {
			return true
		}
		if g.Blocks == nil {
			return false
		}
		rets := returnsOf(g)
		for _, r := range rets {
			if len(r.Results) == 0 {
				return false
			}
			for _, o := range origins(r.Results[0], nil) {
				call, ok := o.V.(*ssa.Call)
				if !ok || !fresh(call.Call.StaticCallee(), d+1) {
					return false
				}
			}
		}
		return len(rets) > 0
	}
	var fns []*ssa.Function
	for _, f := range p.AllFuncs() {
		if f.Pkg == chPkg || (f.Pkg == nil && topFn(f).Pkg == chPkg) {
			continue
		}
		fns = append(fns, f)
	}
	c33SortFuncs(fns)
	nGen := 0
	for _, f := range fns {
		calls := callsIn(f, false, func(fn *types.Func) bool { return fn == gen || fn == add })
		if len(calls) == 0 {
			continue
		}
		loops := c33Loops(f)
		genLoop := map[*c33Loop]bool{}
		for _, cs := range calls {
			if cs.Callee == gen {
				for _, l := range loops {
					if l.has(cs.Instr) {
						genLoop[l] = true
					}
				}
			}
		}
		for _, cs := range calls {
			if cs.Callee == gen {
				nGen++
			}
			recv := cs.Args()[0]
			key := "C33.instance/" + fnName(f) + "/" + cs.Callee.Name()
			site := p.Pos(cs.Instr.Pos())
			bad, undecided := "", ""
			var ctorCalls []*ssa.Call
			for _, o := range origins(recv, nil) {
				if o.Kind == "const" && isNilConst(o.V) {
					continue
				}
				call, ok := o.V.(*ssa.Call)
				switch {
				case ok && fresh(call.Call.StaticCallee(), 0):
					ctorCalls = append(ctorCalls, call)
				case o.Kind == "param" || o.Kind == "freevar":
					undecided = "the instance " + path(o.V) + " is handed in from outside " + fnName(f) + " (callers not followed)"
				default:
					bad = "the instance " + pathN(o.V, 3) + " is not constructed by this invocation (it outlives the service it is used for)"
				}
			}
			if len(ctorCalls) == 0 && bad == "" && undecided == "" {
				bad = "the receiver has no constructing call"
			}
			nLoops := 0
			for _, l := range loops {
				if !genLoop[l] || !l.has(cs.Instr) {
					continue
				}
				nLoops++
				for _, cc := range ctorCalls {
					if !l.has(cc) {
						bad = fmt.Sprintf("the instance is created at %s, outside the loop that generates one table per iteration", p.Pos(cc.Pos()))
					}
				}
				if car := c33LoopCarried(l, recv); len(car) > 0 {
					bad = car[0].What
				}
			}
			switch {
			case bad != "":
				c.Violate(key, site, "%s.%s in %s: %s — ConsistentHash accumulates backends and has no reset, so the table generated for a later service also contains the backends of the services processed before it (foreign backends, share below the Maglev bound, and a different table on every node since services are visited in map order)", pathN(recv, 2), cs.Callee.Name(), fnName(f), bad)
			case undecided != "":
				c.Undecided(key, site, "%s", undecided)
			default:
				c.Ok(key, site, "receiver constructed by this invocation (%d constructor call(s)), per iteration of %d enclosing table-generating loop(s)", len(ctorCalls), nLoops)
			}
		}
	}
	if nGen == 0 {
		c.Lost("no call of ConsistentHash.Generate in %s", c33Proxy)
	}
}
