package main

import (
	"fmt"
	"go/token"
	"go/types"
	"sort"
	"strings"

	"golang.org/x/tools/go/ssa"
)

// A tiny partial evaluator for the leaf selector nodes of
// libcalico-go/lib/selector/parser: it summarises
//
//	func (n *T) Evaluate(labels Labels) bool
//
// under the two assumptions "label absent" / "label present" on the single
// labels.GetHandle(n.<field>) call, and
//
//	func (n *T) LabelRestrictions() map[Handle]LabelRestriction
//
// as a list of (key field, restriction literal) entries.  Loop-free functions
// only; anything else is reported as undecidable by the caller.

// c07Res is the abstract result of Evaluate under one assumption.
type c07Res struct {
	Kind  string     // "const" | "eq" (val == n.F) | "in" (n.F.Contains(val)) | "other"
	Val   bool       // for const
	Neg   bool       // for eq/in: result is negated
	Field *types.Var // for eq/in: the node field compared against
}

func (r c07Res) String() string {
	switch r.Kind {
	case "const":
		return fmt.Sprint(r.Val)
	case "eq", "in":
		n := ""
		if r.Neg {
			n = "!"
		}
		if r.Kind == "eq" {
			return n + "(val == node." + r.Field.Name() + ")"
		}
		return n + "node." + r.Field.Name() + ".Contains(val)"
	}
	return "other"
}

func (r c07Res) isConst(b bool) bool { return r.Kind == "const" && r.Val == b }

func c07Join(a, b c07Res) c07Res {
	if a == b {
		return a
	}
	return c07Res{Kind: "other"}
}

// c07EvalSummary summarises one Evaluate method.
type c07EvalSummary struct {
	LabelField *types.Var // field passed to GetHandle (nil: labels not consulted)
	Absent     c07Res
	Present    c07Res
	Problem    string // non-empty: shape not understood
}

// recvFieldLoad: v is a load of (or the address of) a field of the method's
// receiver; returns the field.
func c07RecvField(fn *ssa.Function, v ssa.Value) *types.Var {
	if len(fn.Params) == 0 {
		return nil
	}
	for {
		switch x := v.(type) {
		case *ssa.UnOp:
			if x.Op == token.MUL {
				v = x.X
				continue
			}
		case *ssa.FieldAddr:
			if x.X == fn.Params[0] {
				return structField(x.X.Type(), x.Field)
			}
		case *ssa.Field:
			if x.X == fn.Params[0] {
				return structField(x.X.Type(), x.Field)
			}
		}
		return nil
	}
}

type c07Env struct {
	fn      *ssa.Function
	okVal   ssa.Value // Extract #1 of the GetHandle call (nil if none)
	valVal  ssa.Value // Extract #0
	present bool
	prev    *ssa.BasicBlock // predecessor on the current path (phi resolution)
}

// resolve follows phis along the current path.
func (e *c07Env) resolve(v ssa.Value) ssa.Value {
	for {
		phi, ok := v.(*ssa.Phi)
		if !ok || e.prev == nil || phi.Block() == nil {
			return v
		}
		idx := -1
		for i, p := range phi.Block().Preds {
			if p == e.prev {
				idx = i
			}
		}
		if idx < 0 {
			return v
		}
		v = phi.Edges[idx]
		// a phi's edge value is defined before the phi's block; no further
		// predecessor information is available for nested phis.
		if _, again := v.(*ssa.Phi); again {
			return v
		}
	}
}

// evalBool evaluates a boolean SSA value under the assumption; known=false if
// it does not reduce to a constant.
func (e *c07Env) evalBool(v ssa.Value) (val, known bool) {
	v = e.resolve(v)
	switch x := v.(type) {
	case *ssa.Const:
		if x.Value != nil && types.Identical(x.Type().Underlying(), types.Typ[types.Bool]) {
			return x.Value.ExactString() == "true", true
		}
	case *ssa.UnOp:
		if x.Op == token.NOT {
			b, k := e.evalBool(x.X)
			return !b, k
		}
	case *ssa.Extract:
		if e.okVal != nil && v == e.okVal {
			return e.present, true
		}
	}
	return false, false
}

// classify abstracts a returned value.
func (e *c07Env) classify(v ssa.Value) c07Res {
	if b, k := e.evalBool(v); k {
		return c07Res{Kind: "const", Val: b}
	}
	v = e.resolve(v)
	neg := false
	for {
		u, ok := v.(*ssa.UnOp)
		if !ok || u.Op != token.NOT {
			break
		}
		neg = !neg
		v = e.resolve(u.X)
	}
	if !e.present || e.valVal == nil {
		return c07Res{Kind: "other"}
	}
	switch x := v.(type) {
	case *ssa.BinOp:
		if x.Op != token.EQL && x.Op != token.NEQ {
			break
		}
		var other ssa.Value
		if x.X == e.valVal {
			other = x.Y
		} else if x.Y == e.valVal {
			other = x.X
		} else {
			break
		}
		if f := c07RecvField(e.fn, other); f != nil {
			return c07Res{Kind: "eq", Neg: neg != (x.Op == token.NEQ), Field: f}
		}
	case *ssa.Call:
		cc := x.Common()
		f := calleeOf(cc)
		if f == nil || f.Name() != "Contains" || recvTypeName(f) != "StringSet" || cc.IsInvoke() || len(cc.Args) != 2 {
			break
		}
		if cc.Args[1] != e.valVal {
			break
		}
		if fld := c07RecvField(e.fn, cc.Args[0]); fld != nil {
			return c07Res{Kind: "in", Neg: neg, Field: fld}
		}
	}
	return c07Res{Kind: "other"}
}

// run enumerates the paths consistent with the assumption and joins the
// classified return values.
func (e *c07Env) run() (c07Res, string) {
	var res *c07Res
	problem := ""
	onPath := map[*ssa.BasicBlock]bool{}
	var walk func(b, prev *ssa.BasicBlock)
	walk = func(b, prev *ssa.BasicBlock) {
		if problem != "" {
			return
		}
		if onPath[b] {
			problem = "loop in function body"
			return
		}
		onPath[b] = true
		defer func() { onPath[b] = false }()
		e.prev = prev
		last := b.Instrs[len(b.Instrs)-1]
		switch t := last.(type) {
		case *ssa.Return:
			if len(t.Results) != 1 {
				problem = "unexpected result arity"
				return
			}
			r := e.classify(t.Results[0])
			if res == nil {
				res = &r
			} else {
				j := c07Join(*res, r)
				res = &j
			}
		case *ssa.If:
			v, known := e.evalBool(t.Cond)
			for k, s := range b.Succs {
				if known && v != (k == 0) {
					continue
				}
				walk(s, b)
				e.prev = prev
			}
		case *ssa.Jump:
			walk(b.Succs[0], b)
		case *ssa.Panic:
			// no result on this path
		default:
			problem = fmt.Sprintf("unexpected terminator %T", last)
		}
	}
	if len(e.fn.Blocks) == 0 {
		return c07Res{Kind: "other"}, "no body"
	}
	walk(e.fn.Blocks[0], nil)
	if problem != "" {
		return c07Res{Kind: "other"}, problem
	}
	if res == nil {
		return c07Res{Kind: "other"}, "no returning path"
	}
	return *res, ""
}

// c07SummariseEvaluate analyses fn = (*T).Evaluate(labels Labels) bool.
func c07SummariseEvaluate(fn *ssa.Function) c07EvalSummary {
	var s c07EvalSummary
	if len(fn.Params) != 2 {
		s.Problem = "unexpected signature"
		return s
	}
	labels := fn.Params[1]
	var get *ssa.Call
	nUses := 0
	for _, r := range *labels.Referrers() {
		if _, ok := r.(*ssa.DebugRef); ok {
			continue
		}
		nUses++
		c, ok := r.(*ssa.Call)
		if !ok || !c.Common().IsInvoke() || c.Common().Value != labels || c.Common().Method.Name() != "GetHandle" {
			s.Problem = "labels parameter used other than by labels.GetHandle(...)"
			return s
		}
		get = c
	}
	if nUses > 1 {
		s.Problem = "more than one use of the labels parameter"
		return s
	}
	env := &c07Env{fn: fn}
	if get != nil {
		s.LabelField = c07RecvField(fn, get.Common().Args[0])
		if s.LabelField == nil {
			s.Problem = "GetHandle argument is not a field of the receiver"
			return s
		}
		for _, r := range *get.Referrers() {
			if ex, ok := r.(*ssa.Extract); ok {
				if ex.Index == 0 {
					if env.valVal != nil {
						s.Problem = "multiple extracts"
					}
					env.valVal = ex
				} else {
					if env.okVal != nil {
						s.Problem = "multiple extracts"
					}
					env.okVal = ex
				}
			}
		}
		if s.Problem != "" {
			return s
		}
	}
	env.present = false
	s.Absent, s.Problem = env.run()
	if s.Problem != "" {
		return s
	}
	env.present = true
	s.Present, s.Problem = env.run()
	return s
}

// c07Entry is one key→restriction entry a LabelRestrictions method can return.
type c07Entry struct {
	KeyField    *types.Var // receiver field used as the map key (nil: not a receiver field)
	MustPresent string     // "false" | "true" | "?" (non-constant)
	MustAbsent  string
	ValuesKind  string     // "nil" | "single" (slice literal of n.F) | "copy" (n.F.SliceCopy() / conversion) | "?"
	ValuesField *types.Var // for single/copy
	Pos         token.Pos
}

func (e c07Entry) String() string {
	k := "?"
	if e.KeyField != nil {
		k = "node." + e.KeyField.Name()
	}
	v := e.ValuesKind
	if e.ValuesField != nil {
		v += "(node." + e.ValuesField.Name() + ")"
	}
	return fmt.Sprintf("%s:{MustBePresent:%s MustBeAbsent:%s MustHaveOneOfValues:%s}", k, e.MustPresent, e.MustAbsent, v)
}

func c07ConstBoolStores(vals []ssa.Value) string {
	if len(vals) == 0 {
		return "false"
	}
	out := ""
	for _, v := range vals {
		c, ok := constOf(v)
		if !ok {
			return "?"
		}
		s := c.ExactString()
		if out != "" && out != s {
			return "?"
		}
		out = s
	}
	return out
}

// c07ClassifyValues abstracts the expression stored into MustHaveOneOfValues.
func c07ClassifyValues(fn *ssa.Function, vals []ssa.Value) (string, *types.Var) {
	if len(vals) == 0 {
		return "nil", nil
	}
	if len(vals) > 1 {
		return "?", nil
	}
	v := vals[0]
	if isNilConst(v) {
		return "nil", nil
	}
	switch x := v.(type) {
	case *ssa.Slice:
		al, ok := x.X.(*ssa.Alloc)
		if !ok || x.Low != nil || x.High != nil {
			return "?", nil
		}
		arr, ok := al.Type().Underlying().(*types.Pointer).Elem().Underlying().(*types.Array)
		if !ok {
			return "?", nil
		}
		var fld *types.Var
		n := 0
		for _, r := range *al.Referrers() {
			ia, ok := r.(*ssa.IndexAddr)
			if !ok {
				continue
			}
			for _, rr := range *ia.Referrers() {
				st, ok := rr.(*ssa.Store)
				if !ok || st.Addr != ia {
					continue
				}
				f := c07RecvField(fn, st.Val)
				if f == nil || (fld != nil && f != fld) {
					return "?", nil
				}
				fld = f
				n++
			}
		}
		if fld == nil || int64(n) != arr.Len() {
			return "?", nil
		}
		return "single", fld
	case *ssa.Call:
		cc := x.Common()
		f := calleeOf(cc)
		if f != nil && !cc.IsInvoke() && f.Name() == "SliceCopy" && recvTypeName(f) == "StringSet" && len(cc.Args) == 1 {
			if fld := c07RecvField(fn, cc.Args[0]); fld != nil {
				return "copy", fld
			}
		}
	case *ssa.ChangeType:
		if fld := c07RecvField(fn, x.X); fld != nil {
			return "copy", fld
		}
	}
	return "?", nil
}

// c07SummariseRestrictions analyses fn = (*T).LabelRestrictions().  It returns
// the entries of every map that can be returned; mayReturnNil tells whether a
// nil map can be returned.  Maps obtained from calls are returned in fromCalls.
func c07SummariseRestrictions(fn *ssa.Function) (entries []c07Entry, fromCalls []*ssa.Call, problem string) {
	maps := map[ssa.Value]bool{}
	for _, ret := range returnsOf(fn) {
		if len(ret.Results) != 1 {
			return nil, nil, "unexpected result arity"
		}
		for _, o := range origins(ret.Results[0], nil) {
			switch x := o.V.(type) {
			case *ssa.Const:
				if x.Value != nil {
					return nil, nil, "non-nil constant returned"
				}
			case *ssa.MakeMap:
				maps[x] = true
			case *ssa.Call:
				fromCalls = append(fromCalls, x)
				maps[x] = true
			default:
				return nil, nil, fmt.Sprintf("returned map has an origin that is not a map literal, nil or call (%T)", o.V)
			}
		}
	}
	allInstrs(fn, true, func(f *ssa.Function, in ssa.Instruction) {
		mu, ok := in.(*ssa.MapUpdate)
		if !ok {
			return
		}
		hit := false
		for _, o := range origins(mu.Map, nil) {
			if maps[o.V] {
				hit = true
			}
		}
		if !hit {
			return
		}
		e := c07Entry{Pos: mu.Pos(), KeyField: c07RecvField(fn, mu.Key), MustPresent: "?", MustAbsent: "?", ValuesKind: "?"}
		// value: load of a complit Alloc
		if ld, ok := mu.Value.(*ssa.UnOp); ok && ld.Op == token.MUL {
			if al, ok := ld.X.(*ssa.Alloc); ok {
				fs := literalFieldStores(al)
				known := map[string]bool{"MustBePresent": true, "MustBeAbsent": true, "MustHaveOneOfValues": true}
				okLit := true
				for k := range fs {
					if !known[k] {
						okLit = false
					}
				}
				// the literal must not be written through any other way
				for _, r := range *al.Referrers() {
					switch r.(type) {
					case *ssa.FieldAddr, *ssa.DebugRef:
					default:
						if r != ld {
							okLit = false
						}
					}
				}
				if okLit {
					e.MustPresent = c07ConstBoolStores(fs["MustBePresent"])
					e.MustAbsent = c07ConstBoolStores(fs["MustBeAbsent"])
					e.ValuesKind, e.ValuesField = c07ClassifyValues(fn, fs["MustHaveOneOfValues"])
				}
			}
		}
		entries = append(entries, e)
	})
	sort.Slice(entries, func(i, j int) bool { return entries[i].Pos < entries[j].Pos })
	return entries, fromCalls, ""
}

// c07EntrySound decides whether a restriction entry can exclude an item that
// Evaluate (summarised by ev) accepts.  Returns "" if sound.
func c07EntrySound(ev c07EvalSummary, e c07Entry) string {
	if ev.Absent.isConst(false) && ev.Present.isConst(false) {
		return "" // matches nothing: every restriction is sound
	}
	if e.MustPresent == "?" || e.MustAbsent == "?" || e.ValuesKind == "?" {
		return "undecided: restriction literal is not made of constants / receiver fields: " + e.String()
	}
	restricts := e.MustPresent == "true" || e.MustAbsent == "true" || e.ValuesKind != "nil"
	if !restricts {
		return ""
	}
	if ev.LabelField == nil {
		return "Evaluate does not consult any label but LabelRestrictions restricts " + e.String()
	}
	if e.KeyField != ev.LabelField {
		return fmt.Sprintf("restriction is keyed by a different field than the label Evaluate looks up (node.%s): %s", ev.LabelField.Name(), e.String())
	}
	var bad []string
	if e.MustPresent == "true" && !ev.Absent.isConst(false) {
		bad = append(bad, "MustBePresent is set but Evaluate returns "+ev.Absent.String()+" when the label is absent")
	}
	if e.MustAbsent == "true" && !ev.Present.isConst(false) {
		bad = append(bad, "MustBeAbsent is set but Evaluate returns "+ev.Present.String()+" when the label is present")
	}
	if e.ValuesKind != "nil" {
		if !ev.Absent.isConst(false) {
			bad = append(bad, "MustHaveOneOfValues is set but Evaluate returns "+ev.Absent.String()+" when the label is absent")
		}
		want := map[string]string{"single": "eq", "copy": "in"}[e.ValuesKind]
		okv := ev.Present.isConst(false) || (ev.Present.Kind == want && !ev.Present.Neg && ev.Present.Field == e.ValuesField)
		if !okv {
			bad = append(bad, fmt.Sprintf("MustHaveOneOfValues is %s(node.%s) but with the label present Evaluate returns %s", e.ValuesKind, e.ValuesField.Name(), ev.Present.String()))
		}
	}
	return strings.Join(bad, "; ")
}

// c07FuncsWithBodies returns every function of the root packages including all
// nested closures.  Unlike Prog.AllFuncs it keeps the synthetic
// "range-over-func yield" bodies (reached through AnonFuncs), which hold
// ordinary user code.
func c07FuncsWithBodies(p *Prog) []*ssa.Function {
	var tops []*ssa.Function
	for _, f := range p.AllFuncs() {
		if f.Parent() == nil {
			tops = append(tops, f)
		}
	}
	seen := map[*ssa.Function]bool{}
	var out []*ssa.Function
	for _, f := range withClosures(tops) {
		if !seen[f] && f.Blocks != nil {
			seen[f] = true
			out = append(out, f)
		}
	}
	return out
}
