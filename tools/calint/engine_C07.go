package main

import (
	"fmt"
	"go/constant"
	"go/token"
	"go/types"
	"sort"
	"strings"

	"golang.org/x/tools/go/ssa"
)

// A tiny partial evaluator for the leaf selector nodes of
// libcalico-go/lib/selector/parser: it summarises
//
//	func (n *T) Evaluate(labels Labels) bool
//
// under the two assumptions "label absent" / "label present" on the single
// labels.GetHandle(n.<field>) call, and
//
//	func (n *T) LabelRestrictions() map[Handle]LabelRestriction
//
// as a list of (key field, restriction literal) entries.  Loop-free functions
// only; anything else is reported as undecidable by the caller.

// c07Res is the abstract result of Evaluate under one assumption.
type c07Res struct {
	Kind  string     // "const" | "eq" (val == n.F) | "in" (n.F.Contains(val)) | "other"
	Val   bool       // for const
	Neg   bool       // for eq/in: result is negated
	Field *types.Var // for eq/in: the node field compared against
}

func (r c07Res) String() string {
	switch r.Kind {
	case "const":
		return fmt.Sprint(r.Val)
	case "eq", "in":
		n := ""
		if r.Neg {
			n = "!"
		}
		if r.Kind == "eq" {
			return n + "(val == node." + r.Field.Name() + ")"
		}
		return n + "node." + r.Field.Name() + ".Contains(val)"
	}
	return "other"
}

func (r c07Res) isConst(b bool) bool { return r.Kind == "const" && r.Val == b }

func c07Join(a, b c07Res) c07Res {
	if a == b {
		return a
	}
	return c07Res{Kind: "other"}
}

// c07EvalSummary summarises one Evaluate method.
type c07EvalSummary struct {
	LabelField *types.Var // field passed to GetHandle (nil: labels not consulted)
	Absent     c07Res
	Present    c07Res
	Problem    string // non-empty: shape not understood
}

// recvFieldLoad: v is a load of (or the address of) a field of the method's
// receiver; returns the field.
func c07RecvField(fn *ssa.Function, v ssa.Value) *types.Var {
	if len(fn.Params) == 0 {
		return nil
	}
	for {
		switch x := v.(type) {
		case *ssa.UnOp:
			if x.Op == token.MUL {
				v = x.X
				continue
			}
		case *ssa.FieldAddr:
			if x.X == fn.Params[0] {
				return structField(x.X.Type(), x.Field)
			}
		case *ssa.Field:
			if x.X == fn.Params[0] {
				return structField(x.X.Type(), x.Field)
			}
		}
		return nil
	}
}

type c07Env struct {
	fn      *ssa.Function
	okVal   ssa.Value // Extract #1 of the GetHandle call (nil if none)
	valVal  ssa.Value // Extract #0
	present bool
	prev    *ssa.BasicBlock // predecessor on the current path (phi resolution)
}

// resolve follows phis along the current path.
func (e *c07Env) resolve(v ssa.Value) ssa.Value {
	for {
		phi, ok := v.(*ssa.Phi)
		if !ok || e.prev == nil || phi.Block() == nil {
			return v
		}
		idx := -1
		for i, p := range phi.Block().Preds {
			if p == e.prev {
				idx = i
			}
		}
		if idx < 0 {
			return v
		}
		v = phi.Edges[idx]
		// a phi's edge value is defined before the phi's block; no further
		// predecessor information is available for nested phis.
		if _, again := v.(*ssa.Phi); again {
			return v
		}
	}
}

// evalBool evaluates a boolean SSA value under the assumption; known=false if
// it does not reduce to a constant.
func (e *c07Env) evalBool(v ssa.Value) (val, known bool) {
	v = e.resolve(v)
	switch x := v.(type) {
	case *ssa.Const:
		if x.Value != nil && types.Identical(x.Type().Underlying(), types.Typ[types.Bool]) {
			return x.Value.ExactString() == "true", true
		}
	case *ssa.UnOp:
		if x.Op == token.NOT {
			b, k := e.evalBool(x.X)
			return !b, k
		}
	case *ssa.Extract:
		if e.okVal != nil && v == e.okVal {
			return e.present, true
		}
	}
	return false, false
}

// classify abstracts a returned value.
func (e *c07Env) classify(v ssa.Value) c07Res {
	if b, k := e.evalBool(v); k {
		return c07Res{Kind: "const", Val: b}
	}
	v = e.resolve(v)
	neg := false
	for {
		u, ok := v.(*ssa.UnOp)
		if !ok || u.Op != token.NOT {
			break
		}
		neg = !neg
		v = e.resolve(u.X)
	}
	if !e.present || e.valVal == nil {
		return c07Res{Kind: "other"}
	}
	switch x := v.(type) {
	case *ssa.BinOp:
		if x.Op != token.EQL && x.Op != token.NEQ {
			break
		}
		var other ssa.Value
		if x.X == e.valVal {
			other = x.Y
		} else if x.Y == e.valVal {
			other = x.X
		} else {
			break
		}
		if f := c07RecvField(e.fn, other); f != nil {
			return c07Res{Kind: "eq", Neg: neg != (x.Op == token.NEQ), Field: f}
		}
	case *ssa.Call:
		cc := x.Common()
		f := calleeOf(cc)
		if f == nil || f.Name() != "Contains" || recvTypeName(f) != "StringSet" || cc.IsInvoke() || len(cc.Args) != 2 {
			break
		}
		if cc.Args[1] != e.valVal {
			break
		}
		if fld := c07RecvField(e.fn, cc.Args[0]); fld != nil {
			return c07Res{Kind: "in", Neg: neg, Field: fld}
		}
	}
	return c07Res{Kind: "other"}
}

// run enumerates the paths consistent with the assumption and joins the
// classified return values.
func (e *c07Env) run() (c07Res, string) {
	var res *c07Res
	problem := ""
	onPath := map[*ssa.BasicBlock]bool{}
	var walk func(b, prev *ssa.BasicBlock)
	walk = func(b, prev *ssa.BasicBlock) {
		if problem != "" {
			return
		}
		if onPath[b] {
			problem = "loop in function body"
			return
		}
		onPath[b] = true
		defer func() { onPath[b] = false }()
		e.prev = prev
		last := b.Instrs[len(b.Instrs)-1]
		switch t := last.(type) {
		case *ssa.Return:
			if len(t.Results) != 1 {
				problem = "unexpected result arity"
				return
			}
			r := e.classify(t.Results[0])
			if res == nil {
				res = &r
			} else {
				j := c07Join(*res, r)
				res = &j
			}
		case *ssa.If:
			v, known := e.evalBool(t.Cond)
			for k, s := range b.Succs {
				if known && v != (k == 0) {
					continue
				}
				walk(s, b)
				e.prev = prev
			}
		case *ssa.Jump:
			walk(b.Succs[0], b)
		case *ssa.Panic:
			// no result on this path
		default:
			problem = fmt.Sprintf("unexpected terminator %T", last)
		}
	}
	if len(e.fn.Blocks) == 0 {
		return c07Res{Kind: "other"}, "no body"
	}
	walk(e.fn.Blocks[0], nil)
	if problem != "" {
		return c07Res{Kind: "other"}, problem
	}
	if res == nil {
		return c07Res{Kind: "other"}, "no returning path"
	}
	return *res, ""
}

// c07SummariseEvaluate analyses fn = (*T).Evaluate(labels Labels) bool.
func c07SummariseEvaluate(fn *ssa.Function) c07EvalSummary {
	var s c07EvalSummary
	if len(fn.Params) != 2 {
		s.Problem = "unexpected signature"
		return s
	}
	labels := fn.Params[1]
	var get *ssa.Call
	nUses := 0
	for _, r := range *labels.Referrers() {
		if _, ok := r.(*ssa.DebugRef); ok {
			continue
		}
		nUses++
		c, ok := r.(*ssa.Call)
		if !ok || !c.Common().IsInvoke() || c.Common().Value != labels || c.Common().Method.Name() != "GetHandle" {
			s.Problem = "labels parameter used other than by labels.GetHandle(...)"
			return s
		}
		get = c
	}
	if nUses > 1 {
		s.Problem = "more than one use of the labels parameter"
		return s
	}
	env := &c07Env{fn: fn}
	if get != nil {
		s.LabelField = c07RecvField(fn, get.Common().Args[0])
		if s.LabelField == nil {
			s.Problem = "GetHandle argument is not a field of the receiver"
			return s
		}
		for _, r := range *get.Referrers() {
			if ex, ok := r.(*ssa.Extract); ok {
				if ex.Index == 0 {
					if env.valVal != nil {
						s.Problem = "multiple extracts"
					}
					env.valVal = ex
				} else {
					if env.okVal != nil {
						s.Problem = "multiple extracts"
					}
					env.okVal = ex
				}
			}
		}
		if s.Problem != "" {
			return s
		}
	}
	env.present = false
	s.Absent, s.Problem = env.run()
	if s.Problem != "" {
		return s
	}
	env.present = true
	s.Present, s.Problem = env.run()
	return s
}

// c07Entry is one key→restriction entry a LabelRestrictions method can return.
type c07Entry struct {
	KeyField    *types.Var // receiver field used as the map key (nil: not a receiver field)
	MustPresent string     // "false" | "true" | "?" (non-constant)
	MustAbsent  string
	ValuesKind  string     // "nil" | "single" (slice literal of n.F) | "copy" (n.F.SliceCopy() / conversion) | "?"
	ValuesField *types.Var // for single/copy
	Pos         token.Pos
}

func (e c07Entry) String() string {
	k := "?"
	if e.KeyField != nil {
		k = "node." + e.KeyField.Name()
	}
	v := e.ValuesKind
	if e.ValuesField != nil {
		v += "(node." + e.ValuesField.Name() + ")"
	}
	return fmt.Sprintf("%s:{MustBePresent:%s MustBeAbsent:%s MustHaveOneOfValues:%s}", k, e.MustPresent, e.MustAbsent, v)
}

func c07ConstBoolStores(vals []ssa.Value) string {
	if len(vals) == 0 {
		return "false"
	}
	out := ""
	for _, v := range vals {
		c, ok := constOf(v)
		if !ok {
			return "?"
		}
		s := c.ExactString()
		if out != "" && out != s {
			return "?"
		}
		out = s
	}
	return out
}

// c07ClassifyValues abstracts the expression stored into MustHaveOneOfValues.
func c07ClassifyValues(fn *ssa.Function, vals []ssa.Value) (string, *types.Var) {
	if len(vals) == 0 {
		return "nil", nil
	}
	if len(vals) > 1 {
		return "?", nil
	}
	v := vals[0]
	if isNilConst(v) {
		return "nil", nil
	}
	switch x := v.(type) {
	case *ssa.Slice:
		al, ok := x.X.(*ssa.Alloc)
		if !ok || x.Low != nil || x.High != nil {
			return "?", nil
		}
		arr, ok := al.Type().Underlying().(*types.Pointer).Elem().Underlying().(*types.Array)
		if !ok {
			return "?", nil
		}
		var fld *types.Var
		n := 0
		for _, r := range *al.Referrers() {
			ia, ok := r.(*ssa.IndexAddr)
			if !ok {
				continue
			}
			for _, rr := range *ia.Referrers() {
				st, ok := rr.(*ssa.Store)
				if !ok || st.Addr != ia {
					continue
				}
				f := c07RecvField(fn, st.Val)
				if f == nil || (fld != nil && f != fld) {
					return "?", nil
				}
				fld = f
				n++
			}
		}
		if fld == nil || int64(n) != arr.Len() {
			return "?", nil
		}
		return "single", fld
	case *ssa.Call:
		cc := x.Common()
		f := calleeOf(cc)
		if f != nil && !cc.IsInvoke() && f.Name() == "SliceCopy" && recvTypeName(f) == "StringSet" && len(cc.Args) == 1 {
			if fld := c07RecvField(fn, cc.Args[0]); fld != nil {
				return "copy", fld
			}
		}
	case *ssa.ChangeType:
		if fld := c07RecvField(fn, x.X); fld != nil {
			return "copy", fld
		}
	}
	return "?", nil
}

// c07SummariseRestrictions analyses fn = (*T).LabelRestrictions().  It returns
// the entries of every map that can be returned; mayReturnNil tells whether a
// nil map can be returned.  Maps obtained from calls are returned in fromCalls.
func c07SummariseRestrictions(fn *ssa.Function) (entries []c07Entry, fromCalls []*ssa.Call, problem string) {
	maps := map[ssa.Value]bool{}
	for _, ret := range returnsOf(fn) {
		if len(ret.Results) != 1 {
			return nil, nil, "unexpected result arity"
		}
		for _, o := range origins(ret.Results[0], nil) {
			switch x := o.V.(type) {
			case *ssa.Const:
				if x.Value != nil {
					return nil, nil, "non-nil constant returned"
				}
			case *ssa.MakeMap:
				maps[x] = true
			case *ssa.Call:
				fromCalls = append(fromCalls, x)
				maps[x] = true
			default:
				return nil, nil, fmt.Sprintf("returned map has an origin that is not a map literal, nil or call (%T)", o.V)
			}
		}
	}
	allInstrs(fn, true, func(f *ssa.Function, in ssa.Instruction) {
		mu, ok := in.(*ssa.MapUpdate)
		if !ok {
			return
		}
		hit := false
		for _, o := range origins(mu.Map, nil) {
			if maps[o.V] {
				hit = true
			}
		}
		if !hit {
			return
		}
		e := c07Entry{Pos: mu.Pos(), KeyField: c07RecvField(fn, mu.Key), MustPresent: "?", MustAbsent: "?", ValuesKind: "?"}
		// value: load of a complit Alloc
		if ld, ok := mu.Value.(*ssa.UnOp); ok && ld.Op == token.MUL {
			if al, ok := ld.X.(*ssa.Alloc); ok {
				fs := literalFieldStores(al)
				known := map[string]bool{"MustBePresent": true, "MustBeAbsent": true, "MustHaveOneOfValues": true}
				okLit := true
				for k := range fs {
					if !known[k] {
						okLit = false
					}
				}
				// the literal must not be written through any other way
				for _, r := range *al.Referrers() {
					switch r.(type) {
					case *ssa.FieldAddr, *ssa.DebugRef:
					default:
						if r != ld {
							okLit = false
						}
					}
				}
				if okLit {
					e.MustPresent = c07ConstBoolStores(fs["MustBePresent"])
					e.MustAbsent = c07ConstBoolStores(fs["MustBeAbsent"])
					e.ValuesKind, e.ValuesField = c07ClassifyValues(fn, fs["MustHaveOneOfValues"])
				}
			}
		}
		entries = append(entries, e)
	})
	sort.Slice(entries, func(i, j int) bool { return entries[i].Pos < entries[j].Pos })
	return entries, fromCalls, ""
}

// c07EntrySound decides whether a restriction entry can exclude an item that
// Evaluate (summarised by ev) accepts.  Returns "" if sound.
func c07EntrySound(ev c07EvalSummary, e c07Entry) string {
	if ev.Absent.isConst(false) && ev.Present.isConst(false) {
		return "" // matches nothing: every restriction is sound
	}
	if e.MustPresent == "?" || e.MustAbsent == "?" || e.ValuesKind == "?" {
		return "undecided: restriction literal is not made of constants / receiver fields: " + e.String()
	}
	restricts := e.MustPresent == "true" || e.MustAbsent == "true" || e.ValuesKind != "nil"
	if !restricts {
		return ""
	}
	if ev.LabelField == nil {
		return "Evaluate does not consult any label but LabelRestrictions restricts " + e.String()
	}
	if e.KeyField != ev.LabelField {
		return fmt.Sprintf("restriction is keyed by a different field than the label Evaluate looks up (node.%s): %s", ev.LabelField.Name(), e.String())
	}
	var bad []string
	if e.MustPresent == "true" && !ev.Absent.isConst(false) {
		bad = append(bad, "MustBePresent is set but Evaluate returns "+ev.Absent.String()+" when the label is absent")
	}
	if e.MustAbsent == "true" && !ev.Present.isConst(false) {
		bad = append(bad, "MustBeAbsent is set but Evaluate returns "+ev.Present.String()+" when the label is present")
	}
	if e.ValuesKind != "nil" {
		if !ev.Absent.isConst(false) {
			bad = append(bad, "MustHaveOneOfValues is set but Evaluate returns "+ev.Absent.String()+" when the label is absent")
		}
		want := map[string]string{"single": "eq", "copy": "in"}[e.ValuesKind]
		okv := ev.Present.isConst(false) || (ev.Present.Kind == want && !ev.Present.Neg && ev.Present.Field == e.ValuesField)
		if !okv {
			bad = append(bad, fmt.Sprintf("MustHaveOneOfValues is %s(node.%s) but with the label present Evaluate returns %s", e.ValuesKind, e.ValuesField.Name(), ev.Present.String()))
		}
	}
	return strings.Join(bad, "; ")
}

// c07FuncsWithBodies returns every function of the root packages including all
// nested closures.  Unlike Prog.AllFuncs it keeps the synthetic
// "range-over-func yield" bodies (reached through AnonFuncs), which hold
// ordinary user code.
func c07FuncsWithBodies(p *Prog) []*ssa.Function {
	var tops []*ssa.Function
	for _, f := range p.AllFuncs() {
		if f.Parent() == nil {
			tops = append(tops, f)
		}
	}
	seen := map[*ssa.Function]bool{}
	var out []*ssa.Function
	for _, f := range withClosures(tops) {
		if !seen[f] && f.Blocks != nil {
			seen[f] = true
			out = append(out, f)
		}
	}
	return out
}

// ------------------------------------------------------------ parent registry --
//
// InheritIndex keeps one parentData object per parent id in a registry map; an
// item inherits labels through the *parentData pointers it holds, and a parent
// label update reaches the item only through the registered object's child
// set.  Both break silently when a parent that an item still references is
// dropped from the registry: a later getOrCreate builds a second object, the
// label update lands there, and the item keeps pointing at the orphan.
// c07ParentReg decides the structural conditions that keep "every parent an
// item references is the registered object, and the item is in its child set":
//
//	delete      a registry entry is deleted only under `children == nil` AND
//	            `labels empty`, both tested on the entry being deleted;
//	unregister  where a function removes the item from the child set of the
//	            parents in one list and adds it to those of another (the new
//	            parents), the removal is guarded by the parent not being among
//	            the new parents, or the additions happen afterwards;
//	drop        in such a function a call that can delete the registry entry of
//	            a parent from the old list is guarded the same way, or comes
//	            after all additions (so the callee's `children == nil` test sees
//	            the still-current parents as non-empty);
//	refs        every *parentData stored into an item's parent list is a
//	            registry lookup or an object stored into the registry under the
//	            same key.
//
// It is shared by C03 (inherited labels feed policy matching) and C07.
func c07ParentReg(c *Ctx, p *Prog, rule string) {
	idxTN, _ := p.LookupObj(c07IdxPkg, "InheritIndex").(*types.TypeName)
	labelsTN, _ := p.LookupExt(c07ParserPkg, "Labels").(*types.TypeName)
	if labelsTN == nil {
		labelsTN, _ = p.LookupObj(c07ParserPkg, "Labels").(*types.TypeName)
	}
	if idxTN == nil || labelsTN == nil {
		c.Lost("labelindex.InheritIndex / parser.Labels")
	}
	idxST, _ := idxTN.Type().Underlying().(*types.Struct)
	labelsI, _ := labelsTN.Type().Underlying().(*types.Interface)
	if idxST == nil || labelsI == nil {
		c.Lost("InheritIndex is not a struct / parser.Labels is not an interface")
	}
	// item type: the element of the InheritIndex map whose values implement Labels
	var itemST *types.Struct
	for i := 0; i < idxST.NumFields(); i++ {
		if mt, ok := idxST.Field(i).Type().Underlying().(*types.Map); ok && types.Implements(mt.Elem(), labelsI) {
			if pt, ok := types.Unalias(mt.Elem()).(*types.Pointer); ok {
				itemST, _ = pt.Elem().Underlying().(*types.Struct)
			}
		}
	}
	if itemST == nil {
		c.Lost("InheritIndex item map (values implementing parser.Labels)")
	}
	// parents field of the item: []*P
	var parentsFld *types.Var
	var parentT *types.Named
	for i := 0; i < itemST.NumFields(); i++ {
		sl, ok := itemST.Field(i).Type().Underlying().(*types.Slice)
		if !ok {
			continue
		}
		pt, ok := types.Unalias(sl.Elem()).(*types.Pointer)
		if !ok {
			continue
		}
		if n, ok := types.Unalias(pt.Elem()).(*types.Named); ok {
			if _, isSt := n.Underlying().(*types.Struct); isSt {
				if parentsFld != nil {
					c.Lost("item type has more than one []*struct field")
				}
				parentsFld, parentT = itemST.Field(i), n
			}
		}
	}
	if parentsFld == nil {
		c.Lost("item type has no []*parent field")
	}
	isParentPtr := func(t types.Type) bool {
		pt, ok := types.Unalias(t).(*types.Pointer)
		return ok && types.Identical(types.Unalias(pt.Elem()), parentT)
	}
	// registry: InheritIndex map[..]*P
	var regFld *types.Var
	for i := 0; i < idxST.NumFields(); i++ {
		if mt, ok := idxST.Field(i).Type().Underlying().(*types.Map); ok && isParentPtr(mt.Elem()) {
			if regFld != nil {
				c.Lost("more than one InheritIndex map of *%s", parentT.Obj().Name())
			}
			regFld = idxST.Field(i)
		}
	}
	if regFld == nil {
		c.Lost("InheritIndex registry map of *%s", parentT.Obj().Name())
	}
	// child set and labels fields of P
	parentST := parentT.Underlying().(*types.Struct)
	var childFld, plabelsFld *types.Var
	for i := 0; i < parentST.NumFields(); i++ {
		f := parentST.Field(i)
		switch {
		case namedTypeName(f.Type()) == "Typed" && strings.HasSuffix(qualTypeName(f.Type()), "libcalico-go/lib/set.Typed"):
			if childFld != nil {
				c.Lost("%s has more than one set field", parentT.Obj().Name())
			}
			childFld = f
		case types.Implements(f.Type(), labelsI) || types.Implements(types.NewPointer(f.Type()), labelsI):
			if plabelsFld != nil {
				c.Lost("%s has more than one labels field", parentT.Obj().Name())
			}
			plabelsFld = f
		}
	}
	if childFld == nil || plabelsFld == nil {
		c.Lost("%s child-set field (%v) / labels field (%v)", parentT.Obj().Name(), childFld, plabelsFld)
	}
	pname := parentT.Obj().Name()

	var funcs []*ssa.Function
	for _, f := range c07FuncsWithBodies(p) {
		top := topFn(f)
		if top.Pkg != nil && top.Pkg.Pkg.Path() == calicoPrefix+c07IdxPkg {
			funcs = append(funcs, f)
		}
	}
	sort.Slice(funcs, func(i, j int) bool { return fnName(funcs[i]) < fnName(funcs[j]) })

	isRegDelete := func(in ssa.Instruction) (*ssa.CallCommon, bool) {
		dc, ok := isBuiltinCall(in, "delete")
		if !ok || fieldVar(dc.Args[0]) != regFld {
			return nil, false
		}
		return dc, true
	}
	var dropsVia func(sf *ssa.Function, depth int) bool
	dropsVia = func(sf *ssa.Function, depth int) bool {
		if sf == nil || sf.Blocks == nil || depth > 2 {
			return false
		}
		found := false
		allInstrs(sf, true, func(_ *ssa.Function, in ssa.Instruction) {
			if _, ok := isRegDelete(in); ok {
				found = true
			} else if ci, ok := in.(ssa.CallInstruction); ok && dropsVia(calleeFn(ci.Common()), depth+1) {
				found = true
			}
		})
		return found
	}

	var unregistersVia func(sf *ssa.Function, depth int) bool
	unregistersVia = func(sf *ssa.Function, depth int) bool {
		if sf == nil || sf.Blocks == nil || depth > 2 || sf.Pkg == nil || sf.Pkg.Pkg.Path() != calicoPrefix+c07IdxPkg {
			return false
		}
		found := false
		allInstrs(sf, true, func(_ *ssa.Function, in ssa.Instruction) {
			ci, ok := in.(ssa.CallInstruction)
			if !ok {
				return
			}
			cc := ci.Common()
			if c07IsSetMethod(calleeOf(cc), "Discard") && len(cc.Args) == 2 && fieldVar(cc.Args[0]) == childFld {
				found = true
			} else if unregistersVia(calleeFn(cc), depth+1) {
				found = true
			}
		})
		return found
	}

	// ---- delete: only an entry without children and without labels
	nDel := 0
	for _, f := range funcs {
		allInstrs(f, false, func(fn *ssa.Function, in ssa.Instruction) {
			dc, ok := isRegDelete(in)
			if !ok {
				return
			}
			nDel++
			k := path(dc.Args[1])
			ofEntry := func(v ssa.Value, fld *types.Var) bool {
				// v reads field fld of registry[k]
				for {
					u, ok := v.(*ssa.UnOp)
					if !ok || u.Op != token.MUL {
						break
					}
					v = u.X
				}
				fa, ok := v.(*ssa.FieldAddr)
				if !ok || structField(fa.X.Type(), fa.Field) != fld {
					return false
				}
				for _, o := range origins(fa.X, nil) {
					lk, ok := o.V.(*ssa.Lookup)
					if !ok || fieldVar(lk.X) != regFld || path(lk.Index) != k {
						return false
					}
				}
				return true
			}
			noChildren := guardedCut(in, anyOf(
				eqCond(true, func(v ssa.Value) bool { return ofEntry(v, childFld) }, isNilConst),
				eqCond(true, func(v ssa.Value) bool {
					cs, ok := condCall(v)
					return ok && c07IsSetMethod(cs.Callee, "Len") && len(cs.Args()) == 1 && ofEntry(cs.Args()[0], childFld)
				}, func(v ssa.Value) bool { cv, ok := constOf(v); return ok && cv.ExactString() == "0" })))
			noLabels := guardedCut(in, anyOf(
				callCond(true, func(cs CallSite) bool {
					return cs.Callee != nil && cs.Callee.Name() == "IsNil" && len(cs.Args()) == 1 && ofEntry(cs.Args()[0], plabelsFld)
				}),
				eqCond(true, func(v ssa.Value) bool {
					cs, ok := condCall(v)
					return ok && cs.Callee != nil && cs.Callee.Name() == "Len" && len(cs.Args()) == 1 && ofEntry(cs.Args()[0], plabelsFld)
				}, func(v ssa.Value) bool { cv, ok := constOf(v); return ok && cv.ExactString() == "0" })))
			var missing []string
			if !noChildren {
				missing = append(missing, fmt.Sprintf("%s[%s].%s == nil (no item registered)", regFld.Name(), k, childFld.Name()))
			}
			if !noLabels {
				missing = append(missing, fmt.Sprintf("%s[%s].%s being empty", regFld.Name(), k, plabelsFld.Name()))
			}
			c.Check(len(missing) == 0, rule+"/delete/"+fnName(fn), p.Pos(in.Pos()),
				fmt.Sprintf("delete(%s, %s) only when the entry has no children and no labels", regFld.Name(), k),
				fmt.Sprintf("%s deletes %s[%s] on a path that has not established %s: a parent that still carries labels or registered items is forgotten; the next getOrCreate builds a second, empty object and the items (or later arrivals) never inherit the labels",
					fnName(fn), regFld.Name(), k, strings.Join(missing, " and ")))
		})
	}
	if nDel == 0 {
		c.Lost("no delete(%s, ..) in felix/labelindex", regFld.Name())
	}

	// ---- unregister / drop
	// elemOf: v is an element of a []*P list (range variable / index expression); returns the list.
	var elemOf func(v ssa.Value) ssa.Value
	elemOf = func(v ssa.Value) ssa.Value {
		switch x := v.(type) {
		case *ssa.UnOp:
			if x.Op == token.MUL {
				if ia, ok := x.X.(*ssa.IndexAddr); ok {
					return ia.X
				}
			}
		case *ssa.Index:
			return x.X
		case *ssa.Extract: // range over map / iterator yields are not lists
		}
		return nil
	}
	// proj: v (interface wrapping stripped) is an element of a list, or a field of one.
	type projT struct {
		list ssa.Value
		elem ssa.Value
		fld  *types.Var // nil: the element itself
	}
	proj := func(v ssa.Value) *projT {
		v = c03StripIface(v)
		if l := elemOf(v); l != nil && isParentPtr(v.Type()) {
			return &projT{l, v, nil}
		}
		if u, ok := v.(*ssa.UnOp); ok && u.Op == token.MUL {
			if fa, ok := u.X.(*ssa.FieldAddr); ok && isParentPtr(fa.X.Type()) {
				if l := elemOf(fa.X); l != nil {
					return &projT{l, fa.X, structField(fa.X.Type(), fa.Field)}
				}
			}
		}
		return nil
	}
	nUnreg, nDrop := 0, 0
	for _, f := range funcs {
		// child-set method calls in f
		type setCall struct {
			cs   CallSite
			par  ssa.Value // the *P whose child set is the receiver
			list ssa.Value
		}
		var adds, discards []setCall
		for _, cs := range callsIn(f, false, func(fn *types.Func) bool { return c07IsSetMethod(fn, "Add", "Discard") }) {
			if len(cs.Args()) != 2 {
				continue
			}
			recv := cs.Args()[0]
			u, ok := recv.(*ssa.UnOp)
			if !ok || u.Op != token.MUL {
				continue
			}
			fa, ok := u.X.(*ssa.FieldAddr)
			if !ok || structField(fa.X.Type(), fa.Field) != childFld {
				continue
			}
			sc := setCall{cs, fa.X, elemOf(fa.X)}
			if cs.Callee.Name() == "Add" {
				adds = append(adds, sc)
			} else {
				discards = append(discards, sc)
			}
		}
		// the new-parent lists: those over whose elements the item is registered
		newLists := map[ssa.Value]bool{}
		for _, a := range adds {
			if a.list != nil {
				newLists[a.list] = true
			}
		}
		// a helper that unregisters, called for a parent taken from a list
		for _, cs := range callsIn(f, false, func(*types.Func) bool { return true }) {
			if !unregistersVia(calleeFn(cs.Common()), 1) {
				continue
			}
			for _, a := range cs.Common().Args {
				if pr := proj(a); pr != nil && pr.fld == nil && !newLists[pr.list] {
					discards = append(discards, setCall{cs, pr.elem, pr.list})
				}
			}
		}
		if len(discards) == 0 {
			continue
		}
		// dependsOn: par is in the backward slice of v
		dependsOn := func(v, par ssa.Value) bool {
			seen := map[ssa.Value]bool{}
			var walk func(v ssa.Value, d int) bool
			walk = func(v ssa.Value, d int) bool {
				if v == nil || seen[v] || d > 12 {
					return false
				}
				seen[v] = true
				if v == par {
					return true
				}
				in, ok := v.(ssa.Instruction)
				if !ok {
					return false
				}
				for _, op := range in.Operands(nil) {
					if op != nil && *op != nil && walk(*op, d+1) {
						return true
					}
				}
				return false
			}
			return walk(v, 0)
		}
		// notAmongNew(target, par): every path to target establishes that par is
		// not in a new list.  "ok" / "bad" (no such test, or one that cannot work)
		// / "unknown" (a test on the parent this rule does not understand).
		notAmongNew := func(target ssa.Instruction, par ssa.Value) (string, string) {
			verdict, why := "bad", "no membership test of the parent against the new parents guards it"
			for _, g := range guardsOf(target) {
				if dependsOn(g.Cond, par) {
					verdict, why = "unknown", "it is guarded by ("+path(g.Cond)+"), which this rule cannot interpret as a membership test against the new parents"
				}
			}
			for _, g := range callsIn(f, false, func(fn *types.Func) bool { return fn.Name() == "Contains" }) {
				gi := g.Instr
				if !guardedCut(target, callCond(false, func(cs CallSite) bool { return cs.Instr == gi })) {
					continue
				}
				args := g.Args()
				// slices.Contains(newList, par)
				if g.Callee.Pkg() != nil && g.Callee.Pkg().Path() == "slices" && len(args) == 2 {
					if newLists[args[0]] && args[1] == par {
						return "ok", ""
					}
					continue
				}
				if !c07IsSetMethod(g.Callee, "Contains") || len(args) != 2 {
					continue
				}
				want := proj(args[1])
				if want == nil || want.elem != par {
					continue
				}
				// the set: a local set.New(), filled only with the same projection of new-list elements, before the test
				set := args[0]
				if !c07IsSetCtor(set) {
					verdict, why = "unknown", "the guarding set is not built locally from the new parents"
					continue
				}
				state, nFill := "ok", 0
				for _, r := range *set.Referrers() {
					ci, ok := r.(ssa.CallInstruction)
					if !ok {
						if _, dbg := r.(*ssa.DebugRef); !dbg {
							state, why = "unknown", "the guarding set escapes"
						}
						continue
					}
					callee := calleeOf(ci.Common())
					if !c07IsSetMethod(callee) || len(ci.Common().Args) == 0 || ci.Common().Args[0] != set {
						state, why = "unknown", "the guarding set escapes"
						continue
					}
					if c07SetReadOnly[callee.Name()] {
						continue
					}
					if callee.Name() != "Add" || len(ci.Common().Args) != 2 {
						state, why = "unknown", fmt.Sprintf("the guarding set is also changed by %s", callee.Name())
						continue
					}
					got := proj(ci.Common().Args[1])
					switch {
					case got == nil || !newLists[got.list]:
						if state == "ok" {
							state, why = "unknown", fmt.Sprintf("the guarding set is filled with %s, which this rule cannot relate to an element of the new parents", path(ci.Common().Args[1]))
						}
					case got.fld != want.fld:
						name := func(f *types.Var) string {
							if f == nil {
								return "the *" + pname + " pointer itself"
							}
							return "." + f.Name()
						}
						state, why = "bad", fmt.Sprintf("the set of current parents is filled with %s of each new parent but queried with %s of the old parent, so the membership test can never succeed", name(got.fld), name(want.fld))
					case !(instrReaches(ci, gi) && !instrReaches(gi, ci)):
						if state == "ok" {
							state, why = "unknown", "the guarding set is still being filled when it is queried"
						}
					default:
						nFill++
					}
				}
				if state == "ok" && nFill > 0 {
					return "ok", ""
				}
				if state == "ok" {
					state, why = "bad", "the guarding set is never filled from the new parents"
				}
				verdict = state
				if state == "bad" {
					return verdict, why
				}
			}
			return verdict, why
		}
		before := func(a, b ssa.Instruction) bool { return instrReaches(a, b) && !instrReaches(b, a) }
		for _, d := range discards {
			nUnreg++
			key := rule + "/unregister/" + fnName(f)
			site := p.Pos(d.cs.Instr.Pos())
			if len(adds) == 0 {
				c.Ok(key, site, "%s only unregisters the item (no parent list is registered in the same function)", fnName(f))
				continue
			}
			gv, why := notAmongNew(d.cs.Instr, d.par)
			g := gv == "ok"
			readded := false
			for _, a := range adds {
				if before(d.cs.Instr, a.cs.Instr) {
					readded = true
				}
			}
			if !g && !readded && gv == "unknown" {
				c.Undecided(key, site, "%s removes the item from an old parent's %s: %s", fnName(f), childFld.Name(), why)
				continue
			}
			c.Check(g || readded, key, site,
				fmt.Sprintf("item removed from %s.%s only for parents not among the new parents (guard: %v) or re-added afterwards (%v)", pname, childFld.Name(), g, readded),
				fmt.Sprintf("%s removes the item from %s.%s of an old parent although the parent may still be among the item's new parents (%s), and the item is not re-added afterwards: a still-current parent loses the child, so its label updates no longer re-scan the item", fnName(f), pname, childFld.Name(), why))
		}
		// drops: direct deletes or calls that can delete, related to a parent taken from a list
		allInstrs(f, false, func(fn *ssa.Function, in ssa.Instruction) {
			var args []ssa.Value
			what := ""
			if dc, ok := isRegDelete(in); ok {
				args, what = dc.Args[1:], "delete("+regFld.Name()+", ..)"
			} else if ci, ok := in.(ssa.CallInstruction); ok && dropsVia(calleeFn(ci.Common()), 1) {
				args, what = ci.Common().Args, fnName(calleeFn(ci.Common()))+"(..)"
			} else {
				return
			}
			var par ssa.Value
			for _, a := range args {
				if pr := proj(a); pr != nil && !newLists[pr.list] {
					par = pr.elem
				}
			}
			if par == nil {
				return // not about a parent taken from an old-parent list
			}
			nDrop++
			key := rule + "/drop/" + fnName(f)
			site := p.Pos(in.Pos())
			if len(adds) == 0 {
				c.Ok(key, site, "%s only unregisters the item (no parent list is registered in the same function)", fnName(f))
				return
			}
			gv, why := notAmongNew(in, par)
			g := gv == "ok"
			after := false
			for _, a := range adds {
				if before(a.cs.Instr, in) {
					after = true
				}
			}
			if !g && !after && gv == "unknown" {
				c.Undecided(key, site, "%s calls %s for an old parent: %s", fnName(f), what, why)
				return
			}
			c.Check(g || after, key, site,
				fmt.Sprintf("%s for an old parent only when it is not among the new parents (guard: %v) or after the item was added to all new parents (%v)", what, g, after),
				fmt.Sprintf("%s calls %s for an old parent that may still be among the item's new parents (%s), before the item is (re-)added to them: a still-current parent without labels and with this single child is dropped from %s while the item keeps pointing at the orphaned object, so labels that arrive later land on a fresh object and are never inherited", fnName(f), what, why, regFld.Name()))
		})
	}
	if nUnreg == 0 {
		c.Lost("no %s.%s.Discard in felix/labelindex", pname, childFld.Name())
	}
	if nDrop == 0 {
		c.Lost("no registry drop for a parent taken from an old-parent list in felix/labelindex")
	}

	// ---- refs: what an item's parent list is made of
	var fromRegistry func(v ssa.Value, depth int) (bool, string)
	fromRegistry = func(v ssa.Value, depth int) (bool, string) {
		for _, o := range origins(v, nil) {
			switch x := o.V.(type) {
			case *ssa.Lookup:
				if fieldVar(x.X) != regFld {
					return false, "a lookup in " + path(x.X)
				}
			case *ssa.Alloc:
				stored := false
				for _, r := range *x.Referrers() {
					if mu, ok := r.(*ssa.MapUpdate); ok && mu.Value == ssa.Value(x) && fieldVar(mu.Map) == regFld {
						stored = true
					}
				}
				if !stored {
					return false, "a fresh " + pname + " that is not stored into " + regFld.Name()
				}
			case *ssa.Call:
				sf := calleeFn(x.Common())
				if sf == nil || sf.Blocks == nil || depth >= 2 {
					return false, "the result of " + path(x)
				}
				for _, ret := range returnsOf(sf) {
					if len(ret.Results) != 1 {
						return false, "the result of " + path(x)
					}
					if ok, why := fromRegistry(ret.Results[0], depth+1); !ok {
						return false, fnName(sf) + " returning " + why
					}
				}
			case *ssa.Const:
				if !isNilConst(x) {
					return false, "a constant"
				}
			default:
				return false, path(o.V)
			}
		}
		return true, ""
	}
	nRefs := 0
	for _, f := range funcs {
		allInstrs(f, false, func(fn *ssa.Function, in ssa.Instruction) {
			st, ok := in.(*ssa.Store)
			if !ok {
				return
			}
			fa, ok := st.Addr.(*ssa.FieldAddr)
			if !ok || structField(fa.X.Type(), fa.Field) != parentsFld || isNilConst(st.Val) {
				return
			}
			nRefs++
			key := rule + "/refs/" + fnName(fn)
			site := p.Pos(in.Pos())
			// the stored slice: a make([]*P) filled element-wise, or appends
			var elems []ssa.Value
			bad := ""
			for _, o := range origins(st.Val, nil) {
				ms, ok := o.V.(*ssa.MakeSlice)
				if !ok {
					bad = "the list is " + path(o.V) + ", not a slice built in this function"
					break
				}
				for _, r := range *ms.Referrers() {
					switch x := r.(type) {
					case *ssa.IndexAddr:
						for _, rr := range *x.Referrers() {
							if s2, ok := rr.(*ssa.Store); ok && s2.Addr == ssa.Value(x) {
								elems = append(elems, s2.Val)
							}
						}
					case *ssa.Store, *ssa.DebugRef:
					default:
						if _, isCall := r.(ssa.CallInstruction); isCall {
							bad = "the list is handed to " + path(r.(ssa.Value)) + " before being stored"
						}
					}
				}
			}
			if bad != "" {
				c.Undecided(key, site, "%s stores %s.%s: %s", fnName(fn), "item", parentsFld.Name(), bad)
				return
			}
			why := ""
			for _, e := range elems {
				if ok, w := fromRegistry(e, 0); !ok {
					why = w
				}
			}
			c.Check(len(elems) > 0 && why == "", key, site,
				fmt.Sprintf("every element of the item's %s comes from %s (lookup or get-or-create)", parentsFld.Name(), regFld.Name()),
				fmt.Sprintf("%s puts %s into the item's %s: the item would reference a %s object other than the one registered in %s, which is the one that receives the parent's label updates", fnName(fn), why, parentsFld.Name(), pname, regFld.Name()))
		})
	}
	if nRefs == 0 {
		c.Lost("no store to the item's %s in felix/labelindex", parentsFld.Name())
	}
}

// ------------------------------------------------------ And/Or combination --
//
// c07Combine decides, for every Node type that holds a list of operand Nodes,
// that its LabelRestrictions never keeps a restriction its operands do not
// justify.  The type's Evaluate tells whether it is a disjunction (returns true
// as soon as one operand is true) or a conjunction.  The body of the loop that
// merges one operand's restrictions into the accumulated map is executed
// symbolically on every path; the fields of the two entries being merged
// (accumulated, operand) are the atoms.  For every entry written back (or left
// in place) and every field of LabelRestriction:
//
//	disjunction: a bool restriction may be set only if BOTH entries have it; a
//	             value list may be non-nil only if both lists are non-nil, and
//	             must be computed from both;
//	conjunction: a bool restriction may be set only if one of the entries has
//	             it; a value list is one of the two lists or computed from them.
//
// Fields are enumerated from the struct, so a new field is covered (a bool that
// an Or merely carries over from its first operand is reported).
type c07Sym struct {
	kind   string                // "bool" | "slice" | "struct" | "unknown"
	b      func(env uint32) bool // bool: value
	nonNil func(env uint32) bool // slice: may be non-nil
	deps   uint32                // slice: atoms of the lists it is computed from
	exact  bool                  // slice: is exactly nil / one atom list (not a call result)
	fields []c07Sym              // struct
	desc   string
}

func c07Unknown() c07Sym { return c07Sym{kind: "unknown", desc: "?"} }

type c07Comb struct {
	fn     *ssa.Function
	st     *types.Struct // LabelRestriction
	nf     int
	result map[ssa.Value]bool // the accumulated (returned) maps
	key    ssa.Value          // the key of the entries being merged
	disj   bool
	// bindings made where an in-package helper is entered (the helper's
	// parameters / free variables stand for what the call hands them)
	class map[ssa.Value]int        // map-typed value -> 0 accumulated / 1 operand's restrictions
	keys  map[ssa.Value]bool       // values that are the key being merged
	ptrs  map[ssa.Value]*ssa.Alloc // pointer-typed values -> the local they point to
	stack []*ssa.Function          // helpers being executed (innermost last)
	// per path
	allocs  map[*ssa.Alloc][]c07Sym
	vals    map[ssa.Value]c07Sym
	pred    map[*ssa.BasicBlock]*ssa.BasicBlock
	conds   []func(env uint32) bool
	trail   []string
	problem string
}

func c07NewComb(fn *ssa.Function, st *types.Struct, result map[ssa.Value]bool, disj bool, class map[ssa.Value]int) *c07Comb {
	cb := &c07Comb{fn: fn, st: st, nf: st.NumFields(), result: result, disj: disj,
		class: map[ssa.Value]int{}, keys: map[ssa.Value]bool{}, ptrs: map[ssa.Value]*ssa.Alloc{},
		allocs: map[*ssa.Alloc][]c07Sym{}, vals: map[ssa.Value]c07Sym{}, pred: map[*ssa.BasicBlock]*ssa.BasicBlock{}}
	for k, v := range class {
		cb.class[k] = v
	}
	return cb
}

// allocOf: the local variable a pointer-typed value designates (the Alloc
// itself, or a helper's parameter / free variable bound to one).
func (cb *c07Comb) allocOf(v ssa.Value) *ssa.Alloc {
	if al, ok := v.(*ssa.Alloc); ok {
		return al
	}
	return cb.ptrs[v]
}

// storesTo lists the values stored directly into local al.
func c07StoresTo(al *ssa.Alloc) []ssa.Value {
	var out []ssa.Value
	if al.Referrers() == nil {
		return nil
	}
	for _, r := range *al.Referrers() {
		if st, ok := r.(*ssa.Store); ok && st.Addr == ssa.Value(al) {
			out = append(out, st.Val)
		}
	}
	return out
}

// isKey: v is the label (map key) of the entries being merged.
func (cb *c07Comb) isKey(v ssa.Value) bool { return cb.isKeyN(v, 0) }

func (cb *c07Comb) isKeyN(v ssa.Value, depth int) bool {
	if v == cb.key || cb.keys[v] {
		return true
	}
	if depth > 4 {
		return false
	}
	switch x := v.(type) {
	case *ssa.UnOp:
		// a local (e.g. captured by a closure) that only ever holds the key
		if al := cb.allocOf(x.X); x.Op == token.MUL && al != nil {
			vals := c07StoresTo(al)
			for _, sv := range vals {
				if !cb.isKeyN(sv, depth+1) {
					return false
				}
			}
			return len(vals) > 0
		}
	case *ssa.ChangeType:
		return cb.isKeyN(x.X, depth+1)
	}
	return false
}

// inPkgHelper: the static callee of call when it is a function of the analysed
// package with a body that is not being executed already.
func (cb *c07Comb) inPkgHelper(call *ssa.Call) *ssa.Function {
	g := calleeFn(call.Common())
	if g == nil || g.Blocks == nil || g.Pkg == nil || g.Pkg != c07PkgOf(cb.fn) || g == cb.fn || len(cb.stack) >= 4 {
		return nil
	}
	for _, f := range cb.stack {
		if f == g {
			return nil
		}
	}
	return g
}

func c07PkgOf(f *ssa.Function) *ssa.Package {
	for f.Parent() != nil {
		f = f.Parent()
	}
	return f.Pkg
}

func c07HasLoop(g *ssa.Function) bool {
	for _, b := range g.Blocks {
		if blockReach(b)[b] {
			return true
		}
	}
	return false
}

// relevantType: a restriction, a pointer to one, or a map of restrictions.
func (cb *c07Comb) relevantType(t types.Type) bool {
	if cb.isRestr(t) {
		return true
	}
	if m, ok := t.Underlying().(*types.Map); ok {
		return cb.isRestr(m.Elem())
	}
	return false
}

// inlinable: the helper is executed as part of the path when it handles
// restrictions (takes or returns a restriction / restriction map, or captures
// one), or when it is a loop-free computation on bools and lists; anything else
// keeps the opaque model of eval (a list computed from its list arguments).
func (cb *c07Comb) inlinable(call *ssa.Call) *ssa.Function {
	g := cb.inPkgHelper(call)
	if g == nil {
		return nil
	}
	touches := false
	sig := g.Signature
	for i := 0; i < sig.Params().Len(); i++ {
		touches = touches || cb.relevantType(sig.Params().At(i).Type())
	}
	for i := 0; i < sig.Results().Len(); i++ {
		touches = touches || cb.relevantType(sig.Results().At(i).Type())
	}
	if sig.Recv() != nil && cb.relevantType(sig.Recv().Type()) {
		touches = true
	}
	for _, fv := range g.FreeVars {
		if pt, ok := fv.Type().Underlying().(*types.Pointer); ok && cb.relevantType(pt.Elem()) {
			touches = true
		}
	}
	if touches {
		return g
	}
	if c07HasLoop(g) || sig.Results().Len() != 1 || len(call.Common().Args) == 0 {
		return nil
	}
	simple := func(t types.Type) bool {
		switch u := t.Underlying().(type) {
		case *types.Basic:
			return u.Info()&types.IsBoolean != 0
		case *types.Slice:
			return true
		}
		return false
	}
	if !simple(sig.Results().At(0).Type()) {
		return nil
	}
	for i := 0; i < sig.Params().Len(); i++ {
		if !simple(sig.Params().At(i).Type()) {
			return nil
		}
	}
	return g
}

// enter binds the parameters and free variables of helper g to what the call hands them.
func (cb *c07Comb) enter(g *ssa.Function, call *ssa.Call) {
	bind := func(p, a ssa.Value) {
		delete(cb.class, p)
		delete(cb.keys, p)
		delete(cb.ptrs, p)
		delete(cb.vals, p)
		if cb.isKey(a) {
			cb.keys[p] = true
			return
		}
		if cl := cb.classifyMap(a); cl >= 0 {
			cb.class[p] = cl
			return
		}
		if _, isPtr := a.Type().Underlying().(*types.Pointer); isPtr {
			if al := cb.allocOf(a); al != nil {
				cb.ptrs[p] = al
			}
			return
		}
		if s := cb.eval(a); s.kind != "unknown" {
			cb.vals[p] = s
		}
	}
	args := call.Common().Args
	for i, p := range g.Params {
		if i < len(args) {
			bind(p, args[i])
		}
	}
	if mc, ok := call.Common().Value.(*ssa.MakeClosure); ok {
		for i, fv := range g.FreeVars {
			if i < len(mc.Bindings) {
				bind(fv, mc.Bindings[i])
			}
		}
	}
}

func (cb *c07Comb) atom(entry, field int) uint32 { return 1 << uint(entry*cb.nf+field) }

func (cb *c07Comb) entrySym(entry int) c07Sym {
	who := [...]string{"accumulated", "operand"}[entry]
	s := c07Sym{kind: "struct", desc: who}
	for i := 0; i < cb.nf; i++ {
		a := cb.atom(entry, i)
		name := who + "." + cb.st.Field(i).Name()
		switch t := cb.st.Field(i).Type().Underlying().(type) {
		case *types.Basic:
			if t.Info()&types.IsBoolean != 0 {
				s.fields = append(s.fields, c07Sym{kind: "bool", b: func(env uint32) bool { return env&a != 0 }, desc: name})
				continue
			}
			s.fields = append(s.fields, c07Unknown())
		case *types.Slice:
			s.fields = append(s.fields, c07Sym{kind: "slice", nonNil: func(env uint32) bool { return env&a != 0 }, deps: a, exact: true, desc: name})
		default:
			s.fields = append(s.fields, c07Unknown())
		}
	}
	return s
}

func (cb *c07Comb) zeroSym() c07Sym {
	s := c07Sym{kind: "struct", desc: "zero"}
	for i := 0; i < cb.nf; i++ {
		switch t := cb.st.Field(i).Type().Underlying().(type) {
		case *types.Basic:
			if t.Info()&types.IsBoolean != 0 {
				s.fields = append(s.fields, c07Sym{kind: "bool", b: func(uint32) bool { return false }, desc: "false"})
				continue
			}
			s.fields = append(s.fields, c07Unknown())
		case *types.Slice:
			s.fields = append(s.fields, c07Sym{kind: "slice", nonNil: func(uint32) bool { return false }, exact: true, desc: "nil"})
		default:
			s.fields = append(s.fields, c07Unknown())
		}
	}
	return s
}

func (cb *c07Comb) isRestr(t types.Type) bool {
	if p, ok := t.Underlying().(*types.Pointer); ok {
		t = p.Elem()
	}
	return types.Identical(t.Underlying(), cb.st) && namedTypeName(t) == "LabelRestriction"
}

// classifyMap: 0 = accumulated, 1 = an operand's restrictions, -1 = something else.
func (cb *c07Comb) classifyMap(m ssa.Value) int { return cb.classifyMapN(m, 0) }

func (cb *c07Comb) classifyMapN(m ssa.Value, depth int) int {
	if cl, ok := cb.class[m]; ok {
		return cl
	}
	if cb.result[m] {
		return 0
	}
	if call, ok := m.(*ssa.Call); ok && call.Common().IsInvoke() && call.Common().Method.Name() == "LabelRestrictions" {
		return 1
	}
	if _, isMap := m.Type().Underlying().(*types.Map); !isMap || depth > 4 {
		return -1
	}
	all := func(vals []ssa.Value) int {
		cls := -2
		for _, v := range vals {
			c := cb.classifyMapN(v, depth+1)
			if cls != -2 && c != cls {
				return -1
			}
			cls = c
		}
		if cls == -2 {
			return -1
		}
		return cls
	}
	switch x := m.(type) {
	case *ssa.UnOp:
		// a map kept in a local variable (address taken, e.g. captured by a closure)
		if al := cb.allocOf(x.X); x.Op == token.MUL && al != nil {
			return all(c07StoresTo(al))
		}
	case *ssa.Phi:
		var vals []ssa.Value
		for _, e := range x.Edges {
			if e != ssa.Value(x) {
				vals = append(vals, e)
			}
		}
		return all(vals)
	case *ssa.ChangeType:
		return cb.classifyMapN(x.X, depth+1)
	}
	return -1
}

func (cb *c07Comb) eval(v ssa.Value) c07Sym {
	if s, ok := cb.vals[v]; ok {
		return s
	}
	switch x := v.(type) {
	case *ssa.Const:
		if x.Value == nil {
			if _, ok := x.Type().Underlying().(*types.Slice); ok {
				return c07Sym{kind: "slice", nonNil: func(uint32) bool { return false }, exact: true, desc: "nil"}
			}
			if cb.isRestr(x.Type()) {
				return cb.zeroSym()
			}
			return c07Unknown()
		}
		if x.Value.Kind() == constant.Bool {
			b := constant.BoolVal(x.Value)
			return c07Sym{kind: "bool", b: func(uint32) bool { return b }, desc: fmt.Sprint(b)}
		}
	case *ssa.Phi:
		if pb, ok := cb.pred[x.Block()]; ok {
			for k, q := range x.Block().Preds {
				if q == pb {
					return cb.eval(x.Edges[k])
				}
			}
		}
	case *ssa.UnOp:
		if x.Op == token.NOT {
			s := cb.eval(x.X)
			if s.kind == "bool" {
				f := s.b
				return c07Sym{kind: "bool", b: func(env uint32) bool { return !f(env) }, desc: "!" + s.desc}
			}
		}
	case *ssa.BinOp:
		l, r := cb.eval(x.X), cb.eval(x.Y)
		switch {
		case l.kind == "bool" && r.kind == "bool":
			lf, rf := l.b, r.b
			var f func(env uint32) bool
			switch x.Op {
			case token.EQL:
				f = func(env uint32) bool { return lf(env) == rf(env) }
			case token.NEQ, token.XOR:
				f = func(env uint32) bool { return lf(env) != rf(env) }
			case token.AND:
				f = func(env uint32) bool { return lf(env) && rf(env) }
			case token.OR:
				f = func(env uint32) bool { return lf(env) || rf(env) }
			}
			if f != nil {
				return c07Sym{kind: "bool", b: f, desc: "(" + l.desc + " " + x.Op.String() + " " + r.desc + ")"}
			}
		case l.kind == "slice" && r.kind == "slice" && (x.Op == token.EQL || x.Op == token.NEQ):
			// comparison with nil (the only comparison Go allows on slices)
			o := l
			if isNilConst(x.X) {
				o = r
			} else if !isNilConst(x.Y) {
				break
			}
			if !o.exact {
				break // nil-ness of a computed list is not known
			}
			nn := o.nonNil
			eq := x.Op == token.EQL
			return c07Sym{kind: "bool", b: func(env uint32) bool { return nn(env) != eq }, desc: "(" + o.desc + " " + x.Op.String() + " nil)"}
		}
	case *ssa.Field:
		s := cb.eval(x.X)
		if s.kind == "struct" && x.Field < len(s.fields) {
			return s.fields[x.Field]
		}
	case *ssa.Lookup:
		if cb.isRestr(x.Type()) && !x.CommaOk && cb.isKey(x.Index) {
			if e := cb.classifyMap(x.X); e >= 0 {
				return cb.entrySym(e)
			}
		}
	case *ssa.Extract:
		if t, ok := cb.vals[x.Tuple]; ok && t.kind == "tuple" && x.Index < len(t.fields) {
			return t.fields[x.Index]
		}
		if lk, ok := x.Tuple.(*ssa.Lookup); ok && lk.CommaOk && x.Index == 0 && cb.isRestr(x.Type()) && cb.isKey(lk.Index) {
			// v, ok := m[k]: v is the entry, or the zero value when absent (all atoms false)
			if e := cb.classifyMap(lk.X); e >= 0 {
				return cb.entrySym(e)
			}
		}
		if nx, ok := x.Tuple.(*ssa.Next); ok && x.Index == 2 && cb.isRestr(x.Type()) {
			if rg, ok := nx.Iter.(*ssa.Range); ok {
				if k, ok := cb.key.(*ssa.Extract); ok && k.Tuple == x.Tuple {
					if e := cb.classifyMap(rg.X); e >= 0 {
						return cb.entrySym(e)
					}
				}
			}
		}
	case *ssa.Call:
		// a list computed from other lists
		if _, ok := x.Type().Underlying().(*types.Slice); ok && !x.Common().IsInvoke() {
			s := c07Sym{kind: "slice", nonNil: func(uint32) bool { return true }, desc: path(x)}
			okArgs := len(x.Common().Args) > 0
			for _, a := range x.Common().Args {
				as := cb.eval(a)
				if as.kind != "slice" {
					okArgs = false
				}
				s.deps |= as.deps
			}
			if okArgs {
				return s
			}
		}
	}
	return c07Unknown()
}

// step executes one instruction of the merge loop's body.
func (cb *c07Comb) step(in ssa.Instruction) {
	switch x := in.(type) {
	case *ssa.Alloc:
		if cb.isRestr(x.Type()) {
			cb.allocs[x] = cb.zeroSym().fields
		}
	case *ssa.Store:
		if fa, ok := x.Addr.(*ssa.FieldAddr); ok {
			if al := cb.allocOf(fa.X); al != nil {
				if fs, ok := cb.allocs[al]; ok && fa.Field < len(fs) {
					nfs := append([]c07Sym(nil), fs...)
					nfs[fa.Field] = cb.eval(x.Val)
					cb.allocs[al] = nfs
				}
			}
			return
		}
		if a := cb.allocOf(x.Addr); a != nil {
			if _, ok := cb.allocs[a]; ok || cb.isRestr(a.Type()) {
				s := cb.eval(x.Val)
				if s.kind == "struct" {
					cb.allocs[a] = append([]c07Sym(nil), s.fields...)
				} else {
					fs := make([]c07Sym, cb.nf)
					for i := range fs {
						fs[i] = c07Unknown()
					}
					cb.allocs[a] = fs
				}
			}
		}
	case *ssa.UnOp:
		if x.Op != token.MUL {
			return
		}
		if fa, ok := x.X.(*ssa.FieldAddr); ok {
			if al := cb.allocOf(fa.X); al != nil {
				if fs, ok := cb.allocs[al]; ok && fa.Field < len(fs) {
					cb.vals[x] = fs[fa.Field]
				}
			}
			return
		}
		if a := cb.allocOf(x.X); a != nil {
			if fs, ok := cb.allocs[a]; ok {
				cb.vals[x] = c07Sym{kind: "struct", fields: fs, desc: a.Comment}
			}
		}
	}
}

// c07CombFinding is one unjustified restriction.
type c07CombFinding struct {
	field  int
	text   string
	unsure bool
}

// judge checks a struct that ends up in the accumulated map under the current path condition.
func (cb *c07Comb) judge(s c07Sym, how string) []c07CombFinding {
	var out []c07CombFinding
	if s.kind != "struct" {
		return []c07CombFinding{{field: -1, unsure: true, text: "the value " + how + " is not understood"}}
	}
	nAtoms := uint(2 * cb.nf)
	for i := 0; i < cb.nf; i++ {
		f := s.fields[i]
		name := cb.st.Field(i).Name()
		if f.kind == "unknown" || (f.kind == "slice" && f.deps&^(cb.atom(0, i)|cb.atom(1, i)) != 0) {
			out = append(out, c07CombFinding{field: i, unsure: true, text: fmt.Sprintf("%s %s is %s, which is not understood", name, how, f.desc)})
			continue
		}
		ai, oi := cb.atom(0, i), cb.atom(1, i)
		for env := uint32(0); env < 1<<nAtoms; env++ {
			sat := true
			for _, c := range cb.conds {
				if !c(env) {
					sat = false
					break
				}
			}
			if !sat {
				continue
			}
			a, o := env&ai != 0, env&oi != 0
			set := false
			if f.kind == "bool" {
				set = f.b(env)
			} else {
				set = f.nonNil(env)
			}
			if !set {
				continue
			}
			justified := a || o
			need := "at least one of the two entries imposes it"
			if cb.disj {
				justified = a && o
				need = "BOTH the accumulated entry and the operand's entry impose it"
				if f.kind == "slice" && justified && f.deps != ai|oi {
					justified = false
					need = "it is computed from both value lists (either operand's values are good enough for a disjunction)"
				}
			}
			if justified {
				continue
			}
			what := "is set"
			if f.kind == "slice" {
				what = "is kept non-nil (" + f.desc + ")"
			}
			out = append(out, c07CombFinding{field: i, text: fmt.Sprintf("%s %s %s when accumulated.%s=%v and operand.%s=%v%s, but a restriction may be kept only if %s",
				name, how, what, name, c07Imposed(f.kind, a), name, c07Imposed(f.kind, o), cb.trailText(), need)})
			break
		}
	}
	return out
}

func c07Imposed(kind string, b bool) string {
	if kind == "slice" {
		if b {
			return "non-nil"
		}
		return "nil"
	}
	return fmt.Sprint(b)
}

func (cb *c07Comb) trailText() string {
	if len(cb.trail) == 0 {
		return ""
	}
	return " (path: " + strings.Join(cb.trail, ", ") + ")"
}

// run walks every acyclic path of the loop body that starts at nx (one
// iteration of `for k, v := range <map>`), judging what is written to the
// accumulated map; an iteration that writes nothing leaves the accumulated
// entry in place.  A call of an in-package helper that handles restrictions is
// executed as part of the path (its parameters bound to the call's arguments,
// the caller resumed at each of its returns), so the merge may be computed —
// and the accumulated map written — by helpers.
func (cb *c07Comb) run(nx *ssa.Next, rangedEntry int) []c07CombFinding {
	var out []c07CombFinding
	seen := map[string]bool{}
	add := func(fs []c07CombFinding) {
		for _, f := range fs {
			k := fmt.Sprint(f.field, f.unsure, f.text)
			if !seen[k] {
				seen[k] = true
				out = append(out, f)
			}
		}
	}
	head := nx.Block()
	var okEx ssa.Value
	for _, r := range *nx.Referrers() {
		if ex, ok := r.(*ssa.Extract); ok && ex.Index == 0 {
			okEx = ex
		}
	}
	ifi, _ := head.Instrs[len(head.Instrs)-1].(*ssa.If)
	if okEx == nil || ifi == nil || ifi.Cond != okEx {
		return []c07CombFinding{{field: -1, unsure: true, text: "range loop shape not understood"}}
	}
	nPaths := 0
	onPath := map[*ssa.BasicBlock]bool{head: true}
	endIter := func(written bool) {
		nPaths++
		if !written && rangedEntry == 0 && cb.disj {
			// the accumulated entry stays as it was
			add(cb.judge(cb.entrySym(0), "left in the accumulated map unchanged"))
		}
	}
	copyVals := func() map[ssa.Value]c07Sym {
		m := make(map[ssa.Value]c07Sym, len(cb.vals)+4)
		for k, v := range cb.vals {
			m[k] = v
		}
		return m
	}
	// exec runs block b from instruction idx on; k is what happens when the
	// function b belongs to returns (top level: the iteration ends).
	var exec func(b *ssa.BasicBlock, idx int, written bool, k func(written bool, ret c07Sym))
	exec = func(b *ssa.BasicBlock, idx int, written bool, k func(written bool, ret c07Sym)) {
		if nPaths > 5000 {
			return
		}
		if idx == 0 {
			if b == head {
				endIter(written)
				return
			}
			if onPath[b] {
				add([]c07CombFinding{{field: -1, unsure: true, text: "nested loop in the merge loop body"}})
				return
			}
			onPath[b] = true
			savedAllocs, savedVals := cb.allocs, cb.vals
			cb.allocs = map[*ssa.Alloc][]c07Sym{}
			for k, v := range savedAllocs {
				cb.allocs[k] = v
			}
			cb.vals = copyVals()
			defer func() { onPath[b] = false; cb.allocs, cb.vals = savedAllocs, savedVals }()
		}
		for i := idx; i < len(b.Instrs); i++ {
			in := b.Instrs[i]
			if call, ok := in.(*ssa.Call); ok {
				if g := cb.inlinable(call); g != nil {
					cb.enter(g, call)
					outer := cb.stack
					cb.stack = append(append([]*ssa.Function(nil), outer...), g)
					resume := i + 1
					exec(g.Blocks[0], 0, written, func(w bool, ret c07Sym) {
						inner, innerVals, innerAllocs := cb.stack, cb.vals, cb.allocs
						cb.stack = outer
						cb.vals = copyVals()
						cb.vals[call] = ret
						cb.allocs = map[*ssa.Alloc][]c07Sym{}
						for k, v := range innerAllocs {
							cb.allocs[k] = v
						}
						exec(b, resume, w, k)
						cb.stack, cb.vals, cb.allocs = inner, innerVals, innerAllocs
					})
					cb.stack = outer
					return
				}
			}
			cb.step(in)
			switch x := in.(type) {
			case *ssa.MapUpdate:
				if cb.classifyMap(x.Map) == 0 {
					if !cb.isKey(x.Key) {
						add([]c07CombFinding{{field: -1, unsure: true, text: "the accumulated map is written under a key other than the one being merged"}})
					} else {
						add(cb.judge(cb.eval(x.Value), "written to the accumulated map"))
					}
					written = true
				}
			case *ssa.Return:
				ret := c07Unknown()
				switch {
				case len(x.Results) == 1:
					ret = cb.eval(x.Results[0])
				case len(x.Results) > 1:
					ret = c07Sym{kind: "tuple", desc: "results"}
					for _, r := range x.Results {
						ret.fields = append(ret.fields, cb.eval(r))
					}
				}
				k(written, ret)
				return
			default:
				if dc, ok := isBuiltinCall(in, "delete"); ok && cb.classifyMap(dc.Args[0]) == 0 && cb.isKey(dc.Args[1]) {
					written = true
				}
			}
		}
		follow := func(s *ssa.BasicBlock) {
			old, had := cb.pred[s]
			cb.pred[s] = b
			exec(s, 0, written, k)
			if had {
				cb.pred[s] = old
			} else {
				delete(cb.pred, s)
			}
		}
		if bi, ok := b.Instrs[len(b.Instrs)-1].(*ssa.If); ok && len(b.Succs) == 2 {
			cs := cb.eval(bi.Cond)
			for k, s := range b.Succs {
				if cs.kind == "bool" {
					f, want := cs.b, k == 0
					cb.conds = append(cb.conds, func(env uint32) bool { return f(env) == want })
					t := cs.desc
					if !want {
						t = "!" + t
					}
					cb.trail = append(cb.trail, t)
				}
				follow(s)
				if cs.kind == "bool" {
					cb.conds = cb.conds[:len(cb.conds)-1]
					cb.trail = cb.trail[:len(cb.trail)-1]
				}
			}
			return
		}
		for _, s := range b.Succs {
			follow(s)
		}
	}
	cb.pred[head.Succs[0]] = head
	exec(head.Succs[0], 0, false, func(w bool, _ c07Sym) { endIter(w) })
	if nPaths == 0 || nPaths > 5000 {
		out = append(out, c07CombFinding{field: -1, unsure: true, text: fmt.Sprintf("merge loop body has %d paths", nPaths)})
	}
	return out
}

// ---- helpers of c07Combine that look through in-package helpers ----

// c07ReturnsOperandMap: call is a static call of an in-package function every
// result of which is a fresh map, nil, an operand's LabelRestrictions() or the
// result of another such function.
func c07ReturnsOperandMap(call *ssa.Call, depth int) bool {
	g := calleeFn(call.Common())
	if g == nil || g.Blocks == nil || depth > 2 || call.Parent() == nil || g.Pkg != c07PkgOf(call.Parent()) {
		return false
	}
	n := 0
	for _, ret := range returnsOf(g) {
		if len(ret.Results) != 1 {
			return false
		}
		for _, o := range origins(ret.Results[0], nil) {
			switch x := o.V.(type) {
			case *ssa.Const:
				if x.Value != nil {
					return false
				}
			case *ssa.MakeMap:
				n++
			case *ssa.Call:
				if x.Common().IsInvoke() && x.Common().Method.Name() == "LabelRestrictions" {
					n++
				} else if c07ReturnsOperandMap(x, depth+1) {
					n++
				} else {
					return false
				}
			default:
				return false
			}
		}
	}
	return n > 0
}

type c07Host struct {
	fn    *ssa.Function
	class map[ssa.Value]int
}

// c07CombHosts: LabelRestrictions itself plus the in-package helpers (up to two
// calls down) that are handed the accumulated map, with their map-typed
// parameters classified from the call's arguments.
func c07CombHosts(lr *ssa.Function, st *types.Struct, result map[ssa.Value]bool, disj bool) []c07Host {
	hosts := []c07Host{{lr, nil}}
	seen := map[*ssa.Function]bool{lr: true}
	level := hosts
	for depth := 0; depth < 2 && len(level) > 0; depth++ {
		var next []c07Host
		for _, h := range level {
			cb := c07NewComb(h.fn, st, result, disj, h.class)
			cb.fn = lr // package test
			allInstrs(h.fn, false, func(_ *ssa.Function, in ssa.Instruction) {
				call, ok := in.(*ssa.Call)
				if !ok {
					return
				}
				g := cb.inPkgHelper(call)
				if g == nil || seen[g] {
					return
				}
				class := map[ssa.Value]int{}
				has0 := false
				for i, a := range call.Common().Args {
					if i >= len(g.Params) {
						break
					}
					if cl := cb.classifyMap(a); cl >= 0 {
						class[g.Params[i]] = cl
						has0 = has0 || cl == 0
					}
				}
				if has0 {
					seen[g] = true
					next = append(next, c07Host{g, class})
				}
			})
		}
		hosts = append(hosts, next...)
		level = next
	}
	return hosts
}

// c07WritesVia: the call hands the accumulated map to an in-package helper that
// (itself or up to two calls further down) stores into / deletes from it.
func c07WritesVia(cb *c07Comb, call *ssa.Call, depth int) bool {
	g := cb.inPkgHelper(call)
	if g == nil || depth > 2 {
		return false
	}
	cb.enter(g, call)
	found := false
	allInstrs(g, false, func(_ *ssa.Function, in ssa.Instruction) {
		if found {
			return
		}
		switch x := in.(type) {
		case *ssa.MapUpdate:
			if cb.classifyMap(x.Map) == 0 {
				found = true
			}
		case *ssa.Call:
			if dc, ok := isBuiltinCall(in, "delete"); ok {
				if cb.classifyMap(dc.Args[0]) == 0 {
					found = true
				}
				return
			}
			if c07WritesVia(cb, x, depth+1) {
				found = true
			}
		}
	})
	return found
}

// c07OperandCalls: the receivers of the <operand>.LabelRestrictions() calls made
// by lr and by the in-package helpers it calls (up to three calls down); a
// receiver that is a helper's parameter is replaced by what the call hands it.
func c07OperandCalls(lr *ssa.Function) []ssa.Value {
	var out []ssa.Value
	pkg := c07PkgOf(lr)
	var visit func(fn *ssa.Function, bind map[ssa.Value]ssa.Value, depth int, stack map[*ssa.Function]bool)
	visit = func(fn *ssa.Function, bind map[ssa.Value]ssa.Value, depth int, stack map[*ssa.Function]bool) {
		resolve := func(v ssa.Value) ssa.Value {
			if b, ok := bind[v]; ok {
				return b
			}
			return v
		}
		allInstrs(fn, false, func(_ *ssa.Function, in ssa.Instruction) {
			call, ok := in.(*ssa.Call)
			if !ok {
				return
			}
			cc := call.Common()
			if cc.IsInvoke() {
				if cc.Method.Name() == "LabelRestrictions" {
					out = append(out, resolve(cc.Value))
				}
				return
			}
			g := calleeFn(cc)
			if g == nil || g.Blocks == nil || g.Pkg != pkg || stack[g] || depth >= 3 {
				return
			}
			nb := map[ssa.Value]ssa.Value{}
			for i, a := range cc.Args {
				if i < len(g.Params) {
					nb[g.Params[i]] = resolve(a)
				}
			}
			stack[g] = true
			visit(g, nb, depth+1, stack)
			delete(stack, g)
		})
	}
	visit(lr, nil, 0, map[*ssa.Function]bool{lr: true})
	return out
}
