package main

// C13.access, scalar clause.
//
// The boundary clause of C13.access (rules_C13.go) only asks that a constant byte
// range of a Go mirror array starts and ends on C leaf boundaries.  That is the
// right demand for copies, but not for bytes that Go decodes or encodes as ONE
// number: an IPv6 address is four __be32 leaves, so a 64-bit read of bytes
// [16,24) of a conntrack key is "on boundaries" although no C member is a 64-bit
// scalar there (finding F19).
//
// Scalar clause: whenever a constant position of a mirror array is handed to
// encoding/binary's UintN / PutUintN / AppendUintN (any ByteOrder), or a
// constant single-byte index is used as a value (read, or assigned to), the
// bytes actually accessed - N/8 bytes from the slice's low bound, regardless of
// where the slice expression ends - are, in every C layout the Go type is tied
// to, exactly one C scalar: a non-aggregate leaf of that width, one element of
// an array leaf whose elements have that width, a union alternative of that
// width, or a run of whole bit-fields inside one bit-field storage unit.

import (
	"fmt"
	"go/ast"
	"go/constant"
	"go/token"
	"go/types"
	"regexp"
	"sort"
	"strconv"
	"strings"
)

type c13Link struct {
	g    *goMapParams
	side string // key | value
}

// c13Layout: one C layout a Go mirror type is tied to.
type c13Layout struct {
	desc string // config:type
	typ  string
	size int
	rec  *cRecord // nil: the C key/value type is not a record (plain scalar or array)
}

func c13LayoutsFor(L *cLayouts, ls []c13Link) []c13Layout {
	var out []c13Layout
	for _, l := range ls {
		decls := L.mapDecls(l.g.symbol())
		for _, cn := range sortedKeys(decls) {
			m := decls[cn]
			t, sz := m.KeyType, m.KeySize
			if l.side == "value" {
				t, sz = m.ValueType, m.ValueSize
			}
			if sz == nil {
				continue
			}
			out = append(out, c13Layout{desc: cn + ":" + t, typ: t, size: *sz, rec: L.Configs[cn].Records[t]})
		}
	}
	return out
}

// c13TypeSizes: size of every non-array leaf type clang laid out anywhere (used for
// the storage unit of bit-fields, whose own size is not reported).
func c13TypeSizes(L *cLayouts) map[string]int {
	out := map[string]int{}
	for _, cfg := range L.Configs {
		for _, r := range cfg.Records {
			for _, f := range r.Fields {
				if f.Aggregate || f.Bits != nil || f.Size == nil || strings.Contains(f.Type, "[") {
					continue
				}
				out[f.Type] = *f.Size
			}
		}
	}
	return out
}

// c13ScalarAt decides whether bytes [lo,lo+w) of the layout are exactly one C
// scalar.  what describes the scalar found; otherwise spans lists the C leaves
// the bytes touch.
func (ly c13Layout) c13ScalarAt(lo, w int, tsize map[string]int) (ok bool, what string, spans []string) {
	hi := lo + w
	if lo < 0 || hi > ly.size {
		return false, "", []string{fmt.Sprintf("bytes [%d,%d) lie outside the %d-byte C type", lo, hi, ly.size)}
	}
	if ly.rec == nil {
		// not a record: a scalar (whole value) or an array of scalars
		if !strings.Contains(ly.typ, "[") {
			if lo == 0 && w == ly.size {
				return true, ly.typ, nil
			}
			return false, "", []string{fmt.Sprintf("%s is one %d-byte scalar", ly.typ, ly.size)}
		}
		if n := arrayLen(ly.typ); n > 0 && ly.size%n == 0 {
			es := ly.size / n
			if es == w && lo%es == 0 {
				return true, fmt.Sprintf("%s element %d", ly.typ, lo/es), nil
			}
			return false, "", []string{fmt.Sprintf("%s has %d-byte elements", ly.typ, es)}
		}
		return false, "", []string{"layout of " + ly.typ + " is not known"}
	}
	type unit struct {
		lo, hi int
		typ    string
	}
	bitsOK := map[unit]bool{}
	var bitUnits []unit
	for _, f := range ly.rec.Fields {
		if f.Aggregate {
			continue
		}
		if f.Bits != nil {
			tsz := tsize[f.Type]
			if tsz == 0 || len(f.Bits) != 2 {
				continue
			}
			u := unit{f.Offset - f.Offset%tsz, f.Offset - f.Offset%tsz + tsz, f.Type}
			if lo < u.lo || hi > u.hi {
				if f.Offset < hi && f.Offset >= lo {
					spans = append(spans, fmt.Sprintf("bit-field %s in the %s unit [%d,%d)", f.Path, f.Type, u.lo, u.hi))
				}
				continue
			}
			if _, seen := bitsOK[u]; !seen {
				bitsOK[u] = true
				bitUnits = append(bitUnits, u)
			}
			// the bit-field must lie wholly inside or wholly outside the accessed bits
			b0, b1 := f.Offset*8+f.Bits[0], f.Offset*8+f.Bits[1]+1
			if b0 < hi*8 && b1 > lo*8 && (b0 < lo*8 || b1 > hi*8) {
				bitsOK[u] = false
				spans = append(spans, fmt.Sprintf("bit-field %s (bits %d..%d of the struct) is cut", f.Path, b0, b1-1))
			}
			continue
		}
		if f.Size == nil || *f.Size == 0 {
			continue
		}
		flo, fhi := f.Offset, f.Offset+*f.Size
		if fhi <= lo || flo >= hi {
			continue
		}
		if strings.Contains(f.Type, "[") {
			if n := arrayLen(f.Type); n > 0 && *f.Size%n == 0 {
				es := *f.Size / n
				if es == w && lo >= flo && hi <= fhi && (lo-flo)%es == 0 {
					return true, fmt.Sprintf("%s[%d] (%s)", f.Path, (lo-flo)/es, f.Type), nil
				}
			}
			spans = append(spans, fmt.Sprintf("%s %s [%d,%d)", f.Type, f.Path, flo, fhi))
			continue
		}
		if flo == lo && fhi == hi {
			return true, fmt.Sprintf("%s %s", f.Type, f.Path), nil
		}
		spans = append(spans, fmt.Sprintf("%s %s [%d,%d)", f.Type, f.Path, flo, fhi))
	}
	for _, u := range bitUnits {
		if bitsOK[u] {
			return true, fmt.Sprintf("whole bit-fields of the %s unit [%d,%d)", u.typ, u.lo, u.hi), nil
		}
	}
	if len(spans) == 0 {
		spans = []string{"padding only"}
	}
	return false, "", spans
}

var c13reBinary = regexp.MustCompile(`^(Put|Append)?Uint(16|32|64)$`)

type c13ScalarAcc struct {
	tn    *types.TypeName
	lo, w int
}

type c13ScalarSite struct {
	pos   token.Pos
	hows  map[string]bool
	short []string // slices whose constant length is smaller than the width decoded
}

// c13AccessScalar: see the file comment.
func c13AccessScalar(c *Ctx, p *Prog, L *cLayouts, typeLinks map[*types.TypeName][]c13Link) {
	tsize := c13TypeSizes(L)
	mirror := func(t types.Type) (*types.TypeName, int) {
		if t == nil {
			return nil, 0
		}
		if pt, ok := t.Underlying().(*types.Pointer); ok {
			t = pt.Elem()
		}
		n, ok := types.Unalias(t).(*types.Named)
		if !ok {
			return nil, 0
		}
		arr, ok := n.Underlying().(*types.Array)
		if !ok || typeLinks[n.Obj()] == nil {
			return nil, 0
		}
		return n.Obj(), int(arr.Len())
	}
	seen := map[c13ScalarAcc]*c13ScalarSite{}
	note := func(a c13ScalarAcc, pos token.Pos, how string) *c13ScalarSite {
		s := seen[a]
		if s == nil {
			s = &c13ScalarSite{pos: pos, hows: map[string]bool{}}
			seen[a] = s
		}
		s.hows[how] = true
		return s
	}
	nBinary := 0
	for _, pk := range p.Roots {
		info := pk.TypesInfo
		intConst := func(e ast.Expr) (int, bool) {
			v, ok := constValue(info, e)
			if !ok || v.Kind() != constant.Int {
				return 0, false
			}
			x, ok := constant.Int64Val(v)
			return int(x), ok
		}
		// constRange: e is mirror[lo:hi] with a constant lo (hiKnown: constant or absent hi)
		constRange := func(e ast.Expr) (tn *types.TypeName, lo, hi int, hiKnown, ok bool) {
			se, isSl := ast.Unparen(e).(*ast.SliceExpr)
			if !isSl {
				return nil, 0, 0, false, false
			}
			tn, n := mirror(info.TypeOf(se.X))
			if tn == nil {
				return nil, 0, 0, false, false
			}
			lo, hi, hiKnown = 0, n, true
			if se.Low != nil {
				x, isC := intConst(se.Low)
				if !isC {
					return nil, 0, 0, false, false
				}
				lo = x
			}
			if se.High != nil {
				if x, isC := intConst(se.High); isC {
					hi = x
				} else {
					hiKnown = false
				}
			}
			return tn, lo, hi, hiKnown, true
		}
		// locals bound exactly once (b := m[lo:hi] / var b = m[lo:hi]) and never assigned again
		single := map[types.Object]ast.Expr{}
		reassigned := map[types.Object]bool{}
		addrTaken := map[*ast.IndexExpr]bool{}
		for _, f := range pk.Syntax {
			ast.Inspect(f, func(n ast.Node) bool {
				switch s := n.(type) {
				case *ast.AssignStmt:
					for i, l := range s.Lhs {
						id, ok := ast.Unparen(l).(*ast.Ident)
						if !ok {
							continue
						}
						if o := info.Defs[id]; o != nil && s.Tok == token.DEFINE && len(s.Lhs) == len(s.Rhs) {
							if _, isSl := ast.Unparen(s.Rhs[i]).(*ast.SliceExpr); isSl {
								single[o] = s.Rhs[i]
							}
						} else if o := info.Uses[id]; o != nil {
							reassigned[o] = true
						}
					}
				case *ast.ValueSpec:
					if len(s.Names) == len(s.Values) {
						for i, id := range s.Names {
							if o := info.Defs[id]; o != nil {
								if _, isSl := ast.Unparen(s.Values[i]).(*ast.SliceExpr); isSl {
									single[o] = s.Values[i]
								}
							}
						}
					}
				case *ast.UnaryExpr:
					if s.Op == token.AND {
						if ix, ok := ast.Unparen(s.X).(*ast.IndexExpr); ok {
							addrTaken[ix] = true
						}
						if id, ok := ast.Unparen(s.X).(*ast.Ident); ok {
							if o := info.Uses[id]; o != nil {
								reassigned[o] = true // may be written through the pointer
							}
						}
					}
				}
				return true
			})
		}
		resolve := func(e ast.Expr) ast.Expr {
			if id, ok := ast.Unparen(e).(*ast.Ident); ok {
				if o := info.Uses[id]; o != nil && !reassigned[o] {
					if v, ok := o.(*types.Var); ok && !v.IsField() && v.Parent() != pk.Types.Scope() {
						if r := single[o]; r != nil {
							return r
						}
					}
				}
			}
			return e
		}
		for _, f := range pk.Syntax {
			ast.Inspect(f, func(n ast.Node) bool {
				switch e := n.(type) {
				case *ast.CallExpr:
					fn := calleeObjAST(info, e)
					if fn == nil || fn.Pkg() == nil || fn.Pkg().Path() != "encoding/binary" || fn.Type().(*types.Signature).Recv() == nil || len(e.Args) == 0 {
						return true
					}
					m := c13reBinary.FindStringSubmatch(fn.Name())
					if m == nil {
						return true
					}
					bits, _ := strconv.Atoi(m[2])
					w := bits / 8
					tn, lo, hi, hiKnown, ok := constRange(resolve(e.Args[0]))
					if !ok {
						return true
					}
					nBinary++
					if m[1] == "Append" {
						// append writes after the slice's length: in place while the array has room
						if !hiKnown {
							return true
						}
						lo, hi = hi, hi+w
						if arr := tn.Type().Underlying().(*types.Array); hi > int(arr.Len()) {
							return true // reallocates: the mirror is not written
						}
						note(c13ScalarAcc{tn, lo, w}, e.Pos(), fn.Name())
						return true
					}
					s := note(c13ScalarAcc{tn, lo, w}, e.Pos(), fn.Name())
					if hiKnown && hi-lo < w {
						s.short = append(s.short, fmt.Sprintf("%s: %s is given the %d-byte slice [%d:%d]", p.Pos(e.Pos()), fn.Name(), hi-lo, lo, hi))
					}
				case *ast.IndexExpr:
					if addrTaken[e] {
						return true
					}
					tn, _ := mirror(info.TypeOf(e.X))
					if tn == nil {
						return true
					}
					if x, isC := intConst(e.Index); isC {
						note(c13ScalarAcc{tn, x, 1}, e.Pos(), "index")
					}
				}
				return true
			})
		}
	}
	if nBinary < 40 {
		c.Lost("only %d encoding/binary scalar accesses to constant positions of mirror arrays found (expected >= 40)", nBinary)
	}
	var accs []c13ScalarAcc
	for a := range seen {
		accs = append(accs, a)
	}
	tname := func(tn *types.TypeName) string {
		return strings.TrimPrefix(tn.Pkg().Path(), calicoPrefix) + "." + tn.Name()
	}
	sort.Slice(accs, func(i, j int) bool {
		a, b := accs[i], accs[j]
		if an, bn := tname(a.tn), tname(b.tn); an != bn {
			return an < bn
		}
		if a.lo != b.lo {
			return a.lo < b.lo
		}
		return a.w < b.w
	})
	for _, a := range accs {
		s := seen[a]
		key := fmt.Sprintf("C13.access/%s[%d:%d]/scalar", tname(a.tn), a.lo, a.lo+a.w)
		site := p.Pos(s.pos)
		hows := strings.Join(sortedKeys(s.hows), ",")
		lys := c13LayoutsFor(L, typeLinks[a.tn])
		if len(lys) == 0 {
			c.Undecided(key, site, "no C layout for the linked map type")
			continue
		}
		var bad []string
		whats := map[string]bool{}
		byMsg := map[string][]string{}
		for _, ly := range lys {
			ok, what, spans := ly.c13ScalarAt(a.lo, a.w, tsize)
			if ok {
				whats[what] = true
				continue
			}
			m := strings.Join(spans, " + ")
			byMsg[m] = append(byMsg[m], ly.desc)
		}
		for _, m := range sortedKeys(byMsg) {
			bad = append(bad, fmt.Sprintf("%s: bytes [%d,%d) are accessed as one %d-bit scalar (%s) but are not one C scalar of that width: they touch %s",
				strings.Join(byMsg[m], ", "), a.lo, a.lo+a.w, a.w*8, hows, m))
		}
		bad = append(bad, s.short...)
		c.Check(len(bad) == 0, key, site,
			fmt.Sprintf("bytes [%d,%d) accessed as one %d-bit scalar (%s) are exactly %s in %d layout(s)", a.lo, a.lo+a.w, a.w*8, hows, strings.Join(sortedKeys(whats), " / "), len(lys)),
			strings.Join(bad, "; "))
	}
}
