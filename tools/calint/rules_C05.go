package main

import (
	"fmt"
	"go/ast"
	"go/constant"
	"go/token"
	"go/types"
	"sort"
	"strings"

	"golang.org/x/tools/go/ssa"
)

// C05: missing or invalid references fail closed.

func init() {
	register(&Property{
		ID:        "C05",
		Title:     "Missing or invalid references fail closed",
		Technique: "static analysis: constant-table evaluation of the deny stand-in, path-sensitive value provenance (phi edges vs. nil guards), forward cut-set analysis on the SSA CFG, store-root ownership, per-edge value provenance of the tier default action, shared label-inheritance registry discipline (C07.parentreg)",
		DesignRef: "DESIGN.md §3 C05",
		Explanation: "Decides the structural clauses on ActiveRulesCalculator and ValidationFilter. (dummy) The stand-in DummyDropRules has, for every rule-list field of model.ProfileRules, at least one rule, every rule is " +
			"exactly {Action: \"deny\"} with no match field, and nothing in felix/calc stores through the variable. (nonnil) Every rules argument passed to ruleScanner.OnProfileActive is, on every incoming path, either " +
			"&DummyDropRules or a value established non-nil by a branch on that path: an active profile is never announced with nil rules and the only substitute is the deny stand-in. (replace) Every write to the " +
			"profile-rules cache (Set or Delete on allProfileRules) is followed on every returning path by a re-announcement of the profile to the rule scanner unless the profile is inactive " +
			"(profileIDToEndpointKeys.ContainsKey false): a late profile replaces the deny, a deleted one falls back to it. (validnil) In ValidationFilter.OnUpdates every call that returns an error is checked, and every " +
			"path from its non-nil edge to the store of the update into the outgoing slice stores nil into the update's Value first, and that outgoing slice (not the incoming one) is what the sink receives. (nomutate) ValidationFilter writes only to its own locals and receiver: a value that is kept is passed through unmodified, never partially applied. " +
			"(relay) On the Typha path to Felix, every function of typha/pkg/syncproto that converts between api.Update and SerializedUpdate and can fail returns a non-nil error only for a failed key conversion " +
			"(model.KeyFromDefaultPath nil / model.KeyToDefaultPath error): the callers (snapshot cache, sync client) drop an update whose conversion fails, which would leave the previous version of the resource in force, " +
			"so a value that cannot be parsed or serialized must still produce an update for its key. " +
			"(tieraction) A tier that is missing, deleted or invalid is a placeholder whose DefaultAction is empty, and every dataplane renders the end-of-tier drop unless DefaultAction == Pass; so on the chain apiv3.TierSpec -> model.Tier -> calc.TierInfo -> proto.TierInfo " +
			"every value stored into a DefaultAction field is, on every incoming path, a copy of another DefaultAction of the chain (conversions, generated getters, helper calls followed), a constant other than Pass, or the constant Pass behind a branch that established `source DefaultAction == Pass` " +
			"(\"anything but Pass is Deny\"); the unconditional constant Pass is accepted only on a freshly built tier object whose policy lists are updated solely under policyMetadata.DoNotTrack()/PreDNAT() (untracked and pre-DNAT tiers must pass on to the normal tiers). " +
			"(inheritreg) A profile that an endpoint names but that does not exist yet is a label-less placeholder parent in the label inheritance index; it must survive (and stay the object the endpoint points at) until the profile arrives, otherwise the late profile's labels never reach the endpoint and policies selecting on them never apply: " +
			"the registry discipline of C07.parentreg is armed here under C05's id.",
		NotDecided: "That downstream renderers treat the deny stand-in as deny (C08/C09); that the validators reject every invalid resource; mutation of DummyDropRules through the pointer handed to the rule scanner; that consumers of Value==nil treat it as deletion (C01.nilnotype covers the UpdateType side); that model.ParseValue returns a nil value together with its error (relay decides only that the update is not dropped); the DefaultAction copies made after the proto boundary (felix/dataplane/*: rules.TierPolicyGroups, BPF, Windows) and the consumers' `!= Pass` tests (C09.tiermarks decides the iptables one); that the policy tested by DoNotTrack()/PreDNAT() is the policy being added to a constant-Pass tier object.",
		Assumptions: []string{
			"go/types + go/ssa (x/tools v0.50.0) model of the current source, CGO_ENABLED=0 build",
			"model.Rule.Action \"deny\" is the deny verdict of the policy model (API contract)",
			"logrus Panic*/Fatal* do not return",
		},
		Run: runC05,
		Fixtures: []Fixture{
			{Name: "stand-in inbound rule allows", File: "felix/calc/active_rules_calculator.go",
				Old: "InboundRules:  []model.Rule{{Action: \"deny\"}},", New: "InboundRules:  []model.Rule{{Action: \"allow\"}},", Expect: "C05.dummy/DummyDropRules.InboundRules"},
			{Name: "stand-in has no outbound rules", File: "felix/calc/active_rules_calculator.go",
				Old: "\tOutboundRules: []model.Rule{{Action: \"deny\"}},\n", New: "", Expect: "C05.dummy/DummyDropRules.OutboundRules"},
			{Name: "stand-in deny only matches IPv4", File: "felix/calc/active_rules_calculator.go",
				Old: "OutboundRules: []model.Rule{{Action: \"deny\"}},", New: "OutboundRules: []model.Rule{{Action: \"deny\", IPVersion: new(int)}},", Expect: "C05.dummy/DummyDropRules.OutboundRules"},
			{Name: "stand-in emptied at the end of the resync", File: "felix/calc/active_rules_calculator.go",
				Old: "\t\tarc.initialSyncCompleted = true\n", New: "\t\tarc.initialSyncCompleted = true\n\t\tDummyDropRules.InboundRules = nil\n", Expect: "C05.dummy/immutable"},
			{Name: "unknown active profile announced with nil rules after sync", File: "felix/calc/active_rules_calculator.go",
				Old: "\t\t\t\t\t\"Profile unknown during resync.\")\n\t\t\t}\n\t\t\trules = &DummyDropRules\n", New: "\t\t\t\t\t\"Profile unknown during resync.\")\n\t\t\t\trules = &DummyDropRules\n\t\t\t}\n", Expect: "C05.nonnil/"},
			{Name: "unknown active profile replaced by empty (allow-through) rules", File: "felix/calc/active_rules_calculator.go",
				Old: "\t\t\trules = &DummyDropRules\n", New: "\t\t\trules = &model.ProfileRules{}\n", Expect: "C05.nonnil/"},
			{Name: "late profile does not replace the deny stand-in", File: "felix/calc/active_rules_calculator.go",
				Old: "\t\t\t\tarc.sendProfileUpdate(key.Name, rules)\n", New: "", Expect: "C05.replace/ActiveRulesCalculator.OnUpdate/allProfileRules.Set"},
			{Name: "profile deleted while referenced keeps its old rules", File: "felix/calc/active_rules_calculator.go",
				Old: "\t\t\t\tarc.sendProfileUpdate(key.Name, nil)\n", New: "", Expect: "C05.replace/ActiveRulesCalculator.OnUpdate/allProfileRules.Delete"},
			{Name: "invalid resource logged but passed through", File: "felix/calc/validation_filter.go",
				Old: "\t\t\t\t\t\tlogCxt.WithError(err).Warn(\"Validation failed; treating as missing\")\n\t\t\t\t\t\tupdate.Value = nil\n", New: "\t\t\t\t\t\tlogCxt.WithError(err).Warn(\"Validation failed; treating as missing\")\n", Expect: "C05.validnil/"},
			{Name: "filter forwards the unfiltered updates", File: "felix/calc/validation_filter.go",
				Old: "\tv.sink.OnUpdates(filteredUpdates)\n", New: "\tv.sink.OnUpdates(updates)\n", Expect: "C05.validnil/forward/"},
			{Name: "workload endpoint check result ignored", File: "felix/calc/validation_filter.go",
				Old: "\t\t\t\terr := v.validateWorkloadEndpoint(value)\n\t\t\t\tif err != nil {\n", New: "\t\t\t\terr := v.validateWorkloadEndpoint(value)\n\t\t\t\tif err != nil && value.Name != \"\" {\n", Expect: "C05.validnil/validateWorkloadEndpoint"},
			{Name: "filter repairs an invalid endpoint instead of dropping it", File: "felix/calc/validation_filter.go",
				Old: "\tif len(value.AllowSpoofedSourcePrefixes) > 0 && v.config.WorkloadSourceSpoofing != \"Any\" {\n\t\treturn errors.New(\"source IP spoofing requested but not enabled in Felix configuration\")\n\t}\n", New: "\tif len(value.AllowSpoofedSourcePrefixes) > 0 && v.config.WorkloadSourceSpoofing != \"Any\" {\n\t\tvalue.AllowSpoofedSourcePrefixes = nil\n\t}\n", Expect: "C05.nomutate/ValidationFilter.validateWorkloadEndpoint"},
			{Name: "decoder drops an update whose value cannot be parsed", File: "typha/pkg/syncproto/sync_proto.go",
				Old: "\t\t} else {\n\t\t\tif obj, ok := parsedValue.(v1.Object); ok {", New: "\t\t\treturn api.Update{}, err\n\t\t} else {\n\t\t\tif obj, ok := parsedValue.(v1.Object); ok {", Expect: "C05.relay/SerializedUpdate.ToUpdate"},
			{Name: "serializer reports an unserializable value instead of simulating a deletion", File: "typha/pkg/syncproto/sync_proto.go",
				Old: "\t\terr = nil\n\t\treturn\n", New: "\t\treturn\n", Expect: "C05.relay/SerializeUpdate"},
			{Name: "default action normalised to Deny-or-Pass on the way to the dataplane (missing tier's empty action becomes Pass)", File: "felix/calc/event_sequencer.go",
				Old:    "\t\t\tnormalTierInfo := &proto.TierInfo{Name: ti.Name, DefaultAction: string(ti.DefaultAction)}\n",
				New:    "\t\t\tnormalAction := string(v3.Pass)\n\t\t\tswitch ti.DefaultAction {\n\t\t\tcase v3.Deny:\n\t\t\t\tnormalAction = string(v3.Deny)\n\t\t\t}\n\t\t\tnormalTierInfo := &proto.TierInfo{Name: ti.Name, DefaultAction: normalAction}\n",
				Expect: "C05.tieraction/tierInfoToProtoTierInfo/proto.TierInfo.DefaultAction"},
			{Name: "normal tier sent with the constant Pass like the untracked tiers", File: "felix/calc/event_sequencer.go",
				Old:    "\t\t\tnormalTierInfo := &proto.TierInfo{Name: ti.Name, DefaultAction: string(ti.DefaultAction)}\n",
				New:    "\t\t\tnormalTierInfo := &proto.TierInfo{Name: ti.Name, DefaultAction: string(v3.Pass)}\n",
				Expect: "C05.tieraction/tierInfoToProtoTierInfo/proto.TierInfo.DefaultAction"},
			{Name: "tier without a default action converted to Pass", File: "libcalico-go/lib/backend/syncersv1/updateprocessors/tierprocessor.go",
				Old:    "\tif v3res.Spec.DefaultAction != nil && *v3res.Spec.DefaultAction == apiv3.Pass {\n",
				New:    "\tif v3res.Spec.DefaultAction == nil || *v3res.Spec.DefaultAction == apiv3.Pass {\n",
				Expect: "C05.tieraction/ConvertTierV3ToV1Value/model.Tier.DefaultAction"},
			{Name: "deleted tier's placeholder reset to Pass", File: "felix/calc/policy_sorter.go",
				Old: "\t\t\t\ttierInfo.DefaultAction = \"\"\n", New: "\t\t\t\ttierInfo.DefaultAction = v3.Pass\n",
				Expect: "C05.tieraction/PolicySorter.OnUpdate/calc.TierInfo.DefaultAction"},
			{Name: "placeholder of a missing profile dropped on endpoint update (late profile's labels never inherited)", File: "felix/labelindex/label_inheritance_index.go",
				Old: "\t\tif currentParentIDs.Contains(parent.id) {\n\t\t\t// Make sure we don't delete current parents from the index.\n\t\t\tcontinue\n\t\t}\n", New: "", Expect: "C05.inheritreg/drop/InheritIndex.onItemParentsUpdate"},
			{Name: "endpoint points at a private placeholder instead of the registered one", File: "felix/labelindex/label_inheritance_index.go",
				Old: "\t\t\tparents[i] = idx.getOrCreateParent(pID)\n", New: "\t\t\tparents[i] = &parentData{id: pID}\n", Expect: "C05.inheritreg/refs/InheritIndex.UpdateLabels"},
		},
	})
}

const c05ProtoPkg = "typha/pkg/syncproto"

func runC05(c *Ctx) {
	p := c.Load(calcPkg, c05ProtoPkg, c07IdxPkg, c05UpdProcPkg)
	c.Rule("C05.dummy", "E-CONST/E-OWN", "DummyDropRules: every []model.Rule field of model.ProfileRules is present, non-empty, each element exactly {Action: \"deny\"}; no store through the variable in felix/calc", 3)
	c.Rule("C05.nonnil", "E-FLOW", "every rules argument of ruleScanner.OnProfileActive is, per incoming path, &DummyDropRules or guarded non-nil", 2)
	c.Rule("C05.replace", "E-PAIR", "every Set/Delete on ActiveRulesCalculator.allProfileRules is followed on every returning path by a call that announces the profile to the rule scanner, unless profileIDToEndpointKeys.ContainsKey is false", 2)
	c.Rule("C05.validnil", "E-ERR", "in ValidationFilter.OnUpdates every error-returning call is tested against nil and every path from the non-nil edge to the store into the outgoing []api.Update passes a store of nil into update.Value; the slice forwarded to the sink is that outgoing slice", 3)
	c.Rule("C05.nomutate", "E-OWN", "methods of ValidationFilter store only through locals (alloc/make) and the receiver; never through a datastore value they were handed", 3)

	c.Rule("C05.relay", "E-ERR (forward dataflow over the error result)", "a Typha (de)serializer of updates returns a non-nil error only when the KEY conversion failed; a value that cannot be (de)serialized still yields an update for its key (nil value = absent), because the callers drop an update on error", 2)

	c.Rule("C05.tieraction", "E-FLOW (per-edge value provenance)", "every value stored into a DefaultAction field of the tier chain (model.Tier, calc.TierInfo, proto.TierInfo) is, per incoming path, a copy of another DefaultAction of the chain, a constant other than Pass, or the constant Pass under `source DefaultAction == Pass`; an unconditional Pass only on a fresh tier object confined to untracked/pre-DNAT policies", 4)
	c.Rule("C05.inheritreg", "E-GUARD/E-ORDER/E-FLOW", "the placeholder that stands for a referenced but missing profile in the label inheritance index survives while an endpoint references it (shared with C07.parentreg): a parent registry entry is deleted only when it has no children and no labels; an item is unregistered from / the registry entry dropped for an old parent only if that parent is not among the item's new parents (or after re-registration); an item's parent list holds registry objects only", 4)

	dummy := c05Dummy(c, p)
	c05NonNil(c, p, dummy)
	c05Replace(c, p)
	c05ValidNil(c, p)
	c05NoMutate(c, p)
	c05Relay(c, p)
	c05TierAction(c, p)
	c07ParentReg(c, p, "C05.inheritreg")
}

// ------------------------------------------------------------------ dummy --

func c05Dummy(c *Ctx, p *Prog) *ssa.Global {
	obj, _ := p.LookupObj(calcPkg, "DummyDropRules").(*types.Var)
	if obj == nil {
		c.Lost("var felix/calc.DummyDropRules")
	}
	pk := p.Pkg(calcPkg)
	var spec *ast.ValueSpec
	var idx int
	for _, f := range pk.Syntax {
		for _, d := range f.Decls {
			gd, ok := d.(*ast.GenDecl)
			if !ok || gd.Tok != token.VAR {
				continue
			}
			for _, s := range gd.Specs {
				vs := s.(*ast.ValueSpec)
				for i, n := range vs.Names {
					if pk.TypesInfo.Defs[n] == obj {
						spec, idx = vs, i
					}
				}
			}
		}
	}
	if spec == nil || idx >= len(spec.Values) {
		c.Lost("initialiser of felix/calc.DummyDropRules")
	}
	st, _ := obj.Type().Underlying().(*types.Struct)
	if st == nil || qualTypeName(obj.Type()) != "libcalico-go/lib/backend/model.ProfileRules" {
		c.Lost("DummyDropRules is no longer a model.ProfileRules struct (%s)", obj.Type())
	}
	site := p.Pos(spec.Pos())
	lit, _ := ast.Unparen(spec.Values[idx]).(*ast.CompositeLit)
	if lit == nil {
		c.Undecided("C05.dummy/DummyDropRules", site, "initialiser is not a composite literal")
		return nil
	}
	byField := map[string]ast.Expr{}
	keyed := true
	for _, e := range lit.Elts {
		kv, ok := e.(*ast.KeyValueExpr)
		if !ok {
			keyed = false
			continue
		}
		if id, ok := kv.Key.(*ast.Ident); ok {
			byField[id.Name] = kv.Value
		}
	}
	nRuleFields := 0
	for i := 0; i < st.NumFields(); i++ {
		f := st.Field(i)
		sl, ok := f.Type().Underlying().(*types.Slice)
		if !ok || qualTypeName(sl.Elem()) != "libcalico-go/lib/backend/model.Rule" {
			continue
		}
		nRuleFields++
		key := "C05.dummy/DummyDropRules." + f.Name()
		if !keyed {
			c.Undecided(key, site, "positional composite literal")
			continue
		}
		v, ok := byField[f.Name()]
		if !ok {
			c.Violate(key, site, "DummyDropRules does not set %s: traffic in that direction falls through the missing profile to the next profile instead of being denied", f.Name())
			continue
		}
		rl, _ := ast.Unparen(v).(*ast.CompositeLit)
		if rl == nil {
			c.Undecided(key, p.Pos(v.Pos()), "%s is not a composite literal", f.Name())
			continue
		}
		if len(rl.Elts) == 0 {
			c.Violate(key, p.Pos(v.Pos()), "DummyDropRules.%s is empty: no rule denies", f.Name())
			continue
		}
		bad := ""
		for i, el := range rl.Elts {
			rule, _ := ast.Unparen(el).(*ast.CompositeLit)
			if rule == nil {
				bad = fmt.Sprintf("element %d is not a composite literal", i)
				break
			}
			hasDeny := false
			for _, fe := range rule.Elts {
				kv, ok := fe.(*ast.KeyValueExpr)
				if !ok {
					bad = fmt.Sprintf("element %d uses positional fields", i)
					break
				}
				id, _ := kv.Key.(*ast.Ident)
				if id == nil {
					bad = fmt.Sprintf("element %d has a non-identifier key", i)
					break
				}
				if id.Name != "Action" {
					bad = fmt.Sprintf("element %d sets match field %s: the stand-in must deny everything", i, id.Name)
					break
				}
				cv, ok := constValue(pk.TypesInfo, kv.Value)
				if !ok || cv.Kind() != constant.String || constant.StringVal(cv) != "deny" {
					bad = fmt.Sprintf("element %d has Action %s, want \"deny\"", i, types.ExprString(kv.Value))
					break
				}
				hasDeny = true
			}
			if bad == "" && !hasDeny {
				bad = fmt.Sprintf("element %d has no Action", i)
			}
			if bad != "" {
				break
			}
		}
		c.Check(bad == "", key, p.Pos(v.Pos()),
			fmt.Sprintf("%d rule(s), each exactly {Action: \"deny\"}", len(rl.Elts)),
			"DummyDropRules."+f.Name()+": "+bad)
	}
	if nRuleFields == 0 {
		c.Lost("model.ProfileRules has no []model.Rule field")
	}

	// immutability: no Store / MapUpdate whose address is rooted at the global
	sp := p.SSAPkg(calcPkg)
	g, _ := sp.Members["DummyDropRules"].(*ssa.Global)
	if g == nil {
		c.Lost("SSA global DummyDropRules")
	}
	var hits []string
	for _, f := range p.AllFuncs() {
		allInstrs(f, false, func(fn *ssa.Function, in ssa.Instruction) {
			var addr ssa.Value
			switch x := in.(type) {
			case *ssa.Store:
				addr = x.Addr
			case *ssa.MapUpdate:
				addr = x.Map
			default:
				return
			}
			for _, r := range c05Roots(addr) {
				if r == ssa.Value(g) {
					hits = append(hits, fnName(fn)+" at "+p.Pos(in.Pos()))
				}
			}
		})
	}
	sort.Strings(hits)
	c.Check(len(hits) == 0, "C05.dummy/immutable", site, "no store through DummyDropRules in felix/calc",
		fmt.Sprintf("DummyDropRules is written after initialisation: %v (the deny stand-in is shared by every missing profile)", hits))
	return g
}

// c05Roots walks an address/value back through field/index/loads/phis to its
// root values.
func c05Roots(v ssa.Value) []ssa.Value {
	var out []ssa.Value
	seen := map[ssa.Value]bool{}
	var walk func(v ssa.Value)
	walk = func(v ssa.Value) {
		if v == nil || seen[v] {
			return
		}
		seen[v] = true
		switch x := v.(type) {
		case *ssa.FieldAddr:
			walk(x.X)
		case *ssa.Field:
			walk(x.X)
		case *ssa.IndexAddr:
			walk(x.X)
		case *ssa.Index:
			walk(x.X)
		case *ssa.Slice:
			walk(x.X)
		case *ssa.ChangeType:
			walk(x.X)
		case *ssa.Convert:
			walk(x.X)
		case *ssa.UnOp:
			if x.Op == token.MUL {
				// load of a pointer held in a local: follow what was stored there
				if al, ok := x.X.(*ssa.Alloc); ok && al.Referrers() != nil {
					n := 0
					for _, r := range *al.Referrers() {
						if st, ok := r.(*ssa.Store); ok && st.Addr == al {
							walk(st.Val)
							n++
						}
					}
					if n > 0 {
						return
					}
				}
				walk(x.X)
				return
			}
			out = append(out, v)
		case *ssa.Phi:
			for _, e := range x.Edges {
				walk(e)
			}
		default:
			out = append(out, v)
		}
	}
	walk(v)
	return out
}

// ----------------------------------------------------------------- nonnil --

func c05NonNil(c *Ctx, p *Prog, dummy *ssa.Global) {
	if dummy == nil {
		return
	}
	n := 0
	for _, f := range withClosures(p.methodsOf(calcPkg, "ActiveRulesCalculator")) {
		for _, cs := range callsIn(f, false, func(fn *types.Func) bool { return fn.Name() == "OnProfileActive" }) {
			args := cs.Args()
			if len(args) != 3 {
				continue
			}
			n++
			recv := lastField(args[0])
			if recv == "" {
				recv = path(args[0])
			}
			key := "C05.nonnil/" + fnName(f) + "/" + recv
			site := p.Pos(cs.Instr.Pos())
			bad := c05NonNilValue(args[2], cs.Instr, dummy, map[ssa.Value]bool{})
			c.Check(bad == "", key, site,
				"rules argument is &DummyDropRules or guarded non-nil on every incoming path",
				fmt.Sprintf("%s passes rules to %s.OnProfileActive that %s: an active profile must carry its real rules or the deny stand-in", fnName(f), recv, bad))
		}
	}
	if n == 0 {
		c.Lost("no call of OnProfileActive in ActiveRulesCalculator")
	}
}

// c05NonNilValue returns "" if v, as observed at instruction `at` (and, for a phi
// operand, after crossing the CFG edge pred->succ), is the address of
// DummyDropRules or known non-nil; otherwise a description.
func c05NonNilValue(v ssa.Value, at ssa.Instruction, dummy *ssa.Global, seen map[ssa.Value]bool) string {
	return c05NonNilEdge(v, at, nil, dummy, seen)
}

func c05NonNilEdge(v ssa.Value, at ssa.Instruction, succ *ssa.BasicBlock, dummy *ssa.Global, seen map[ssa.Value]bool) string {
	if v == ssa.Value(dummy) {
		return ""
	}
	if isNilConst(v) {
		return "may be nil (constant nil on some path)"
	}
	if phi, ok := v.(*ssa.Phi); ok {
		// only phis are memoised: a non-phi value must be re-examined on every
		// edge it arrives by (it may be guarded on one path and not on another)
		if seen[v] {
			return ""
		}
		seen[v] = true
		for i, e := range phi.Edges {
			pred := phi.Block().Preds[i]
			if len(pred.Instrs) == 0 {
				return "cannot be followed (empty predecessor)"
			}
			if s := c05NonNilEdge(e, pred.Instrs[len(pred.Instrs)-1], phi.Block(), dummy, seen); s != "" {
				return s
			}
		}
		return ""
	}
	if _, ok := v.(*ssa.Alloc); ok {
		return "is a freshly allocated value other than DummyDropRules (" + path(v) + ")"
	}
	// any other value must be established non-nil by a branch on every path to
	// `at`, or by the edge at->succ itself
	nonNil := eqCond(false, func(x ssa.Value) bool { return x == v }, isNilConst)
	if succ != nil {
		if ifi, ok := at.(*ssa.If); ok {
			b := at.Block()
			if len(b.Succs) == 2 && b.Succs[0] != b.Succs[1] {
				for k, s := range b.Succs {
					if s != succ {
						continue
					}
					if cnd, pol := stripNot(ifi.Cond, k == 0); nonNil(cnd, pol) {
						return ""
					}
				}
			}
		}
	}
	if guardedCut(at, nonNil) {
		return ""
	}
	return "may be nil: " + path(v) + " is not tested against nil on every path to the call"
}

// ---------------------------------------------------------------- replace --

// c05Escapes searches forward from the instruction after `from` (or from the
// start of each of `starts`) for a path that reaches a `bad` instruction without
// passing a `good` one and without crossing an If edge accepted by cut.
func c05Escapes(from ssa.Instruction, starts []*ssa.BasicBlock, good, bad func(ssa.Instruction) bool, cut EdgePred) ssa.Instruction {
	type item struct {
		b   *ssa.BasicBlock
		idx int
	}
	var st []item
	if from != nil {
		st = append(st, item{from.Block(), instrIndex(from) + 1})
	}
	for _, b := range starts {
		st = append(st, item{b, 0})
	}
	seen := map[*ssa.BasicBlock]bool{}
	for len(st) > 0 {
		it := st[len(st)-1]
		st = st[:len(st)-1]
		if it.idx == 0 {
			if seen[it.b] {
				continue
			}
			seen[it.b] = true
		}
		if isPanicBlock(it.b) {
			continue
		}
		stopped := false
		for _, in := range it.b.Instrs[it.idx:] {
			if good(in) {
				stopped = true
				break
			}
			if bad(in) {
				return in
			}
		}
		if stopped {
			continue
		}
		if ifi, ok := it.b.Instrs[len(it.b.Instrs)-1].(*ssa.If); ok && len(it.b.Succs) == 2 && cut != nil {
			for k, s := range it.b.Succs {
				cnd, pol := stripNot(ifi.Cond, k == 0)
				if it.b.Succs[0] != it.b.Succs[1] && cut(cnd, pol) {
					continue
				}
				st = append(st, item{s, 0})
			}
			continue
		}
		for _, s := range it.b.Succs {
			st = append(st, item{s, 0})
		}
	}
	return nil
}

// c05OnField: the receiver value v is field fv, or a (promoted / embedded) part
// of it: some step of v's access chain selects fv.
func c05OnField(v ssa.Value, fv *types.Var) bool {
	for i := 0; i < 8 && v != nil; i++ {
		switch x := v.(type) {
		case *ssa.UnOp:
			if x.Op != token.MUL {
				return false
			}
			v = x.X
		case *ssa.FieldAddr:
			if structField(x.X.Type(), x.Field) == fv {
				return true
			}
			v = x.X
		case *ssa.Field:
			if structField(x.X.Type(), x.Field) == fv {
				return true
			}
			v = x.X
		default:
			return false
		}
	}
	return false
}

func c05Replace(c *Ctx, p *Prog) {
	cache, _ := p.LookupObj(calcPkg, "ActiveRulesCalculator.allProfileRules").(*types.Var)
	active, _ := p.LookupObj(calcPkg, "ActiveRulesCalculator.profileIDToEndpointKeys").(*types.Var)
	if cache == nil || active == nil {
		c.Lost("ActiveRulesCalculator.allProfileRules / profileIDToEndpointKeys")
	}
	announces := func(in ssa.Instruction) bool {
		ci, ok := in.(ssa.CallInstruction)
		if !ok {
			return false
		}
		isAnn := func(f *types.Func) bool { return f.Name() == "OnProfileActive" || f.Name() == "OnProfileInactive" }
		if f := calleeOf(ci.Common()); f != nil && isAnn(f) {
			return true
		}
		sf := calleeFn(ci.Common())
		return sf != nil && containsCall(sf, 2, isAnn)
	}
	inactive := callCond(false, func(cs CallSite) bool {
		return cs.Callee != nil && cs.Callee.Name() == "ContainsKey" && len(cs.Args()) > 0 && c05OnField(cs.Args()[0], active)
	})
	n := 0
	for _, f := range withClosures(p.methodsOf(calcPkg, "ActiveRulesCalculator")) {
		for _, cs := range callsIn(f, false, func(fn *types.Func) bool { return fn.Name() == "Set" || fn.Name() == "Delete" }) {
			if len(cs.Args()) == 0 || !c05OnField(cs.Args()[0], cache) {
				continue
			}
			n++
			key := "C05.replace/" + fnName(f) + "/" + cache.Name() + "." + cs.Callee.Name()
			esc := c05Escapes(cs.Instr, nil, announces, func(in ssa.Instruction) bool { _, r := in.(*ssa.Return); return r }, inactive)
			if esc == nil {
				c.Ok(key, p.Pos(cs.Instr.Pos()), "every returning path after %s.%s re-announces the profile or has established that it is inactive", cache.Name(), cs.Callee.Name())
			} else {
				c.Violate(key, p.Pos(cs.Instr.Pos()), "%s: after %s.%s a path reaches the return at %s without announcing the profile to the rule scanner although it may be active: the dataplane keeps the previous rules (deny stand-in not replaced by a late profile / real rules kept after deletion)",
					fnName(f), cache.Name(), cs.Callee.Name(), p.Pos(esc.Pos()))
			}
		}
	}
	if n == 0 {
		c.Lost("no Set/Delete on ActiveRulesCalculator.allProfileRules")
	}
}

// --------------------------------------------------------------- validnil --

func c05ValidNil(c *Ctx, p *Prog) {
	fn := p.Func(calcPkg, "ValidationFilter.OnUpdates")
	if fn == nil {
		c.Lost("ValidationFilter.OnUpdates")
	}
	valueField, _ := p.LookupExt("libcalico-go/lib/backend/model", "KVPair.Value").(*types.Var)
	if valueField == nil {
		c.Lost("model.KVPair.Value")
	}
	errT := types.Universe.Lookup("error").Type()
	// sinks: stores of an api.Update into an element of a []api.Update
	var sinks []*ssa.Store
	var local *ssa.Alloc
	okLocal := true
	allInstrs(fn, false, func(_ *ssa.Function, in ssa.Instruction) {
		st, ok := in.(*ssa.Store)
		if !ok {
			return
		}
		if _, ok := st.Addr.(*ssa.IndexAddr); !ok || qualTypeName(st.Val.Type()) != "libcalico-go/lib/backend/api.Update" {
			return
		}
		sinks = append(sinks, st)
		ld, ok := st.Val.(*ssa.UnOp)
		if !ok || ld.Op != token.MUL {
			okLocal = false
			return
		}
		al, ok := ld.X.(*ssa.Alloc)
		if !ok || (local != nil && local != al) {
			okLocal = false
			return
		}
		local = al
	})
	if len(sinks) == 0 {
		c.Lost("ValidationFilter.OnUpdates: no store of an api.Update into an outgoing slice element")
	}
	isSink := func(in ssa.Instruction) bool {
		for _, s := range sinks {
			if ssa.Instruction(s) == in {
				return true
			}
		}
		return false
	}
	nilsValue := func(in ssa.Instruction) bool {
		st, ok := in.(*ssa.Store)
		if !ok || !isNilConst(st.Val) || fieldVar(st.Addr) != valueField {
			return false
		}
		for _, r := range c05Roots(st.Addr) {
			if r != ssa.Value(local) {
				return false
			}
		}
		return true
	}
	// forward: what is handed to the sink is the slice the filtered updates were
	// stored into, never the slice that came in
	sinkRoots := map[ssa.Value]bool{}
	for _, st := range sinks {
		for _, r := range c05Roots(st.Addr.(*ssa.IndexAddr).X) {
			sinkRoots[r] = true
		}
	}
	nFwd := 0
	for _, cs := range callsIn(fn, false, func(f *types.Func) bool { return f.Name() == "OnUpdates" }) {
		args := cs.Args()
		if len(args) != 2 {
			continue
		}
		nFwd++
		bad := ""
		roots := c05Roots(args[1])
		for _, r := range roots {
			if _, fresh := r.(*ssa.MakeSlice); !fresh || !sinkRoots[r] {
				bad = path(r)
			}
		}
		if len(roots) == 0 {
			bad = path(args[1])
		}
		c.Check(bad == "", "C05.validnil/forward/"+fnName(fn), p.Pos(cs.Instr.Pos()),
			"the slice passed on to the sink is the freshly made slice the filtered updates are stored into",
			fmt.Sprintf("%s passes %s to the sink's OnUpdates, which is not the slice the filtered updates are stored into: the unfiltered updates (with values that failed validation) reach the calculation graph", fnName(fn), bad))
	}
	if nFwd == 0 {
		c.Lost("ValidationFilter.OnUpdates: no call of the sink's OnUpdates")
	}
	n := 0
	allInstrs(fn, false, func(_ *ssa.Function, in ssa.Instruction) {
		call, ok := in.(*ssa.Call)
		if !ok || !types.Identical(call.Type(), errT) {
			return
		}
		n++
		name := c05CalleeName(call)
		key := "C05.validnil/" + name
		site := p.Pos(call.Pos())
		if !okLocal || local == nil {
			c.Undecided(key, site, "the value stored into the outgoing slice is not a load of one local api.Update")
			return
		}
		// the non-nil edges of tests of this error value
		var starts []*ssa.BasicBlock
		for _, b := range fn.Blocks {
			ifi, ok := b.Instrs[len(b.Instrs)-1].(*ssa.If)
			if !ok || len(b.Succs) != 2 {
				continue
			}
			for k, s := range b.Succs {
				cnd, pol := stripNot(ifi.Cond, k == 0)
				bo, ok := cnd.(*ssa.BinOp)
				if !ok || (bo.Op != token.EQL && bo.Op != token.NEQ) {
					continue
				}
				if !((bo.X == ssa.Value(call) && isNilConst(bo.Y)) || (bo.Y == ssa.Value(call) && isNilConst(bo.X))) {
					continue
				}
				isNil := pol == (bo.Op == token.EQL)
				if !isNil {
					starts = append(starts, s)
				}
			}
		}
		if len(starts) == 0 {
			c.Violate(key, site, "the error returned by %s is never compared with nil: a resource that fails validation is passed on", name)
			return
		}
		esc := c05Escapes(nil, starts, nilsValue, isSink, nil)
		if esc == nil {
			c.Ok(key, site, "every path from `%s(...) != nil` to the outgoing store sets %s.Value = nil first", name, local.Comment)
		} else {
			c.Violate(key, site, "a path from the non-nil result of %s reaches the store into the outgoing slice at %s without %s.Value = nil: a resource that failed validation is passed to the calculation graph", name, p.Pos(esc.Pos()), local.Comment)
		}
	})
	if n == 0 {
		c.Lost("ValidationFilter.OnUpdates: no error-returning call (validators)")
	}
}

func c05CalleeName(call *ssa.Call) string {
	if f := calleeOf(call.Common()); f != nil {
		return f.Name()
	}
	var names []string
	for _, o := range origins(call.Common().Value, nil) {
		if f, ok := o.V.(*ssa.Function); ok && f.Pkg != nil {
			segs := strings.Split(f.Pkg.Pkg.Path(), "/")
			short := segs[len(segs)-1]
			if len(segs) >= 2 {
				short = segs[len(segs)-2] + "/" + short
			}
			names = append(names, short+"."+f.Name())
		}
	}
	if len(names) == 0 {
		return "dynamic"
	}
	sort.Strings(names)
	return strings.Join(names, "+")
}

// --------------------------------------------------------------- nomutate --

func c05NoMutate(c *Ctx, p *Prog) {
	ms := p.methodsOf(calcPkg, "ValidationFilter")
	if len(ms) == 0 {
		c.Lost("methods of ValidationFilter")
	}
	for _, mth := range ms {
		var bad []string
		allInstrs(mth, true, func(fn *ssa.Function, in ssa.Instruction) {
			var addr ssa.Value
			switch x := in.(type) {
			case *ssa.Store:
				addr = x.Addr
			case *ssa.MapUpdate:
				addr = x.Map
			default:
				return
			}
			for _, r := range c05Roots(addr) {
				switch y := r.(type) {
				case *ssa.Alloc, *ssa.MakeSlice, *ssa.MakeMap, *ssa.FreeVar:
					continue
				case *ssa.Parameter:
					if len(mth.Params) > 0 && y == mth.Params[0] {
						continue // the receiver's own state
					}
				}
				bad = append(bad, fmt.Sprintf("store through %s at %s", path(addr), p.Pos(in.Pos())))
			}
		})
		sort.Strings(bad)
		c.Check(len(bad) == 0, "C05.nomutate/"+fnName(mth), p.Pos(mth.Pos()),
			"writes only to locals and the receiver",
			fmt.Sprintf("%s modifies a value it was handed: %v — the filter must pass a resource through unchanged or replace it by nil, never partially apply it", fnName(mth), bad))
	}
}

// ------------------------------------------------------------------ relay --

// c05Relay: the converters between api.Update and syncproto.SerializedUpdate.
// Their callers skip an update when the conversion returns an error, so an error
// is only acceptable when the key itself is unusable; a value problem must
// surface as an update for that key (with a nil value), never as a drop.
//
// Decided by a forward dataflow over each converter that tracks what the error
// result may hold (nil / the key conversion's error / any other error) through
// registers, phis and error-typed locals (named results), refined by `== nil`
// branches.  A return whose error may be an "other" error must lie behind the
// key-conversion-failed edge on every path.
func c05Relay(c *Ctx, p *Prog) {
	const modelPkg = "libcalico-go/lib/backend/model"
	sp := p.SSAPkg(c05ProtoPkg)
	if sp == nil {
		c.Lost("package %s", c05ProtoPkg)
	}
	keyFns := map[*types.Func]bool{}
	for _, n := range []string{"KeyFromDefaultPath", "KeyToDefaultPath"} {
		f, _ := p.LookupExt(modelPkg, n).(*types.Func)
		if f == nil {
			c.Lost("model.%s", n)
		}
		keyFns[f] = true
	}
	errT := types.Universe.Lookup("error").Type()
	isConv := func(f *ssa.Function) bool {
		res := f.Signature.Results()
		if res.Len() != 2 || !types.Identical(res.At(1).Type(), errT) {
			return false
		}
		switch qualTypeName(res.At(0).Type()) {
		case "libcalico-go/lib/backend/api.Update", c05ProtoPkg + ".SerializedUpdate":
			return true
		}
		return false
	}
	var convs []*ssa.Function
	for _, f := range p.AllFuncs() {
		if f.Pkg == sp && f.Parent() == nil && f.Blocks != nil && f.Synthetic == "" && isConv(f) {
			convs = append(convs, f)
		}
	}
	sort.Slice(convs, func(i, j int) bool { return fnName(convs[i]) < fnName(convs[j]) })
	if len(convs) == 0 {
		c.Lost("no function of %s returns (api.Update, error) or (SerializedUpdate, error)", c05ProtoPkg)
	}
	for _, f := range convs {
		c05RelayFn(c, p, f, keyFns)
	}
}

const (
	c05Nil   = 1 // nil
	c05Key   = 2 // the error of the key conversion
	c05Other = 4 // any other error
)

type c05ErrState struct {
	alloc   map[*ssa.Alloc]uint8 // error-typed locals
	nilRegs map[ssa.Value]bool   // registers known nil on every path here
}

func (s *c05ErrState) clone() *c05ErrState {
	n := &c05ErrState{alloc: map[*ssa.Alloc]uint8{}, nilRegs: map[ssa.Value]bool{}}
	for k, v := range s.alloc {
		n.alloc[k] = v
	}
	for k := range s.nilRegs {
		n.nilRegs[k] = true
	}
	return n
}

// join merges o into s; reports whether s changed.
func (s *c05ErrState) join(o *c05ErrState) bool {
	ch := false
	for k, v := range o.alloc {
		if s.alloc[k]|v != s.alloc[k] {
			s.alloc[k] |= v
			ch = true
		}
	}
	for k := range s.nilRegs {
		if !o.nilRegs[k] {
			delete(s.nilRegs, k)
			ch = true
		}
	}
	return ch
}

func c05RelayFn(c *Ctx, p *Prog, f *ssa.Function, keyFns map[*types.Func]bool) {
	key := "C05.relay/" + fnName(f)
	site := p.Pos(f.Pos())
	errT := types.Universe.Lookup("error").Type()
	// the key conversion(s)
	var keyCalls []*ssa.Call
	allInstrs(f, false, func(_ *ssa.Function, in ssa.Instruction) {
		if ci, ok := in.(*ssa.Call); ok {
			if fo := calleeOf(ci.Common()); fo != nil && keyFns[fo] {
				keyCalls = append(keyCalls, ci)
			}
		}
	})
	if len(keyCalls) == 0 {
		c.Lost("%s: no call of model.KeyFromDefaultPath / KeyToDefaultPath (the key conversion)", fnName(f))
	}
	isKeyCall := func(v ssa.Value) bool {
		for _, k := range keyCalls {
			if v == ssa.Value(k) {
				return true
			}
		}
		return false
	}
	// error of the key conversion: the call itself (single error result) or the error component of its tuple
	isKeyErr := func(v ssa.Value) bool {
		if isKeyCall(v) && types.Identical(v.Type(), errT) {
			return true
		}
		ex, ok := v.(*ssa.Extract)
		return ok && isKeyCall(ex.Tuple) && types.Identical(ex.Type(), errT)
	}
	// key conversion failed: its (non-error) result is nil, or its error is non-nil
	keyFailed := anyOf(
		c25NilCond(true, func(v ssa.Value) bool {
			if isKeyErr(v) {
				return false
			}
			if isKeyCall(v) {
				return true
			}
			ex, ok := v.(*ssa.Extract)
			return ok && isKeyCall(ex.Tuple)
		}),
		c25NilCond(false, isKeyErr))

	// tracked error locals: only stored to and loaded from
	tracked := map[*ssa.Alloc]bool{}
	untracked := map[*ssa.Alloc]bool{}
	allInstrs(f, false, func(_ *ssa.Function, in ssa.Instruction) {
		al, ok := in.(*ssa.Alloc)
		if !ok || !types.Identical(al.Type().(*types.Pointer).Elem(), errT) {
			return
		}
		simple := true
		if refs := al.Referrers(); refs != nil {
			for _, r := range *refs {
				switch x := r.(type) {
				case *ssa.Store:
					if x.Addr != ssa.Value(al) {
						simple = false
					}
				case *ssa.UnOp:
					if x.Op != token.MUL {
						simple = false
					}
				case *ssa.DebugRef:
				default:
					simple = false
				}
			}
		}
		if simple {
			tracked[al] = true
		} else {
			untracked[al] = true
		}
	})
	loadOf := func(v ssa.Value) *ssa.Alloc {
		if u, ok := v.(*ssa.UnOp); ok && u.Op == token.MUL {
			if al, ok := u.X.(*ssa.Alloc); ok && tracked[al] {
				return al
			}
		}
		return nil
	}
	// Loads of tracked locals are treated as registers whose value is what the
	// local held when the load executed (loadVal); a phi takes each operand with
	// the facts that held on the corresponding incoming edge (edgeSt).
	loadVal := map[ssa.Value]uint8{}
	type edge struct{ from, to *ssa.BasicBlock }
	edgeSt := map[edge]*c05ErrState{}
	var eval func(v ssa.Value, st *c05ErrState, seen map[ssa.Value]bool) uint8
	eval = func(v ssa.Value, st *c05ErrState, seen map[ssa.Value]bool) uint8 {
		if isNilConst(v) || st.nilRegs[v] {
			return c05Nil
		}
		if isKeyErr(v) {
			return c05Key | c05Nil
		}
		if al := loadOf(v); al != nil {
			return loadVal[v]
		}
		if phi, ok := v.(*ssa.Phi); ok {
			if seen[v] {
				return 0
			}
			seen[v] = true
			var m uint8
			for i, e := range phi.Edges {
				if es := edgeSt[edge{phi.Block().Preds[i], phi.Block()}]; es != nil {
					m |= eval(e, es, seen)
				}
			}
			return m
		}
		return c05Other | c05Nil
	}

	init := &c05ErrState{alloc: map[*ssa.Alloc]uint8{}, nilRegs: map[ssa.Value]bool{}}
	for al := range tracked {
		init.alloc[al] = c05Nil
	}
	in := map[*ssa.BasicBlock]*c05ErrState{f.Blocks[0]: init}
	type retInfo struct {
		mask uint8
		src  ssa.Value
	}
	rets := map[*ssa.Return]*retInfo{}
	// transfer runs block b from state st (modified in place) and returns, per
	// successor index, the state on that edge (nil = infeasible edge).
	transfer := func(b *ssa.BasicBlock, st *c05ErrState, final bool) []*c05ErrState {
		lastStore := map[*ssa.Alloc]int{} // index of the last store to each local in this block
		for i, ins := range b.Instrs {
			switch x := ins.(type) {
			case *ssa.UnOp:
				if al := loadOf(x); al != nil {
					loadVal[x] |= st.alloc[al]
				}
			case *ssa.Store:
				if al, ok := x.Addr.(*ssa.Alloc); ok && tracked[al] {
					st.alloc[al] = eval(x.Val, st, map[ssa.Value]bool{})
					lastStore[al] = i
				}
			case *ssa.Return:
				if final && len(x.Results) == 2 {
					rets[x] = &retInfo{mask: eval(x.Results[1], st, map[ssa.Value]bool{}), src: x.Results[1]}
				}
			}
		}
		if isPanicBlock(b) {
			return nil
		}
		outs := make([]*c05ErrState, len(b.Succs))
		ifi, isIf := b.Instrs[len(b.Instrs)-1].(*ssa.If)
		for k := range b.Succs {
			out := st.clone()
			outs[k] = out
			if !isIf || len(b.Succs) != 2 || b.Succs[0] == b.Succs[1] {
				continue
			}
			cnd, pol := stripNot(ifi.Cond, k == 0)
			bo, ok := cnd.(*ssa.BinOp)
			if !ok || (bo.Op != token.EQL && bo.Op != token.NEQ) {
				continue
			}
			var x ssa.Value
			if isNilConst(bo.Y) {
				x = bo.X
			} else if isNilConst(bo.X) {
				x = bo.Y
			}
			if x == nil || !types.Identical(x.Type(), errT) {
				continue
			}
			isNilEdge := pol == (bo.Op == token.EQL)
			if !isNilEdge && eval(x, st, map[ssa.Value]bool{}) == c05Nil {
				outs[k] = nil // infeasible edge
				continue
			}
			if isNilEdge {
				out.nilRegs[x] = true
			}
			if al := loadOf(x); al != nil {
				// refine the local too if the load is still current: same block, no store to the local after it
				ld := x.(*ssa.UnOp)
				if ls, stored := lastStore[al]; ld.Block() == b && (!stored || ls < instrIndex(ld)) {
					if isNilEdge {
						out.alloc[al] = c05Nil
					} else if out.alloc[al]&^c05Nil != 0 {
						out.alloc[al] &^= c05Nil
					}
				}
			}
		}
		return outs
	}
	work := []*ssa.BasicBlock{f.Blocks[0]}
	for n := 0; len(work) > 0; n++ {
		if n > 100000 {
			c.Undecided(key, site, "dataflow did not converge")
			return
		}
		b := work[len(work)-1]
		work = work[:len(work)-1]
		outs := transfer(b, in[b].clone(), false)
		for k, succ := range b.Succs {
			if outs == nil || outs[k] == nil {
				continue
			}
			// the edge state only ever weakens (join with what was seen before)
			e := edge{b, succ}
			chg := false
			if es := edgeSt[e]; es == nil {
				edgeSt[e] = outs[k].clone()
				chg = true
			} else {
				chg = es.join(outs[k])
			}
			if cur := in[succ]; cur == nil {
				in[succ] = outs[k].clone()
				chg = true
			} else if cur.join(outs[k]) {
				chg = true
			}
			if chg {
				work = append(work, succ)
			}
		}
	}
	// final sweep over the reached blocks with the converged states
	for _, b := range f.Blocks {
		if st := in[b]; st != nil {
			transfer(b, st.clone(), true)
		}
	}
	if len(rets) == 0 {
		c.Lost("%s: no reachable return", fnName(f))
	}
	var bad []string
	und := ""
	for r, ri := range rets {
		if u, ok := ri.src.(*ssa.UnOp); ok && u.Op == token.MUL {
			if al, ok := u.X.(*ssa.Alloc); ok && untracked[al] {
				und = "the error returned at " + p.Pos(r.Pos()) + " is a local whose address escapes"
			}
		}
		if ri.mask&c05Other == 0 {
			continue
		}
		if guardedCut(r, keyFailed) {
			continue
		}
		bad = append(bad, p.Pos(r.Pos()))
	}
	sort.Strings(bad)
	if und != "" && len(bad) == 0 {
		c.Undecided(key, site, "%s", und)
		return
	}
	c.Check(len(bad) == 0, key, site,
		fmt.Sprintf("%d return(s): a non-nil error is returned only when the key conversion failed", len(rets)),
		fmt.Sprintf("%s can return a non-nil error at %v although the key was converted (the error does not come from the key conversion and the return is not behind its failure): "+
			"the callers drop an update whose conversion fails, so a resource whose VALUE cannot be (de)serialized keeps its previous, stale version downstream instead of being treated as absent (update for the key with a nil value)", fnName(f), bad))
}
