package main

import (
	"go/ast"
	"go/constant"
	"go/token"
	"go/types"
	"sort"
	"strings"

	"golang.org/x/tools/go/packages"
	"golang.org/x/tools/go/ssa"
)

// ----------------------------------------------------- CHA within the roots --

// implsOf resolves an interface method to the concrete methods, declared in
// root packages, of every named type that implements the method's interface.
func (p *Prog) implsOf(m *types.Func) []*ssa.Function {
	sig, ok := m.Type().(*types.Signature)
	if !ok || sig.Recv() == nil {
		return nil
	}
	iface, _ := sig.Recv().Type().Underlying().(*types.Interface)
	if iface == nil {
		return nil
	}
	var out []*ssa.Function
	for _, pk := range p.Roots {
		sc := pk.Types.Scope()
		for _, name := range sc.Names() {
			tn, ok := sc.Lookup(name).(*types.TypeName)
			if !ok || tn.IsAlias() {
				continue
			}
			named, ok := tn.Type().(*types.Named)
			if !ok || named.TypeParams().Len() > 0 {
				continue
			}
			if _, isIface := named.Underlying().(*types.Interface); isIface {
				continue
			}
			for _, t := range []types.Type{named, types.NewPointer(named)} {
				if types.Implements(t, iface) {
					obj, _, _ := types.LookupFieldOrMethod(t, true, pk.Types, m.Name())
					if f, ok := obj.(*types.Func); ok {
						if sf := p.SSA.FuncValue(f); sf != nil && sf.Blocks != nil {
							out = append(out, sf)
						}
					}
					break
				}
			}
		}
	}
	return out
}

// closure returns the functions reachable from roots through static calls,
// closures and CHA-resolved interface calls (within the root packages).
func (p *Prog) closure(roots ...*ssa.Function) map[*ssa.Function]bool {
	return reachableFuncs(roots, p.implsOf)
}

// ------------------------------------------------------------- field reads --

// fieldsRead returns the names of the fields of struct type `typ` (a
// *types.Named or struct) that are read in the given functions: Field/FieldAddr
// whose address is loaded (not only stored to), plus generated getters GetX
// (mapped to field X) when called.
func fieldsRead(fns map[*ssa.Function]bool, typ types.Type) map[string][]ssa.Instruction {
	out := map[string][]ssa.Instruction{}
	target := derefType(typ)
	same := func(t types.Type) bool { return types.Identical(derefType(t), target) }
	for fn := range fns {
		if fn.Blocks == nil {
			continue
		}
		for _, b := range fn.Blocks {
			for _, in := range b.Instrs {
				switch x := in.(type) {
				case *ssa.Field:
					if same(x.X.Type()) {
						n := fieldName(x.X.Type(), x.Field)
						out[n] = append(out[n], in)
					}
				case *ssa.FieldAddr:
					if same(x.X.Type()) && addrIsRead(x) {
						n := fieldName(x.X.Type(), x.Field)
						out[n] = append(out[n], in)
					}
				case ssa.CallInstruction:
					f := calleeOf(x.Common())
					if f == nil || !strings.HasPrefix(f.Name(), "Get") {
						continue
					}
					sig := f.Type().(*types.Signature)
					if sig.Recv() != nil && same(sig.Recv().Type()) {
						n := strings.TrimPrefix(f.Name(), "Get")
						out[n] = append(out[n], in)
					}
				}
			}
		}
	}
	return out
}

func derefType(t types.Type) types.Type {
	t = types.Unalias(t)
	if p, ok := t.Underlying().(*types.Pointer); ok {
		if _, named := t.(*types.Named); !named {
			return types.Unalias(p.Elem())
		}
	}
	return t
}

// addrIsRead: the field address is used for something other than being the
// destination of a Store (load, passed on, sub-field access...).
func addrIsRead(fa *ssa.FieldAddr) bool {
	refs := fa.Referrers()
	if refs == nil {
		return true
	}
	for _, r := range *refs {
		if st, ok := r.(*ssa.Store); ok && st.Addr == fa {
			continue
		}
		if _, ok := r.(*ssa.DebugRef); ok {
			continue
		}
		return true
	}
	return false
}

// structFieldNames lists the fields of a struct type (exported only if asked).
func structFieldNames(t types.Type, exportedOnly bool) []string {
	st, _ := derefType(t).Underlying().(*types.Struct)
	if st == nil {
		return nil
	}
	var out []string
	for i := 0; i < st.NumFields(); i++ {
		f := st.Field(i)
		if exportedOnly && !f.Exported() {
			continue
		}
		out = append(out, f.Name())
	}
	return out
}

// --------------------------------------------------------------- AST utils --

// eachFuncDecl visits every function declaration with a body in a root package.
func (p *Prog) eachFuncDecl(pkgPath string, visit func(pk *packages.Package, fd *ast.FuncDecl)) {
	pk := p.Pkg(pkgPath)
	if pk == nil {
		return
	}
	for _, f := range pk.Syntax {
		for _, d := range f.Decls {
			if fd, ok := d.(*ast.FuncDecl); ok && fd.Body != nil {
				visit(pk, fd)
			}
		}
	}
}

// declOf returns the AST declaration for "Func" or "Type.Method" in a root package.
func (p *Prog) declOf(pkgPath, name string) (*ast.FuncDecl, *packages.Package) {
	fn, _ := p.LookupObj(pkgPath, name).(*types.Func)
	return p.FuncDecl(fn)
}

// constValue evaluates a constant expression through the type checker.
func constValue(info *types.Info, e ast.Expr) (constant.Value, bool) {
	tv, ok := info.Types[e]
	if !ok || tv.Value == nil {
		return nil, false
	}
	return tv.Value, true
}

// calleeObjAST resolves the called function object of an AST call expression.
func calleeObjAST(info *types.Info, ce *ast.CallExpr) *types.Func {
	var id *ast.Ident
	switch f := ast.Unparen(ce.Fun).(type) {
	case *ast.Ident:
		id = f
	case *ast.SelectorExpr:
		id = f.Sel
	case *ast.IndexExpr:
		switch g := ast.Unparen(f.X).(type) {
		case *ast.Ident:
			id = g
		case *ast.SelectorExpr:
			id = g.Sel
		}
	}
	if id == nil {
		return nil
	}
	fn, _ := info.Uses[id].(*types.Func)
	return fn
}

// methodChain flattens a fluent builder chain a.M1(x).M2(y).M3() into its calls
// (outermost last), returning the base expression.
func methodChain(e ast.Expr) (base ast.Expr, calls []*ast.CallExpr) {
	for {
		ce, ok := ast.Unparen(e).(*ast.CallExpr)
		if !ok {
			return e, calls
		}
		se, ok := ast.Unparen(ce.Fun).(*ast.SelectorExpr)
		if !ok {
			return e, calls
		}
		calls = append([]*ast.CallExpr{ce}, calls...)
		e = se.X
	}
}

// sortedKeys returns the sorted keys of a string-keyed map.
func sortedKeys[V any](m map[string]V) []string {
	out := make([]string, 0, len(m))
	for k := range m {
		out = append(out, k)
	}
	sort.Strings(out)
	return out
}

// missing returns want \ have.
func missing(want []string, have map[string]bool) []string {
	var out []string
	for _, w := range want {
		if !have[w] {
			out = append(out, w)
		}
	}
	return out
}

var _ = token.NoPos
