package main

import (
	"fmt"
	"go/types"
	"strings"

	"golang.org/x/tools/go/ssa"
)

const (
	c16IPSetsPkg = "felix/ipsets"
	c16DPPkg     = "felix/dataplane/linux"
)

func init() {
	register(&Property{
		ID:        "C16",
		Title:     "IP set sync converges and never breaks rules that use a set",
		Technique: "static analysis: SSA ordering of go statements / WaitGroup joins, who-may-destroy ownership, cut-set guard analysis, nil-error-edge analysis of deltatracker Iter closures, append-only accumulator flow + all-paths coverage of the restore failure handler, mutator -> updateDirtiness all-paths coverage with inputs derived from the predicate's field reads, path-sensitive non-zero (sentinel) value analysis across closures and goroutines for reschedule requests, symbolic string evaluation of regexp sources (go/ssa over felix/ipsets, felix/dataplane/linux, felix/iptables, felix/nftables, felix/rules)",
		DesignRef: "DESIGN.md §3 C16",
		Explanation: "Decides structural clauses of the property: (phase) in InternalDataplane.apply every goroutine that runs IPSetsDataplane.ApplyUpdates is joined (WaitGroup.Wait on the group it Done()s after the call) before anything that runs Table.Apply/CleanupTable.CleanUp starts, those are joined before any goroutine running ApplyDeletions starts, and all are joined before apply returns; " +
			"(destroy) the `ipset destroy` command is built in exactly one function, which is called only from closures iterating PendingDeletions() of the programmed-metadata tracker with the iterated name, and inside ApplyUpdates only under IsTempIPSetName; " +
			"(own) names read from `ipset list -name` are kept only under IPVersionConfig.OwnsIPSet; " +
			"(swap) writeUpdates only emits create/add/del/swap lines, create/add/del always address the target variable which is a fresh temporary name exactly when the metadata-differs condition holds, and the swap line is emitted under that same condition after all other lines; " +
			"(commit) tracked metadata is recorded only behind the nil check of the write error made after the last line, the dirty set is cleared only after the whole restore session reported no error; " +
			"(iteraction) Iter closures return IterActionUpdateDataplane only on the nil-error edge of their fallible call; " +
			"(requeue) in every function driving a restore session, each return reachable after a writeUpdates call either passed the nil check of the session error or ran a loop that re-queues at resyncPriMust a collection which append-only records (before the write) every set name handed to writeUpdates; " +
			"(dirty) the inputs of the dirtiness predicate are derived from the IPSets fields updateDirtiness reads: every store to a whole-plane input (the needed-set filter) is followed on every path by updateDirtiness(k) for every key of a set-name map, and every Desired()-side mutation of a member tracker taken from the tracker map under key k is followed on every path by updateDirtiness(k) (in the function or, for helpers, at each of its call sites); " +
			"(resched) a reschedule request is never dropped by InternalDataplane.apply: for every phase method with a boolean/numeric result (ApplyDeletions, Table.Apply, CleanupTable.CleanUp) the function calling it leaves, on every path from a non-zero (true) result to its exit, some local variable of apply provably non-zero; from the statement of apply that ran it, with those variables non-zero, every path to every return of apply starts the kick timer and stores its channel in the kick-channel field (zero is the 'nothing requested' sentinel of the delay, so min(delay, c), a cap without the ==0 case, an unguarded overwrite by another requester all leave it possibly zero); the main loop selects on that field and the arm sets a flag guarding the call of apply; " +
			"(ownpattern) every regexp source compiled in felix/ipsets, iptables, nftables, rules and dataplane/linux that splices strings.Join(prefixes, \"|\") into other text keeps the alternation directly enclosed (pattern start / group opener / `|` before it, pattern end / `)` / `|` after it), so an anchor or suffix applies to every prefix and OwnsIPSet-style ownership tests cannot match foreign names that merely contain a prefix.",
		NotDecided: "The value of the reschedule delay beyond non-zero (a negative or huge delay), whether the throttle admits the re-run, and requests relayed through channels or struct fields instead of apply's local variables (reported undecided, not guessed); alternations built by other means than strings.Join with a constant separator, and the contents of the joined elements (quoting).Dataplane()-side mutations of member trackers (writeUpdates, resync, ApplyDeletions) are reconciled by the session commit / resync paths, not by updateDirtiness, and are not part of (dirty); in-place mutation of the filter set by its owner after SetFilter; that resyncIPSet really re-reads a re-queued set. Convergence arithmetic (that the delta computed by the tracker is the right one); the kernel's swap atomicity; correctness of OwnsIPSet/IsTempIPSetName themselves; the nftables IP set implementation.",
		Assumptions: []string{
			"go/types + go/ssa (x/tools v0.50.0) model of the current source, CGO_ENABLED=0 build",
			"sync.WaitGroup Add/Done/Wait semantics; logrus Panic*/Fatal* do not return",
			"deltatracker.Pending*View.Iter applies IterActionUpdateDataplane as documented",
			"resched: apply's shared locals are accessed data-race free (mutex / atomic / joined goroutines, see phase); function values that cannot be resolved to a closure do not write them; time.Timer NewTimer/Reset/Stop semantics",
			"ownpattern: RE2 syntax (alternation binds loosest); non-constant pieces other than the join are self-contained, balanced regexp fragments",
		},
		Run: runC16,
		Fixtures: []Fixture{
			{Name: "tables start before IP set updates are joined", File: "felix/dataplane/linux/int_dataplane.go",
				Old: "\t// Wait for the IP sets update to finish.  We can't update iptables until it has.\n\tipSetsWG.Wait()\n", New: "", Expect: "C16.phase/apply/ApplyUpdates<"},
			{Name: "IP set deletions start before tables are joined", File: "felix/dataplane/linux/int_dataplane.go",
				Old: "\tiptablesWG.Wait()\n\n\t// Now clean up any left-over IP sets.\n", New: "\t// Now clean up any left-over IP sets.\n", Expect: "<ApplyDeletions"},
			{Name: "Done signalled before ApplyUpdates ran", File: "felix/dataplane/linux/int_dataplane.go",
				Old: "\t\t\tipSets.ApplyUpdates(nil)\n\t\t\td.reportHealth()\n\t\t\tipSetsWG.Done()\n", New: "\t\t\tipSetsWG.Done()\n\t\t\tipSets.ApplyUpdates(nil)\n\t\t\td.reportHealth()\n", Expect: "C16.phase/join/ApplyUpdates"},
			{Name: "IP sets' reschedule request merged with min(): zero delay stays zero", File: "felix/dataplane/linux/int_dataplane.go",
				Old: "\t\tif reschedDelay == 0 || reschedDelay > 100*time.Millisecond {\n\t\t\treschedDelay = 100 * time.Millisecond\n\t\t}\n", New: "\t\treschedDelay = min(reschedDelay, 100*time.Millisecond)\n", Expect: "C16.resched/armed/ApplyDeletions"},
			{Name: "a table answering 0 overwrites another table's reschedule request", File: "felix/dataplane/linux/int_dataplane.go",
				Old: "if tableReschedAfter != 0 && (reschedDelay == 0 || tableReschedAfter < reschedDelay) {", New: "if reschedDelay == 0 || tableReschedAfter < reschedDelay {", Expect: "C16.resched/armed/Table.Apply"},
			{Name: "ApplyDeletions' reschedule answer ignored by its goroutine", File: "felix/dataplane/linux/int_dataplane.go",
				Old: "\t\t\treschedule := s.ApplyDeletions()\n\t\t\tif reschedule {\n\t\t\t\tipSetsNeedsReschedule.Store(true)\n\t\t\t}\n", New: "\t\t\ts.ApplyDeletions()\n", Expect: "C16.resched/relay/ApplyDeletions"},
			{Name: "existing kick timer not reset", File: "felix/dataplane/linux/int_dataplane.go",
				Old: "\t\t\td.reschedTimer.Reset(reschedDelay)\n", New: "\t\t\t_ = reschedDelay\n", Expect: "C16.resched/armed/ApplyDeletions"},
			{Name: "reschedule kick received but apply not requested", File: "felix/dataplane/linux/int_dataplane.go",
				Old: "\t\t\tlog.Debug(\"Reschedule kick received\")\n\t\t\td.dataplaneNeedsSync = true\n", New: "\t\t\tlog.Debug(\"Reschedule kick received\")\n", Expect: "C16.resched/kick"},
			{Name: "IP set ownership regexp: grouping parentheses dropped", File: "felix/ipsets/ipset_defs.go",
				Old: "\"^(\" + strings.Join(versionedPrefixes, \"|\") + \")\"", New: "\"^\" + strings.Join(versionedPrefixes, \"|\")", Expect: "C16.ownpattern/ipsets.NewIPVersionConfig"},
			{Name: "iptables chain ownership regexp rebuilt with Sprintf without the group", File: "felix/iptables/table.go",
				Old: "\"^(\" + strings.Join(options.HistoricChainPrefixes, \"|\") + \")\"", New: "fmt.Sprintf(\"^%s\", strings.Join(options.HistoricChainPrefixes, \"|\"))", Expect: "C16.ownpattern/iptables.NewTable"},
			{Name: "workload interface regexp: suffix applies to the last prefix only", File: "felix/dataplane/linux/endpoint_mgr.go",
				Old: "\"^(\" + strings.Join(cfg.wlInterfacePrefixes, \"|\") + \").*\"", New: "\"(^\" + strings.Join(cfg.wlInterfacePrefixes, \"|\") + \".*)\"", Expect: "C16.ownpattern/linux.newEndpointManagerWithShims"},
			{Name: "eager destroy when a set is removed", File: "felix/ipsets/ipsets.go",
				Old: "\t\tdelete(s.mainSetNameToMembers, setName)\n\t}\n\ts.updateDirtiness(setName)\n}\n\nfunc (s *IPSets) nameForMainIPSet", New: "\t\tdelete(s.mainSetNameToMembers, setName)\n\t}\n\t_ = s.deleteIPSet(setName)\n\ts.updateDirtiness(setName)\n}\n\nfunc (s *IPSets) nameForMainIPSet", Expect: "C16.destroy/caller/IPSets.RemoveIPSet"},
			{Name: "ApplyUpdates-time cleanup deletes main sets too", File: "felix/ipsets/ipsets.go",
				Old: "\t\tif !s.IPVersionConfig.IsTempIPSetName(setName) {\n\t\t\treturn deltatracker.IterActionNoOp\n\t\t}\n", New: "", Expect: "C16.destroy/temp-only/IPSets.tryTempIPSetDeletions"},
			{Name: "direct ipset flush command", File: "felix/ipsets/ipsets.go",
				Old: "cmd := s.newCmd(\"ipset\", \"destroy\", string(setName))", New: "s.newCmd(\"ipset\", \"flush\", string(setName))\n\tcmd := s.newCmd(\"ipset\", \"destroy\", string(setName))", Expect: "C16.destroy/cmd/IPSets.deleteIPSet/flush"},
			{Name: "foreign IP sets are listed as ours", File: "felix/ipsets/ipsets.go",
				Old: "if !s.IPVersionConfig.OwnsIPSet(name) {", New: "if false {", Expect: "C16.own/CalicoIPSets"},
			{Name: "flush of the live set before rewriting it", File: "felix/ipsets/ipsets.go",
				Old: "\t\tlogCxt.WithField(\"ipSetToCreate\", targetSet).Debug(\"Creating IP set\")\n", New: "\t\twriteLine(\"flush %s\", setName)\n", Expect: "C16.swap/verbs"},
			{Name: "members added to the live set instead of the temp set", File: "felix/ipsets/ipsets.go",
				Old: "writeLine(\"add %s %s\", targetSet, memberStr)", New: "writeLine(\"add %s %s\", setName, memberStr)", Expect: "C16.swap/target/add"},
			{Name: "metadata change rewrites the live set in place", File: "felix/ipsets/ipsets.go",
				Old: "\t\ttargetSet = tempSet\n", New: "\t\ttargetSet = setName\n", Expect: "C16.swap/target-def"},
			{Name: "temp set used without creating it", File: "felix/ipsets/ipsets.go",
				Old: "\tif needCreate || needTempIPSet {\n\t\tlogCxt.WithField", New: "\tif needCreate {\n\t\tlogCxt.WithField", Expect: "C16.swap/create-first"},
			{Name: "swap written unconditionally", File: "felix/ipsets/ipsets.go",
				Old: "\tif needTempIPSet {\n\t\twriteLine(\"swap %s %s\", setName, targetSet)\n\t}\n", New: "\twriteLine(\"swap %s %s\", setName, targetSet)\n", Expect: "C16.swap/swap-last"},
			{Name: "metadata recorded without checking the last write", File: "felix/ipsets/ipsets.go",
				Old: "\tif err != nil {\n\t\treturn\n\t}\n\n\tif needCreate || needTempIPSet {\n\t\tif needTempIPSet {", New: "\tif needCreate || needTempIPSet {\n\t\tif needTempIPSet {", Expect: "C16.commit/IPSets.writeUpdates/Dataplane.Set"},
			{Name: "restore exit status ignored before clearing dirty sets", File: "felix/ipsets/ipsets.go",
				Old: "firstNonNilErr(writeErr, commitErr, flushErr, closeErr, processErr)", New: "firstNonNilErr(writeErr, commitErr, flushErr, closeErr)", Expect: "C16.commit/IPSets.tryUpdates/dirty-clear"},
			{Name: "temp-set deletion failure recorded as deleted", File: "felix/ipsets/ipsets.go",
				Old: "Warning(\"Failed to delete temp IP set. Will retry...\")\n\t\t\treturn deltatracker.IterActionNoOp", New: "Warning(\"Failed to delete temp IP set. Will retry...\")\n\t\t\treturn deltatracker.IterActionUpdateDataplane", Expect: "C16.iteraction/IPSets.tryTempIPSetDeletions/PendingDeletions/deleteIPSet"},
			{Name: "write error: only the last-touched set is re-queued", File: "felix/ipsets/ipsets.go",
				Old: "\t\tfor _, setName := range touchedIPSets {\n\t\t\ts.resyncQueue.Add(setName, resyncPriMust)\n", New: "\t\tif writeErr != nil {\n\t\t\ttouchedIPSets = touchedIPSets[len(touchedIPSets)-1:]\n\t\t}\n\t\tfor _, setName := range touchedIPSets {\n\t\t\ts.resyncQueue.Add(setName, resyncPriMust)\n", Expect: "C16.requeue/IPSets.tryUpdates/covers-written"},
			{Name: "set name recorded only after its write succeeded", File: "felix/ipsets/ipsets.go",
				Old: "\t\ttouchedIPSets = append(touchedIPSets, setName)\n\t\twriteErr = s.writeUpdates(setName, stdin, listener)\n\t\tif writeErr != nil {\n\t\t\tbreak\n\t\t}\n", New: "\t\twriteErr = s.writeUpdates(setName, stdin, listener)\n\t\tif writeErr != nil {\n\t\t\tbreak\n\t\t}\n\t\ttouchedIPSets = append(touchedIPSets, setName)\n", Expect: "C16.requeue/IPSets.tryUpdates/covers-written"},
			{Name: "sets re-queued only when the restore process reported an error", File: "felix/ipsets/ipsets.go",
				Old: "\t\tfor _, setName := range touchedIPSets {\n\t\t\ts.resyncQueue.Add(setName, resyncPriMust)\n\t\t}\n", New: "\t\tif processErr != nil {\n\t\t\tfor _, setName := range touchedIPSets {\n\t\t\t\ts.resyncQueue.Add(setName, resyncPriMust)\n\t\t\t}\n\t\t}\n", Expect: "C16.requeue/IPSets.tryUpdates/on-every-failure"},
			{Name: "failed session re-queued at background priority", File: "felix/ipsets/ipsets.go",
				Old: "s.resyncQueue.Add(setName, resyncPriMust)", New: "s.resyncQueue.Add(setName, resyncPriBackground)", Expect: "C16.requeue/IPSets.tryUpdates/priority"},
			{Name: "SetFilter re-evaluates dirtiness only for sets it filters out", File: "felix/ipsets/ipsets.go",
				Old: "\t\t\ts.setNameToProgrammedMetadata.Desired().Delete(name)\n\t\t}\n\t\ts.updateDirtiness(name)\n", New: "\t\t\ts.setNameToProgrammedMetadata.Desired().Delete(name)\n\t\t\ts.updateDirtiness(name)\n\t\t}\n", Expect: "C16.dirty/IPSets.SetFilter/neededIPSetNames"},
			{Name: "RemoveMembers does not re-evaluate dirtiness", File: "felix/ipsets/ipsets.go",
				Old: "\t\tmembersTracker.Desired().Delete(member)\n\t}\n\ts.updateDirtiness(setName)\n", New: "\t\tmembersTracker.Desired().Delete(member)\n\t}\n", Expect: "C16.dirty/IPSets.RemoveMembers/desired.Delete"},
			{Name: "AddOrReplaceIPSet re-evaluates dirtiness only when new members remain", File: "felix/ipsets/ipsets.go",
				Old: "\t\tdesiredMembers.Add(m)\n\t}\n\ts.updateDirtiness(mainIPSetName)\n", New: "\t\tdesiredMembers.Add(m)\n\t}\n\tif canonMembers.Len() > 0 {\n\t\ts.updateDirtiness(mainIPSetName)\n\t}\n", Expect: "C16.dirty/IPSets.AddOrReplaceIPSet/desired.Delete"},
			{Name: "member add recorded although the write failed", File: "felix/ipsets/ipsets.go",
				Old: "\t\t\treturn deltatracker.IterActionNoOpStopIteration\n\t\t}\n\t\tif listener != nil {", New: "\t\t\treturn deltatracker.IterActionUpdateDataplane\n\t\t}\n\t\tif listener != nil {", Expect: "C16.iteraction/IPSets.writeUpdates/PendingUpdates/closure-call"},
		},
	})
}

func runC16(c *Ctx) {
	// Sensitivity fixtures only re-analyse the package they mutate.
	runIPSets, runDP := true, true
	rePkgs := append([]string{}, c16PatternPkgs...)
	if c.Overlay != nil {
		runIPSets, runDP = false, false
		rePkgs = nil
		for f := range c.Overlay {
			if strings.Contains(f, "/"+c16IPSetsPkg+"/") {
				runIPSets = true
			}
			if strings.Contains(f, "/"+c16DPPkg+"/") {
				runDP = true
			}
			for _, pk := range c16PatternPkgs {
				if strings.Contains(f, "/"+pk+"/") {
					rePkgs = append(rePkgs, pk)
				}
			}
		}
	}
	if runIPSets {
		c16IPSets(c)
	}
	if runDP {
		c.Rule("C16.phase", "E-ORDER", "InternalDataplane.apply: go ApplyUpdates -> Wait -> Table.Apply/CleanUp -> Wait -> go ApplyDeletions -> Wait; each goroutine Done()s the waited group after its payload", 12)
		c16Phase(c)
	}
	if len(rePkgs) > 0 {
		c16OwnPattern(c, rePkgs)
	}
}

// ------------------------------------------------------------------ phase --

// c16Event is an instruction of apply() that (transitively) runs a target method.
type c16Event struct {
	Method  string
	Instr   ssa.Instruction     // in apply's own body
	Go      *ssa.Go             // spawning go statement; nil if the method runs synchronously
	GoFn    *ssa.Function       // function run by Go
	Payload ssa.CallInstruction // the call inside GoFn that runs the method
	WG      ssa.Value           // cell of the WaitGroup GoFn signals (resolved to apply's Alloc)
	ArgIdx  int                 // index of the function-valued argument running the method (helper idiom)
	Problem string              // why the join discipline is not established
}

func c16IsWGMethod(f *types.Func, name string) bool {
	return f != nil && f.Name() == name && f.Pkg() != nil && f.Pkg().Path() == "sync" && recvTypeName(f) == "WaitGroup"
}

// c16Runs reports whether fn (transitively, static calls and closures, depth 3;
// bound-method wrappers by their method object) calls method m.
func c16Runs(fn *ssa.Function, m *types.Func) bool {
	if fn == nil {
		return false
	}
	if fn.Synthetic != "" && fn.Object() == types.Object(m) {
		return true
	}
	return containsCall(fn, 3, func(f *types.Func) bool { return f == m })
}

// c16FuncsOfCall: the callee function and every function-valued argument.
func c16FuncsOfCall(cc *ssa.CallCommon) (callee *ssa.Function, args map[int]*ssa.Function) {
	args = map[int]*ssa.Function{}
	if !cc.IsInvoke() {
		if sc := cc.StaticCallee(); sc != nil {
			callee = sc
		} else {
			callee = c17FuncOfValue(cc.Value)
		}
	}
	for i, a := range cc.Args {
		if _, ok := a.Type().Underlying().(*types.Signature); ok {
			if f := c17FuncOfValue(a); f != nil {
				args[i] = f
			}
		}
	}
	return
}

func c16FirstGo(fn *ssa.Function) *ssa.Go {
	var g *ssa.Go
	n := 0
	allInstrs(fn, false, func(_ *ssa.Function, in ssa.Instruction) {
		if x, ok := in.(*ssa.Go); ok {
			n++
			g = x
		}
	})
	if n != 1 {
		return nil
	}
	return g
}

// c16Events finds the events for method m among apply's own instructions.
func c16Events(apply *ssa.Function, name string, m *types.Func) []*c16Event {
	var out []*c16Event
	for _, b := range apply.Blocks {
		for _, in := range b.Instrs {
			ci, ok := in.(ssa.CallInstruction)
			if !ok {
				continue
			}
			cc := ci.Common()
			if calleeOf(cc) == m { // direct synchronous call
				out = append(out, &c16Event{Method: name, Instr: in, Payload: ci})
				continue
			}
			callee, fargs := c16FuncsOfCall(cc)
			if g, isGo := in.(*ssa.Go); isGo {
				if c16Runs(callee, m) {
					ev := &c16Event{Method: name, Instr: in, Go: g, GoFn: callee}
					out = append(out, ev)
				}
				continue
			}
			if callee != nil && c16Runs(callee, m) {
				// synchronous helper (or helper that spawns with a fixed payload)
				ev := &c16Event{Method: name, Instr: in}
				if g := c16FirstGo(callee); g != nil {
					ev.Go, ev.GoFn = g, c17FuncOfValue(g.Call.Value)
					if ev.GoFn == nil {
						ev.GoFn = g.Call.StaticCallee()
					}
				}
				out = append(out, ev)
				continue
			}
			for ai := 0; ai < len(cc.Args); ai++ {
				fa := fargs[ai]
				if fa == nil || !c16Runs(fa, m) {
					continue
				}
				// a function value running m is handed to callee: how does callee run it?
				ev := &c16Event{Method: name, Instr: in, ArgIdx: ai}
				if callee == nil {
					ev.Problem = "function value running " + name + " is passed to a callee that cannot be resolved"
				} else if g := c16FirstGo(callee); g != nil {
					ev.Go = g
					ev.GoFn = c17FuncOfValue(g.Call.Value)
					if ev.GoFn == nil {
						ev.GoFn = g.Call.StaticCallee()
					}
				} else {
					nGo := 0
					allInstrs(callee, true, func(_ *ssa.Function, x ssa.Instruction) {
						if _, ok := x.(*ssa.Go); ok {
							nGo++
						}
					})
					if nGo > 0 {
						ev.Problem = "callee spawns goroutines in a shape the rule does not model"
					}
				}
				out = append(out, ev)
				break
			}
		}
	}
	return out
}

// c16IsHelperParam: v (a called func value inside a goroutine) is a parameter of
// helper — directly captured, or a load of the captured cell the parameter was
// spilled into (go/ssa spills captured parameters into an Alloc).
func c16IsHelperParam(v ssa.Value, helper *ssa.Function, idx int) bool {
	if ld, ok := v.(*ssa.UnOp); ok {
		al, ok := c17Cell(ld.X).(*ssa.Alloc)
		if !ok {
			return false
		}
		sts := c17StoresToCell(al)
		if len(sts) != 1 {
			return false
		}
		v = sts[0].Val
	} else {
		v = c17Cell(v)
	}
	pa, ok := v.(*ssa.Parameter)
	return ok && pa.Parent() == helper && idx < len(helper.Params) && helper.Params[idx] == pa
}

// c16ResolveJoin fills Payload/WG of an asynchronous event and checks the
// Add-before-go and Done-after-payload discipline.
func c16ResolveJoin(ev *c16Event, m *types.Func) {
	if ev.Go == nil || ev.Problem != "" {
		return
	}
	gf := ev.GoFn
	if gf == nil || gf.Blocks == nil {
		ev.Problem = "cannot resolve the function run by the go statement"
		return
	}
	// payload: the call inside gf that runs m — direct, or a call of a func
	// value that is a parameter of the enclosing helper (runTable(f) idiom).
	for _, b := range gf.Blocks {
		for _, in := range b.Instrs {
			ci, ok := in.(ssa.CallInstruction)
			if !ok {
				continue
			}
			if _, isDefer := in.(*ssa.Defer); isDefer {
				continue
			}
			cc := ci.Common()
			if calleeOf(cc) == m {
				ev.Payload = ci
			} else if sc := calleeFn(cc); sc != nil && c16Runs(sc, m) {
				ev.Payload = ci
			} else if calleeOf(cc) == nil && c16IsHelperParam(cc.Value, ev.Go.Parent(), ev.ArgIdx) {
				ev.Payload = ci
			}
		}
	}
	if ev.Payload == nil {
		ev.Problem = "cannot find the call that runs " + ev.Method + " inside the goroutine"
		return
	}
	// Done on a WaitGroup cell
	var done ssa.Instruction
	for _, b := range gf.Blocks {
		for _, in := range b.Instrs {
			ci, ok := in.(ssa.CallInstruction)
			if !ok || !c16IsWGMethod(calleeOf(ci.Common()), "Done") {
				continue
			}
			if done != nil {
				ev.Problem = "goroutine calls WaitGroup.Done more than once"
				return
			}
			done = in
			ev.WG = c17Cell(ci.Common().Args[0])
		}
	}
	if done == nil {
		ev.Problem = "goroutine never calls WaitGroup.Done"
		return
	}
	if _, isAlloc := ev.WG.(*ssa.Alloc); !isAlloc {
		ev.Problem = "WaitGroup signalled by the goroutine is not a local of apply"
		return
	}
	if _, deferred := done.(*ssa.Defer); !deferred && !instrDominates(ev.Payload, done) {
		ev.Problem = "WaitGroup.Done is not deferred and is not dominated by the call that runs " + ev.Method + " (Wait may return before the work finished)"
		return
	}
	// Add on the same group dominates the go statement
	added := false
	for _, cs := range callsIn(ev.Go.Parent(), false, func(f *types.Func) bool { return c16IsWGMethod(f, "Add") }) {
		if c17Cell(cs.Args()[0]) == ev.WG && instrDominates(cs.Instr, ev.Go) {
			added = true
		}
	}
	if !added {
		ev.Problem = "no WaitGroup.Add on the signalled group dominates the go statement"
	}
}

func c16Phase(c *Ctx) {
	p := c.Load(c16DPPkg)
	apply := p.Func(c16DPPkg, "InternalDataplane.apply")
	if apply == nil {
		c.Lost("InternalDataplane.apply")
	}
	meth := func(pkg, name string) *types.Func {
		f, _ := p.LookupExt(pkg, name).(*types.Func)
		if f == nil {
			c.Lost("%s.%s", pkg, name)
		}
		return f
	}
	type target struct {
		name string
		m    *types.Func
	}
	upd := target{"ApplyUpdates", meth("felix/dataplane/ipsets", "IPSetsDataplane.ApplyUpdates")}
	del := target{"ApplyDeletions", meth("felix/dataplane/ipsets", "IPSetsDataplane.ApplyDeletions")}
	tabs := []target{
		{"Table.Apply", meth("felix/generictables", "Table.Apply")},
		{"CleanupTable.CleanUp", meth("felix/generictables", "CleanupTable.CleanUp")},
	}
	events := map[string][]*c16Event{}
	for _, t := range append([]target{upd, del}, tabs...) {
		evs := c16Events(apply, t.name, t.m)
		if len(evs) == 0 {
			c.Lost("no instruction of InternalDataplane.apply runs %s", t.name)
		}
		for _, ev := range evs {
			c16ResolveJoin(ev, t.m)
		}
		events[t.name] = evs
	}
	var waits []CallSite
	for _, cs := range callsIn(apply, false, func(f *types.Func) bool { return c16IsWGMethod(f, "Wait") }) {
		waits = append(waits, cs)
	}

	// join discipline per event
	for _, name := range sortedKeys(events) {
		for _, ev := range events[name] {
			key := "C16.phase/join/" + name
			site := p.Pos(ev.Instr.Pos())
			switch {
			case ev.Problem != "":
				c.Violate(key, site, "%s: %s", name, ev.Problem)
			case ev.Go == nil:
				c.Ok(key, site, "%s runs synchronously in apply", name)
			default:
				c.Ok(key, site, "%s runs in a goroutine that signals %s after the call; Add dominates the go statement", name, path(ev.WG))
			}
		}
	}

	// joined(a, before): every path to `before` has waited for event a.
	joined := func(a *c16Event, before ssa.Instruction) (bool, string) {
		if a.Problem != "" {
			return false, "join discipline of " + a.Method + " not established"
		}
		if instrReaches(before, a.Instr) {
			return false, fmt.Sprintf("%s at %s can run again after %s", a.Method, p.Pos(a.Instr.Pos()), p.Pos(before.Pos()))
		}
		if a.Go == nil {
			return true, ""
		}
		for _, w := range waits {
			if c17Cell(w.Args()[0]) != a.WG {
				continue
			}
			if instrDominates(w.Instr, before) && instrReaches(a.Instr, w.Instr) && !instrReaches(w.Instr, a.Instr) {
				return true, ""
			}
		}
		return false, fmt.Sprintf("no %s.Wait() lies after %s (%s) and dominates %s", path(a.WG), a.Method, p.Pos(a.Instr.Pos()), p.Pos(before.Pos()))
	}
	order := func(as []*c16Event, bs []*c16Event, key string) {
		for _, b := range bs {
			for _, a := range as {
				if ok, why := joined(a, b.Instr); !ok {
					c.Violate(key, p.Pos(b.Instr.Pos()), "%s may start before %s has finished: %s", b.Method, a.Method, why)
					return
				}
			}
		}
		c.Ok(key, p.Pos(bs[0].Instr.Pos()), "%d site(s) of %s are each joined before %d site(s) of %s start", len(as), as[0].Method, len(bs), bs[0].Method)
	}
	for _, t := range tabs {
		order(events[upd.name], events[t.name], "C16.phase/apply/ApplyUpdates<"+t.name)
		order(events[t.name], events[del.name], "C16.phase/apply/"+t.name+"<ApplyDeletions")
	}
	// everything is joined before apply returns
	for _, name := range sortedKeys(events) {
		key := "C16.phase/drain/" + name
		bad := ""
		for _, ev := range events[name] {
			for _, r := range returnsOf(apply) {
				if ok, why := joined(ev, r); !ok {
					bad = why
				}
			}
		}
		c.Check(bad == "", key, p.Pos(apply.Pos()), "every goroutine running "+name+" is joined before apply returns", "apply can return while "+name+" is still running: "+bad)
	}

	// reschedule requests: the phase methods whose (single, boolean or numeric)
	// result asks apply to run again
	reqs := map[string][]*c16Event{}
	for _, t := range append([]target{upd, del}, tabs...) {
		res := t.m.Type().(*types.Signature).Results()
		if res.Len() != 1 {
			continue
		}
		if b, ok := res.At(0).Type().Underlying().(*types.Basic); ok && b.Info()&(types.IsBoolean|types.IsNumeric) != 0 {
			reqs[t.name] = events[t.name]
		}
	}
	if len(reqs[del.name]) == 0 {
		c.Lost("IPSetsDataplane.ApplyDeletions no longer returns a reschedule request")
	}
	c16Resched(c, p, apply, reqs)
}

// ----------------------------------------------------------------- ipsets --

func c16IPSets(c *Ctx) {
	c.Rule("C16.iteraction", "E-ERR", "closures handed to Pending*().Iter in felix/ipsets return IterActionUpdateDataplane only behind the nil-error edge of their fallible call", 4)
	c.Rule("C16.destroy", "E-OWN/E-GUARD", "direct ipset commands are list/restore/destroy only; destroy is built in one function, called only with the key of a PendingDeletions().Iter closure of the metadata tracker, and on the ApplyUpdates path only under IsTempIPSetName", 7)
	c.Rule("C16.own", "E-GUARD", "names scanned from `ipset list` output in CalicoIPSets are kept only under IPVersionConfig.OwnsIPSet(name)", 1)
	c.Rule("C16.swap", "E-ORDER/E-FLOW", "writeUpdates: only create/add/del/swap lines; create/add/del address the target variable, which is a fresh temp name iff the metadata-differs condition; create precedes add/del; swap(main,target) last and only under that condition", 9)
	c.Rule("C16.commit", "E-ERR", "tracked metadata recorded only behind the nil check of the write error made after the last line; dirty set cleared only after the whole restore session reported no error", 3)

	c.Rule("C16.requeue", "E-FLOW/E-ERR", "restore session driver: on every path where the session error was not checked nil, a collection that append-only records every name handed to writeUpdates (before the write) is re-queued at resyncPriMust", 3)
	c.Rule("C16.dirty", "E-FLOW/E-ORDER", "every store to a whole-plane input of updateDirtiness (fields it reads) is followed on every path by updateDirtiness(k) for every key of a set-name map; every Desired()-side mutation of a member tracker taken under key k is followed on every path by updateDirtiness(k)", 6)

	p := c.Load(c16IPSetsPkg)
	sites, _ := c17CheckIterAction(c, p, "C16.iteraction", c16IPSetsPkg)
	c16Destroy(c, p, sites)
	c16Own(c, p)
	c16Swap(c, p)
	c16Requeue(c, p, c16WriterFn(c, p))
	c16Dirty(c, p)
}

// c16VariadicElems returns the elements of a variadic argument slice built at
// the call site (`f(a, b, c...)` lowers to new [N]T + IndexAddr stores + Slice).
func c16VariadicElems(v ssa.Value) ([]ssa.Value, bool) {
	if isNilConst(v) {
		return nil, true
	}
	sl, ok := v.(*ssa.Slice)
	if !ok {
		return nil, false
	}
	al, ok := sl.X.(*ssa.Alloc)
	if !ok || al.Referrers() == nil {
		return nil, false
	}
	pt, ok := al.Type().Underlying().(*types.Pointer)
	if !ok {
		return nil, false
	}
	arr, ok := pt.Elem().Underlying().(*types.Array)
	if !ok {
		return nil, false
	}
	elems := make([]ssa.Value, arr.Len())
	for _, r := range *al.Referrers() {
		ia, ok := r.(*ssa.IndexAddr)
		if !ok {
			continue
		}
		k, ok := constOf(ia.Index)
		if !ok || ia.Referrers() == nil {
			return nil, false
		}
		var idx int64
		fmt.Sscan(k.ExactString(), &idx)
		for _, rr := range *ia.Referrers() {
			if st, ok := rr.(*ssa.Store); ok && st.Addr == ia && idx >= 0 && idx < int64(len(elems)) {
				elems[idx] = st.Val
			}
		}
	}
	for _, e := range elems {
		if e == nil {
			return nil, false
		}
	}
	return elems, true
}

func c16Unwrap(v ssa.Value) ssa.Value {
	for {
		switch x := v.(type) {
		case *ssa.MakeInterface:
			v = x.X
		case *ssa.ChangeType:
			v = x.X
		case *ssa.Convert:
			v = x.X
		default:
			return v
		}
	}
}

func c16ConstString(v ssa.Value) (string, bool) {
	k, ok := constOf(v)
	if !ok || k.Kind().String() != "String" {
		return "", false
	}
	var s string
	if _, err := fmt.Sscanf(k.ExactString(), "%q", &s); err != nil {
		return "", false
	}
	return s, true
}

func c16PkgFuncs(p *Prog, pkg string) []*ssa.Function {
	var out []*ssa.Function
	for _, fn := range p.AllFuncs() {
		top := topFn(fn)
		if top.Pkg != nil && top.Pkg.Pkg.Path() == calicoPrefix+pkg {
			out = append(out, fn)
		}
	}
	return out
}

func c16Destroy(c *Ctx, p *Prog, sites []c17IterSite) {
	funcs := c16PkgFuncs(p, c16IPSetsPkg)
	allowed := map[string]bool{"list": true, "restore": true, "destroy": true}
	var destroyFns []*ssa.Function
	destroySeen := map[*ssa.Function]bool{}
	nCmd := 0
	for _, fn := range funcs {
		for _, b := range fn.Blocks {
			for _, in := range b.Instrs {
				ci, ok := in.(ssa.CallInstruction)
				if !ok {
					continue
				}
				cc := ci.Common()
				if cc.IsInvoke() || cc.StaticCallee() != nil || cc.Signature() == nil {
					continue
				}
				res := cc.Signature().Results()
				if res.Len() != 1 || qualTypeName(res.At(0).Type()) != c16IPSetsPkg+".CmdIface" {
					continue
				}
				nCmd++
				site := p.Pos(in.Pos())
				key := "C16.destroy/cmd/" + fnName(fn)
				prog, okp := "", false
				if len(cc.Args) >= 1 {
					prog, okp = c16ConstString(cc.Args[0])
				}
				var elems []ssa.Value
				oke := false
				if len(cc.Args) >= 2 {
					elems, oke = c16VariadicElems(cc.Args[1])
				}
				if !okp || !oke || len(elems) == 0 {
					c.Undecided(key, site, "command built with a non-constant program or argument list")
					continue
				}
				verb, okv := c16ConstString(elems[0])
				if !okv {
					c.Undecided(key, site, "command verb is not a constant")
					continue
				}
				key += "/" + verb
				if prog != "ipset" || !allowed[verb] {
					c.Violate(key, site, "%s runs `%s %s` directly: only list, restore and destroy may be issued outside the restore stream (anything else can expose an intermediate state of an in-use set)", fnName(fn), prog, verb)
					continue
				}
				if verb == "destroy" {
					// the destroyed name must be the function's own parameter
					if len(elems) != 2 {
						c.Violate(key, site, "`ipset destroy` built with %d arguments", len(elems)-1)
						continue
					}
					if pa, ok := c16Unwrap(elems[1]).(*ssa.Parameter); !ok || pa.Parent() != fn || fn.Parent() != nil {
						c.Violate(key, site, "`ipset destroy` target is not a parameter of the top-level function that builds the command (callers cannot be audited)")
						continue
					}
					if !destroySeen[fn] {
						destroySeen[fn] = true
						destroyFns = append(destroyFns, fn)
					}
				}
				c.Ok(key, site, "`ipset %s` built in %s", verb, fnName(fn))
			}
		}
	}
	if nCmd == 0 {
		c.Lost("no command construction (call of a func value returning ipsets.CmdIface) in felix/ipsets")
	}
	if len(destroyFns) != 1 {
		c.Violate("C16.destroy/single-site", "felix/ipsets", "`ipset destroy` is built in %d functions, expected exactly one", len(destroyFns))
		return
	}
	df := destroyFns[0]
	c.Ok("C16.destroy/single-site", p.Pos(df.Pos()), "`ipset destroy` is built only in %s", fnName(df))

	// callers of df
	applyUpd := p.Func(c16IPSetsPkg, "IPSets.ApplyUpdates")
	isTemp, _ := p.LookupObj(c16IPSetsPkg, "IPVersionConfig.IsTempIPSetName").(*types.Func)
	if applyUpd == nil || isTemp == nil {
		c.Lost("IPSets.ApplyUpdates / IPVersionConfig.IsTempIPSetName")
	}
	onUpdatePath := p.closure(applyUpd)
	closureSite := map[*ssa.Function]c17IterSite{}
	for _, s := range sites {
		if s.Closure != nil {
			closureSite[s.Closure] = s
		}
	}
	nCallers := 0
	for _, fn := range funcs {
		for _, b := range fn.Blocks {
			for _, in := range b.Instrs {
				// escaping references
				if _, isCall := in.(ssa.CallInstruction); !isCall {
					for _, op := range in.Operands(nil) {
						if *op == ssa.Value(df) {
							c.Violate("C16.destroy/caller/"+fnName(fn), p.Pos(in.Pos()), "%s is used as a value in %s; its callers cannot be audited", fnName(df), fnName(fn))
						}
					}
					continue
				}
				ci := in.(ssa.CallInstruction)
				cc := ci.Common()
				if cc.StaticCallee() != df {
					for _, a := range cc.Args {
						if a == ssa.Value(df) {
							c.Violate("C16.destroy/caller/"+fnName(fn), p.Pos(in.Pos()), "%s is passed as a value in %s; its callers cannot be audited", fnName(df), fnName(fn))
						}
					}
					continue
				}
				nCallers++
				key := "C16.destroy/caller/" + fnName(topFn(fn))
				site := p.Pos(in.Pos())
				s, ok := closureSite[fn]
				nameArg := c16Unwrap(cc.Args[len(cc.Args)-1])
				switch {
				case !ok || s.Kind != "PendingDeletions" || recvTypeName(s.Call.Callee) != "PendingDeletionsView":
					c.Violate(key, site, "%s (ipset destroy) is called from %s, which is not a closure iterating PendingDeletions() of a DeltaTracker: a set that is still desired could be destroyed", fnName(df), fnName(fn))
					continue
				case len(fn.Params) == 0 || nameArg != ssa.Value(fn.Params[0]):
					c.Violate(key, site, "%s is called with %s, not with the key handed to the PendingDeletions().Iter closure", fnName(df), path(cc.Args[len(cc.Args)-1]))
					continue
				case fieldVar(s.Tracker) == nil:
					c.Undecided(key, site, "cannot resolve the tracker whose PendingDeletions are iterated")
					continue
				}
				c.Ok(key, site, "destroys exactly the key iterated from %s.PendingDeletions()", fieldVar(s.Tracker).Name())
				if onUpdatePath[topFn(fn)] {
					k2 := "C16.destroy/temp-only/" + fnName(topFn(fn))
					g := guardedCut(in, callCond(true, func(g CallSite) bool {
						return g.Callee == isTemp && len(g.Args()) == 2 && c16Unwrap(g.Args()[1]) == nameArg
					}))
					c.Check(g, k2, site, "destroy on the ApplyUpdates path is guarded by IsTempIPSetName(key)",
						fnName(topFn(fn))+" runs inside ApplyUpdates (before the tables are updated) and destroys a set without an IsTempIPSetName(key) guard: a main set still referenced by rules could be destroyed")
				}
			}
		}
	}
	if nCallers == 0 {
		c.Lost("no caller of %s", fnName(df))
	}
}

func c16Own(c *Ctx, p *Prog) {
	root := p.Func(c16IPSetsPkg, "IPSets.CalicoIPSets")
	owns, _ := p.LookupObj(c16IPSetsPkg, "IPVersionConfig.OwnsIPSet").(*types.Func)
	if root == nil || owns == nil {
		c.Lost("IPSets.CalicoIPSets / IPVersionConfig.OwnsIPSet")
	}
	isScanText := func(v ssa.Value) bool {
		for _, o := range origins(v, nil) {
			if call, ok := o.V.(*ssa.Call); ok {
				if f := calleeOf(call.Common()); f != nil && f.Name() == "Text" && qualTypeName(f.Type().(*types.Signature).Recv().Type()) == "bufio.Scanner" {
					return true
				}
			}
		}
		return false
	}
	n := 0
	allInstrs(root, true, func(fn *ssa.Function, in ssa.Instruction) {
		cc, ok := isBuiltinCall(in, "append")
		if !ok || len(cc.Args) != 2 {
			return
		}
		elems, ok := c16VariadicElems(cc.Args[1])
		if !ok {
			if isScanText(cc.Args[1]) {
				c.Undecided("C16.own/CalicoIPSets", p.Pos(in.Pos()), "append of scanned names in a shape the rule does not model")
			}
			return
		}
		for _, e := range elems {
			if !isScanText(e) {
				continue
			}
			n++
			g := guardedCut(in, callCond(true, func(g CallSite) bool {
				return g.Callee == owns && len(g.Args()) == 2 && g.Args()[1] == e
			}))
			c.Check(g, "C16.own/CalicoIPSets", p.Pos(in.Pos()), "scanned set name is kept only under OwnsIPSet(name)",
				"a name scanned from `ipset list` output is appended to the result without an OwnsIPSet(name) guard: foreign sets would enter the tracker and be deleted as unwanted")
		}
	})
	if n == 0 {
		c.Lost("CalicoIPSets no longer appends names scanned from the `ipset list` output")
	}
}

// c16LineEvent is one line written to the `ipset restore` stream.
type c16LineEvent struct {
	Call  ssa.CallInstruction
	Verb  string
	Elems []ssa.Value     // format arguments
	Pos   ssa.Instruction // position in writeUpdates' own body (the Iter call for lines written from closures)
}

// c16WriterFn: writeUpdates = the method of IPSets that has an io.Writer parameter.
func c16WriterFn(c *Ctx, p *Prog) *ssa.Function {
	var W *ssa.Function
	for _, m := range p.methodsOf(c16IPSetsPkg, "IPSets") {
		for _, pa := range m.Params {
			if qualTypeName(pa.Type()) == "io.Writer" {
				if W != nil && W != m {
					c.Lost("more than one IPSets method takes an io.Writer")
				}
				W = m
			}
		}
	}
	if W == nil {
		c.Lost("no IPSets method takes an io.Writer (writeUpdates)")
	}
	return W
}

func c16Swap(c *Ctx, p *Prog) {
	W := c16WriterFn(c, p)
	var setName *ssa.Parameter
	for _, pa := range W.Params[1:] {
		if b, ok := pa.Type().Underlying().(*types.Basic); ok && b.Kind() == types.String {
			if setName != nil {
				c.Lost("%s has more than one string parameter", fnName(W))
			}
			setName = pa
		}
	}
	if setName == nil {
		c.Lost("%s has no string parameter (set name)", fnName(W))
	}
	// line sink: the closure of W that calls Write on an io.Writer
	var sink *ssa.Function
	for _, af := range W.AnonFuncs {
		for _, cs := range callsIn(af, false, func(f *types.Func) bool { return f.Name() == "Write" }) {
			if cs.Common().IsInvoke() && qualTypeName(cs.Common().Value.Type()) == "io.Writer" {
				if sink != nil && sink != af {
					c.Lost("more than one closure of %s writes to the io.Writer", fnName(W))
				}
				sink = af
			}
		}
	}
	if sink == nil {
		c.Lost("no closure of %s writes to the io.Writer", fnName(W))
	}
	for _, cs := range callsIn(W, false, func(f *types.Func) bool { return f.Name() == "Write" }) {
		if cs.Common().IsInvoke() && qualTypeName(cs.Common().Value.Type()) == "io.Writer" {
			c.Undecided("C16.swap/verbs", p.Pos(cs.Instr.Pos()), "%s writes to the restore stream outside its line-writing closure", fnName(W))
		}
	}
	var errCell *ssa.Alloc
	allInstrs(sink, false, func(_ *ssa.Function, in ssa.Instruction) {
		if st, ok := in.(*ssa.Store); ok && c17IsErrorType(st.Val.Type()) {
			if al, ok := c17Cell(st.Addr).(*ssa.Alloc); ok && al.Parent() == W {
				errCell = al
			}
		}
	})
	if errCell == nil {
		c.Lost("line-writing closure of %s does not record its error in a variable of %s", fnName(W), fnName(W))
	}
	// line events
	var events []*c16LineEvent
	wSite := p.Pos(W.Pos())
	undec := false
	allInstrs(W, true, func(fn *ssa.Function, in ssa.Instruction) {
		ci, ok := in.(ssa.CallInstruction)
		if !ok || fn == sink || calleeOf(ci.Common()) != nil {
			return
		}
		cc := ci.Common()
		if c17FuncOfValue(cc.Value) != sink {
			return
		}
		ev := &c16LineEvent{Call: ci, Pos: in}
		format, okf := "", false
		if len(cc.Args) >= 1 {
			format, okf = c16ConstString(cc.Args[0])
		}
		var oke bool
		if len(cc.Args) >= 2 {
			ev.Elems, oke = c16VariadicElems(cc.Args[1])
		}
		if !okf || !oke || len(strings.Fields(format)) == 0 {
			c.Undecided("C16.swap/verbs", p.Pos(in.Pos()), "restore line with a non-constant format or argument list")
			undec = true
			return
		}
		ev.Verb = strings.Fields(format)[0]
		if fn != W {
			// position of the closure's use in W
			if fn.Parent() != W {
				c.Undecided("C16.swap/verbs", p.Pos(in.Pos()), "restore line written from a doubly nested closure")
				undec = true
				return
			}
			mc := c17MakeClosureOf(fn)
			ev.Pos = nil
			if mc != nil && mc.Referrers() != nil {
				for _, r := range *mc.Referrers() {
					if _, ok := r.(ssa.CallInstruction); ok && r.Parent() == W {
						ev.Pos = r
					}
				}
			}
			if ev.Pos == nil {
				c.Undecided("C16.swap/verbs", p.Pos(in.Pos()), "cannot locate where the closure writing this line is used")
				undec = true
				return
			}
		}
		events = append(events, ev)
	})
	if undec {
		return
	}
	byVerb := map[string][]*c16LineEvent{}
	for _, ev := range events {
		byVerb[ev.Verb] = append(byVerb[ev.Verb], ev)
	}
	var extra []string
	for _, v := range sortedKeys(byVerb) {
		if v != "create" && v != "add" && v != "del" && v != "swap" {
			extra = append(extra, v)
		}
	}
	c.Check(len(extra) == 0, "C16.swap/verbs", wSite, fmt.Sprintf("restore lines are %v only", sortedKeys(byVerb)),
		fmt.Sprintf("%s writes `%s` lines to the restore stream: flush/destroy/rename of a live set exposes an intermediate state or removes a desired set", fnName(W), strings.Join(extra, ",")))
	for _, v := range []string{"create", "add", "del", "swap"} {
		if len(byVerb[v]) == 0 {
			c.Lost("%s writes no `%s` line", fnName(W), v)
		}
	}

	// target cell: create/add/del all address the same captured/local variable
	var T *ssa.Alloc
	for _, v := range []string{"create", "add", "del"} {
		bad := ""
		for _, ev := range byVerb[v] {
			if len(ev.Elems) == 0 {
				bad = "line without arguments"
				continue
			}
			ld, ok := c16Unwrap(ev.Elems[0]).(*ssa.UnOp)
			var cell *ssa.Alloc
			if ok {
				cell, _ = c17Cell(ld.X).(*ssa.Alloc)
			}
			if cell == nil || cell.Parent() != W {
				bad = fmt.Sprintf("`%s` line at %s addresses %s, not the target-set variable", v, p.Pos(ev.Call.Pos()), path(ev.Elems[0]))
				continue
			}
			if T == nil {
				T = cell
			} else if T != cell {
				bad = fmt.Sprintf("`%s` line at %s addresses a different variable (%s) than the other lines (%s)", v, p.Pos(ev.Call.Pos()), cell.Comment, T.Comment)
			}
		}
		c.Check(bad == "", "C16.swap/target/"+v, p.Pos(byVerb[v][0].Call.Pos()), fmt.Sprintf("%d `%s` line(s) address the target-set variable", len(byVerb[v]), v),
			bad+": when the metadata differs the in-use set itself would be modified instead of the temporary set")
	}
	if T == nil {
		return
	}
	// definition of T: temp name under C, main name under !C
	tempName, _ := p.LookupObj(c16IPSetsPkg, "IPVersionConfig.NameForTempIPSet").(*types.Func)
	if tempName == nil {
		c.Lost("IPVersionConfig.NameForTempIPSet")
	}
	isTempSource := func(v ssa.Value) bool {
		os := origins(v, nil)
		if len(os) == 0 {
			return false
		}
		for _, o := range os {
			call, ok := o.V.(*ssa.Call)
			if !ok {
				return false
			}
			f := calleeOf(call.Common())
			if f == tempName {
				continue
			}
			sf := calleeFn(call.Common())
			if sf == nil || sf.Blocks == nil {
				return false
			}
			for _, r := range returnsOf(sf) {
				for _, res := range r.Results {
					for _, ro := range origins(res, nil) {
						rc, ok := ro.V.(*ssa.Call)
						if !ok || calleeOf(rc.Common()) != tempName {
							return false
						}
					}
				}
			}
		}
		return true
	}
	var C ssa.Value
	var tempStore *ssa.Store
	bad := ""
	stores := c17StoresToCell(T)
	for _, st := range stores {
		if !isTempSource(st.Val) {
			continue
		}
		tempStore = st
		for _, g := range guardsOf(st) {
			if g.True {
				C = g.Cond
				break
			}
		}
	}
	if tempStore == nil || C == nil {
		c.Violate("C16.swap/target-def", wSite, "the target-set variable of %s is never assigned a fresh temporary name (NameForTempIPSet) under a condition", fnName(W))
		return
	}
	isC := func(want bool) EdgePred {
		return func(cond ssa.Value, pol bool) bool { return cond == C && pol == want }
	}
	for _, st := range stores {
		switch {
		case isTempSource(st.Val):
			if !guardedCut(st, isC(true)) {
				bad = "temporary name assigned at " + p.Pos(st.Pos()) + " not under the metadata-differs condition"
			}
		case c16Unwrap(st.Val) == ssa.Value(setName):
			if !guardedCut(st, isC(false)) {
				bad = "main set name assigned to the target at " + p.Pos(st.Pos()) + " on a path where the metadata differs"
			}
		default:
			if k, ok := constOf(st.Val); ok && k.ExactString() == `""` {
				continue // zero initialisation
			}
			bad = "target-set variable assigned " + path(st.Val) + " at " + p.Pos(st.Pos())
		}
	}
	c.Check(bad == "", "C16.swap/target-def", p.Pos(tempStore.Pos()), "target = fresh temp name under the condition, main set name under its negation, nothing else",
		bad+": replacing the parameters of an in-use set would rewrite it in place")

	// the condition is a comparison of dataplane and desired metadata
	hasNeq := false
	for _, o := range origins(C, nil) {
		if bo, ok := o.V.(*ssa.BinOp); ok && bo.Op.String() == "!=" {
			hasNeq = true
		}
	}
	c.Check(hasNeq, "C16.swap/condition", p.Pos(tempStore.Pos()), "the temp-set condition derives from a `!=` comparison (dataplane vs desired metadata)",
		"the condition selecting the temporary set does not derive from a metadata comparison")

	// create precedes add/del; on the temp path a create line is always written first
	for _, v := range []string{"add", "del"} {
		bad := ""
		for _, ev := range byVerb[v] {
			for _, cr := range byVerb["create"] {
				if instrReaches(ev.Pos, cr.Pos) || !instrReaches(cr.Pos, ev.Pos) {
					bad = fmt.Sprintf("`%s` at %s is not strictly after `create` at %s", v, p.Pos(ev.Pos.Pos()), p.Pos(cr.Pos.Pos()))
				}
			}
			// every path from the temp-name store to this line passes a create line (edges contradicting C are cut)
			if !c16PathsThrough(tempStore, ev.Pos, byVerb["create"], isC(false)) {
				bad = fmt.Sprintf("`%s` at %s can be reached from the temp-name assignment without writing `create` first", v, p.Pos(ev.Pos.Pos()))
			}
		}
		c.Check(bad == "", "C16.swap/create-first/"+v, p.Pos(byVerb[v][0].Pos.Pos()), "`create` precedes `"+v+"`, and always on the temp-set path", bad)
	}
	// swap: under C, (main, target), after everything else
	bad = ""
	for _, sw := range byVerb["swap"] {
		if sw.Call.Parent() != W {
			bad = "swap line written from a closure"
			continue
		}
		if !guardedCut(sw.Call, isC(true)) {
			bad = "swap line at " + p.Pos(sw.Call.Pos()) + " is not guarded by the metadata-differs condition"
		}
		if len(sw.Elems) != 2 || c16Unwrap(sw.Elems[0]) != ssa.Value(setName) {
			bad = "first operand of swap is not the main set name parameter"
		} else if ld, ok := c16Unwrap(sw.Elems[1]).(*ssa.UnOp); !ok || c17Cell(ld.X) != ssa.Value(T) {
			bad = "second operand of swap is not the target-set variable"
		}
		for _, ev := range events {
			if ev == sw {
				continue
			}
			if instrReaches(sw.Pos, ev.Pos) || !instrReaches(ev.Pos, sw.Pos) {
				bad = fmt.Sprintf("`%s` line at %s is not strictly before the swap", ev.Verb, p.Pos(ev.Pos.Pos()))
			}
		}
	}
	// and on the temp path the swap is always written before returning normally with nil error
	c.Check(bad == "", "C16.swap/swap-last", p.Pos(byVerb["swap"][0].Call.Pos()), "swap(main, target) is written under the condition, after every other line", bad)

	// ---- commit
	isErrAfterLines := func(x ssa.Value) bool {
		ld, ok := x.(*ssa.UnOp)
		if !ok || ld.Parent() != W || c17Cell(ld.X) != ssa.Value(errCell) {
			return false
		}
		for _, ev := range events {
			if instrReaches(ld, ev.Pos) || !instrReaches(ev.Pos, ld) {
				return false
			}
		}
		return true
	}
	nSet := 0
	for _, cs := range callsIn(W, true, func(f *types.Func) bool {
		return f.Name() == "Set" && f.Pkg() != nil && f.Pkg().Path() == calicoPrefix+c17DeltaPkg && recvTypeName(f) == "DataplaneView"
	}) {
		nSet++
		key := "C16.commit/" + fnName(W) + "/Dataplane.Set"
		if cs.Fn != W {
			c.Violate(key, p.Pos(cs.Instr.Pos()), "dataplane metadata recorded from a closure of %s (before the final error check)", fnName(W))
			continue
		}
		c.Check(guardedCut(cs.Instr, c17NilEdge(isErrAfterLines)), key, p.Pos(cs.Instr.Pos()),
			"metadata recorded only behind the nil check of the write error made after the last line",
			"Dataplane().Set("+path(cs.Args()[1])+", …) is reachable without a nil check of the write error made after the last restore line: a failed create/swap would be recorded as programmed")
	}
	if nSet == 0 {
		c.Lost("%s never records dataplane metadata (DataplaneView.Set)", fnName(W))
	}
	c16CommitSession(c, p, W)
}

// c16PathsThrough: every CFG path from `from` to `to` executes one of the via
// line events (edges accepted by cut are not followed).
func c16PathsThrough(from ssa.Instruction, to ssa.Instruction, via []*c16LineEvent, cut EdgePred) bool {
	var vi []ssa.Instruction
	for _, ev := range via {
		vi = append(vi, ev.Pos)
	}
	return c17PathsThrough(from, to, vi, cut)
}

// c16CommitSession: in the function that calls W (tryUpdates), the dirty set is
// cleared only behind the nil check of an error that covers both the write
// errors and the restore process' exit status.
func c16CommitSession(c *Ctx, p *Prog, W *ssa.Function) {
	dirty, _ := p.LookupObj(c16IPSetsPkg, "IPSets.ipSetsWithDirtyMembers").(*types.Var)
	if dirty == nil {
		c.Lost("IPSets.ipSetsWithDirtyMembers")
	}
	n := 0
	for _, fn := range c16PkgFuncs(p, c16IPSetsPkg) {
		calls := callsIn(fn, false, func(f *types.Func) bool { return f.Name() == "Clear" })
		for _, cs := range calls {
			if fieldVar(cs.Args()[0]) != dirty {
				continue
			}
			n++
			key := "C16.commit/" + fnName(fn) + "/dirty-clear"
			covers := c16SessionErr(W)
			c.Check(guardedCut(cs.Instr, c17NilEdge(covers)), key, p.Pos(cs.Instr.Pos()),
				"dirty set cleared only behind the nil check of an error covering the line writes and the restore exit status",
				fnName(fn)+" clears ipSetsWithDirtyMembers on a path where the error covering the restore-line writes and cmd.Wait() was not checked to be nil: failed updates would never be retried")
		}
	}
	if n == 0 {
		c.Lost("ipSetsWithDirtyMembers is never cleared")
	}
}
