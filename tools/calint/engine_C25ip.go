package main

import (
	"strings"

	"golang.org/x/tools/go/ssa"
)

// Interprocedural helpers for the C25 live-set rules (built on c26IP): the
// identity of "the key of this element" is carried across call edges, guards are
// lifted from a helper to its call sites, and a path that returns from a helper
// continues after each of its call sites.

// c25Key names a value as <root>.<field chain>; two values with the same root
// and chain denote the same thing inside one function activation.
type c25Key struct {
	root  ssa.Value
	chain string
}

func c25KeyOf(v ssa.Value) c25Key {
	return c25Key{c25CanonRoot(v), strings.Join(c25FieldChain(v), ".")}
}

func (k c25Key) matches(v ssa.Value) bool {
	return v != nil && k.root != nil && c25KeyOf(v) == k
}

func c25JoinChain(a, b string) string {
	switch {
	case a == "":
		return b
	case b == "":
		return a
	}
	return a + "." + b
}

// up: the key as seen at call site cs of the helper it is rooted in (the root is a
// parameter of the helper); ok=false if the key does not hang off a parameter.
func (k c25Key) up(cs *ssa.Call) (c25Key, bool) {
	pa, ok := k.root.(*ssa.Parameter)
	if !ok {
		return k, false
	}
	g := pa.Parent()
	for i, q := range g.Params {
		if q == pa && i < len(cs.Call.Args) {
			a := cs.Call.Args[i]
			return c25Key{c25CanonRoot(a), c25JoinChain(strings.Join(c25FieldChain(a), "."), k.chain)}, true
		}
	}
	return k, false
}

// down: the key as seen inside the callee of cs, when one of the arguments is the
// key itself or a value the key hangs off.
func (k c25Key) down(cs *ssa.Call, g *ssa.Function) (c25Key, bool) {
	for i, a := range cs.Call.Args {
		if i >= len(g.Params) {
			break
		}
		ak := c25KeyOf(a)
		if ak.root != k.root {
			continue
		}
		switch {
		case ak.chain == k.chain:
			return c25Key{g.Params[i], ""}, true
		case ak.chain == "":
			return c25Key{g.Params[i], k.chain}, true
		case strings.HasPrefix(k.chain, ak.chain+"."):
			return c25Key{g.Params[i], strings.TrimPrefix(k.chain, ak.chain+".")}, true
		}
	}
	return k, false
}

// c25GuardedKey: every execution reaching site crossed an If edge accepted by
// mk(key) — in site's function, or, when that function is a helper, on the way to
// every call site with the key re-expressed in the caller's terms.  A key that is
// not rooted in a parameter keeps its identity (it can only be tested locally).
func c25GuardedKey(ip *c26IP, site ssa.Instruction, key c25Key, mk func(c25Key) EdgePred) bool {
	// A branch on a boolean parameter of a helper (`if deleted {…}`) establishes what the
	// argument expression establishes at every call site (`u.update.Value == nil`).
	var lifted func(k c25Key, depth int) EdgePred
	lifted = func(k c25Key, depth int) EdgePred {
		base := mk(k)
		return func(cond ssa.Value, pol bool) bool {
			if base(cond, pol) {
				return true
			}
			pa, ok := cond.(*ssa.Parameter)
			if !ok || depth > 3 {
				return false
			}
			sites, ok := ip.helperSites(pa.Parent())
			args, ok2 := ip.paramArgs(pa)
			if !ok || !ok2 || len(args) != len(sites) {
				return false
			}
			for i, s := range sites {
				k2 := k
				if k.root != nil {
					if up, mapped := k.up(s); mapped {
						k2 = up
					}
				}
				c2, p2 := stripNot(args[i], pol)
				if !lifted(k2, depth+1)(c2, p2) {
					return false
				}
			}
			return true
		}
	}
	var rec func(site ssa.Instruction, key c25Key, busy map[*ssa.Function]bool, depth int) bool
	rec = func(site ssa.Instruction, key c25Key, busy map[*ssa.Function]bool, depth int) bool {
		if guardedCut(site, lifted(key, 0)) {
			return true
		}
		g := site.Parent()
		if busy[g] || depth > 5 {
			return false
		}
		sites, ok := ip.helperSites(g)
		if !ok {
			return false
		}
		busy[g] = true
		defer delete(busy, g)
		for _, s := range sites {
			k2 := key
			if key.root != nil {
				var mapped bool
				if k2, mapped = key.up(s); !mapped {
					return false
				}
			}
			if !rec(s, k2, busy, depth+1) {
				return false
			}
		}
		return true
	}
	return rec(site, key, map[*ssa.Function]bool{}, 0)
}

// c25ReachKey is c25Reach carried across helper boundaries, for properties of
// the form "after `from`, <stop(key)> happens before <target>":
//   - a call of an in-package function that executes a stop for the (re-mapped)
//     key on every path to its return counts as a stop;
//   - when the walk reaches a return of a helper it continues after every call
//     site of the helper, with the key re-expressed in the caller's terms (coming
//     back to the same call site — the next loop iteration — is a target);
//   - a return of a function that is not a helper is a target.
//
// isTarget is asked about every instruction (returns excluded); isStop(in, key)
// about direct stops.  Returns the first target reached, nil if none.
func c25ReachKey(ip *c26IP, from ssa.Instruction, key c25Key, isTarget func(ssa.Instruction) bool, isStop func(ssa.Instruction, c25Key) bool) ssa.Instruction {
	type sumKey struct {
		g *ssa.Function
		k c25Key
	}
	sum := map[sumKey]int{} // 1 yes, 2 no, 3 busy
	isRet := func(in ssa.Instruction) bool { _, ok := in.(*ssa.Return); return ok }
	var stopsAt func(in ssa.Instruction, k c25Key) bool
	var mustStop func(g *ssa.Function, k c25Key) bool
	mustStop = func(g *ssa.Function, k c25Key) bool {
		sk := sumKey{g, k}
		switch sum[sk] {
		case 1:
			return true
		case 2, 3:
			return false
		}
		sum[sk] = 3
		res := len(g.Blocks) > 0 && c25Reach(g, nil, isRet, func(in ssa.Instruction) bool { return stopsAt(in, k) }, nil) == nil
		sum[sk] = 2
		if res {
			sum[sk] = 1
		}
		return res
	}
	stopsAt = func(in ssa.Instruction, k c25Key) bool {
		if isStop(in, k) {
			return true
		}
		ci, ok := in.(*ssa.Call)
		if !ok {
			return false
		}
		g := calleeFn(ci.Common())
		if g == nil || !ip.inPkg[g] {
			return false
		}
		k2, ok := k.down(ci, g)
		return ok && mustStop(g, k2)
	}
	var rec func(from ssa.Instruction, k c25Key, busy map[*ssa.Function]bool, depth int) ssa.Instruction
	rec = func(from ssa.Instruction, k c25Key, busy map[*ssa.Function]bool, depth int) ssa.Instruction {
		f := from.Parent()
		hit := c25Reach(f, from,
			func(in ssa.Instruction) bool { return isRet(in) || in == from || isTarget(in) },
			func(in ssa.Instruction) bool { return stopsAt(in, k) }, nil)
		if hit == nil || !isRet(hit) {
			return hit
		}
		// some path returns from f without a stop: was another target reachable too?
		if other := c25Reach(f, from, func(in ssa.Instruction) bool { return in == from || isTarget(in) },
			func(in ssa.Instruction) bool { return stopsAt(in, k) }, nil); other != nil {
			return other
		}
		sites, ok := ip.helperSites(f)
		if !ok || busy[f] || depth > 5 {
			return hit
		}
		busy[f] = true
		defer delete(busy, f)
		for _, s := range sites {
			k2, mapped := k.up(s)
			if !mapped {
				return hit
			}
			if h := rec(s, k2, busy, depth+1); h != nil {
				return h
			}
		}
		return nil
	}
	return rec(from, key, map[*ssa.Function]bool{}, 0)
}

// fromFront: v belongs to the element taken off the front of the pending list:
// its root is the result of pendingUpdates.Front() (through the element's Value,
// a type assertion, plain copies), or a parameter of a helper that receives such a
// value at every call site.
func (m *c25Model) fromFront(v ssa.Value, depth int) bool {
	if v == nil || depth > 8 {
		return false
	}
	switch r := c25CanonRoot(v).(type) {
	case *ssa.Call:
		return c25CallOnField(CallSite{r, calleeOf(r.Common()), r.Parent()}, m.plist, "Front")
	case *ssa.Extract:
		return m.fromFront(r.Tuple, depth+1)
	case *ssa.TypeAssert:
		return m.fromFront(r.X, depth+1)
	case *ssa.Parameter:
		args, ok := m.ip.paramArgs(r)
		if !ok {
			return false
		}
		for _, a := range args {
			if !m.fromFront(a, depth+1) {
				return false
			}
		}
		return true
	}
	return false
}
