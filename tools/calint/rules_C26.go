package main

import (
	"fmt"
	"go/token"
	"go/types"
	"sort"
	"strings"

	"golang.org/x/tools/go/ssa"
)

const (
	c26Pkg       = "libcalico-go/lib/backend/watchersyncer"
	c26CacheFile = "libcalico-go/lib/backend/watchersyncer/watchercache.go"
	c26SyncFile  = "libcalico-go/lib/backend/watchersyncer/watchersyncer.go"
)

func init() {
	register(&Property{
		ID:        "C26",
		Title:     "Datastore watchers converge across watch failures and resyncs",
		Technique: "static analysis: who-may-send, cut-set guards, path analysis with stop instructions and counter/phi provenance on go/ssa of watchersyncer",
		DesignRef: "DESIGN.md §3 C26",
		Explanation: "Decides structural clauses of watcherCache/watcherSyncer.  (insync) api.InSync is sent by exactly one function (the resync finisher); the finisher is called only from the resync function and only " +
			"under `List returned no error` or `IsNotFound(err)`; inside the finisher every update send precedes the InSync send, and when oldResources is non-empty the synthesized deletions are sent before InSync.  " +
			"(sweep) a successful List moves resources into oldResources and starts a fresh map before any listed item is handled and before the finisher; the revalidation helper moves an entry from oldResources back " +
			"into resources (store and delete paired, under the lookup); every handler that stores into resources revalidates the same key first; the finisher's deletions range over oldResources and carry no Value.  " +
			"(nowait) in the resync function every point that can emit updates (directly or through a callee) is either in a callee that itself first leaves WaitForDatastore (if status==WaitForDatastore → send ResyncInProgress) " +
			"or is preceded by that transition on every path from the function entry and from every send of WaitForDatastore.  " +
			"(convreset) in the resync function, on every path (from the entry and around the retry loop) the UpdateProcessor is reset with OnSyncerStarting between the conversion of one list's items and the conversion of the next list's items " +
			"(a re-List carries no deletions, so a stateful converter must drop its private cache first); paths on which UpdateProcessor is nil are exempt.  " +
			"(agg) the syncer announces InSync only from the aggregation whose InSync edge is guarded by `numSynced == len(cacheStatuses)` with numSynced incremented only for entries equal to InSync; other callers pass a " +
			"constant that is not InSync; buffered updates are flushed before a status is announced; per-cache statuses start as a non-InSync constant.  " +
			"(record) wherever the syncer receives an api.SyncStatus from a cache (type assertion on the result value), on every path to the return the value is stored into cacheStatuses (directly or by an in-package callee that stores it on all its paths) " +
			"under the cache id of the same result, before any other entry of the table is read; the store may only be skipped on an edge where the value equals the cache's own current entry — in particular not by a test on the published aggregate status.",
		NotDecided: "Convergence of the emitted stream to the datastore contents; correctness of revision comparison; that updates emitted from the watch loop (loopReadingFromWatcher) never occur in WaitForDatastore " +
			"(this needs the non-local fact that a watch only exists after a successful resync; only the resync function and its callees are decided); behaviour of UpdateProcessor conversions (only that the reset notification is delivered, not what an implementation does with it); that oldResources is nil after the sweep.",
		Assumptions: []string{
			"go/types + go/ssa (x/tools v0.50.0) model of the current source, CGO_ENABLED=0 build, non-test files",
			"each watcherCache is driven by one goroutine; sendResult is the only sender on the results channel",
			"logrus Panic*/Fatal* do not return",
		},
		Run: runC26,
		Fixtures: []Fixture{
			{Name: "in-sync reported after a failed list", File: c26CacheFile,
				Old: "\t\t\twc.resyncBlockedUntil = time.Now().Add(ListRetryInterval)\n", New: "\t\t\twc.finishResync()\n\t\t\twc.resyncBlockedUntil = time.Now().Add(ListRetryInterval)\n", Expect: "C26.insync/after-list"},
			{Name: "in-sync sent from the watch loop", File: c26CacheFile,
				Old: "\t\t\t\twc.handleWatchBookmark(event)\n", New: "\t\t\t\twc.handleWatchBookmark(event)\n\t\t\t\twc.sendResult(api.InSync)\n", Expect: "C26.insync/single-sender"},
			{Name: "in-sync sent before the synthesized deletions", File: c26CacheFile,
				Old: "\tnumOldResources := len(wc.oldResources)\n", New: "\twc.sendResult(api.InSync)\n\tnumOldResources := len(wc.oldResources)\n", Expect: "C26.insync/deletes-before-insync"},
			{Name: "resync does not remember the previous resources", File: c26CacheFile,
				Old: "\t\t\twc.oldResources = wc.resources\n", New: "", Expect: "C26.sweep/enter"},
			{Name: "revalidated entry is dropped instead of moved back", File: c26CacheFile,
				Old: "\t\t\twc.resources[resourceKey] = oldResource\n", New: "\t\t\t_ = oldResource\n", Expect: "C26.sweep/revalidate"},
			{Name: "added/modified handler does not revalidate the key", File: c26CacheFile,
				Old: "\tthisRevision := kvp.Revision\n\twc.markAsValid(thisKeyString)\n", New: "\tthisRevision := kvp.Revision\n", Expect: "C26.sweep/mark-before-store"},
			{Name: "sweep deletes the current resources instead of the old ones", File: c26CacheFile,
				Old: "\t\tfor _, r := range wc.oldResources {\n", New: "\t\tfor _, r := range wc.resources {\n", Expect: "C26.sweep/deletions"},
			{Name: "finisher emits deletions while still in WaitForDatastore", File: c26CacheFile,
				Old: "\n\tif wc.status == api.WaitForDatastore {\n\t\twc.sendResult(api.ResyncInProgress)\n\t}\n", New: "\n", Expect: "C26.nowait"},
			{Name: "listed items emitted while still in WaitForDatastore", File: c26CacheFile,
				Old: "\n\t\t\tif wc.status == api.WaitForDatastore {\n\t\t\t\twc.sendResult(api.ResyncInProgress)\n\t\t\t}\n", New: "\n", Expect: "C26.nowait"},
			{Name: "connection-failure deletions emitted while in WaitForDatastore", File: c26CacheFile,
				Old: "\n\t\tif wc.status == api.WaitForDatastore {\n\t\t\twc.sendResult(api.ResyncInProgress)\n\t\t}\n", New: "\n", Expect: "C26.nowait"},
			{Name: "converter reset only when a status regression is signalled", File: c26CacheFile,
				Old: "\t\t\t}\n\n\t\t\t// Notify the converter that we are resyncing.\n\t\t\tif wc.resourceType.UpdateProcessor != nil {\n\t\t\t\twc.logger.Debug(\"Trigger converter resync notification\")\n\t\t\t\twc.resourceType.UpdateProcessor.OnSyncerStarting()\n\t\t\t}\n",
				New: "\n\t\t\t// Notify the converter that we are resyncing.\n\t\t\tif wc.resourceType.UpdateProcessor != nil {\n\t\t\t\twc.logger.Debug(\"Trigger converter resync notification\")\n\t\t\t\twc.resourceType.UpdateProcessor.OnSyncerStarting()\n\t\t\t}\n\t\t\t}\n", Expect: "C26.convreset"},
			{Name: "converter reset only for the first list", File: c26CacheFile,
				Old: "\t\t\tif wc.resourceType.UpdateProcessor != nil {\n\t\t\t\twc.logger.Debug(\"Trigger converter resync notification\")", New: "\t\t\tif wc.resourceType.UpdateProcessor != nil && wc.status == api.WaitForDatastore {\n\t\t\t\twc.logger.Debug(\"Trigger converter resync notification\")", Expect: "C26.convreset"},
			{Name: "syncer in-sync as soon as any cache is synced", File: c26SyncFile,
				Old: "case numSynced == len(ws.cacheStatuses):", New: "case numSynced > 0:", Expect: "C26.agg/insync-when-all-synced"},
			{Name: "every status counts as synced", File: c26SyncFile,
				Old: "\t\t\tcase api.InSync:\n\t\t\t\tnumSynced++\n", New: "\t\t\tcase api.InSync, api.ResyncInProgress:\n\t\t\t\tnumSynced++\n", Expect: "C26.agg/insync-when-all-synced"},
			{Name: "status announced before buffered updates are flushed", File: c26SyncFile,
				Old: "\t\t\tupdates = ws.sendUpdates(updates)\n\t\t\tws.sendStatusUpdate(newStatus)\n", New: "\t\t\tws.sendStatusUpdate(newStatus)\n", Expect: "C26.agg/flush-before-status"},
			{Name: "status not recorded when it equals the published aggregate", File: c26SyncFile,
				Old: "\t\tws.cacheStatuses[r.cacheID] = v\n", New: "\t\tif v == ws.status {\n\t\t\treturn updates\n\t\t}\n\t\tws.cacheStatuses[r.cacheID] = v\n", Expect: "C26.record/"},
			{Name: "only progress is recorded, a cache falling back to resync keeps its old entry", File: c26SyncFile,
				Old: "\t\tws.cacheStatuses[r.cacheID] = v\n", New: "\t\tif v > ws.cacheStatuses[r.cacheID] {\n\t\t\tws.cacheStatuses[r.cacheID] = v\n\t\t}\n", Expect: "C26.record/"},
			{Name: "aggregate computed before the received status is recorded", File: c26SyncFile,
				Old: "\t\tws.cacheStatuses[r.cacheID] = v\n\n\t\tvar numWaiting, numSynced int\n", New: "\t\tdefer func() { ws.cacheStatuses[r.cacheID] = v }()\n\n\t\tvar numWaiting, numSynced int\n", Expect: "C26.record/"},
			{Name: "caches start as in-sync", File: c26SyncFile,
				Old: "rs.cacheStatuses = append(rs.cacheStatuses, api.WaitForDatastore)", New: "rs.cacheStatuses = append(rs.cacheStatuses, api.InSync)", Expect: "C26.agg/initial-status"},
		},
	})
}

type c26Model struct {
	c *Ctx
	p *Prog

	resources, oldResources, status, results, cacheStatuses *types.Var
	kvValue                                                 *types.Var
	wait, resync, insync                                    *types.Const
	fns                                                     []*ssa.Function // all functions of the package (closures included)
	sendFn, resyncFn, finishFn, revalFn                     *ssa.Function
	selfNorm                                                map[*ssa.Function]int // 0 unknown, 1 yes, 2 no, 3 busy
	ip                                                      *c26IP
	senders                                                 map[*ssa.Function][]ssa.Instruction // InSync senders
	listErrMemo                                             map[ssa.Value]int                   // 1 yes, 2 no, 3 busy
	normMemo                                                map[*ssa.Function]int
}

func runC26(c *Ctx) {
	p := c.Load(c26Pkg)
	m := &c26Model{c: c, p: p, selfNorm: map[*ssa.Function]int{}, listErrMemo: map[ssa.Value]int{}, normMemo: map[*ssa.Function]int{}}
	c.Rule("C26.insync", "E-OWN/E-GUARD/E-ORDER", "cache InSync sent only by the resync finisher, which runs only after a completed (or not-found) List, after the synthesized deletions", 4)
	c.Rule("C26.sweep", "E-PAIR/E-ORDER", "mark-and-sweep: resources→oldResources on List success, revalidation moves entries back, handlers revalidate before storing, sweep deletes what is left of oldResources", 4)
	c.Rule("C26.nowait", "E-GUARD/E-ORDER", "in the resync function no update can be emitted before the cache has left WaitForDatastore", 3)
	c.Rule("C26.convreset", "E-PATH (3-state forward dataflow)", "listed items are converted only by a converter that was reset (OnSyncerStarting) since the previous list's items were converted, on every path of the resync function", 1)
	c.Rule("C26.agg", "E-GUARD/E-FLOW/E-ORDER", "syncer InSync only when all caches are InSync; updates flushed before a status; caches start not in sync", 4)
	c.Rule("C26.record", "E-PATH/E-ORDER", "every api.SyncStatus received from a watcher cache is stored into cacheStatuses (under the id that came with it) on every path to the return, before the table is read; only 'equals the cache's own entry' may skip the store", 1)
	// Anchors are resolved in two steps (package model, then the roles finisher / resync
	// function); every family then runs on its own, so an anchor lost by one family (exit 2)
	// never silences the verdicts of the others.
	var lost []string
	c23Guarded(&lost, m.resolve)
	if m.ip != nil {
		c23Guarded(&lost, m.resolveRoles)
		if m.finishFn != nil && m.resyncFn != nil {
			for _, fam := range []func(){m.insyncRules, m.sweepRules, m.nowaitRules, m.convResetRules} {
				c23Guarded(&lost, fam)
			}
		}
		for _, fam := range []func(){m.aggRules, m.recordRules} {
			c23Guarded(&lost, fam)
		}
	}
	if len(lost) > 0 {
		c.Lost("%s", strings.Join(lost, " | "))
	}
}

func (m *c26Model) fld(name string) *types.Var {
	v, _ := m.p.LookupObj(c26Pkg, name).(*types.Var)
	if v == nil {
		m.c.Lost("%s", name)
	}
	return v
}

func (m *c26Model) resolve() {
	c, p := m.c, m.p
	m.resources, m.oldResources, m.status, m.results = m.fld("watcherCache.resources"), m.fld("watcherCache.oldResources"), m.fld("watcherCache.status"), m.fld("watcherCache.results")
	m.cacheStatuses = m.fld("watcherSyncer.cacheStatuses")
	m.kvValue, _ = p.LookupExt(c25ModelPkg, "KVPair.Value").(*types.Var)
	m.wait, _ = p.LookupExt(c25APIPkg, "WaitForDatastore").(*types.Const)
	m.resync, _ = p.LookupExt(c25APIPkg, "ResyncInProgress").(*types.Const)
	m.insync, _ = p.LookupExt(c25APIPkg, "InSync").(*types.Const)
	if m.kvValue == nil || m.wait == nil || m.resync == nil || m.insync == nil {
		c.Lost("api.WaitForDatastore/ResyncInProgress/InSync, model.KVPair.Value")
	}
	sp := p.SSAPkg(c26Pkg)
	var tops []*ssa.Function
	for _, mem := range sp.Members {
		switch x := mem.(type) {
		case *ssa.Function:
			if x.Blocks != nil && x.Synthetic == "" {
				tops = append(tops, x)
			}
		case *ssa.Type:
			if nt, ok := x.Type().(*types.Named); ok {
				for i := 0; i < nt.NumMethods(); i++ {
					if f := p.SSA.FuncValue(nt.Method(i)); f != nil && f.Blocks != nil {
						tops = append(tops, f)
					}
				}
			}
		}
	}
	m.fns = withClosures(tops)
	m.sendFn = m.one("sender on watcherCache.results", func(f *ssa.Function) bool {
		found := false
		allInstrs(f, false, func(_ *ssa.Function, in ssa.Instruction) {
			if s, ok := in.(*ssa.Send); ok && fieldVar(s.Chan) == m.results {
				found = true
			}
		})
		return found
	})
	m.ip = c26NewIP(m.fns)
	if len(m.allListCalls()) == 0 {
		c.Lost("no call of api.Client.List in %s", c26Pkg)
	}
}

func (m *c26Model) one(what string, pred func(f *ssa.Function) bool) *ssa.Function {
	c := m.c
	var out []*ssa.Function
	seen := map[*ssa.Function]bool{}
	for _, f := range m.fns {
		if pred(f) && !seen[topFn(f)] {
			seen[topFn(f)] = true
			out = append(out, topFn(f))
		}
	}
	if len(out) != 1 {
		var ns []string
		for _, f := range out {
			ns = append(ns, fnName(f))
		}
		c.Lost("%s: expected exactly one function, found %v", what, ns)
	}
	return out[0]
}

func (m *c26Model) listCalls(f *ssa.Function) []*ssa.Call {
	var out []*ssa.Call
	allInstrs(f, false, func(_ *ssa.Function, in ssa.Instruction) {
		if ci, ok := in.(*ssa.Call); ok && ci.Call.IsInvoke() && ci.Call.Method.Name() == "List" && qualTypeName(ci.Call.Value.Type()) == c25APIPkg+".Client" {
			out = append(out, ci)
		}
	})
	return out
}

// send classifies a call of sendResult: "" (not one), "status" (+ constant), "updates", "other".
func (m *c26Model) send(in ssa.Instruction) (kind string, st *types.Const) {
	ci, ok := in.(*ssa.Call)
	if !ok || calleeFn(ci.Common()) != m.sendFn || len(ci.Call.Args) < 2 {
		return "", nil
	}
	mi, ok := ci.Call.Args[1].(*ssa.MakeInterface)
	if !ok {
		return "other", nil
	}
	if types.Identical(mi.X.Type(), m.insync.Type()) {
		if cv, isC := constOf(mi.X); isC {
			for _, k := range []*types.Const{m.wait, m.resync, m.insync} {
				if cv.ExactString() == k.Val().ExactString() {
					return "status", k
				}
			}
		}
		return "status", nil
	}
	if sl, ok := mi.X.Type().Underlying().(*types.Slice); ok && qualTypeName(sl.Elem()) == c25APIPkg+".Update" {
		return "updates", nil
	}
	return "other", nil
}

func (m *c26Model) isConst(v ssa.Value, k *types.Const) bool {
	cst, ok := v.(*ssa.Const)
	return ok && cst.Value != nil && cst.Value.ExactString() == k.Val().ExactString() && types.Identical(cst.Type(), k.Type())
}

// ---------------------------------------------------------------- insync --

func (m *c26Model) resolveRoles() {
	c := m.c
	// who sends InSync?
	senders := map[*ssa.Function][]ssa.Instruction{}
	m.senders = senders
	for _, f := range m.fns {
		allInstrs(f, false, func(_ *ssa.Function, in ssa.Instruction) {
			if k, st := m.send(in); k == "status" && (st == m.insync || st == nil) {
				senders[topFn(f)] = append(senders[topFn(f)], in)
			}
		})
	}
	if len(senders) == 0 {
		c.Lost("nobody sends api.InSync on the results channel")
	}
	// the finisher is the InSync sender that runs under a completed List: a sender with a call
	// site that is reached only when the List error is nil / NotFound (the guard may sit in a
	// caller of the function containing the call site, and the error may have been handed to it
	// as an argument).  Fallback: the InSync sender reachable from a function that Lists.
	okList := m.listOK(true)
	var cands []*ssa.Function
	for f := range senders {
		for _, ci := range m.ip.sites[f] {
			if m.ip.guarded(ci, okList) {
				cands = append(cands, f)
				break
			}
		}
	}
	if len(cands) == 0 {
		for f := range senders {
			for _, g := range m.fns {
				if g.Parent() == nil && len(m.listCalls(g)) > 0 && m.ip.reach(g, nil)[f] {
					cands = append(cands, f)
					break
				}
			}
		}
	}
	if len(cands) != 1 {
		var ns []string
		for _, f := range cands {
			ns = append(ns, fnName(f))
		}
		c.Lost("resync finisher (the function that sends InSync, called after a completed List): expected exactly one, found %v", ns)
	}
	m.finishFn = cands[0]
	m.resolveResyncFn()
}

func (m *c26Model) insyncRules() {
	c, p := m.c, m.p
	senders, okList := m.senders, m.listOK(true)
	var foreign []string
	for f, ins := range senders {
		if f != m.finishFn {
			foreign = append(foreign, fnName(f)+" at "+p.Pos(ins[0].Pos()))
		}
	}
	sort.Strings(foreign)
	c.Check(len(foreign) == 0, "C26.insync/single-sender", p.Pos(m.finishFn.Pos()),
		"api.InSync (or a non-constant status) is sent only by "+fnName(m.finishFn),
		fmt.Sprintf("api.InSync (or a non-constant status) is also sent by %v, outside the resync finisher: in-sync could be reported without a completed list", foreign))

	// every call of the finisher happens under List success / not-found.  The fact may be
	// established in the function containing the call, or — when that function is a helper
	// (only called directly, inside the package) — at every one of its call sites.
	n := 0
	for _, f := range m.fns {
		for _, ci := range m.callsTo(f, m.finishFn) {
			n++
			key := fmt.Sprintf("C26.insync/after-list/%s", fnName(topFn(f)))
			if _, isCall := ci.(*ssa.Call); !isCall {
				c.Violate(key, p.Pos(ci.Pos()), "%s is deferred/started asynchronously", fnName(m.finishFn))
				continue
			}
			c.Check(m.ip.guarded(ci, okList), key, p.Pos(ci.Pos()),
				"finisher reached only when List returned no error, or IsNotFound(err)",
				fnName(m.finishFn)+" is reachable (in "+fnName(f)+", or through one of its callers) without a completed List — no `List error == nil` / IsNotFound(List error) on the way: InSync would be reported without a complete list")
		}
	}
	if n == 0 {
		c.Lost("%s is never called", fnName(m.finishFn))
	}

	// inside the finisher: updates (the sweep) strictly before InSync.  The sweep may sit in the
	// finisher itself or in a helper it calls: an "update event" is a direct send of updates or a
	// call of an in-package function that emits; a call counts as "deletions sent" when, in the
	// callee, every path to the return sends updates or sees oldResources empty.
	f := m.finishFn
	isLenOld := func(v ssa.Value) bool {
		ci, ok := v.(*ssa.Call)
		if !ok {
			return false
		}
		cc, ok := isBuiltinCall(ci, "len")
		return ok && len(cc.Args) == 1 && fieldVar(cc.Args[0]) == m.oldResources
	}
	empty := func(cond ssa.Value, pol bool) bool {
		bo, ok := cond.(*ssa.BinOp)
		if !ok {
			return false
		}
		// through a local: numOld := len(old); numOld > 0
		zero := func(v ssa.Value) bool { cv, ok := constOf(v); return ok && cv.ExactString() == "0" }
		if !isLenOld(bo.X) || !zero(bo.Y) {
			return false
		}
		switch bo.Op {
		case token.GTR, token.NEQ:
			return !pol
		case token.EQL, token.LEQ:
			return pol
		}
		return false
	}
	isRet := func(in ssa.Instruction) bool { _, ok := in.(*ssa.Return); return ok }
	sweeps := map[*ssa.Function]int{} // 1 yes, 2 no, 3 busy
	var isUpd func(in ssa.Instruction) bool
	isUpd = func(in ssa.Instruction) bool {
		if k, _ := m.send(in); k != "" {
			return k == "updates"
		}
		ci, ok := in.(*ssa.Call)
		if !ok {
			return false
		}
		g := calleeFn(ci.Common())
		if g == nil || g == m.sendFn || !m.ip.inPkg[g] || len(g.Blocks) == 0 {
			return false
		}
		switch sweeps[g] {
		case 1:
			return true
		case 2, 3:
			return false
		}
		sweeps[g] = 3
		res := m.emits(g, map[*ssa.Function]bool{}) && c25Reach(g, nil, isRet, isUpd, empty) == nil
		sweeps[g] = 2
		if res {
			sweeps[g] = 1
		}
		return res
	}
	var inSyncSends, updEvents []ssa.Instruction
	allInstrs(f, false, func(_ *ssa.Function, in ssa.Instruction) {
		if k, st := m.send(in); k == "status" && st == m.insync {
			inSyncSends = append(inSyncSends, in)
			return
		} else if k == "updates" {
			updEvents = append(updEvents, in)
			return
		}
		if ci, ok := in.(*ssa.Call); ok {
			if g := calleeFn(ci.Common()); g != nil && g != m.sendFn && m.ip.inPkg[g] && m.emits(g, map[*ssa.Function]bool{}) {
				updEvents = append(updEvents, in)
			}
		}
	})
	if len(updEvents) == 0 {
		c.Lost("%s sends no updates (the sweep), neither itself nor through a callee", fnName(f))
	}
	bad := ""
	for _, is := range inSyncSends {
		for _, us := range updEvents {
			if instrReaches(is, us) {
				bad = fmt.Sprintf("updates sent at %s can follow the InSync sent at %s", p.Pos(us.Pos()), p.Pos(is.Pos()))
			}
		}
		if h := c25Reach(f, nil, func(in ssa.Instruction) bool { return in == is }, isUpd, empty); h != nil && bad == "" {
			bad = fmt.Sprintf("InSync at %s is reachable with a non-empty oldResources without the deletions having been sent", p.Pos(is.Pos()))
		}
	}
	c.Check(bad == "", "C26.insync/deletes-before-insync/"+fnName(f), p.Pos(f.Pos()),
		"the synthesized deletions are sent before InSync (or oldResources is empty)", bad+": consumers would be told in-sync while still holding vanished resources")
}

func (m *c26Model) callsTo(f, target *ssa.Function) []ssa.CallInstruction {
	var out []ssa.CallInstruction
	for _, b := range f.Blocks {
		for _, in := range b.Instrs {
			if ci, ok := in.(ssa.CallInstruction); ok && calleeFn(ci.Common()) == target {
				out = append(out, ci)
			}
		}
	}
	return out
}

// ----------------------------------------------------------------- sweep --

func (m *c26Model) sweepRules() {
	c, p := m.c, m.p
	m.revalFn = m.one("revalidation helper (deletes from oldResources)", func(f *ssa.Function) bool {
		found := false
		allInstrs(f, false, func(_ *ssa.Function, in ssa.Instruction) {
			if cc, ok := isBuiltinCall(in, "delete"); ok && len(cc.Args) == 2 && fieldVar(cc.Args[0]) == m.oldResources {
				found = true
			}
		})
		return found
	})
	// (a) entering the sweep.  The swap is located by what it does (oldResources = resources;
	// resources = fresh map) anywhere in the resync function or the helpers it calls; guards and
	// order are decided across call edges.
	f := m.resyncFn
	scope := m.resyncScope()
	var moveOld, fresh *ssa.Store
	for _, g := range m.fns {
		if !scope[g] {
			continue
		}
		allInstrs(g, false, func(_ *ssa.Function, in ssa.Instruction) {
			st, ok := in.(*ssa.Store)
			if !ok {
				return
			}
			if fieldVar(st.Addr) == m.oldResources && fieldVar(st.Val) == m.resources {
				moveOld = st
			}
			if fieldVar(st.Addr) == m.resources {
				if _, isMake := st.Val.(*ssa.MakeMap); isMake {
					fresh = st
				}
			}
		})
	}
	why := ""
	switch {
	case moveOld == nil:
		why = "no `oldResources = resources` in " + fnName(f) + " or its callees"
	case fresh == nil:
		why = "no `resources = make(...)` in " + fnName(f) + " or its callees"
	case !m.ip.before(moveOld, fresh):
		why = "resources is replaced before it was saved into oldResources"
	default:
		errNil := m.listOK(false)
		if !m.ip.guarded(moveOld, errNil) {
			why = "resources can be moved aside although the List failed (the known resources would be forgotten on a failed resync)"
		}
		// every success-path finisher call and every handling of a listed item comes after the swap
		swap := m.ip.lifted(fresh)
		for _, g := range m.fns {
			if !scope[g] {
				continue
			}
			allInstrs(g, false, func(_ *ssa.Function, in ssa.Instruction) {
				call, ok := in.(*ssa.Call)
				if !ok || swap[in] {
					return
				}
				h := calleeFn(call.Common())
				if h == nil || h == m.sendFn || !m.ip.inPkg[h] {
					return
				}
				if h != m.finishFn && !m.emits(h, map[*ssa.Function]bool{}) {
					return
				}
				if m.ip.guarded(call, errNil) && !m.ip.beforeRec(swap, call, map[*ssa.Function]bool{}, 0) {
					if h == m.finishFn {
						why = "the finisher at " + p.Pos(call.Pos()) + " on the List-success path is not preceded by the swap"
					} else {
						why = "listed items are handled at " + p.Pos(call.Pos()) + " before resources was moved into oldResources"
					}
				}
			})
		}
	}
	c.Check(why == "", "C26.sweep/enter/"+fnName(f), p.Pos(f.Pos()),
		"on List success: oldResources = resources, then resources = fresh map, before items are handled and before the finisher", why+": resources that vanished during the outage are never deleted")

	// (b) revalidation moves the entry back
	{
		g := m.revalFn
		var del ssa.Instruction
		var delKey ssa.Value
		allInstrs(g, false, func(_ *ssa.Function, in ssa.Instruction) {
			if cc, ok := isBuiltinCall(in, "delete"); ok && len(cc.Args) == 2 && fieldVar(cc.Args[0]) == m.oldResources {
				del, delKey = in, cc.Args[1]
			}
		})
		okMove := false
		for _, mu := range mapUpdatesOfField(g, false, "watcherCache", m.resources.Name()) {
			if fieldVar(mu.Map) != m.resources || path(mu.Key) != path(delKey) || !instrDominates(mu, del) {
				continue
			}
			for _, o := range origins(mu.Value, nil) {
				if lk, ok := o.V.(*ssa.Lookup); ok && fieldVar(lk.X) == m.oldResources && path(lk.Index) == path(delKey) {
					okMove = true
				}
			}
		}
		guarded := guardedCut(del, lookupOkCond(true, func(v ssa.Value) bool { return fieldVar(v) == m.oldResources }))
		c.Check(okMove && guarded, "C26.sweep/revalidate/"+fnName(g), p.Pos(del.Pos()),
			"resources[k] = oldResources[k] precedes delete(oldResources, k), under the lookup",
			fmt.Sprintf("%s removes a key from oldResources without first storing that entry into resources under the same key (moved=%v, under lookup=%v): the resource is forgotten and its later deletion is never emitted", fnName(g), okMove, guarded))
	}

	// (c) handlers that store into resources revalidate the key first
	nH := 0
	for _, g := range m.fns {
		if topFn(g) == m.revalFn {
			continue
		}
		mus := mapUpdatesOfField(g, false, "watcherCache", m.resources.Name())
		if len(mus) == 0 {
			continue
		}
		nH++
		bad := ""
		for _, mu := range mus {
			if fieldVar(mu.Map) != m.resources {
				continue
			}
			ok := false
			for _, ci := range m.callsTo(g, m.revalFn) {
				if call, isCall := ci.(*ssa.Call); isCall && len(call.Call.Args) == 2 && path(call.Call.Args[1]) == path(mu.Key) && instrDominates(call, mu) {
					ok = true
				}
			}
			if !ok {
				bad = p.Pos(mu.Pos())
			}
		}
		c.Check(bad == "", "C26.sweep/mark-before-store/"+fnName(topFn(g)), p.Pos(g.Pos()),
			"every store into resources is dominated by "+fnName(m.revalFn)+"(same key)",
			"resources["+"k] is stored at "+bad+" without "+fnName(m.revalFn)+"(k) before it: a resource re-listed during a resync stays in oldResources and is deleted by the sweep although it exists")
	}
	if nH == 0 {
		c.Lost("no handler stores into resources")
	}

	// (d) the sweep's deletions: range over oldResources, no Value
	{
		g := m.finishFn
		var appends []ssa.Instruction
		nonNil := ""
		for _, h := range m.fns {
			if !m.ip.reach(g, func(x *ssa.Function) bool { return x == m.sendFn })[h] {
				continue
			}
			allInstrs(h, false, func(_ *ssa.Function, in ssa.Instruction) {
				if cc, ok := isBuiltinCall(in, "append"); ok && len(cc.Args) > 0 {
					if sl, ok := cc.Args[0].Type().Underlying().(*types.Slice); ok && qualTypeName(sl.Elem()) == c25APIPkg+".Update" {
						appends = append(appends, in)
					}
				}
				if st, ok := in.(*ssa.Store); ok && fieldVar(st.Addr) == m.kvValue && !isNilConst(st.Val) {
					nonNil = p.Pos(st.Pos())
				}
			})
		}
		if len(appends) == 0 {
			c.Lost("%s builds no update slice", fnName(g))
		}
		bad := ""
		for _, a := range appends {
			rf, _ := p.rangedField(a.Pos())
			if rf != m.oldResources {
				name := "<not a field>"
				if rf != nil {
					name = rf.Name()
				}
				bad = "the deletions are built while ranging over " + name + ", not over oldResources"
			}
		}
		if nonNil != "" {
			bad = "a synthesized update carries a non-nil Value (" + nonNil + ")"
		}
		c.Check(bad == "", "C26.sweep/deletions/"+fnName(g), p.Pos(g.Pos()),
			"the sweep emits one Value-less update per entry left in oldResources", bad+": the wrong set of resources would be deleted downstream")
	}
}

// emits: f (transitively, static calls inside the package) can send updates.
func (m *c26Model) emits(f *ssa.Function, seen map[*ssa.Function]bool) bool {
	if f == nil || seen[f] || f.Blocks == nil {
		return false
	}
	seen[f] = true
	found := false
	allInstrs(f, true, func(_ *ssa.Function, in ssa.Instruction) {
		if found {
			return
		}
		if k, _ := m.send(in); k == "updates" {
			found = true
			return
		}
		if ci, ok := in.(ssa.CallInstruction); ok {
			if sf := calleeFn(ci.Common()); sf != nil && sf != m.sendFn && m.emits(sf, seen) {
				found = true
			}
		}
	})
	return found
}

// ---------------------------------------------------------------- nowait --

// emissionPoints lists the instructions of f at which updates (or InSync) may be
// emitted: direct sends and calls of emitting functions that do not normalise
// the status themselves.
func (m *c26Model) emissionPoints(f *ssa.Function) []ssa.Instruction {
	var out []ssa.Instruction
	allInstrs(f, false, func(_ *ssa.Function, in ssa.Instruction) {
		if k, st := m.send(in); k == "updates" || (k == "status" && st == m.insync) {
			out = append(out, in)
			return
		}
		if ci, ok := in.(*ssa.Call); ok {
			sf := calleeFn(ci.Common())
			if sf != nil && sf != m.sendFn && sf.Pkg == f.Pkg && m.emits(sf, map[*ssa.Function]bool{}) && !m.isSelfNorm(sf) {
				out = append(out, in)
			}
		}
	})
	return out
}

// leavesWait: the instruction certainly leaves the cache in a status other than
// WaitForDatastore: a send of another constant status, or a call of an in-package
// function that does so on every path to its return (mustNormalise).
func (m *c26Model) leavesWait(in ssa.Instruction) bool {
	if k, st := m.send(in); k != "" {
		return k == "status" && st != nil && st != m.wait
	}
	if ci, ok := in.(*ssa.Call); ok {
		if g := calleeFn(ci.Common()); g != nil && g != m.sendFn && m.ip.inPkg[g] {
			return m.mustNormalise(g)
		}
	}
	return false
}

// mayEnterWait: the instruction may put the cache (back) into WaitForDatastore: a
// send of that status (or of a non-constant status), or a call of an in-package
// function that may do so and is not known to leave it again before returning.
func (m *c26Model) mayEnterWait(in ssa.Instruction) bool {
	if k, st := m.send(in); k != "" {
		return k == "status" && (st == m.wait || st == nil)
	}
	if ci, ok := in.(*ssa.Call); ok {
		if g := calleeFn(ci.Common()); g != nil && g != m.sendFn && m.ip.inPkg[g] && !m.mustNormalise(g) {
			return m.reachesInstr(g, func(x ssa.Instruction) bool {
				k, st := m.send(x)
				return k == "status" && (st == m.wait || st == nil)
			})
		}
	}
	return false
}

func (m *c26Model) waitCut() EdgePred {
	return eqCond(false, func(v ssa.Value) bool { return fieldVar(v) == m.status }, func(v ssa.Value) bool { return m.isConst(v, m.wait) })
}

// mustNormalise: whatever the status at g's entry, at every return of g the cache
// has left WaitForDatastore (`if status == WaitForDatastore { send ResyncInProgress }`
// extracted into a helper, for instance).
func (m *c26Model) mustNormalise(g *ssa.Function) bool {
	switch m.normMemo[g] {
	case 1:
		return true
	case 2, 3:
		return false
	}
	m.normMemo[g] = 3
	isRet := func(in ssa.Instruction) bool { _, ok := in.(*ssa.Return); return ok }
	res := len(g.Blocks) > 0 && c25Reach(g, nil, isRet, m.leavesWait, m.waitCut()) == nil
	if res {
		allInstrs(g, false, func(_ *ssa.Function, in ssa.Instruction) {
			if res && m.mayEnterWait(in) && c25Reach(g, in, isRet, m.leavesWait, m.waitCut()) != nil {
				res = false
			}
		})
	}
	m.normMemo[g] = 2
	if res {
		m.normMemo[g] = 1
	}
	return res
}

// normalised: every path to e — from the entry of f and from every point of f that
// may (re-)enter WaitForDatastore — passes `status == WaitForDatastore` being false
// or an instruction that leaves WaitForDatastore.
func (m *c26Model) normalised(f *ssa.Function, e ssa.Instruction) bool {
	cut := m.waitCut()
	tgt := func(in ssa.Instruction) bool { return in == e }
	if c25Reach(f, nil, tgt, m.leavesWait, cut) != nil {
		return false
	}
	ok := true
	allInstrs(f, false, func(_ *ssa.Function, in ssa.Instruction) {
		if ok && m.mayEnterWait(in) && c25Reach(f, in, tgt, m.leavesWait, cut) != nil {
			ok = false
		}
	})
	return ok
}

// isSelfNorm: f never emits updates while the status is WaitForDatastore, whatever
// the status at its entry: each of its own emission points (direct sends, calls of
// emitting callees that are not themselves self-normalising) is normalised inside f.
// A function that only forwards to self-normalising callees is self-normalising.
func (m *c26Model) isSelfNorm(f *ssa.Function) bool {
	switch m.selfNorm[f] {
	case 1:
		return true
	case 2, 3:
		return false
	}
	m.selfNorm[f] = 3
	res := true
	for _, e := range m.emissionPoints(f) {
		if !m.normalised(f, e) {
			res = false
		}
	}
	if res {
		m.selfNorm[f] = 1
	} else {
		m.selfNorm[f] = 2
	}
	return res
}

func (m *c26Model) nowaitRules() {
	c, p := m.c, m.p
	f := m.resyncFn
	n := 0
	seen := map[string]bool{}
	var reportSafe func(callee *ssa.Function)
	reportSafe = func(callee *ssa.Function) {
		key := "C26.nowait/" + fnName(callee)
		if seen[key] {
			return
		}
		seen[key] = true
		own := m.emissionPoints(callee)
		if len(own) > 0 || !m.forwardsOnly(callee) {
			c.Ok(key, p.Pos(callee.Pos()), "%s leaves WaitForDatastore itself before each of its emission points", fnName(callee))
			return
		}
		// a pure forwarder: its emitting callees are each self-normalising
		c.Ok(key, p.Pos(callee.Pos()), "%s emits only through callees that leave WaitForDatastore themselves", fnName(callee))
		allInstrs(callee, false, func(_ *ssa.Function, in ssa.Instruction) {
			if ci, ok := in.(*ssa.Call); ok {
				if sf := calleeFn(ci.Common()); sf != nil && sf != m.sendFn && sf.Pkg == callee.Pkg && m.emits(sf, map[*ssa.Function]bool{}) && m.isSelfNorm(sf) {
					reportSafe(sf)
				}
			}
		})
	}
	allInstrs(f, false, func(_ *ssa.Function, in ssa.Instruction) {
		what := ""
		var callee *ssa.Function
		if k, st := m.send(in); k == "updates" || (k == "status" && st == m.insync) {
			what = "direct-send"
		} else if ci, ok := in.(*ssa.Call); ok {
			sf := calleeFn(ci.Common())
			if sf != nil && sf != m.sendFn && sf.Pkg == f.Pkg && m.emits(sf, map[*ssa.Function]bool{}) {
				what, callee = fnName(sf), sf
			}
		}
		if what == "" {
			return
		}
		n++
		if callee != nil && m.isSelfNorm(callee) {
			reportSafe(callee)
			return
		}
		key := "C26.nowait/" + fnName(f) + "/" + what
		if m.normalised(f, in) {
			c.Ok(key, p.Pos(in.Pos()), "every path to this emission point (from entry and from each send of WaitForDatastore) leaves WaitForDatastore first")
		} else {
			inner := ""
			if callee != nil {
				for _, e := range m.emissionPoints(callee) {
					if !m.normalised(callee, e) {
						inner = " (inside " + fnName(callee) + ": emission at " + p.Pos(e.Pos()) + " is not preceded by the transition either)"
					}
				}
			}
			c.Violate(key, p.Pos(in.Pos()), "updates can be emitted through %s at %s while the cache status is WaitForDatastore: neither the callee nor every path in %s first sends ResyncInProgress under status == WaitForDatastore%s",
				what, p.Pos(in.Pos()), fnName(f), inner)
		}
	})
	if n == 0 {
		c.Lost("%s has no emission points", fnName(f))
	}
}

// forwardsOnly: f sends no updates / InSync itself.
func (m *c26Model) forwardsOnly(f *ssa.Function) bool {
	direct := false
	allInstrs(f, true, func(_ *ssa.Function, in ssa.Instruction) {
		if k, st := m.send(in); k == "updates" || (k == "status" && st == m.insync) {
			direct = true
		}
	})
	return !direct
}

// ------------------------------------------------------------------- agg --

func (m *c26Model) aggRules() {
	c, p := m.c, m.p
	// the syncer's status sender / update flusher: the functions that invoke the callbacks
	var statusFn, flushFn *ssa.Function
	for _, f := range m.fns {
		allInstrs(f, false, func(_ *ssa.Function, in ssa.Instruction) {
			ci, ok := in.(*ssa.Call)
			if !ok || !ci.Call.IsInvoke() || qualTypeName(ci.Call.Value.Type()) != c25APIPkg+".SyncerCallbacks" {
				return
			}
			switch ci.Call.Method.Name() {
			case "OnStatusUpdated":
				if statusFn != nil && statusFn != topFn(f) {
					c.Lost("two functions invoke OnStatusUpdated: %s, %s", fnName(statusFn), fnName(f))
				}
				statusFn = topFn(f)
			case "OnUpdates":
				if flushFn != nil && flushFn != topFn(f) {
					c.Lost("two functions invoke OnUpdates: %s, %s", fnName(flushFn), fnName(f))
				}
				flushFn = topFn(f)
			}
		})
	}
	if statusFn == nil || flushFn == nil {
		c.Lost("watcherSyncer functions invoking callbacks.OnStatusUpdated / OnUpdates")
	}
	isLenStatuses := func(v ssa.Value) bool {
		ci, ok := v.(*ssa.Call)
		if !ok {
			return false
		}
		cc, ok := isBuiltinCall(ci, "len")
		return ok && len(cc.Args) == 1 && fieldVar(cc.Args[0]) == m.cacheStatuses
	}
	isStatusElem := func(v ssa.Value) bool {
		u, ok := v.(*ssa.UnOp)
		if !ok || u.Op != token.MUL {
			return false
		}
		ia, ok := u.X.(*ssa.IndexAddr)
		return ok && fieldVar(ia.X) == m.cacheStatuses
	}
	// a counter of InSync entries: a phi whose increments are all guarded by elem == InSync
	isSyncedCounter := func(v ssa.Value) bool {
		phi, ok := v.(*ssa.Phi)
		if !ok {
			return false
		}
		nInc := 0
		for _, e := range phi.Edges {
			if e == ssa.Value(phi) {
				continue
			}
			if cv, isC := constOf(e); isC && cv.ExactString() == "0" {
				continue
			}
			bo, ok := e.(*ssa.BinOp)
			if !ok || bo.Op != token.ADD || bo.X != ssa.Value(phi) {
				return false
			}
			if cv, isC := constOf(bo.Y); !isC || cv.ExactString() != "1" {
				return false
			}
			if !guardedCut(bo, eqCond(true, isStatusElem, func(x ssa.Value) bool { return m.isConst(x, m.insync) })) {
				return false
			}
			nInc++
		}
		return nInc > 0
	}
	allSynced := eqCond(true, isSyncedCounter, isLenStatuses)

	nCalls := 0
	for _, f := range m.fns {
		for _, ci := range m.callsTo(f, statusFn) {
			nCalls++
			call, isCall := ci.(*ssa.Call)
			key := "C26.agg/insync-when-all-synced/" + fnName(topFn(f))
			if !isCall || len(call.Call.Args) < 2 {
				c.Undecided(key, p.Pos(ci.Pos()), "status sender not called directly")
				continue
			}
			bad, und := "", ""
			var walk func(v ssa.Value, depth int)
			walk = func(v ssa.Value, depth int) {
				switch x := v.(type) {
				case *ssa.Const:
				case *ssa.Phi:
					if depth > 3 {
						und = "nested phi"
						return
					}
					for i, e := range x.Edges {
						if m.isConst(e, m.insync) {
							pb := x.Block().Preds[i]
							if !guardedCut(pb.Instrs[0], allSynced) {
								bad = "the InSync value is selected on an edge that is not guarded by `<count of InSync entries> == len(cacheStatuses)`"
							}
						} else {
							walk(e, depth+1)
						}
					}
				default:
					und = "status value " + path(v) + " is neither a constant nor a selection of constants"
				}
			}
			arg := call.Call.Args[1]
			if m.isConst(arg, m.insync) {
				bad = "InSync is announced unconditionally"
			} else {
				walk(arg, 0)
			}
			if und != "" && bad == "" {
				c.Undecided(key, p.Pos(ci.Pos()), "%s", und)
				continue
			}
			c.Check(bad == "", key, p.Pos(ci.Pos()),
				"InSync is announced only under numSynced == len(cacheStatuses), numSynced counting InSync entries (other call sites pass other constants)",
				bad+": the syncer would report in-sync before every resource type has completed a list")
			// flush first (only where a status can change after updates were buffered: callers that also call the flusher or take updates)
			if m.hasUpdateParam(topFn(f)) {
				flushed := false
				for _, fc := range m.callsTo(f, flushFn) {
					if instrDominates(fc, ci) {
						flushed = true
					}
				}
				c.Check(flushed, "C26.agg/flush-before-status/"+fnName(topFn(f)), p.Pos(ci.Pos()),
					"buffered updates are flushed before the status is announced",
					"a status is announced while updates received before it are still buffered: the consumer sees in-sync before the data it covers")
			}
		}
	}
	if nCalls < 2 {
		c.Lost("call sites of %s: %d", fnName(statusFn), nCalls)
	}

	// per-cache statuses never start as InSync
	nInit := 0
	bad := ""
	for _, f := range m.fns {
		for _, st := range storesToField(f, false, "watcherSyncer", m.cacheStatuses.Name()) {
			os := origins(st.Val, func(x ssa.Value) []ssa.Value {
				if ci, ok := x.(*ssa.Call); ok {
					if cc, isApp := isBuiltinCall(ci, "append"); isApp && len(cc.Args) == 2 {
						return []ssa.Value{cc.Args[1]} // the appended elements
					}
				}
				return nil
			})
			for _, o := range os {
				// appended elements arrive as a slice of a varargs array: look at the stores into it
				if al, ok := o.V.(*ssa.Alloc); ok {
					if refs := al.Referrers(); refs != nil {
						for _, r := range *refs {
							if ia, ok := r.(*ssa.IndexAddr); ok && ia.Referrers() != nil {
								for _, rr := range *ia.Referrers() {
									if s2, ok := rr.(*ssa.Store); ok && s2.Addr == ssa.Value(ia) {
										nInit++
										if _, isC := constOf(s2.Val); !isC || m.isConst(s2.Val, m.insync) {
											bad = p.Pos(s2.Pos())
										}
									}
								}
							}
						}
					}
				}
			}
		}
	}
	if nInit == 0 {
		c.Lost("no initial per-cache status appended to cacheStatuses")
	}
	c.Check(bad == "", "C26.agg/initial-status", p.Pos(m.cacheStatuses.Pos()),
		fmt.Sprintf("per-cache statuses are initialised with a constant other than InSync (%d site(s))", nInit),
		"a cache's initial status at "+bad+" is InSync (or not a constant): a resource type that never completed a list would count as synced")
}

func (m *c26Model) hasUpdateParam(f *ssa.Function) bool {
	for _, pa := range f.Params {
		if sl, ok := pa.Type().Underlying().(*types.Slice); ok && qualTypeName(sl.Elem()) == c25APIPkg+".Update" {
			return true
		}
	}
	return false
}

// ------------------------------------------------------------- convreset --

// convResetRules: a full re-List carries no delete events, so a stateful
// converter (UpdateProcessor) must be told to drop its private cache before the
// items of a new list are converted.  Decided as a forward may-analysis over the
// resync function with three states of the converter:
//
//	F  stale: items were converted since the last reset and a newer List was issued
//	   (also the state at function entry: the watch loop converts events)
//	T  reset since the last conversion
//	D  converting the items of the current list (reset happened before the first one)
//
// reset: *→T;  List: D→F;  conversion: T→D, D→D, F→violation.  Edges on which
// UpdateProcessor is nil are not followed.
func (m *c26Model) convResetRules() {
	c, p := m.c, m.p
	up := m.fld("ResourceType.UpdateProcessor")
	ifaceName := c26Pkg + ".SyncerUpdateProcessor"
	{
		obj := p.LookupObj(c26Pkg, "SyncerUpdateProcessor")
		if obj == nil {
			c.Lost("SyncerUpdateProcessor")
		}
		it, _ := obj.Type().Underlying().(*types.Interface)
		if it == nil {
			c.Lost("SyncerUpdateProcessor is not an interface")
		}
		have := map[string]bool{}
		for i := 0; i < it.NumMethods(); i++ {
			have[it.Method(i).Name()] = true
		}
		if !have["OnSyncerStarting"] || !have["Process"] {
			c.Lost("SyncerUpdateProcessor.OnSyncerStarting / Process")
		}
	}
	invokes := func(in ssa.Instruction, name string) bool {
		ci, ok := in.(ssa.CallInstruction)
		if !ok {
			return false
		}
		cc := ci.Common()
		return cc.IsInvoke() && cc.Method.Name() == name && qualTypeName(cc.Value.Type()) == ifaceName
	}
	nilUP := c25NilCond(true, func(v ssa.Value) bool { return fieldVar(v) == up })

	// Interprocedural forward dataflow.  flow(g, s) is the transfer function of g for one
	// entry state s: the set of states at g's returns, whether a conversion inside g (or below)
	// can happen in state F, and whether g converts at all.  Calls of in-package functions with
	// a body apply the callee's transfer function at the call, so a reset, a List or a
	// conversion keeps its meaning wherever an extract-method refactor puts it.
	const stF, stT, stD = 1, 2, 4
	pkgOf := m.resyncFn.Pkg
	relevantMemo := map[*ssa.Function]bool{}
	relevant := func(g *ssa.Function) bool {
		if g == nil || g.Blocks == nil || g.Pkg != pkgOf || !m.ip.inPkg[g] {
			return false
		}
		if r, ok := relevantMemo[g]; ok {
			return r
		}
		r := m.reachesInstr(g, func(in ssa.Instruction) bool {
			return invokes(in, "OnSyncerStarting") || invokes(in, "Process") || m.isListCall(in)
		})
		relevantMemo[g] = r
		return r
	}
	type fkey struct {
		g *ssa.Function
		s uint8
	}
	type fres struct {
		out        uint8
		bad, convs bool
		badAt      ssa.Instruction
	}
	memo := map[fkey]fres{}
	busy := map[fkey]bool{}
	var flow func(g *ssa.Function, s uint8) fres
	// step applies one instruction to the state set s.
	step := func(i ssa.Instruction, s uint8) (out uint8, bad, convs bool, badAt ssa.Instruction) {
		switch {
		case invokes(i, "OnSyncerStarting"):
			return stT, false, false, nil
		case m.isListCall(i):
			if s&stD != 0 {
				s = s&^stD | stF
			}
			return s, false, false, nil
		case invokes(i, "Process"):
			return stD, s&stF != 0, true, i
		}
		ci, ok := i.(*ssa.Call)
		if !ok {
			return s, false, false, nil
		}
		h := calleeFn(ci.Common())
		if !relevant(h) {
			return s, false, false, nil
		}
		for _, bit := range []uint8{stF, stT, stD} {
			if s&bit == 0 {
				continue
			}
			r := flow(h, bit)
			out |= r.out
			if r.bad {
				bad = true
				if badAt == nil {
					badAt = r.badAt
				}
			}
			convs = convs || r.convs
		}
		return out, bad, convs, badAt
	}
	flow = func(g *ssa.Function, s0 uint8) fres {
		k := fkey{g, s0}
		if r, ok := memo[k]; ok {
			return r
		}
		if busy[k] {
			return fres{out: s0} // recursion: assume no further effect
		}
		busy[k] = true
		defer delete(busy, k)
		var res fres
		in := map[*ssa.BasicBlock]uint8{g.Blocks[0]: s0}
		work := []*ssa.BasicBlock{g.Blocks[0]}
		for len(work) > 0 {
			b := work[len(work)-1]
			work = work[:len(work)-1]
			s := in[b]
			for _, i := range b.Instrs {
				if s == 0 {
					break
				}
				o, bad, convs, at := step(i, s)
				if bad {
					res.bad = true
					if res.badAt == nil {
						res.badAt = at
					}
				}
				res.convs = res.convs || convs
				s = o
				if _, isRet := i.(*ssa.Return); isRet {
					res.out |= s
				}
			}
			if s == 0 || isPanicBlock(b) {
				continue
			}
			ifi, isIf := b.Instrs[len(b.Instrs)-1].(*ssa.If)
			for k, succ := range b.Succs {
				if isIf && len(b.Succs) == 2 && b.Succs[0] != b.Succs[1] {
					if cnd, pol := stripNot(ifi.Cond, k == 0); nilUP(cnd, pol) {
						continue
					}
				}
				if in[succ]|s != in[succ] {
					in[succ] |= s
					work = append(work, succ)
				}
			}
		}
		memo[k] = res
		return res
	}

	f := m.resyncFn
	// closures that reset / list / convert but are not simply called cannot be ordered
	for g := range m.ip.reach(f, nil) {
		if g.Parent() != nil && relevant(g) {
			if _, ok := m.ip.helperSites(g); !ok {
				c.Undecided("C26.convreset/"+fnName(f), p.Pos(g.Pos()), "%s resets, lists or converts inside a closure that is not simply called", fnName(g))
				return
			}
		}
	}
	// The root is walked with the same transfer, recording every top-level conversion site.
	in := map[*ssa.BasicBlock]uint8{f.Blocks[0]: stF}
	sites := map[string]ssa.Instruction{}
	bad := map[string]ssa.Instruction{}
	work := []*ssa.BasicBlock{f.Blocks[0]}
	for len(work) > 0 {
		b := work[len(work)-1]
		work = work[:len(work)-1]
		s := in[b]
		for _, i := range b.Instrs {
			if s == 0 {
				break
			}
			o, isBad, convs, at := step(i, s)
			if convs {
				what := "UpdateProcessor.Process"
				if ci, ok := i.(*ssa.Call); ok && !invokes(i, "Process") {
					what = fnName(calleeFn(ci.Common()))
				}
				if _, ok := sites[what]; !ok {
					sites[what] = i
				}
				if isBad {
					if _, ok := bad[what]; !ok {
						bad[what] = at
					}
				}
			}
			s = o
		}
		if s == 0 || isPanicBlock(b) {
			continue
		}
		ifi, isIf := b.Instrs[len(b.Instrs)-1].(*ssa.If)
		for k, succ := range b.Succs {
			if isIf && len(b.Succs) == 2 && b.Succs[0] != b.Succs[1] {
				if cnd, pol := stripNot(ifi.Cond, k == 0); nilUP(cnd, pol) {
					continue
				}
			}
			if in[succ]|s != in[succ] {
				in[succ] |= s
				work = append(work, succ)
			}
		}
	}
	if len(sites) == 0 {
		c.Lost("%s converts no listed items (no call reaching SyncerUpdateProcessor.Process)", fnName(f))
	}
	for what, site := range sites {
		key := "C26.convreset/" + fnName(f) + "/" + what
		if at, isBad := bad[what]; isBad {
			c.Violate(key, p.Pos(at.Pos()), "%s: listed items are converted through %s at %s on a path on which SyncerUpdateProcessor.OnSyncerStarting() was not called since the items of the previous list (or watch events before this resync) were converted, and UpdateProcessor is not known to be nil: "+
				"a re-List carries no deletions, so a stateful converter keeps entries for resources that vanished and the emitted stream does not converge to the converted datastore contents", fnName(f), what, p.Pos(at.Pos()))
		} else {
			c.Ok(key, p.Pos(site.Pos()), "on every path the converter is reset (OnSyncerStarting, or UpdateProcessor == nil) between the conversion of one list's items and the next")
		}
	}
}
