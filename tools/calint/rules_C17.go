package main

import (
	"fmt"
	"go/token"
	"go/types"
	"strings"

	"golang.org/x/tools/go/ssa"
)

const c17RTPkg = "felix/routetable"

func init() {
	register(&Property{
		ID:        "C17",
		Title:     "Route sync converges for Felix's routes and leaves other routes alone",
		Technique: "static analysis: cut-set guard analysis (ownership filters), nil-error-edge analysis of deltatracker Iter closures, failure-path analysis up to the returned error (go/ssa over felix/routetable)",
		DesignRef: "DESIGN.md §3 C17",
		Explanation: "Decides structural clauses of the property on RouteTable: (own) a route read from the kernel is recorded in the tracker's dataplane view (and hence becomes deletable) only under routeIsOurs on that same route, routeIsOurs returns true only under OwnershipPolicy.RouteIsOurs, and the exported mutators change desired routes only under OwnershipPolicy.IfaceIsOurs(ifaceName); " +
			"(iteraction) every closure handed to kernelRoutes.PendingUpdates()/PendingDeletions().Iter returns IterActionUpdateDataplane only on the nil-error edge of its netlink call; " +
			"(errreport) on the error edge the failure is recorded (error map or interface rescan) on every path, and every error map makes applyUpdates return a non-nil error, so Apply never reports success while a route write failed.",
		NotDecided: "Conflict resolution by route class (the arg-min over map iteration in recalculateDesiredKernelRoute) and the convergence arithmetic of the delta tracker; the heuristics inside MainTableOwnershipPolicy.RouteIsOurs; interface-state bookkeeping.",
		Assumptions: []string{
			"go/types + go/ssa (x/tools v0.50.0) model of the current source, CGO_ENABLED=0 build",
			"deltatracker.Pending*View.Iter applies IterActionUpdateDataplane as documented; package-level Err* variables are non-nil",
		},
		Run: runC17,
		Fixtures: []Fixture{
			{Name: "route delete failure recorded as deleted", File: "felix/routetable/route_table.go",
				Old: "\t\terr := r.deleteRoute(nl, routeKey)\n\t\tif err != nil {\n\t\t\tdeletionErrs[routeKey] = err\n\t\t\treturn deltatracker.IterActionNoOp\n\t\t}\n\t\tr.conntrackTracker.OnDataplaneRouteDeleted(routeKey.CIDR, kernRoute.Ifindex)\n\n", New: "\t\terr := r.deleteRoute(nl, routeKey)\n\t\tif err != nil {\n\t\t\tdeletionErrs[routeKey] = err\n\t\t}\n\t\tr.conntrackTracker.OnDataplaneRouteDeleted(routeKey.CIDR, kernRoute.Ifindex)\n\n", Expect: "C17.iteraction/RouteTable.applyUpdates/PendingDeletions/deleteRoute"},
			{Name: "interface-down race counted as programmed", File: "felix/routetable/route_table.go",
				Old: "\t\t\t\t\tr.ifacesToRescan.Add(name)\n\t\t\t\t\treturn deltatracker.IterActionNoOp\n", New: "\t\t\t\t\tr.ifacesToRescan.Add(name)\n\t\t\t\t\treturn deltatracker.IterActionUpdateDataplane\n", Expect: "C17.iteraction/RouteTable.applyUpdates/PendingUpdates/RouteReplace"},
			{Name: "foreign routes tracked during full resync", File: "felix/routetable/route_table.go",
				Old: "\t\t\tr.onIfaceSeen(route.LinkIndex)\n\n\t\t\tif !r.routeIsOurs(&scratchRoute) {\n\t\t\t\t// Not a route that we're managing.\n\t\t\t\treturn true\n\t\t\t}\n", New: "\t\t\tr.onIfaceSeen(route.LinkIndex)\n", Expect: "C17.own/dataplane-set/RouteTable.doFullResync"},
			{Name: "ownership policy consulted but ignored", File: "felix/routetable/route_table.go",
				Old: "\t\tlogCxt.Debug(\"Ignoring route (it doesn't belong to us).\")\n\t\treturn false\n", New: "\t\tlogCxt.Debug(\"Ignoring route (it doesn't belong to us).\")\n", Expect: "C17.own/routeIsOurs"},
			{Name: "RouteUpdate accepts interfaces of other tables", File: "felix/routetable/route_table.go",
				Old: "\t\t\t\"Cannot set route for interface not managed by this routetable.\")\n\t\treturn\n\t}\n\tr.checkTargets(ifaceName, target)\n", New: "\t\t\t\"Cannot set route for interface not managed by this routetable.\")\n\t}\n\tr.checkTargets(ifaceName, target)\n", Expect: "C17.own/iface-guard/RouteTable.RouteUpdate"},
			{Name: "route delete error swallowed", File: "felix/routetable/route_table.go",
				Old: "\t\terr := r.deleteRoute(nl, routeKey)\n\t\tif err != nil {\n\t\t\tdeletionErrs[routeKey] = err\n\t\t\treturn deltatracker.IterActionNoOp\n\t\t}\n\t\tr.conntrackTracker.OnDataplaneRouteDeleted(routeKey.CIDR, kernRoute.Ifindex)\n\n", New: "\t\terr := r.deleteRoute(nl, routeKey)\n\t\tif err != nil {\n\t\t\treturn deltatracker.IterActionNoOp\n\t\t}\n\t\tr.conntrackTracker.OnDataplaneRouteDeleted(routeKey.CIDR, kernRoute.Ifindex)\n\n", Expect: "C17.errreport/RouteTable.applyUpdates/PendingDeletions/deleteRoute"},
			{Name: "update errors logged but not returned", File: "felix/routetable/route_table.go",
				Old: "\t\t\t\"Encountered some errors when trying to update routes.  Will retry.\")\n\t\terr = ErrUpdateFailed\n", New: "\t\t\t\"Encountered some errors when trying to update routes.  Will retry.\")\n", Expect: "C17.errreport/RouteTable.applyUpdates/returned"},
		},
	})
}

func runC17(c *Ctx) {
	c.Rule("C17.iteraction", "E-ERR", "closures handed to kernelRoutes Pending*().Iter return IterActionUpdateDataplane only behind the nil-error edge of their netlink call", 3)
	c.Rule("C17.own", "E-GUARD", "kernel routes enter the tracker only under routeIsOurs(route); routeIsOurs returns true only under OwnershipPolicy.RouteIsOurs; exported mutators change desired routes only under IfaceIsOurs(ifaceName)", 6)
	c.Rule("C17.errreport", "E-ERR", "on the error edge of a route write the failure is recorded on every path, and every record makes applyUpdates return non-nil", 5)

	p := c.Load(c17RTPkg)
	sites, _ := c17CheckIterAction(c, p, "C17.iteraction", c17RTPkg)
	c17Own(c, p)
	c17ErrReport(c, p, sites)
}

func c17Own(c *Ctx, p *Prog) {
	tracker, _ := p.LookupObj(c17RTPkg, "RouteTable.kernelRoutes").(*types.Var)
	isOurs, _ := p.LookupObj(c17RTPkg, "RouteTable.routeIsOurs").(*types.Func)
	polRoute, _ := p.LookupObj(c17RTPkg, "OwnershipPolicy.RouteIsOurs").(*types.Func)
	polIface, _ := p.LookupObj(c17RTPkg, "OwnershipPolicy.IfaceIsOurs").(*types.Func)
	desired, _ := p.LookupObj(c17RTPkg, "RouteTable.ifaceToRoutes").(*types.Var)
	if tracker == nil || isOurs == nil || polRoute == nil || polIface == nil || desired == nil {
		c.Lost("RouteTable.kernelRoutes / routeIsOurs / OwnershipPolicy.RouteIsOurs / IfaceIsOurs / ifaceToRoutes")
	}
	// (a) Dataplane().Set on kernelRoutes
	n := 0
	for _, fn := range c16PkgFuncs(p, c17RTPkg) {
		for _, cs := range callsIn(fn, false, func(f *types.Func) bool {
			return f.Name() == "Set" && f.Pkg() != nil && f.Pkg().Path() == calicoPrefix+c17DeltaPkg && recvTypeName(f) == "DataplaneView"
		}) {
			view, ok := cs.Args()[0].(*ssa.Call)
			if !ok || len(view.Common().Args) == 0 || fieldVar(view.Common().Args[0]) != tracker {
				continue
			}
			n++
			key := "C17.own/dataplane-set/" + fnName(topFn(fn))
			// the route the key was derived from
			var src ssa.Value
			for _, o := range origins(cs.Args()[1], nil) {
				if call, ok := o.V.(*ssa.Call); ok && len(call.Common().Args) >= 2 {
					src = call.Common().Args[len(call.Common().Args)-1]
				}
			}
			g := guardedCut(cs.Instr, callCond(true, func(g CallSite) bool {
				return g.Callee == isOurs && len(g.Args()) == 2 && (src == nil || g.Args()[1] == src)
			}))
			c.Check(g && src != nil, key, p.Pos(cs.Instr.Pos()),
				"kernel route recorded in the dataplane view only under routeIsOurs on the same route",
				"kernelRoutes.Dataplane().Set in "+fnName(fn)+" is reachable without routeIsOurs(route) having returned true for the route it was built from: routes of other software would be tracked and then deleted as unwanted")
		}
	}
	if n == 0 {
		c.Lost("no kernelRoutes.Dataplane().Set site in felix/routetable")
	}
	// routeIsOurs: true only under the policy
	rf := p.Func(c17RTPkg, "RouteTable.routeIsOurs")
	if rf == nil {
		c.Lost("RouteTable.routeIsOurs body")
	}
	bad := ""
	nTrue := 0
	for _, r := range returnsOf(rf) {
		targets := []ssa.Instruction{}
		var fromVal func(v ssa.Value, at ssa.Instruction)
		fromVal = func(v ssa.Value, at ssa.Instruction) {
			switch x := v.(type) {
			case *ssa.Const:
				if x.Value != nil && x.Value.ExactString() == "true" {
					targets = append(targets, at)
				}
			case *ssa.Phi:
				for i, e := range x.Edges {
					pb := x.Block().Preds[i]
					fromVal(e, pb.Instrs[len(pb.Instrs)-1])
				}
			default:
				// returning the policy's own answer is fine
				if call, ok := v.(*ssa.Call); !ok || calleeOf(call.Common()) != polRoute {
					bad = "returns " + path(v)
				}
			}
		}
		fromVal(r.Results[0], r)
		for _, t := range targets {
			nTrue++
			if !guardedCut(t, callCond(true, func(g CallSite) bool { return g.Callee == polRoute && g.Args()[2] == ssa.Value(rf.Params[1]) })) {
				bad = "`return true` at " + p.Pos(t.Pos()) + " is reachable without OwnershipPolicy.RouteIsOurs(…, route) having returned true"
			}
		}
	}
	c.Check(bad == "" && nTrue > 0, "C17.own/routeIsOurs", p.Pos(rf.Pos()), "routeIsOurs answers true only when the ownership policy claimed the route", "routeIsOurs: "+bad)

	// (b) exported mutators of desired routes
	for _, m := range p.methodsOf(c17RTPkg, "RouteTable") {
		o, _ := m.Object().(*types.Func)
		if o == nil || !o.Exported() {
			continue
		}
		var muts []ssa.Instruction
		allInstrs(m, false, func(_ *ssa.Function, in ssa.Instruction) {
			var mp ssa.Value
			if mu, ok := in.(*ssa.MapUpdate); ok {
				mp = mu.Map
			} else if cc, ok := isBuiltinCall(in, "delete"); ok && len(cc.Args) == 2 {
				mp = cc.Args[0]
			}
			for mp != nil {
				if fieldVar(mp) == desired {
					muts = append(muts, in)
					break
				}
				lk, ok := mp.(*ssa.Lookup)
				if !ok {
					break
				}
				mp = lk.X
			}
		})
		if len(muts) == 0 {
			continue
		}
		var ifaceParam *ssa.Parameter
		for _, cs := range callsIn(m, false, func(f *types.Func) bool { return f == polIface }) {
			if pa, ok := cs.Args()[1].(*ssa.Parameter); ok {
				ifaceParam = pa
			}
		}
		key := "C17.own/iface-guard/" + fnName(m)
		bad := ""
		for _, in := range muts {
			if ifaceParam == nil || !guardedCut(in, callCond(true, func(g CallSite) bool { return g.Callee == polIface && g.Args()[1] == ssa.Value(ifaceParam) })) {
				bad = p.Pos(in.Pos())
			}
		}
		c.Check(bad == "", key, p.Pos(m.Pos()), fmt.Sprintf("%d desired-route mutation(s) only under IfaceIsOurs(ifaceName)", len(muts)),
			fnName(m)+" changes ifaceToRoutes at "+bad+" without IfaceIsOurs(ifaceName) having returned true: routes would be programmed for interfaces this table does not own")
	}
}

// c17NonNilFrom: on every path through block `from`, value v (a returned error)
// is non-nil.  Phi edges whose predecessor cannot be reached from `from` are
// ignored; loads of package-level error variables count as non-nil.
func c17NonNilFrom(v ssa.Value, from *ssa.BasicBlock, depth int) bool {
	if depth > 12 {
		return false
	}
	switch x := v.(type) {
	case *ssa.Phi:
		reach := blockReach(from)
		any := false
		for i, e := range x.Edges {
			pb := x.Block().Preds[i]
			if pb != from && !reach[pb] {
				continue
			}
			any = true
			if e == ssa.Value(x) {
				continue
			}
			if !c17NonNilFrom(e, from, depth+1) {
				return false
			}
		}
		return any
	case *ssa.UnOp:
		if x.Op == token.MUL {
			if g, ok := x.X.(*ssa.Global); ok && c17IsErrorType(g.Type().(*types.Pointer).Elem()) {
				return true
			}
		}
		return false
	case *ssa.MakeInterface:
		return true
	case *ssa.Call:
		// fmt.Errorf / errors.New always return non-nil
		if f := calleeOf(x.Common()); f != nil && f.Pkg() != nil && (f.Pkg().Path() == "fmt" || f.Pkg().Path() == "errors") {
			return f.Name() == "Errorf" || f.Name() == "New"
		}
	}
	return false
}

func c17ErrReport(c *Ctx, p *Prog, sites []c17IterSite) {
	rescan, _ := p.LookupObj(c17RTPkg, "RouteTable.ifacesToRescan").(*types.Var)
	if rescan == nil {
		c.Lost("RouteTable.ifacesToRescan")
	}
	var parent *ssa.Function
	cells := map[*ssa.Alloc]bool{}
	var cellOrder []*ssa.Alloc
	n := 0
	for _, s := range sites {
		if s.Closure == nil {
			continue
		}
		fall := c17FallibleCalls(s.Closure)
		if len(fall) == 0 {
			continue
		}
		if parent == nil {
			parent = s.Encl
		} else if parent != s.Encl {
			c.Lost("route Iter closures with netlink calls live in more than one function (%s, %s)", fnName(parent), fnName(s.Encl))
		}
		// record instructions inside the closure
		var via []ssa.Instruction
		allInstrs(s.Closure, false, func(_ *ssa.Function, in ssa.Instruction) {
			switch x := in.(type) {
			case *ssa.MapUpdate:
				if ld, ok := x.Map.(*ssa.UnOp); ok && c17IsErrorType(x.Value.Type()) {
					if al, ok := c17Cell(ld.X).(*ssa.Alloc); ok && al.Parent() == s.Encl {
						via = append(via, in)
						if !cells[al] {
							cells[al] = true
							cellOrder = append(cellOrder, al)
						}
					}
				}
			case ssa.CallInstruction:
				if f := calleeOf(x.Common()); f != nil && f.Name() == "Add" {
					args := CallSite{Instr: x, Callee: f}.Args()
					if len(args) > 0 && fieldVar(args[0]) == rescan {
						via = append(via, in)
					}
				}
			}
		})
		for _, fc := range fall {
			n++
			key := fmt.Sprintf("C17.errreport/%s/%s/%s", fnName(s.Encl), s.Kind, fc.Name)
			bad := ""
			for _, r := range returnsOf(s.Closure) {
				if !c17PathsThrough(fc.Call, r, via, c17NilEdge(fc.isErr)) {
					bad = p.Pos(r.Pos())
				}
			}
			c.Check(bad == "", key, p.Pos(fc.Call.Pos()),
				"every failure path of "+fc.Name+" records the error (error map) or queues an interface rescan before returning",
				"a failure of "+fc.Name+" can reach the return at "+bad+" without being recorded: applyUpdates would report success although the kernel route was not written")
		}
	}
	if parent == nil {
		c.Lost("no route Iter closure with a netlink call")
	}
	// every error map turns into a non-nil return of the parent
	rets := returnsOf(parent)
	for i, al := range cellOrder {
		n++
		key := fmt.Sprintf("C17.errreport/%s/returned#%d", fnName(parent), i+1)
		ok := false
		why := "no `len(map) > 0` test found"
		for _, b := range parent.Blocks {
			ifi, isIf := b.Instrs[len(b.Instrs)-1].(*ssa.If)
			if !isIf {
				continue
			}
			bo, isBo := ifi.Cond.(*ssa.BinOp)
			if !isBo || (bo.Op != token.GTR && bo.Op != token.NEQ) {
				continue
			}
			k, isK := constOf(bo.Y)
			lc, isCall := bo.X.(*ssa.Call)
			if !isK || k.ExactString() != "0" || !isCall {
				continue
			}
			if bi, isB := lc.Common().Value.(*ssa.Builtin); !isB || bi.Name() != "len" {
				continue
			}
			ld, isLd := lc.Common().Args[0].(*ssa.UnOp)
			if !isLd || c17Cell(ld.X) != ssa.Value(al) {
				continue
			}
			then := b.Succs[0]
			all := len(rets) > 0
			for _, r := range rets {
				if len(r.Results) == 0 || !(then == r.Block() || blockReach(then)[r.Block()]) {
					continue
				}
				if !c17NonNilFrom(r.Results[len(r.Results)-1], then, 0) {
					all = false
					why = "the error returned at " + p.Pos(r.Pos()) + " can still be nil when the map is non-empty"
				}
			}
			if all {
				ok = true
			}
		}
		c.Check(ok, key, p.Pos(al.Pos()), "a non-empty error map makes "+fnName(parent)+" return a non-nil error",
			"errors recorded in the map declared at "+p.Pos(al.Pos())+" do not force a non-nil return of "+fnName(parent)+": "+why)
	}
	_ = n
}

var _ = strings.Contains
