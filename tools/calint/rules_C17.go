package main

import (
	"fmt"
	"go/token"
	"go/types"
	"sort"
	"strings"

	"golang.org/x/tools/go/ssa"
)

const c17RTPkg = "felix/routetable"

func init() {
	register(&Property{
		ID:        "C17",
		Title:     "Route sync converges for Felix's routes and leaves other routes alone",
		Technique: "static analysis: cut-set guard analysis (ownership filters), nil-error-edge analysis of deltatracker Iter closures, failure-path analysis up to the returned error, value provenance of map-delete keys (mirror maps), reset-on-every-cycle analysis of retried dumps, must-follow (path) analysis of claimant-index mutations with caller lifting, explicit path search with phi resolution and nil-facts for nil returns vs. deferred-work emptiness tests (go/ssa over felix/routetable)",
		DesignRef: "DESIGN.md §3 C17",
		Explanation: "Decides structural clauses of the property on RouteTable: (own) a route read from the kernel is recorded in the tracker's dataplane view (and hence becomes deletable) only under routeIsOurs on that same route, routeIsOurs returns true only under OwnershipPolicy.RouteIsOurs, and the exported mutators change desired routes only under OwnershipPolicy.IfaceIsOurs(ifaceName); " +
			"(iteraction) every closure handed to kernelRoutes.PendingUpdates()/PendingDeletions().Iter returns IterActionUpdateDataplane only on the nil-error edge of its netlink call; " +
			"(errreport) on the error edge the failure is recorded (error map or interface rescan) on every path, and every error map makes applyUpdates return a non-nil error, so Apply never reports success while a route write failed; " +
			"(ifmirror) the interface caches ifaceNameToIndex and the index-keyed maps updated together with it are kept as mirrors: entries of an index-keyed map are removed only under the index cached under the interface's name (never under a caller-supplied index), and removing a name removes its cached index from every index-keyed map, the index being read before the name is dropped; " +
			"(dumpretry) every collection the callback of a retried kernel route dump fills (seen-route sets) is reset on every CFG cycle that re-issues the dump, in the full and in the per-interface resync; " +
			"(recalc) every change of who claims a route key in the claimant index cidrToIfaces (per-key store/delete in a per-class map, Add/Discard/Clear on a claimant set read from or stored into it) is followed on every path to a return by a call of the one function that writes kernelRoutes.Desired() (recalculateDesiredKernelRoute) for that same key, in the mutating function or, for an unexported helper keyed by a parameter, in every caller; " +
			"(pending) the set fields that applyUpdates' Iter closures add to on the error edge of a route write instead of recording the error (derived: ifacesToRescan) are tested empty (or cleared) after the last attempt on every path on which an exported entry point reaching applyUpdates (Apply) returns a possibly-nil error.",
		NotDecided: "That changes of the per-interface targets (ifaceToRoutes) and of the interface index/state caches are followed by a recalculation of the affected keys (SetRoutes does it in a second loop over the new targets, RouteRemove relies on removeOwningIface finding the key: not a post-dominance fact); whether the emptiness test of the deferred-work set in a loop is fresh beyond 'evaluated in a block reachable from the attempt'.  Conflict resolution by route class (the arg-min over map iteration in recalculateDesiredKernelRoute) and the convergence arithmetic of the delta tracker; the heuristics inside MainTableOwnershipPolicy.RouteIsOurs; interface-state bookkeeping beyond the mirror-map removal discipline (e.g. that the renumbering branch of OnIfaceStateChanged leaves ifaceIndexToState[old index] behind; which state transitions trigger a rescan).",
		Assumptions: []string{
			"go/types + go/ssa (x/tools v0.50.0) model of the current source, CGO_ENABLED=0 build",
			"deltatracker.Pending*View.Iter applies IterActionUpdateDataplane as documented; package-level Err* variables are non-nil",
		},
		Run: runC17,
		Fixtures: []Fixture{
			{Name: "route delete failure recorded as deleted", File: "felix/routetable/route_table.go",
				Old: "\t\terr := r.deleteRoute(nl, routeKey)\n\t\tif err != nil {\n\t\t\tdeletionErrs[routeKey] = err\n\t\t\treturn deltatracker.IterActionNoOp\n\t\t}\n\t\tr.conntrackTracker.OnDataplaneRouteDeleted(routeKey.CIDR, kernRoute.Ifindex)\n\n", New: "\t\terr := r.deleteRoute(nl, routeKey)\n\t\tif err != nil {\n\t\t\tdeletionErrs[routeKey] = err\n\t\t}\n\t\tr.conntrackTracker.OnDataplaneRouteDeleted(routeKey.CIDR, kernRoute.Ifindex)\n\n", Expect: "C17.iteraction/RouteTable.applyUpdates/PendingDeletions/deleteRoute"},
			{Name: "interface-down race counted as programmed", File: "felix/routetable/route_table.go",
				Old: "\t\t\t\t\tr.ifacesToRescan.Add(name)\n\t\t\t\t\treturn deltatracker.IterActionNoOp\n", New: "\t\t\t\t\tr.ifacesToRescan.Add(name)\n\t\t\t\t\treturn deltatracker.IterActionUpdateDataplane\n", Expect: "C17.iteraction/RouteTable.applyUpdates/PendingUpdates/RouteReplace"},
			{Name: "foreign routes tracked during full resync", File: "felix/routetable/route_table.go",
				Old: "\t\t\tr.onIfaceSeen(route.LinkIndex)\n\n\t\t\tif !r.routeIsOurs(&scratchRoute) {\n\t\t\t\t// Not a route that we're managing.\n\t\t\t\treturn true\n\t\t\t}\n", New: "\t\t\tr.onIfaceSeen(route.LinkIndex)\n", Expect: "C17.own/dataplane-set/RouteTable.doFullResync"},
			{Name: "ownership policy consulted but ignored", File: "felix/routetable/route_table.go",
				Old: "\t\tlogCxt.Debug(\"Ignoring route (it doesn't belong to us).\")\n\t\treturn false\n", New: "\t\tlogCxt.Debug(\"Ignoring route (it doesn't belong to us).\")\n", Expect: "C17.own/routeIsOurs"},
			{Name: "RouteUpdate accepts interfaces of other tables", File: "felix/routetable/route_table.go",
				Old: "\t\t\t\"Cannot set route for interface not managed by this routetable.\")\n\t\treturn\n\t}\n\tr.checkTargets(ifaceName, target)\n", New: "\t\t\t\"Cannot set route for interface not managed by this routetable.\")\n\t}\n\tr.checkTargets(ifaceName, target)\n", Expect: "C17.own/iface-guard/RouteTable.RouteUpdate"},
			{Name: "route delete error swallowed", File: "felix/routetable/route_table.go",
				Old: "\t\terr := r.deleteRoute(nl, routeKey)\n\t\tif err != nil {\n\t\t\tdeletionErrs[routeKey] = err\n\t\t\treturn deltatracker.IterActionNoOp\n\t\t}\n\t\tr.conntrackTracker.OnDataplaneRouteDeleted(routeKey.CIDR, kernRoute.Ifindex)\n\n", New: "\t\terr := r.deleteRoute(nl, routeKey)\n\t\tif err != nil {\n\t\t\treturn deltatracker.IterActionNoOp\n\t\t}\n\t\tr.conntrackTracker.OnDataplaneRouteDeleted(routeKey.CIDR, kernRoute.Ifindex)\n\n", Expect: "C17.errreport/RouteTable.applyUpdates/PendingDeletions/deleteRoute"},
			{Name: "link state dropped under the event's ifindex instead of the cached one", File: "felix/routetable/route_table.go",
				Old: "\t\tdelete(r.ifaceIndexToState, oldIndex)\n", New: "\t\tdelete(r.ifaceIndexToState, ifIndex)\n", Expect: "C17.ifmirror/key/RouteTable.OnIfaceStateChanged/ifaceIndexToState"},
			{Name: "interface name forgotten before its cached index is read", File: "felix/routetable/route_table.go",
				Old: "\t\toldIndex := r.ifaceNameToIndex[ifaceName]\n\t\tdelete(r.ifaceIndexToName, oldIndex)\n\t\tdelete(r.ifaceIndexToState, oldIndex)\n\t\tdelete(r.ifaceNameToIndex, ifaceName)\n",
				New: "\t\tdelete(r.ifaceNameToIndex, ifaceName)\n\t\toldIndex := r.ifaceNameToIndex[ifaceName]\n\t\tdelete(r.ifaceIndexToName, oldIndex)\n\t\tdelete(r.ifaceIndexToState, oldIndex)\n", Expect: "C17.ifmirror/removal/RouteTable.OnIfaceStateChanged/ifaceIndexToName"},
			{Name: "per-interface dump retried without forgetting the interrupted attempt", File: "felix/routetable/route_table.go",
				Old: "\t\t\tseenRoutes.Clear()\n", New: "", Expect: "C17.dumpretry/RouteTable.resyncIface/RouteListFilteredIter"},
			{Name: "full dump retried without forgetting the interrupted attempt", File: "felix/routetable/route_table.go",
				Old: "\t\t\tseenKeys.Clear()\n", New: "", Expect: "C17.dumpretry/RouteTable.doFullResync/RouteListFilteredIter"},
			{Name: "update errors logged but not returned", File: "felix/routetable/route_table.go",
				Old: "\t\t\t\"Encountered some errors when trying to update routes.  Will retry.\")\n\t\terr = ErrUpdateFailed\n", New: "\t\t\t\"Encountered some errors when trying to update routes.  Will retry.\")\n", Expect: "C17.errreport/RouteTable.applyUpdates/returned"},
			{Name: "withdrawing a claimant re-runs conflict resolution only when it was the last one", File: "felix/routetable/route_table.go",
				Old: "\tif ifaceNames.Len() == 0 {\n\t\tdelete(r.cidrToIfaces[class], routeKey)\n\t}\n\tr.recalculateDesiredKernelRoute(routeKey)\n",
				New: "\tif ifaceNames.Len() == 0 {\n\t\tdelete(r.cidrToIfaces[class], routeKey)\n\t\tr.recalculateDesiredKernelRoute(routeKey)\n\t}\n", Expect: "C17.recalc/RouteTable.removeOwningIface/set-Discard"},
			{Name: "a further claimant of an already claimed CIDR never gets to win", File: "felix/routetable/route_table.go",
				Old: "\t\tr.cidrToIfaces[class][routeKey] = ifaceNames\n\t}\n\tifaceNames.Add(ifaceName)\n\tr.recalculateDesiredKernelRoute(routeKey)\n",
				New: "\t\tr.cidrToIfaces[class][routeKey] = ifaceNames\n\t\tifaceNames.Add(ifaceName)\n\t\tr.recalculateDesiredKernelRoute(routeKey)\n\t\treturn\n\t}\n\tifaceNames.Add(ifaceName)\n", Expect: "C17.recalc/RouteTable.addOwningIface/set-Add"},
			{Name: "Apply no longer insists on an empty rescan queue", File: "felix/routetable/route_table.go",
				Old: "\tif r.ifacesToRescan.Len() > 0 {\n\t\t// Make sure the dataplane reschedules us.\n\t\treturn fmt.Errorf(\"some interfaces flapped during route update: %s\", r.ifacesToRescan.String())\n\t}\n\treturn err\n",
				New: "\treturn err\n", Expect: "C17.pending/RouteTable.Apply/ifacesToRescan"},
			{Name: "rescan queue only looked at when the retry failed anyway", File: "felix/routetable/route_table.go",
				Old: "\tif r.ifacesToRescan.Len() > 0 {\n\t\t// Make sure the dataplane reschedules us.\n",
				New: "\tif err != nil && r.ifacesToRescan.Len() > 0 {\n\t\t// Make sure the dataplane reschedules us.\n", Expect: "C17.pending/RouteTable.Apply/ifacesToRescan"},
		},
	})
}

func runC17(c *Ctx) {
	c.Rule("C17.iteraction", "E-ERR", "closures handed to kernelRoutes Pending*().Iter return IterActionUpdateDataplane only behind the nil-error edge of their netlink call", 3)
	c.Rule("C17.own", "E-GUARD", "kernel routes enter the tracker only under routeIsOurs(route); routeIsOurs returns true only under OwnershipPolicy.RouteIsOurs; exported mutators change desired routes only under IfaceIsOurs(ifaceName)", 6)
	c.Rule("C17.ifmirror", "E-PAIR", "the interface caches name->index and index->{name,state} are mirror maps: an entry is removed from an index-keyed map only under the index cached under the interface's name (never the event's argument), and removing a name removes its entry from every index-keyed map", 4)
	c.Rule("C17.dumpretry", "E-ORDER", "every collection filled by the callback of a retried kernel route dump is reset on every retry edge (each CFG cycle through the dump call passes a reset)", 2)
	c.Rule("C17.errreport", "E-ERR", "on the error edge of a route write the failure is recorded on every path, and every record makes applyUpdates return non-nil", 5)

	c.Rule("C17.recalc", "E-PAIR", "every change of who claims a route key in the claimant index (cidrToIfaces: per-key store/delete, Add/Discard on a claimant set) is followed on every path by a recalculation of the desired kernel route of that key", 4)
	c.Rule("C17.pending", "E-GUARD", "an exported entry point that (transitively) runs the route writes returns a nil error only behind a test that every deferred-work set filled by swallowed write errors (ifacesToRescan) is empty, evaluated after the last attempt", 1)

	p := c.Load(c17RTPkg)
	sites, _ := c17CheckIterAction(c, p, "C17.iteraction", c17RTPkg)
	c17Own(c, p)
	c17ErrReport(c, p, sites)
	c17IfMirror(c, p)
	c17DumpRetry(c, p)
	c17Recalc(c, p)
	c17Pending(c, p, sites)
}

func c17Own(c *Ctx, p *Prog) {
	tracker, _ := p.LookupObj(c17RTPkg, "RouteTable.kernelRoutes").(*types.Var)
	isOurs, _ := p.LookupObj(c17RTPkg, "RouteTable.routeIsOurs").(*types.Func)
	polRoute, _ := p.LookupObj(c17RTPkg, "OwnershipPolicy.RouteIsOurs").(*types.Func)
	polIface, _ := p.LookupObj(c17RTPkg, "OwnershipPolicy.IfaceIsOurs").(*types.Func)
	desired, _ := p.LookupObj(c17RTPkg, "RouteTable.ifaceToRoutes").(*types.Var)
	if tracker == nil || isOurs == nil || polRoute == nil || polIface == nil || desired == nil {
		c.Lost("RouteTable.kernelRoutes / routeIsOurs / OwnershipPolicy.RouteIsOurs / IfaceIsOurs / ifaceToRoutes")
	}
	// (a) Dataplane().Set on kernelRoutes
	n := 0
	for _, fn := range c16PkgFuncs(p, c17RTPkg) {
		for _, cs := range callsIn(fn, false, func(f *types.Func) bool {
			return f.Name() == "Set" && f.Pkg() != nil && f.Pkg().Path() == calicoPrefix+c17DeltaPkg && recvTypeName(f) == "DataplaneView"
		}) {
			view, ok := cs.Args()[0].(*ssa.Call)
			if !ok || len(view.Common().Args) == 0 || fieldVar(view.Common().Args[0]) != tracker {
				continue
			}
			n++
			key := "C17.own/dataplane-set/" + fnName(topFn(fn))
			// the route the key was derived from
			var src ssa.Value
			for _, o := range origins(cs.Args()[1], nil) {
				if call, ok := o.V.(*ssa.Call); ok && len(call.Common().Args) >= 2 {
					src = call.Common().Args[len(call.Common().Args)-1]
				}
			}
			g := guardedCut(cs.Instr, callCond(true, func(g CallSite) bool {
				return g.Callee == isOurs && len(g.Args()) == 2 && (src == nil || g.Args()[1] == src)
			}))
			c.Check(g && src != nil, key, p.Pos(cs.Instr.Pos()),
				"kernel route recorded in the dataplane view only under routeIsOurs on the same route",
				"kernelRoutes.Dataplane().Set in "+fnName(fn)+" is reachable without routeIsOurs(route) having returned true for the route it was built from: routes of other software would be tracked and then deleted as unwanted")
		}
	}
	if n == 0 {
		c.Lost("no kernelRoutes.Dataplane().Set site in felix/routetable")
	}
	// routeIsOurs: true only under the policy
	rf := p.Func(c17RTPkg, "RouteTable.routeIsOurs")
	if rf == nil {
		c.Lost("RouteTable.routeIsOurs body")
	}
	bad := ""
	nTrue := 0
	for _, r := range returnsOf(rf) {
		targets := []ssa.Instruction{}
		var fromVal func(v ssa.Value, at ssa.Instruction)
		fromVal = func(v ssa.Value, at ssa.Instruction) {
			switch x := v.(type) {
			case *ssa.Const:
				if x.Value != nil && x.Value.ExactString() == "true" {
					targets = append(targets, at)
				}
			case *ssa.Phi:
				for i, e := range x.Edges {
					pb := x.Block().Preds[i]
					fromVal(e, pb.Instrs[len(pb.Instrs)-1])
				}
			default:
				// returning the policy's own answer is fine
				if call, ok := v.(*ssa.Call); !ok || calleeOf(call.Common()) != polRoute {
					bad = "returns " + path(v)
				}
			}
		}
		fromVal(r.Results[0], r)
		for _, t := range targets {
			nTrue++
			if !guardedCut(t, callCond(true, func(g CallSite) bool { return g.Callee == polRoute && g.Args()[2] == ssa.Value(rf.Params[1]) })) {
				bad = "`return true` at " + p.Pos(t.Pos()) + " is reachable without OwnershipPolicy.RouteIsOurs(…, route) having returned true"
			}
		}
	}
	c.Check(bad == "" && nTrue > 0, "C17.own/routeIsOurs", p.Pos(rf.Pos()), "routeIsOurs answers true only when the ownership policy claimed the route", "routeIsOurs: "+bad)

	// (b) exported mutators of desired routes
	for _, m := range p.methodsOf(c17RTPkg, "RouteTable") {
		o, _ := m.Object().(*types.Func)
		if o == nil || !o.Exported() {
			continue
		}
		var muts []ssa.Instruction
		allInstrs(m, false, func(_ *ssa.Function, in ssa.Instruction) {
			var mp ssa.Value
			if mu, ok := in.(*ssa.MapUpdate); ok {
				mp = mu.Map
			} else if cc, ok := isBuiltinCall(in, "delete"); ok && len(cc.Args) == 2 {
				mp = cc.Args[0]
			}
			for mp != nil {
				if fieldVar(mp) == desired {
					muts = append(muts, in)
					break
				}
				lk, ok := mp.(*ssa.Lookup)
				if !ok {
					break
				}
				mp = lk.X
			}
		})
		if len(muts) == 0 {
			continue
		}
		var ifaceParam *ssa.Parameter
		for _, cs := range callsIn(m, false, func(f *types.Func) bool { return f == polIface }) {
			if pa, ok := cs.Args()[1].(*ssa.Parameter); ok {
				ifaceParam = pa
			}
		}
		key := "C17.own/iface-guard/" + fnName(m)
		bad := ""
		for _, in := range muts {
			if ifaceParam == nil || !guardedCut(in, callCond(true, func(g CallSite) bool { return g.Callee == polIface && g.Args()[1] == ssa.Value(ifaceParam) })) {
				bad = p.Pos(in.Pos())
			}
		}
		c.Check(bad == "", key, p.Pos(m.Pos()), fmt.Sprintf("%d desired-route mutation(s) only under IfaceIsOurs(ifaceName)", len(muts)),
			fnName(m)+" changes ifaceToRoutes at "+bad+" without IfaceIsOurs(ifaceName) having returned true: routes would be programmed for interfaces this table does not own")
	}
}

// c17NonNilFrom: on every path through block `from`, value v (a returned error)
// is non-nil.  Phi edges whose predecessor cannot be reached from `from` are
// ignored; loads of package-level error variables count as non-nil.
func c17NonNilFrom(v ssa.Value, from *ssa.BasicBlock, depth int) bool {
	if depth > 12 {
		return false
	}
	switch x := v.(type) {
	case *ssa.Phi:
		reach := blockReach(from)
		any := false
		for i, e := range x.Edges {
			pb := x.Block().Preds[i]
			if pb != from && !reach[pb] {
				continue
			}
			any = true
			if e == ssa.Value(x) {
				continue
			}
			if !c17NonNilFrom(e, from, depth+1) {
				return false
			}
		}
		return any
	case *ssa.UnOp:
		if x.Op == token.MUL {
			if g, ok := x.X.(*ssa.Global); ok && c17IsErrorType(g.Type().(*types.Pointer).Elem()) {
				return true
			}
		}
		return false
	case *ssa.MakeInterface:
		return true
	case *ssa.Call:
		// fmt.Errorf / errors.New always return non-nil
		if f := calleeOf(x.Common()); f != nil && f.Pkg() != nil && (f.Pkg().Path() == "fmt" || f.Pkg().Path() == "errors") {
			return f.Name() == "Errorf" || f.Name() == "New"
		}
	}
	return false
}

func c17ErrReport(c *Ctx, p *Prog, sites []c17IterSite) {
	rescan, _ := p.LookupObj(c17RTPkg, "RouteTable.ifacesToRescan").(*types.Var)
	if rescan == nil {
		c.Lost("RouteTable.ifacesToRescan")
	}
	var parent *ssa.Function
	cells := map[*ssa.Alloc]bool{}
	var cellOrder []*ssa.Alloc
	n := 0
	for _, s := range sites {
		if s.Closure == nil {
			continue
		}
		fall := c17FallibleCalls(s.Closure)
		if len(fall) == 0 {
			continue
		}
		if parent == nil {
			parent = s.Encl
		} else if parent != s.Encl {
			c.Lost("route Iter closures with netlink calls live in more than one function (%s, %s)", fnName(parent), fnName(s.Encl))
		}
		// record instructions inside the closure
		var via []ssa.Instruction
		allInstrs(s.Closure, false, func(_ *ssa.Function, in ssa.Instruction) {
			switch x := in.(type) {
			case *ssa.MapUpdate:
				if ld, ok := x.Map.(*ssa.UnOp); ok && c17IsErrorType(x.Value.Type()) {
					if al, ok := c17Cell(ld.X).(*ssa.Alloc); ok && al.Parent() == s.Encl {
						via = append(via, in)
						if !cells[al] {
							cells[al] = true
							cellOrder = append(cellOrder, al)
						}
					}
				}
			case ssa.CallInstruction:
				if f := calleeOf(x.Common()); f != nil && f.Name() == "Add" {
					args := CallSite{Instr: x, Callee: f}.Args()
					if len(args) > 0 && fieldVar(args[0]) == rescan {
						via = append(via, in)
					}
				}
			}
		})
		for _, fc := range fall {
			n++
			key := fmt.Sprintf("C17.errreport/%s/%s/%s", fnName(s.Encl), s.Kind, fc.Name)
			bad := ""
			for _, r := range returnsOf(s.Closure) {
				if !c17PathsThrough(fc.Call, r, via, c17NilEdge(fc.isErr)) {
					bad = p.Pos(r.Pos())
				}
			}
			c.Check(bad == "", key, p.Pos(fc.Call.Pos()),
				"every failure path of "+fc.Name+" records the error (error map) or queues an interface rescan before returning",
				"a failure of "+fc.Name+" can reach the return at "+bad+" without being recorded: applyUpdates would report success although the kernel route was not written")
		}
	}
	if parent == nil {
		c.Lost("no route Iter closure with a netlink call")
	}
	// every error map turns into a non-nil return of the parent
	rets := returnsOf(parent)
	for i, al := range cellOrder {
		n++
		key := fmt.Sprintf("C17.errreport/%s/returned#%d", fnName(parent), i+1)
		ok := false
		why := "no `len(map) > 0` test found"
		for _, b := range parent.Blocks {
			ifi, isIf := b.Instrs[len(b.Instrs)-1].(*ssa.If)
			if !isIf {
				continue
			}
			bo, isBo := ifi.Cond.(*ssa.BinOp)
			if !isBo || (bo.Op != token.GTR && bo.Op != token.NEQ) {
				continue
			}
			k, isK := constOf(bo.Y)
			lc, isCall := bo.X.(*ssa.Call)
			if !isK || k.ExactString() != "0" || !isCall {
				continue
			}
			if bi, isB := lc.Common().Value.(*ssa.Builtin); !isB || bi.Name() != "len" {
				continue
			}
			ld, isLd := lc.Common().Args[0].(*ssa.UnOp)
			if !isLd || c17Cell(ld.X) != ssa.Value(al) {
				continue
			}
			then := b.Succs[0]
			all := len(rets) > 0
			for _, r := range rets {
				if len(r.Results) == 0 || !(then == r.Block() || blockReach(then)[r.Block()]) {
					continue
				}
				if !c17NonNilFrom(r.Results[len(r.Results)-1], then, 0) {
					all = false
					why = "the error returned at " + p.Pos(r.Pos()) + " can still be nil when the map is non-empty"
				}
			}
			if all {
				ok = true
			}
		}
		c.Check(ok, key, p.Pos(al.Pos()), "a non-empty error map makes "+fnName(parent)+" return a non-nil error",
			"errors recorded in the map declared at "+p.Pos(al.Pos())+" do not force a non-nil return of "+fnName(parent)+": "+why)
	}
	_ = n
}

var _ = strings.Contains

// ----------------------------------------------------------------- ifmirror --
//
// RouteTable caches the kernel's interfaces in mirror maps: name->index and a
// family of index-keyed maps (index->name, index->state).  The index-keyed maps
// are derived structurally: every field that, in a function storing
// nameToIndex[name] = idx, is also updated under that same idx.
//
//   key:     an entry is removed from an index-keyed map only under the index
//            read from nameToIndex (the cached index of the interface being
//            handled), never under a value handed in by the caller: callers that
//            spot a vanished interface themselves have no index to hand in.
//   removal: where a name is removed from nameToIndex, every index-keyed map
//            loses the entry of the index cached under that very name, read
//            before the name is removed, on every path.

// c17MirrorKey classifies the key of a delete on an index-keyed map.
// Returns "" if it is the cached index (and the Lookups it was read by),
// otherwise why not; und is set when the provenance cannot be followed.
func c17MirrorKey(funcs []*ssa.Function, nameIdx, self *types.Var, key ssa.Value, depth int) (lookups []*ssa.Lookup, bad string, und bool) {
	for _, o := range origins(key, nil) {
		switch x := o.V.(type) {
		case *ssa.Lookup:
			if fieldVar(x.X) == nameIdx {
				lookups = append(lookups, x)
				continue
			}
			return nil, "it is read from " + path(x.X) + ", not from " + nameIdx.Name(), false
		case *ssa.Next:
			// `for k := range m { delete(m, k) }`: clearing a map under its own keys
			if rg, ok := x.Iter.(*ssa.Range); ok && fieldVar(rg.X) == self {
				continue
			}
			return nil, "", true
		case *ssa.Parameter:
			fn := x.Parent()
			obj, _ := fn.Object().(*types.Func)
			if fn.Parent() != nil || obj == nil || obj.Exported() || depth >= 2 {
				return nil, "it is the parameter `" + x.Name() + "` of " + fnName(fn) + " (a value chosen by the caller)", false
			}
			idx := c16ParamIndex(fn, x)
			callers := c16StaticCallers(funcs, fn)
			if idx < 0 || len(callers) == 0 {
				return nil, "", true
			}
			for _, ci := range callers {
				lk, b, u := c17MirrorKey(funcs, nameIdx, self, ci.Common().Args[idx], depth+1)
				if b != "" || u {
					return nil, b, u
				}
				lookups = append(lookups, lk...)
			}
		case *ssa.Const:
			return nil, "it is the constant " + x.Name(), false
		default:
			return nil, "", true
		}
	}
	if len(lookups) == 0 && bad == "" {
		// only self-range keys
		return nil, "", false
	}
	return lookups, "", false
}

func c17IfMirror(c *Ctx, p *Prog) {
	nameIdx, _ := p.LookupObj(c17RTPkg, "RouteTable.ifaceNameToIndex").(*types.Var)
	if nameIdx == nil {
		c.Lost("RouteTable.ifaceNameToIndex")
	}
	funcs := c16PkgFuncs(p, c17RTPkg)
	// derive the index-keyed mirror maps
	mirrors := map[*types.Var]bool{}
	var order []*types.Var
	for _, fn := range funcs {
		var nameUpd, other []*ssa.MapUpdate
		allInstrs(fn, false, func(_ *ssa.Function, in ssa.Instruction) {
			if mu, ok := in.(*ssa.MapUpdate); ok {
				if fv := fieldVar(mu.Map); fv == nameIdx {
					nameUpd = append(nameUpd, mu)
				} else if fv != nil {
					other = append(other, mu)
				}
			}
		})
		for _, nu := range nameUpd {
			for _, mu := range other {
				if fv := fieldVar(mu.Map); c16SameVal(mu.Key, nu.Value) && !mirrors[fv] {
					mirrors[fv] = true
					order = append(order, fv)
				}
			}
		}
	}
	if len(order) < 2 {
		c.Lost("RouteTable: fewer than two index-keyed maps are updated together with ifaceNameToIndex (%d found)", len(order))
	}
	isDelete := func(in ssa.Instruction, fv *types.Var) (ssa.Value, bool) {
		if cc, ok := isBuiltinCall(in, "delete"); ok && len(cc.Args) == 2 && fieldVar(cc.Args[0]) == fv {
			return cc.Args[1], true
		}
		return nil, false
	}

	// (key) every removal from an index-keyed map
	type grp struct {
		fn  *ssa.Function
		fv  *types.Var
		ins []ssa.Instruction
	}
	var groups []*grp
	for _, fn := range funcs {
		for _, fv := range order {
			g := &grp{fn: fn, fv: fv}
			allInstrs(fn, false, func(_ *ssa.Function, in ssa.Instruction) {
				if _, ok := isDelete(in, fv); ok {
					g.ins = append(g.ins, in)
				}
			})
			if len(g.ins) > 0 {
				groups = append(groups, g)
			}
		}
	}
	for _, g := range groups {
		key := "C17.ifmirror/key/" + fnName(g.fn) + "/" + g.fv.Name()
		bad, und := "", ""
		for _, in := range g.ins {
			k, _ := isDelete(in, g.fv)
			_, b, u := c17MirrorKey(funcs, nameIdx, g.fv, k, 0)
			if b != "" {
				bad = fmt.Sprintf("delete(%s, %s) at %s: %s", g.fv.Name(), path(k), p.Pos(in.Pos()), b)
			} else if u {
				und = fmt.Sprintf("delete(%s, %s) at %s", g.fv.Name(), path(k), p.Pos(in.Pos()))
			}
		}
		switch {
		case bad != "":
			c.Violate(key, p.Pos(g.ins[0].Pos()), "%s removes an entry of the index-keyed interface cache under a key that is not the index cached in %s for the interface: %s.  When the caller has no (or a different) index the old index stays cached (e.g. as `up`) and a later interface re-using that index is never registered, so its routes are not programmed or cleaned up",
				fnName(g.fn), nameIdx.Name(), bad)
		case und != "":
			c.Undecided(key, p.Pos(g.ins[0].Pos()), "cannot trace the key of %s back to a lookup in %s", und, nameIdx.Name())
		default:
			c.Ok(key, p.Pos(g.ins[0].Pos()), "%d removal(s) from %s, all keyed by the index read from %s", len(g.ins), g.fv.Name(), nameIdx.Name())
		}
	}

	// (removal) removing a name removes its index from every mirror
	nRemovals := 0
	for _, fn := range funcs {
		var nameDels []ssa.Instruction
		allInstrs(fn, false, func(_ *ssa.Function, in ssa.Instruction) {
			if _, ok := isDelete(in, nameIdx); ok {
				nameDels = append(nameDels, in)
			}
		})
		if len(nameDels) == 0 {
			continue
		}
		pd := postDominators(fn)
		for i, d := range nameDels {
			nRemovals++
			name, _ := isDelete(d, nameIdx)
			for _, fv := range order {
				key := "C17.ifmirror/removal/" + fnName(fn) + "/" + fv.Name()
				if len(nameDels) > 1 {
					key += fmt.Sprintf("#%d", i+1)
				}
				found, late := false, false
				var cands []ssa.Instruction
				allInstrs(fn, false, func(_ *ssa.Function, in ssa.Instruction) {
					k, ok := isDelete(in, fv)
					if !ok {
						return
					}
					lks, b, u := c17MirrorKey(funcs, nameIdx, fv, k, 0)
					if b != "" || u || len(lks) == 0 {
						return
					}
					for _, lk := range lks {
						if lk.Parent() != fn || !c16SameVal(lk.Index, name) {
							return
						}
						if !instrDominates(lk, d) {
							late = true
							return
						}
					}
					cands = append(cands, in)
					if instrDominates(d, in) && instrPostDominates(pd, in, d) {
						found = true
					}
				})
				// before the name is dropped, on every path on which the name was cached at all
				if first := c16FirstInstr(fn); !found && first != nil && len(cands) > 0 {
					notCached := lookupOkCond(false, func(mp ssa.Value) bool { return fieldVar(mp) == nameIdx })
					found = c17PathsThrough(first, d, cands, notCached)
				}
				if found {
					c.Ok(key, p.Pos(d.Pos()), "removing the name also removes %s[index cached under that name], read before the name is dropped", fv.Name())
					continue
				}
				// a helper may do it
				delegated := false
				for _, cs := range callsIn(fn, false, func(*types.Func) bool { return true }) {
					if g := calleeFn(cs.Common()); g != nil && g.Blocks != nil && c16InPkg(g, c17RTPkg) {
						if _, per := c17FieldMutations(g, fv); len(per) > 0 {
							delegated = true
						}
					}
				}
				if delegated {
					c.Undecided(key, p.Pos(d.Pos()), "%s removes a name from %s; the matching removal from %s seems to happen in a callee, which is not modelled", fnName(fn), nameIdx.Name(), fv.Name())
					continue
				}
				why := "no delete(" + fv.Name() + ", <index cached under that name>) accompanies it on every path"
				if late {
					why = "the index is looked up in " + nameIdx.Name() + " only after (or not on every path before) the name was removed, so it reads as 0"
				}
				c.Violate(key, p.Pos(d.Pos()), "%s removes an interface name from %s but %s: the entry of the vanished interface stays in %s, so a later interface re-using its index is mistaken for it (state unchanged / wrong name) and its routes are not synced",
					fnName(fn), nameIdx.Name(), why, fv.Name())
			}
		}
	}
	if nRemovals == 0 {
		c.Lost("no delete from RouteTable.ifaceNameToIndex: interface removal is no longer recognisable")
	}
}

// ---------------------------------------------------------------- dumpretry --
//
// A kernel route dump (netlinkshim.Interface.*Iter with a callback) can be
// interrupted (EINTR) precisely when the table changed under it, and is then
// re-issued.  What the callback collected in the interrupted attempt describes a
// table that no longer exists, so every collection the callback fills must be
// emptied on every CFG cycle that leads from the dump call back to itself.

const c17SetPkg = "libcalico-go/lib/set"

func c17IsSetMethod(f *types.Func, names ...string) bool {
	if f == nil || f.Pkg() == nil || f.Pkg().Path() != calicoPrefix+c17SetPkg {
		return false
	}
	for _, n := range names {
		if f.Name() == n {
			return true
		}
	}
	return false
}

// c17LoadOfCell: v is a load of a (captured) local variable; returns its cell.
func c17LoadOfCell(v ssa.Value) *ssa.Alloc {
	ld, ok := v.(*ssa.UnOp)
	if !ok || ld.Op != token.MUL {
		return nil
	}
	al, _ := c17Cell(ld.X).(*ssa.Alloc)
	return al
}

// c17DependsOnCell: the value is computed from a load of cell.
func c17DependsOnCell(v ssa.Value, cell *ssa.Alloc) bool {
	seen := map[ssa.Value]bool{}
	var walk func(v ssa.Value) bool
	walk = func(v ssa.Value) bool {
		if v == nil || seen[v] {
			return false
		}
		seen[v] = true
		if c17LoadOfCell(v) == cell {
			return true
		}
		in, ok := v.(ssa.Instruction)
		if !ok {
			return false
		}
		for _, op := range in.Operands(nil) {
			if *op != nil && walk(*op) {
				return true
			}
		}
		return false
	}
	return walk(v)
}

// c17FilledCells: local collections of encl that closure f (and its nested
// closures) adds to: set Add/AddAll/AddSet, map stores, appends.
func c17FilledCells(f, encl *ssa.Function) []*ssa.Alloc {
	seen := map[*ssa.Alloc]bool{}
	var out []*ssa.Alloc
	add := func(al *ssa.Alloc) {
		if al != nil && al.Parent() == encl && !seen[al] {
			seen[al] = true
			out = append(out, al)
		}
	}
	allInstrs(f, true, func(_ *ssa.Function, in ssa.Instruction) {
		switch x := in.(type) {
		case *ssa.MapUpdate:
			add(c17LoadOfCell(x.Map))
		case *ssa.Store:
			if al, ok := c17Cell(x.Addr).(*ssa.Alloc); ok {
				if _, _, _, isApp := c21AppendCall(x.Val); isApp && c17DependsOnCell(x.Val, al) {
					add(al)
				}
			}
		case ssa.CallInstruction:
			if cal := calleeOf(x.Common()); c17IsSetMethod(cal, "Add", "AddAll", "AddSet") {
				args := CallSite{Instr: x, Callee: cal}.Args()
				if len(args) > 0 {
					add(c17LoadOfCell(args[0]))
				}
			}
		}
	})
	sort.SliceStable(out, func(i, j int) bool { return out[i].Pos() < out[j].Pos() })
	return out
}

// c17Resets: the instructions of fn's own body that empty / replace the collection in cell.
func c17Resets(fn *ssa.Function, cell *ssa.Alloc) []ssa.Instruction {
	var out []ssa.Instruction
	allInstrs(fn, false, func(_ *ssa.Function, in ssa.Instruction) {
		switch x := in.(type) {
		case *ssa.Store:
			if c17Cell(x.Addr) == ssa.Value(cell) && !c17DependsOnCell(x.Val, cell) {
				out = append(out, in)
			}
		case ssa.CallInstruction:
			if cc, ok := isBuiltinCall(in, "clear"); ok && len(cc.Args) == 1 && c17LoadOfCell(cc.Args[0]) == cell {
				out = append(out, in)
				return
			}
			if cal := calleeOf(x.Common()); c17IsSetMethod(cal, "Clear") {
				args := CallSite{Instr: x, Callee: cal}.Args()
				if len(args) > 0 && c17LoadOfCell(args[0]) == cell {
					out = append(out, in)
				}
			}
		}
	})
	return out
}

func c17DumpRetry(c *Ctx, p *Prog) {
	nSites := 0
	for _, fn := range c16PkgFuncs(p, c17RTPkg) {
		for _, cs := range callsIn(fn, false, func(f *types.Func) bool {
			if f.Pkg() == nil || f.Pkg().Path() != calicoPrefix+"felix/netlinkshim" || recvTypeName(f) != "Interface" {
				return false
			}
			sig := f.Type().(*types.Signature)
			if sig.Params().Len() == 0 {
				return false
			}
			_, isFunc := sig.Params().At(sig.Params().Len() - 1).Type().Underlying().(*types.Signature)
			return isFunc
		}) {
			nSites++
			base := "C17.dumpretry/" + fnName(fn) + "/" + cs.Callee.Name()
			site := p.Pos(cs.Instr.Pos())
			args := cs.Args()
			cb := c17FuncOfValue(args[len(args)-1])
			if cb == nil || cb.Blocks == nil {
				c.Undecided(base, site, "the callback of %s is not a function literal: cannot see which collections it fills", cs.Callee.Name())
				continue
			}
			retried := instrReaches(cs.Instr, cs.Instr)
			for i, cell := range c17FilledCells(cb, fn) {
				key := fmt.Sprintf("%s/acc#%d", base, i+1)
				if !retried {
					c.Ok(key, site, "the dump filling `%s` is not re-issued in %s", cell.Comment, fnName(fn))
					continue
				}
				resets := c17Resets(fn, cell)
				if c17PathsThrough(cs.Instr, cs.Instr, resets, nil) {
					c.Ok(key, site, "every retry edge of the dump resets `%s` (%d reset site(s))", cell.Comment, len(resets))
				} else {
					c.Violate(key, site, "%s re-issues %s (retry loop) on a path that does not reset `%s`, which the dump callback fills: entries collected by an interrupted dump (the table changed under it) survive into the retry, so a route that vanished in between is still counted as seen and is never re-programmed",
						fnName(fn), cs.Callee.Name(), cell.Comment)
				}
			}
		}
	}
	if nSites == 0 {
		c.Lost("no netlinkshim.Interface dump-with-callback call in felix/routetable")
	}
}
