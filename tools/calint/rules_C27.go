package main

import (
	"fmt"
	"go/ast"
	"go/constant"
	"go/token"
	"go/types"
	"reflect"
	"regexp"
	"sort"
	"strings"

	"golang.org/x/tools/go/ssa"
)

const c27Pkg = "felix/config"

func init() {
	const cp = "felix/config/config_params.go"
	register(&Property{
		ID:        "C27",
		Title:     "Felix configuration resolves by source priority, deterministically",
		Technique: "static analysis: per-iteration cut-set guards and value provenance on the SSA of Config.resolve, map-iteration determinism, struct-tag/constant tables, operand projections of comparator parameters (go/ssa, go/types, go/ast over felix/config and felix/calc)",
		DesignRef: "DESIGN.md §3 C27",
		Explanation: "Decides structural clauses of the property on Config.resolve's per-value loop (the innermost loop around the Param.Parse / reflect Set sites): " +
			"(shadowfirst) every effect of one raw value (stores to Config fields, reflect Set, map updates, early returns) is only reachable, within its iteration, across an edge establishing source >= currentSource, " +
			"so a shadowed value has no effect at all; (local) every effect of a known parameter additionally requires !Metadata.Local or Source.Local(); " +
			"(value) the value given to reflect Set is exactly one of Parse's result under err==nil, Metadata.ZeroValue under lower(raw)==\"none\" && !NonZero, Metadata.Default under err!=nil && !DieOnParseFailure; " +
			"(fatal) the NonZero/'none' and DieOnParseFailure/err!=nil branches always leave the function and every in-loop return returns the non-nil error it stored in Config.Err; " +
			"(order) inside a range over a Go map no last-writer-wins effect is keyed by a non-injective function of the range key unless the stored value is iteration-invariant; " +
			"(record) the currentSource cell is looked up under the same key as knownParams, every iteration that writes a value cell also stores the loop's source into that cell, and applyDefaults() runs on the receiver before the loops; " +
			"(sources) SourcesInDescendingOrder lists every non-zero Source constant in strictly descending order matching the documented priority, resolve iterates it, and Source.Local() is true exactly for the four local sources; " +
			"(meta) every config: struct tag matches the metadata regexp, names a kind handled by ParamForField, carries only flags that loadParams tests, and oneof defaults are among the options; " +
			"(comparator) the DatastorePerSelector source is the single selector-scoped FelixConfiguration picked by calc.MergeSelectorConfigs from a slice that the runtime path builds by ranging over a Go map, so the pick is order-independent only if the comparator is a total order: " +
			"in every comparator over calc.SelectorConfigEntry handed to a slices/sort function, each comparison step (comparison operator, two-operand bool/int call such as Before/Compare/strings.Compare/a helper, subtraction) whose operands are projections of the comparator's parameters compares the same projection of the two different parameters, " +
			"and one such step compares the entries' unique key (the field ConfigBatcher stores its map key into: ResourceName).",
		NotDecided: "The parsers of the individual parameter types (Param.Parse implementations) and reflect's FieldByName/Set semantics; which of several fatal errors is reported when more than one unshadowed value is fatally invalid; " +
			"what callers do with Config.Err / UpdateFrom's result (Config.Err is never reset by a later successful resolve); contents of the raw maps handed to UpdateFrom by the loaders (env_var_loader / file_loader fold names and walk slices, not maps); that applyDefaults' per-parameter setDefault writes only its own field; antisymmetry/transitivity of the selector-config comparator beyond operand well-formedness (e.g. a step tested twice in the same direction), and which of creation time / name takes precedence.",
		Assumptions: []string{
			"go/types + go/ssa (x/tools v0.50.0) model of the current source, CGO_ENABLED=0 build",
			"logrus calls have no effect on configuration; logrus Panic*/Fatal* do not return",
			"reflect.Value.FieldByName(name).Set(v) writes exactly the Config field called name",
			"Go map iteration order is unspecified; strings.ToLower is not injective",
		},
		Run: runC27,
		Fixtures: []Fixture{
			{Name: "F1 re-seeded: precedence test moved back below the parse", File: cp,
				Old:    "\t\t\tif source < currentSource {\n\t\t\t\tlog.Infof(\"Skipping config value for %v from %v; \"+\n\t\t\t\t\t\"already have a value from %v\", name,\n\t\t\t\t\tsource, currentSource)\n\t\t\t\tcontinue\n\t\t\t}\n\n\t\t\tlog.Infof(\"Parsing value for %v: %v (from %v)\",\n\t\t\t\tname, rawValue, source)\n",
				New:    "\t\t\tlog.Infof(\"Parsing value for %v: %v (from %v)\",\n\t\t\t\tname, rawValue, source)\n",
				Expect: "C27.shadowfirst/resolve/store:Err"},
			{Name: "precedence test inverted", File: cp,
				Old: "\t\t\tif source < currentSource {\n\t\t\t\tlog.Infof(\"Skipping", New: "\t\t\tif source > currentSource {\n\t\t\t\tlog.Infof(\"Skipping",
				Expect: "C27.shadowfirst/resolve/Set"},
			{Name: "unknown raw value stashed without precedence test", File: cp,
				Old: "\t\t\t\tif source >= currentSource {\n", New: "\t\t\t\tif source >= Default {\n",
				Expect: "C27.shadowfirst/resolve/mapupdate:rawValues[key]"},
			{Name: "local-only check only warns", File: cp,
				Old: "\t\t\t\t\tname, rawValue, source)\n\t\t\t\tcontinue valueLoop\n", New: "\t\t\t\t\tname, rawValue, source)\n",
				Expect: "C27.local/resolve/Set"},
			{Name: "'none' yields the default instead of the zero value", File: cp,
				Old: "\t\t\t\tvalue = metadata.ZeroValue\n", New: "\t\t\t\tvalue = metadata.Default\n",
				Expect: "C27.value/resolve/zero"},
			{Name: "fatal parse failure falls through to the default", File: cp,
				Old: "\t\t\t\t\tif metadata.DieOnParseFailure {\n", New: "\t\t\t\t\tif metadata.DieOnParseFailure && metadata.NonZero {\n",
				Expect: "C27.value/resolve/default"},
			{Name: "fatal parse failure skipped silently", File: cp,
				Old:    "\t\t\t\t\t\tlogCxt.Error(\"Invalid (required) config value.\")\n\t\t\t\t\t\tconfig.Err = err\n\t\t\t\t\t\treturn\n",
				New:    "\t\t\t\t\t\tlogCxt.Error(\"Invalid (required) config value.\")\n\t\t\t\t\t\tcontinue valueLoop\n",
				Expect: "C27.fatal/resolve/die"},
			{Name: "fatal parse failure returned without Config.Err", File: cp,
				Old: "\t\t\t\t\t\tconfig.Err = err\n\t\t\t\t\t\treturn\n\t\t\t\t\t} else {", New: "\t\t\t\t\t\treturn\n\t\t\t\t\t} else {",
				Expect: "C27.fatal/resolve/return"},
			{Name: "direct range over the raw map restored (pre-fa56195)", File: cp,
				Old:    "\t\tfor _, rawName := range slices.Sorted(maps.Keys(config.sourceToRawConfig[source])) {\n\t\t\trawValue := config.sourceToRawConfig[source][rawName]\n",
				New:    "\t\tfor rawName, rawValue := range config.sourceToRawConfig[source] {\n",
				Expect: "C27.order/resolve/Set"},
			{Name: "raw names collected but no longer sorted", File: cp,
				Old: "slices.Sorted(maps.Keys(config.sourceToRawConfig[source]))", New: "slices.Collect(maps.Keys(config.sourceToRawConfig[source]))",
				Expect: "C27.order/resolve/mapupdate:rawValues[param[ToLower(key)].Name]"},
			{Name: "winning source no longer recorded after the Set", File: cp,
				Old: "\t\t\tnewRawValues[name] = rawValue\n\t\t\tnameToSource[lowerCaseName] = source\n", New: "\t\t\tnewRawValues[name] = rawValue\n",
				Expect: "C27.record/resolve/Set"},
			{Name: "recorded source is the previous one, not the current", File: cp,
				Old: "\t\t\tnewRawValues[name] = rawValue\n\t\t\tnameToSource[lowerCaseName] = source\n", New: "\t\t\tnewRawValues[name] = rawValue\n\t\t\tnameToSource[lowerCaseName] = currentSource\n",
				Expect: "C27.record/resolve/Set"},
			{Name: "precedence cell read under the raw (case-sensitive) name", File: cp,
				Old: "currentSource := nameToSource[lowerCaseName]", New: "currentSource := nameToSource[rawName]",
				Expect: "C27.record/resolve/cell-key"},
			{Name: "resolve no longer starts from fresh defaults", File: cp,
				Old: "\tconfig.applyDefaults()\n\n\tnewRawValues := make", New: "\tnewRawValues := make",
				Expect: "C27.record/resolve/fresh-defaults"},
			{Name: "config file outranks environment", File: cp,
				Old: "[]Source{InternalOverride, EnvironmentVariable, ConfigFile,", New: "[]Source{InternalOverride, ConfigFile, EnvironmentVariable,",
				Expect: "C27.sources/descending"},
			{Name: "per-host datastore source treated as local", File: cp,
				Old: "\tcase Default, ConfigFile, EnvironmentVariable, InternalOverride:\n\t\treturn true", New: "\tcase Default, ConfigFile, EnvironmentVariable, InternalOverride, DatastorePerHost:\n\t\treturn true",
				Expect: "C27.sources/Local/DatastorePerHost"},
			{Name: "priority constants reordered (per-selector above per-host)", File: cp,
				Old: "\tDatastorePerSelector\n\tDatastorePerHost\n", New: "\tDatastorePerHost\n\tDatastorePerSelector\n",
				Expect: "C27.sources/priority"},
			{Name: "misspelt flag in a struct tag", File: cp,
				Old: "calico-iptables-plugin;non-zero,die-on-fail,skip-default-validation", New: "calico-iptables-plugin;non-zero,die-on-fial,skip-default-validation",
				Expect: "C27.meta/DataplaneDriver"},
			{Name: "oneof default outside the options", File: cp,
				Old: "oneof(Enabled,Disabled,EnabledIPIPOnly,EnabledNoEncapOnly);EnabledIPIPOnly", New: "oneof(Enabled,Disabled,EnabledIPIPOnly,EnabledNoEncapOnly);IPIPOnly",
				Expect: "C27.meta/ProgramClusterRoutes"},
			{Name: "selector-config name tie-break compares an entry with itself", File: "felix/calc/config_batcher.go",
				Old: "\t\tif a.ResourceName > b.ResourceName {\n", New: "\t\tif a.ResourceName > a.ResourceName {\n",
				Expect: "C27.comparator/sym/MergeSelectorConfigs/MinFunc"},
			{Name: "selector-config age test compares b with b", File: "felix/calc/config_batcher.go",
				Old: "\t\tif b.CreationTime.Before(a.CreationTime) {\n", New: "\t\tif b.CreationTime.Before(b.CreationTime) {\n",
				Expect: "C27.comparator/sym/MergeSelectorConfigs/MinFunc"},
			{Name: "selector-config tie-break on the resource name dropped", File: "felix/calc/config_batcher.go",
				Old: "\t\tif a.ResourceName < b.ResourceName {\n\t\t\treturn -1\n\t\t}\n\t\tif a.ResourceName > b.ResourceName {\n\t\t\treturn 1\n\t\t}\n", New: "",
				Expect: "C27.comparator/total/MergeSelectorConfigs/MinFunc"},
		},
	})
}

// ------------------------------------------------------------------- model --

type c27Effect struct {
	In   ssa.Instruction
	Name string    // store:Err | return | Set[...] | mapupdate:m[...]
	Key  ssa.Value // cell key (Set / mapupdate), nil otherwise
	Val  ssa.Value // value written (Set / mapupdate / store)
	Cell bool      // last-writer-wins cell
}

type c27Model struct {
	c    *Ctx
	p    *Prog
	fn   *ssa.Function
	loop *c27Loop

	calls     *c27Calls // in-package static callee closure of resolve (extracted helpers)
	parseLost string    // non-empty: the Param.Parse anchor could not be resolved (raised by the families that need it)

	srcT, paramT                               types.Type
	fLocal, fNonZero, fDie, fZero, fDefault    *types.Var
	fErr                                       *types.Var
	parse                                      *ssa.Call
	set                                        *ssa.Call
	rangeKey                                   ssa.Value
	iter                                       string // map | sorted | maporder-slice | unknown
	effects                                    []c27Effect
	isSrc, isCur                               func(ssa.Value) bool
	precPred, localPred, unknownPred, nonePred EdgePred
}

func c27Field(c *Ctx, p *Prog, name string) *types.Var {
	v, _ := p.LookupObj(c27Pkg, name).(*types.Var)
	if v == nil {
		c.Lost("field %s.%s", c27Pkg, name)
	}
	return v
}

func c27Build(c *Ctx, p *Prog) *c27Model {
	m := &c27Model{c: c, p: p}
	m.fn = p.Func(c27Pkg, "Config.resolve")
	if m.fn == nil {
		c.Lost("func (*Config).resolve")
	}
	for _, n := range []string{"Source", "Param"} {
		if p.LookupObj(c27Pkg, n) == nil {
			c.Lost("type %s.%s", c27Pkg, n)
		}
	}
	m.srcT = p.LookupObj(c27Pkg, "Source").Type()
	m.paramT = p.LookupObj(c27Pkg, "Param").Type()
	m.fLocal = c27Field(c, p, "Metadata.Local")
	m.fNonZero = c27Field(c, p, "Metadata.NonZero")
	m.fDie = c27Field(c, p, "Metadata.DieOnParseFailure")
	m.fZero = c27Field(c, p, "Metadata.ZeroValue")
	m.fDefault = c27Field(c, p, "Metadata.Default")
	m.fErr = c27Field(c, p, "Config.Err")

	// anchors: the single reflect Set and the single Param.Parse in resolve
	sets := callsIn(m.fn, false, func(f *types.Func) bool {
		return f.Pkg() != nil && f.Pkg().Path() == "reflect" && f.Name() == "Set" && recvTypeName(f) == "Value"
	})
	if len(sets) != 1 {
		c.Lost("expected exactly one reflect.Value.Set in Config.resolve, found %d", len(sets))
	}
	m.set, _ = sets[0].Instr.(*ssa.Call)
	if m.set == nil {
		c.Lost("the reflect.Value.Set in Config.resolve is not a plain call")
	}
	m.loop = c27InnermostLoop(m.set)
	if m.loop == nil {
		c.Lost("the reflect Set in Config.resolve is not inside a loop with a unique body entry")
	}
	// the Param.Parse invoke: in resolve itself or in an in-package helper it calls
	m.calls = c27CallClosure(m.fn)
	var parses []*ssa.Call
	for _, f := range m.calls.funcs {
		allInstrs(f, false, func(_ *ssa.Function, in ssa.Instruction) {
			if call, ok := in.(*ssa.Call); ok {
				cc := call.Common()
				if cc.IsInvoke() && cc.Method.Name() == "Parse" && types.Identical(cc.Value.Type(), m.paramT) {
					parses = append(parses, call)
				}
			}
		})
	}
	if len(parses) != 1 {
		m.parseLost = fmt.Sprintf("expected exactly one Param.Parse invoke in Config.resolve and the in-package helpers it calls, found %d", len(parses))
	} else {
		m.parse = parses[0]
		sites := m.rootSites(m.parse, 6)
		if len(sites) == 0 {
			m.parseLost = "Param.Parse is not reached from Config.resolve"
		}
		for _, s := range sites {
			if !m.loop.InRegion(s.Block()) {
				m.parseLost = "Param.Parse and reflect Set are not in the same per-value loop of Config.resolve"
			}
		}
	}
	m.iter, m.rangeKey = c27IterationOrder(m.loop)

	m.isCur = func(v ssa.Value) bool {
		lk := c27LookupOf(v)
		return lk != nil && types.Identical(lk.X.Type().Underlying().(*types.Map).Elem(), m.srcT)
	}
	m.isSrc = func(v ssa.Value) bool {
		return types.Identical(v.Type(), m.srcT) && !m.isCur(v) && m.loop.Invariant(c27Unwrap(v))
	}
	m.precPred = c27OrderCond(m.isSrc, m.isCur)
	m.localPred = anyOf(
		c27FieldCond(false, m.fLocal),
		callCond(true, func(cs CallSite) bool {
			return isFunc(cs.Callee, c27Pkg, "Source.Local") && len(cs.Args()) == 1 && m.isSrc(cs.Args()[0])
		}))
	m.unknownPred = lookupOkCond(false, func(mp ssa.Value) bool {
		mt, ok := mp.Type().Underlying().(*types.Map)
		return ok && types.Identical(mt.Elem(), m.paramT)
	})
	isRaw := func(v ssa.Value) bool {
		return m.parse != nil && m.calls.same(v, m.parse.Common().Args[0])
	}
	isLowerRaw := func(v ssa.Value) bool {
		call, ok := v.(*ssa.Call)
		if !ok {
			return false
		}
		f := calleeOf(call.Common())
		return f != nil && f.Pkg() != nil && f.Pkg().Path() == "strings" && f.Name() == "ToLower" && isRaw(call.Common().Args[0])
	}
	isNone := func(v ssa.Value) bool {
		cv, ok := constOf(v)
		return ok && cv.Kind() == constant.String && constant.StringVal(cv) == "none"
	}
	m.nonePred = anyOf(
		eqCond(true, isLowerRaw, isNone),
		callCond(true, func(cs CallSite) bool {
			f := cs.Callee
			if f == nil || f.Pkg() == nil || f.Pkg().Path() != "strings" || f.Name() != "EqualFold" {
				return false
			}
			a := cs.Args()
			return (isRaw(a[0]) && isNone(a[1])) || (isRaw(a[1]) && isNone(a[0]))
		}))

	m.collectEffects()
	return m
}

// deriv describes how a cell key is computed from the range key of the loop.
// inj: 1 = injective in the range key, 0 = certainly not injective, -1 = unknown.
func (m *c27Model) deriv(v ssa.Value, depth int) (string, int) {
	v = c27Unwrap(v)
	if depth == 0 {
		return "?", -1
	}
	if m.rangeKey != nil && v == m.rangeKey {
		return "key", 1
	}
	switch x := v.(type) {
	case *ssa.Call:
		f := calleeOf(x.Common())
		if f != nil && f.Pkg() != nil && f.Pkg().Path() == "strings" && len(x.Common().Args) >= 1 {
			d, i := m.deriv(x.Common().Args[0], depth-1)
			switch f.Name() {
			case "ToLower", "ToUpper", "ToTitle", "TrimSpace", "Title":
				if i >= 0 {
					i = 0
				}
				return f.Name() + "(" + d + ")", i
			}
			return f.Name() + "(" + d + ")", -1
		}
	case *ssa.UnOp:
		if x.Op == token.MUL {
			if fa, ok := x.X.(*ssa.FieldAddr); ok {
				// field of the metadata of the Param looked up under a derived key
				if call, ok := fa.X.(*ssa.Call); ok && call.Common().IsInvoke() {
					if lk := c27LookupOf(call.Common().Value); lk != nil {
						d, i := m.deriv(lk.Index, depth-1)
						if i == 1 {
							i = -1 // a map lookup is not known to be injective
						}
						return "param[" + d + "]." + fieldName(fa.X.Type(), fa.Field), i
					}
				}
			}
		}
	}
	return "?", -1
}

func (m *c27Model) mapName(mv ssa.Value) string {
	if refs := mv.Referrers(); refs != nil {
		for _, r := range *refs {
			if st, ok := r.(*ssa.Store); ok && st.Val == mv {
				if fv := fieldVar(st.Addr); fv != nil {
					return fv.Name()
				}
			}
		}
	}
	if fv := fieldVar(mv); fv != nil {
		return fv.Name()
	}
	return types.TypeString(mv.Type(), func(*types.Package) string { return "" })
}

// collectHelperEffects: the effects of the in-package helpers that resolve only
// calls from inside the per-value loop (an extracted piece of the loop body):
// writes to the Config, to globals and to maps, and the returns that report a
// provably non-nil error (the helper's form of resolve's early return).
func (m *c27Model) collectHelperEffects() {
	recv := m.fn.Params[0]
	for _, f := range m.calls.funcs[1:] {
		inLoop := len(m.calls.sites[f]) > 0
		for _, call := range m.calls.sites[f] {
			rs := m.rootSites(call, 6)
			if len(rs) == 0 {
				inLoop = false
			}
			for _, s := range rs {
				if !m.loop.InRegion(s.Block()) {
					inLoop = false
				}
			}
		}
		if !inLoop {
			continue
		}
		ei := c27ErrIdx(f)
		for _, b := range f.Blocks {
			for _, in := range b.Instrs {
				switch x := in.(type) {
				case *ssa.Store:
					if fa, ok := x.Addr.(*ssa.FieldAddr); ok && m.calls.same(fa.X, recv) {
						m.effects = append(m.effects, c27Effect{In: in, Name: "store:" + fieldName(fa.X.Type(), fa.Field), Val: x.Val})
					} else if _, ok := x.Addr.(*ssa.Global); ok {
						m.effects = append(m.effects, c27Effect{In: in, Name: "store:global:" + x.Addr.Name(), Val: x.Val})
					}
				case *ssa.MapUpdate:
					m.effects = append(m.effects, c27Effect{In: in, Name: "mapupdate:" + m.mapName(x.Map) + "[?]", Val: x.Value})
				case *ssa.Return:
					if ei >= 0 && !isPanicBlock(b) && m.errNonNil(x, ei) {
						m.effects = append(m.effects, c27Effect{In: in, Name: "return"})
					}
				}
			}
		}
	}
}

func (m *c27Model) collectEffects() {
	defer m.collectHelperEffects()
	recv := m.fn.Params[0]
	for _, b := range m.fn.Blocks {
		if !m.loop.InRegion(b) {
			continue
		}
		for _, in := range b.Instrs {
			switch x := in.(type) {
			case *ssa.Store:
				if fa, ok := x.Addr.(*ssa.FieldAddr); ok && fa.X == recv {
					m.effects = append(m.effects, c27Effect{In: in, Name: "store:" + fieldName(fa.X.Type(), fa.Field), Val: x.Val})
				} else if _, ok := x.Addr.(*ssa.Global); ok {
					m.effects = append(m.effects, c27Effect{In: in, Name: "store:global:" + x.Addr.Name(), Val: x.Val})
				}
			case *ssa.MapUpdate:
				d, _ := m.deriv(x.Key, 6)
				m.effects = append(m.effects, c27Effect{In: in, Name: "mapupdate:" + m.mapName(x.Map) + "[" + d + "]", Key: x.Key, Val: x.Value, Cell: true})
			case *ssa.Return:
				m.effects = append(m.effects, c27Effect{In: in, Name: "return"})
			case ssa.CallInstruction:
				if in == ssa.Instruction(m.set) {
					e := c27Effect{In: in, Name: "Set[?]", Cell: true}
					args := m.set.Common().Args
					if fb, ok := args[0].(*ssa.Call); ok {
						if f := calleeOf(fb.Common()); f != nil && f.Name() == "FieldByName" && len(fb.Common().Args) == 2 {
							e.Key = fb.Common().Args[1]
							d, _ := m.deriv(e.Key, 6)
							e.Name = "Set[" + d + "]"
						}
					}
					if vo, ok := args[1].(*ssa.Call); ok {
						if f := calleeOf(vo.Common()); f != nil && f.Name() == "ValueOf" && f.Pkg().Path() == "reflect" {
							e.Val = vo.Common().Args[0]
						}
					}
					m.effects = append(m.effects, e)
					continue
				}
				// any other call handed the *Config itself may write to it
				for _, a := range x.Common().Args {
					if a == recv {
						n := "<dynamic>"
						if f := calleeOf(x.Common()); f != nil {
							n = f.Name()
						}
						m.effects = append(m.effects, c27Effect{In: in, Name: "call:" + n})
					}
				}
			}
		}
	}
}

// ------------------------------------------------------------------- rules --

func runC27(c *Ctx) {
	p := c.Load(c27Pkg)
	c.Rule("C27.shadowfirst", "E-GUARD", "in Config.resolve's per-value loop every effect of a raw value (store to a Config field, reflect Set, map update, early return) is reachable within its iteration only across an edge establishing source >= currentSource", 9)
	c.Rule("C27.local", "E-GUARD", "every effect of a known parameter's value additionally requires !Metadata.Local || Source.Local()", 7)
	c.Rule("C27.value", "E-FLOW", "the value passed to reflect Set is exactly {Parse result | err==nil, Metadata.ZeroValue | lower(raw)==\"none\" && !NonZero, Metadata.Default | err!=nil && !DieOnParseFailure}", 4)
	c.Rule("C27.fatal", "E-PAIR", "the NonZero/'none' and DieOnParseFailure/err!=nil branches never continue the loop; every in-loop return returns the non-nil error it stored in Config.Err", 4)
	c.Rule("C27.order", "E-DET", "inside a range over a Go map, no last-writer-wins cell (map update, reflect Set) is keyed by a non-injective function of the range key unless the value written is iteration-invariant", 5)
	c.Rule("C27.record", "E-PAIR", "the precedence cell currentSource is keyed by the same name that selects the parameter; every iteration that writes a value cell (reflect Set, rawValues) also records map[thatName] = source; resolve starts from applyDefaults()", 5)
	c.Rule("C27.sources", "E-CONST/E-TABLE", "SourcesInDescendingOrder = all non-zero Source constants, strictly descending, in the documented priority; resolve iterates it; Source.Local() is true exactly for Default/ConfigFile/EnvironmentVariable/InternalOverride", 10)
	c.Rule("C27.meta", "E-CONST", "every config: struct tag of Config matches the metadata regexp, its kind is a case of ParamForField, its flags are exactly tokens tested by loadParams, a oneof default is one of the options", 219)

	c.Rule("C27.comparator", "E-FLOW (operand projections of the comparator's parameters)", "every comparator over calc.SelectorConfigEntry handed to a slices/sort function (it picks the per-selector configuration source from a slice built in map order): each comparison step compares the same projection of the two different parameters, and one step compares the unique key (the entry field ConfigBatcher stores its map key into)", 2)

	// every family runs on its own: a lost anchor of one (or of the shared model)
	// never zeroes the independent ones; the combined loss is raised at the end
	var lost []string
	var m *c27Model
	c27Isolated(&lost, func() { m = c27Build(c, p) })
	if m != nil {
		for _, fam := range []func(*Ctx, *c27Model){c27Shadow, c27Value, c27Fatal, c27Order, c27Record, c27Sources} {
			fam := fam
			c27Isolated(&lost, func() { fam(c, m) })
		}
	}
	c27Isolated(&lost, func() { c27Meta(c, p) })
	c27Isolated(&lost, func() { c27Comparator(c) })
	if len(lost) > 0 {
		c.Lost("%s", strings.Join(lost, " | "))
	}
}

func c27Shadow(c *Ctx, m *c27Model) {
	p := m.p
	for _, e := range m.effects {
		site := p.Pos(e.In.Pos())
		if e.In.Pos() == token.NoPos {
			site = p.Pos(m.fn.Pos())
		}
		c.Check(m.guarded(e.In, m.precPred), "C27.shadowfirst/resolve/"+e.Name, site,
			"only reachable after the test source >= currentSource",
			"effect `"+e.Name+"` of a raw value is reachable without first establishing source >= currentSource: a shadowed lower-priority value can affect the result")
		if m.guarded(e.In, m.unknownPred) {
			continue // unknown-parameter branch: no metadata, no local-only notion
		}
		c.Check(m.guarded(e.In, m.localPred), "C27.local/resolve/"+e.Name, site,
			"only reachable when !metadata.Local or source.Local()",
			"effect `"+e.Name+"` of a known parameter is reachable for a local-only parameter from a non-local (datastore) source")
	}
}

type c27Leaf struct {
	from, to *ssa.BasicBlock
	v        ssa.Value
}

func c27PhiLeaves(l *c27Loop, v ssa.Value, depth int) ([]c27Leaf, bool) {
	phi, ok := v.(*ssa.Phi)
	if !ok || depth == 0 || !l.InRegion(phi.Block()) {
		return nil, false
	}
	var out []c27Leaf
	for i, e := range phi.Edges {
		if inner, ok := e.(*ssa.Phi); ok && l.InRegion(inner.Block()) {
			sub, ok := c27PhiLeaves(l, inner, depth-1)
			if !ok {
				return nil, false
			}
			out = append(out, sub...)
			continue
		}
		out = append(out, c27Leaf{phi.Block().Preds[i], phi.Block(), e})
	}
	return out, true
}

func (m *c27Model) errIs(nilWant bool) EdgePred {
	return eqCond(nilWant, func(v ssa.Value) bool { return m.parseResult(v, 1, 4) }, isNilConst)
}

// needParse raises the Param.Parse anchor loss for the families that need it.
func (m *c27Model) needParse() {
	if m.parseLost != "" {
		m.c.Lost("%s", m.parseLost)
	}
}

// parseResult: v is result #idx of the Parse invoke, directly or handed through
// unchanged by every return of an in-package helper.
func (m *c27Model) parseResult(v ssa.Value, idx, depth int) bool {
	if ex, ok := v.(*ssa.Extract); ok && ex.Index == idx && ex.Tuple == ssa.Value(m.parse) {
		return true
	}
	if depth == 0 {
		return false
	}
	call, k := c27ResultIndex(v)
	if call == nil {
		return false
	}
	h := m.calls.helperOf(call)
	if h == nil {
		return false
	}
	n := 0
	for _, ret := range returnsOf(h) {
		if isPanicBlock(ret.Block()) {
			continue
		}
		if k >= len(ret.Results) || !m.parseResult(ret.Results[k], idx, depth-1) {
			return false
		}
		n++
	}
	return n > 0
}

// metaFieldOf: v is a load of field fv of the metadata of the Param being parsed.
func (m *c27Model) metaField(v ssa.Value) *types.Var {
	u, ok := v.(*ssa.UnOp)
	if !ok || u.Op != token.MUL {
		return nil
	}
	fa, ok := u.X.(*ssa.FieldAddr)
	if !ok {
		return nil
	}
	call, ok := fa.X.(*ssa.Call)
	if !ok || !call.Common().IsInvoke() || !m.calls.same(call.Common().Value, m.parse.Common().Value) {
		return nil
	}
	return fieldVar(fa)
}

func c27Value(c *Ctx, m *c27Model) {
	m.needParse()
	p := m.p
	site := p.Pos(m.set.Pos())
	var setVal ssa.Value
	for _, e := range m.effects {
		if e.In == ssa.Instruction(m.set) {
			setVal = e.Val
		}
	}
	if setVal == nil {
		c.Undecided("C27.value/resolve/origin", site, "the argument of reflect Set is not reflect.ValueOf(x)")
		return
	}
	leaves := m.valueLeaves(setVal, m.set, nil, 6)
	if len(leaves) == 0 || (len(leaves) == 1 && leaves[0].v == setVal) {
		c.Undecided("C27.value/resolve/origin", site, "the value passed to reflect Set (%s) is not a merge of alternatives inside the per-value loop", path(setVal))
		return
	}
	classes := map[string][]c27VLeaf{}
	var others []string
	for _, lf := range leaves {
		switch {
		case m.parseResult(lf.v, 0, 4):
			classes["parsed"] = append(classes["parsed"], lf)
		case m.metaField(lf.v) == m.fZero:
			classes["zero"] = append(classes["zero"], lf)
		case m.metaField(lf.v) == m.fDefault:
			classes["default"] = append(classes["default"], lf)
		default:
			others = append(others, path(lf.v))
		}
	}
	sort.Strings(others)
	c.Check(len(others) == 0, "C27.value/resolve/origin", site,
		fmt.Sprintf("%d alternatives, all from Parse / Metadata.ZeroValue / Metadata.Default of the same Param", len(leaves)),
		"reflect Set can receive a value that is neither Parse's result nor the parameter's ZeroValue/Default: "+strings.Join(others, ", "))
	need := []struct {
		class string
		conds []EdgePred
		names []string
	}{
		{"parsed", []EdgePred{m.errIs(true)}, []string{"err == nil"}},
		{"zero", []EdgePred{m.nonePred, c27FieldCond(false, m.fNonZero)}, []string{`lower(raw) == "none"`, "!metadata.NonZero"}},
		{"default", []EdgePred{m.errIs(false), c27FieldCond(false, m.fDie)}, []string{"err != nil", "!metadata.DieOnParseFailure"}},
	}
	for _, n := range need {
		key := "C27.value/resolve/" + n.class
		ls := classes[n.class]
		if len(ls) == 0 {
			c.Violate(key, site, "no alternative of the value passed to reflect Set comes from the %s source (required: %s)", n.class, strings.Join(n.names, " && "))
			continue
		}
		var bad []string
		for _, lf := range ls {
			for i, pr := range n.conds {
				if !lf.guarded(pr) {
					bad = append(bad, n.names[i])
				}
			}
		}
		c.Check(len(bad) == 0, key, site,
			fmt.Sprintf("%d alternative(s), each selected only under %s", len(ls), strings.Join(n.names, " && ")),
			fmt.Sprintf("the %s value can be selected without %s", n.class, strings.Join(bad, " and without ")))
	}
}

func c27Fatal(c *Ctx, m *c27Model) {
	m.needParse()
	p := m.p
	for _, e := range m.effects {
		ret, ok := e.In.(*ssa.Return)
		if !ok {
			continue
		}
		site := p.Pos(ret.Pos())
		if len(ret.Results) == 0 {
			c.Undecided("C27.fatal/resolve/return", site, "return without results inside the per-value loop")
			continue
		}
		r := ret.Results[len(ret.Results)-1]
		stored := m.errStored(r, ret, 4)
		if !stored && ret.Parent() != m.fn && !isNilConst(r) {
			// an error return of an extracted helper: the caller may do the storing
			stored = m.storedByCallers(ret.Parent(), len(ret.Results)-1)
		}
		c.Check(!isNilConst(r) && stored, "C27.fatal/resolve/return", site,
			"returns the error value it stored in Config.Err",
			fmt.Sprintf("early return from the per-value loop with error %s that is nil or was not stored in Config.Err on every path", path(r)))
	}
	for _, t := range []struct {
		key  string
		fv   *types.Var
		ctx  EdgePred
		what string
	}{
		{"C27.fatal/resolve/die", m.fDie, m.errIs(false), "an invalid value of a die-on-fail parameter"},
		{"C27.fatal/resolve/nonzero-none", m.fNonZero, m.nonePred, "'none' for a non-zero parameter"},
	} {
		found, bad := 0, ""
		var site string
		for _, f := range m.calls.funcs {
			l := m.calls.ctx(f, m.loop)
			for _, b := range f.Blocks {
				if !l.InRegion(b) || len(b.Succs) != 2 {
					continue
				}
				ifi, ok := b.Instrs[len(b.Instrs)-1].(*ssa.If)
				if !ok {
					continue
				}
				cond, pol := stripNot(ifi.Cond, true)
				if fieldVar(cond) != t.fv {
					continue
				}
				if !m.guarded(ifi, t.ctx) && !(b == m.loop.BodyEntry) {
					continue // a test of the flag in some other context
				}
				found++
				site = p.Pos(ifi.Cond.Pos())
				succ := b.Succs[0]
				if !pol {
					succ = b.Succs[1]
				}
				if f != m.fn {
					// the test sits in an extracted helper: the failure must travel
					// to resolve as a non-nil error that resolve never continues on
					if why := m.leavesVia(f, succ); why != "" {
						bad = "the branch taken for " + t.what + " can continue with the next value instead of failing: " + why
					}
					continue
				}
				if succ == m.loop.Header || blockReach(succ)[m.loop.Header] {
					bad = "the branch taken for " + t.what + " can continue with the next value instead of failing"
				}
			}
		}
		if found == 0 {
			c.Violate(t.key, p.Pos(m.fn.Pos()), "Config.resolve never tests Metadata.%s in the context of %s", t.fv.Name(), t.what)
			continue
		}
		c.Check(bad == "", t.key, site, "the branch for "+t.what+" always leaves the function", bad)
	}
}

// c27IterationOrder classifies the order in which the loop visits its keys and
// returns the per-iteration key value:
//
//	map            `for k := range m` over a Go map (unspecified order)
//	sorted         range over a slice produced by slices.Sorted, or sorted in place
//	               (slices.Sort / sort.Strings) before the loop
//	maporder-slice range over slices.Collect(maps.Keys(m)) and the like: map order
//	unknown        anything else
func c27IterationOrder(l *c27Loop) (string, ssa.Value) {
	if l.Next != nil {
		if rg, ok := l.Next.Iter.(*ssa.Range); ok {
			if _, isMap := rg.X.Type().Underlying().(*types.Map); isMap {
				for _, r := range *l.Next.Referrers() {
					if ex, ok := r.(*ssa.Extract); ok && ex.Index == 1 {
						return "map", ex
					}
				}
				return "map", nil
			}
		}
		return "unknown", nil
	}
	for _, in := range l.BodyEntry.Instrs {
		ia, ok := in.(*ssa.IndexAddr)
		if !ok || !l.Invariant(ia.X) {
			continue
		}
		var key ssa.Value
		for _, r := range *ia.Referrers() {
			if u, ok := r.(*ssa.UnOp); ok && u.Op == token.MUL {
				key = u
			}
		}
		kind := "unknown"
		for _, o := range origins(ia.X, nil) {
			if o.Kind != "call" {
				continue
			}
			f := calleeOf(o.V.(*ssa.Call).Common())
			if f == nil || f.Pkg() == nil {
				continue
			}
			switch {
			case f.Pkg().Path() == "slices" && (f.Name() == "Sorted" || f.Name() == "SortedFunc" || f.Name() == "SortedStableFunc"):
				kind = "sorted"
			case (f.Pkg().Path() == "slices" && f.Name() == "Collect") || (f.Pkg().Path() == "maps" && (f.Name() == "Keys" || f.Name() == "Values")):
				kind = "maporder-slice"
			}
		}
		if refs := ia.X.Referrers(); refs != nil && kind != "sorted" {
			for _, r := range *refs {
				if call, ok := r.(*ssa.Call); ok {
					f := calleeOf(call.Common())
					if f == nil || f.Pkg() == nil || !call.Block().Dominates(l.Header) {
						continue
					}
					if (f.Pkg().Path() == "slices" && f.Name() == "Sort") || (f.Pkg().Path() == "sort" && f.Name() == "Strings") {
						kind = "sorted"
					}
				}
			}
		}
		return kind, key
	}
	return "unknown", nil
}

func c27Order(c *Ctx, m *c27Model) {
	p := m.p
	for _, e := range m.effects {
		if !e.Cell {
			continue
		}
		key := "C27.order/resolve/" + e.Name
		site := p.Pos(e.In.Pos())
		switch m.iter {
		case "sorted":
			c.Ok(key, site, "the per-value loop visits the raw names in sorted order: the last writer of a cell is determined by the keys alone")
			continue
		case "unknown":
			c.Undecided(key, site, "the per-value loop of Config.resolve neither ranges over a map nor over a slice whose order is visibly sorted or map-derived; iteration order not established")
			continue
		}
		if e.Key == nil {
			c.Undecided(key, site, "cannot identify the cell written by %s", e.Name)
			continue
		}
		if e.Val != nil && m.loop.Invariant(e.Val) {
			c.Ok(key, site, "value written (%s) is the same in every iteration", path(e.Val))
			continue
		}
		d, inj := m.deriv(e.Key, 6)
		switch inj {
		case 1:
			c.Ok(key, site, "cell keyed by the range key itself: one writer per cell")
		case 0:
			c.Violate(key, site, "last-writer-wins write to a cell keyed by %s while the keys are visited in Go map order (%s): two raw names of the same source that differ only in case hit the same cell (not shadowed: source == currentSource) and the random iteration order decides which value wins", d, m.iter)
		default:
			c.Undecided(key, site, "cell key %s: cannot decide whether it is injective in the range key", path(e.Key))
		}
	}
}

// c27Record: the bookkeeping that makes the precedence test mean something.
//
//	cell-key        the map cell read as currentSource is indexed by the same
//	                value that indexes knownParams (so every spelling of one
//	                parameter, in every source, shares one cell)
//	<value effect>  every pass through the iteration that performs a value-cell
//	                write (reflect Set, rawValues[..]=) also performs
//	                cell[thatKey] = source (the loop-invariant source)
//	fresh-defaults  Config.applyDefaults() is called on the receiver before the loops
func c27Record(c *Ctx, m *c27Model) {
	p := m.p
	fsite := p.Pos(m.fn.Pos())
	var curs, params []*ssa.Lookup
	for _, b := range m.fn.Blocks {
		if !m.loop.InRegion(b) {
			continue
		}
		for _, in := range b.Instrs {
			lk, ok := in.(*ssa.Lookup)
			if !ok {
				continue
			}
			mt, ok := lk.X.Type().Underlying().(*types.Map)
			if !ok {
				continue
			}
			switch {
			case types.Identical(mt.Elem(), m.srcT):
				curs = append(curs, lk)
			case types.Identical(mt.Elem(), m.paramT):
				params = append(params, lk)
			}
		}
	}
	if len(curs) == 0 {
		c.Lost("Config.resolve: the lookup of the highest-priority source seen so far (map[...]Source) in the per-value loop")
	}
	if len(params) == 0 {
		c.Lost("Config.resolve: the lookup of the Param (map[...]Param) in the per-value loop")
	}
	sameKey := func(a, b ssa.Value) bool { return a == b || (path(a) == path(b) && !strings.Contains(path(a), "?")) }
	cur := curs[0]
	uniform := true
	for _, o := range curs[1:] {
		if o.X != cur.X || !sameKey(o.Index, cur.Index) {
			uniform = false
		}
	}
	for _, o := range params[1:] {
		if !sameKey(o.Index, params[0].Index) {
			uniform = false
		}
	}
	csite := p.Pos(cur.Pos())
	switch d, inj := m.deriv(cur.Index, 6); {
	case !uniform:
		c.Undecided("C27.record/resolve/cell-key", csite, "several differently-keyed lookups of the source/param maps in the per-value loop")
	case sameKey(cur.Index, params[0].Index):
		c.Ok("C27.record/resolve/cell-key", csite, "currentSource and the Param are looked up under the same key (%s)", d)
	case inj == 1:
		c.Violate("C27.record/resolve/cell-key", csite, "currentSource is looked up under %s but the parameter under %s: two spellings of one parameter in different sources do not share a precedence cell, so the lower-priority spelling is not shadowed",
			d, func() string { s, _ := m.deriv(params[0].Index, 6); return s }())
	default:
		c.Undecided("C27.record/resolve/cell-key", csite, "currentSource is looked up under %s, the parameter under %s: cannot decide that they identify the same parameter", path(cur.Index), path(params[0].Index))
	}

	// record updates: cell[key] = source
	recBlocks := map[*ssa.BasicBlock]bool{}
	isRecord := func(in ssa.Instruction) bool {
		mu, ok := in.(*ssa.MapUpdate)
		return ok && mu.Map == cur.X && sameKey(mu.Key, cur.Index) && m.isSrc(mu.Value)
	}
	for _, e := range m.effects {
		if isRecord(e.In) {
			recBlocks[e.In.Block()] = true
		}
	}
	// reach(from, to): a path inside one iteration that avoids every recording block
	reach := func(from, to *ssa.BasicBlock, startInclusive bool) bool {
		seen := map[*ssa.BasicBlock]bool{}
		var st []*ssa.BasicBlock
		if startInclusive {
			st = []*ssa.BasicBlock{from}
		} else {
			st = append(st, from.Succs...)
		}
		for len(st) > 0 {
			b := st[len(st)-1]
			st = st[:len(st)-1]
			if b == to {
				return true
			}
			if seen[b] || recBlocks[b] || b == m.loop.Header || !m.loop.Blocks[b] {
				continue
			}
			seen[b] = true
			st = append(st, b.Succs...)
		}
		return false
	}
	for _, e := range m.effects {
		if !e.Cell || isRecord(e.In) {
			continue
		}
		if mu, ok := e.In.(*ssa.MapUpdate); ok && mu.Map == cur.X {
			// a write to the precedence map that is not `cell[key] = source`
			c.Violate("C27.record/resolve/"+e.Name, p.Pos(e.In.Pos()), "the precedence map is updated with key %s / value %s, not with [the parameter's key] = the source being walked: later sources are compared against the wrong priority", path(mu.Key), path(mu.Value))
			continue
		}
		eb := e.In.Block()
		missed := !recBlocks[eb] && reach(m.loop.BodyEntry, eb, true) && reach(eb, m.loop.Header, false)
		c.Check(!missed, "C27.record/resolve/"+e.Name, p.Pos(e.In.Pos()),
			"every iteration that performs this write also records the source as the highest-priority one seen for the parameter",
			"value effect `"+e.Name+"` can complete an iteration without recording `source` in the precedence map under the parameter's key: a later, lower-priority source is then compared against a stale priority and overwrites the value")
	}

	// fresh defaults
	recv := m.fn.Params[0]
	fresh := false
	for _, cs := range callsIn(m.fn, false, func(f *types.Func) bool { return isFunc(f, c27Pkg, "Config.applyDefaults") }) {
		in, _ := cs.Instr.(ssa.Instruction)
		if in != nil && len(cs.Args()) > 0 && cs.Args()[0] == ssa.Value(recv) && in.Block().Dominates(m.loop.Header) && !blockReach(in.Block())[in.Block()] {
			fresh = true
		}
	}
	if p.Func(c27Pkg, "Config.applyDefaults") == nil {
		c.Lost("func (*Config).applyDefaults")
	}
	c.Check(fresh, "C27.record/resolve/fresh-defaults", fsite,
		"config.applyDefaults() runs exactly once, before the source/value loops",
		"Config.resolve does not call applyDefaults() on its receiver before walking the sources: a field whose last setting source dropped the parameter keeps its stale value instead of the default")
}

func c27Sources(c *Ctx, m *c27Model) {
	p := m.p
	pk := p.Pkg(c27Pkg)
	g, _ := p.LookupObj(c27Pkg, "SourcesInDescendingOrder").(*types.Var)
	if g == nil {
		c.Lost("var %s.SourcesInDescendingOrder", c27Pkg)
	}
	// all constants of type Source
	consts := map[string]int64{}
	for _, n := range pk.Types.Scope().Names() {
		if k, ok := pk.Types.Scope().Lookup(n).(*types.Const); ok && types.Identical(k.Type(), m.srcT) {
			v, _ := constant.Int64Val(k.Val())
			consts[n] = v
		}
	}
	// the literal
	var lit *ast.CompositeLit
	var litPos token.Pos
	for _, f := range pk.Syntax {
		for _, d := range f.Decls {
			gd, ok := d.(*ast.GenDecl)
			if !ok {
				continue
			}
			for _, s := range gd.Specs {
				vs, ok := s.(*ast.ValueSpec)
				if !ok {
					continue
				}
				for i, n := range vs.Names {
					if pk.TypesInfo.Defs[n] == g && i < len(vs.Values) {
						lit, _ = ast.Unparen(vs.Values[i]).(*ast.CompositeLit)
						litPos = n.Pos()
					}
				}
			}
		}
	}
	if lit == nil {
		c.Lost("initialiser of SourcesInDescendingOrder is not a composite literal")
	}
	site := p.Pos(litPos)
	var vals []int64
	decided := true
	for _, el := range lit.Elts {
		cv, ok := constValue(pk.TypesInfo, el)
		if !ok {
			decided = false
			break
		}
		v, _ := constant.Int64Val(cv)
		vals = append(vals, v)
	}
	if !decided {
		c.Undecided("C27.sources/descending", site, "non-constant element in SourcesInDescendingOrder")
	} else {
		desc := true
		for i := 1; i < len(vals); i++ {
			if vals[i] >= vals[i-1] {
				desc = false
			}
		}
		have := map[int64]bool{}
		for _, v := range vals {
			have[v] = true
		}
		var miss []string
		for _, n := range sortedKeys(consts) {
			if consts[n] != 0 && !have[consts[n]] {
				miss = append(miss, n)
			}
		}
		c.Check(desc && len(miss) == 0 && !have[0], "C27.sources/descending", site,
			fmt.Sprintf("%d sources, strictly descending, every non-zero Source constant present", len(vals)),
			fmt.Sprintf("SourcesInDescendingOrder = %v: strictly descending=%v, missing=%v, contains zero value=%v (resolve's `source < currentSource` test assumes a strictly descending walk over every source)", vals, desc, miss, have[0]))
	}
	// documented priority
	want := []string{"Default", "DatastoreGlobal", "DatastorePerSelector", "DatastorePerHost", "ConfigFile", "EnvironmentVariable", "InternalOverride"}
	okp := len(consts) == len(want)
	for i, n := range want {
		v, ok := consts[n]
		if !ok {
			c.Lost("constant %s.%s", c27Pkg, n)
		}
		if v != int64(i) && !(i > 0 && v > consts[want[i-1]]) {
			okp = false
		}
		if i == 0 && v != 0 {
			okp = false
		}
	}
	c.Check(okp, "C27.sources/priority", site,
		"Default(0) < DatastoreGlobal < DatastorePerSelector < DatastorePerHost < ConfigFile < EnvironmentVariable < InternalOverride, no other Source constant",
		fmt.Sprintf("Source constants %v do not realise the documented priority (internal override, environment, config file, per-host, per-selector, global; Default must be the zero value)", consts))

	// resolve iterates that list: the invariant `source` operand comes from it
	var srcVals []ssa.Value
	for _, b := range m.fn.Blocks {
		for _, in := range b.Instrs {
			if lk, ok := in.(*ssa.Lookup); ok {
				if mt, ok := lk.X.Type().Underlying().(*types.Map); ok && types.Identical(mt.Key(), m.srcT) {
					srcVals = append(srcVals, lk.Index)
				}
			}
		}
	}
	fromList := len(srcVals) > 0
	for _, sv := range srcVals {
		okv := false
		if u, ok := c27Unwrap(sv).(*ssa.UnOp); ok && u.Op == token.MUL {
			if ia, ok := u.X.(*ssa.IndexAddr); ok {
				for _, o := range origins(ia.X, nil) {
					if gl, ok := o.V.(*ssa.Global); ok && gl.Object() == types.Object(g) {
						okv = true
					}
				}
			}
		}
		if !okv {
			fromList = false
		}
	}
	c.Check(fromList, "C27.sources/resolve-iterates", p.Pos(m.fn.Pos()),
		"the source whose raw map is walked is an element of SourcesInDescendingOrder",
		"Config.resolve indexes sourceToRawConfig with a source that is not an element of SourcesInDescendingOrder")

	// Source.Local truth table
	localFn, _ := p.LookupObj(c27Pkg, "Source.Local").(*types.Func)
	if localFn == nil {
		c.Lost("method %s.Source.Local", c27Pkg)
	}
	wantLocal := map[string]bool{"Default": true, "ConfigFile": true, "EnvironmentVariable": true, "InternalOverride": true}
	ev := newC28Eval(p)
	for _, n := range want {
		k := pk.Types.Scope().Lookup(n).(*types.Const)
		res, err := ev.callFunc(localFn, []*tval{tvConstOf(k.Val())}, 0)
		key := "C27.sources/Local/" + n
		lsite := p.Pos(localFn.Pos())
		if err != nil {
			c.Undecided(key, lsite, "Source.Local is outside the evaluable fragment: %v", err)
			continue
		}
		b, isb := res.asBool()
		if !isb {
			c.Undecided(key, lsite, "Source.Local(%s) did not evaluate to a boolean: %s", n, res)
			continue
		}
		c.Check(b == wantLocal[n], key, lsite, fmt.Sprintf("Local()=%v", b),
			fmt.Sprintf("Source(%s).Local() = %v, want %v: local-only parameters must be accepted from exactly Default/ConfigFile/EnvironmentVariable/InternalOverride", n, b, wantLocal[n]))
	}
}

// ---------------------------------------------------------------- C27.meta --

// c27TagRegexp recovers, from the source, the constant regexp that ParamForField
// applies to a `config:` struct tag (kind(params);default;flags).
func c27TagRegexp(c *Ctx, p *Prog) *regexp.Regexp {
	pk := p.Pkg(c27Pkg)
	if pk == nil {
		c.Lost("package %s not loaded", c27Pkg)
	}
	info := pk.TypesInfo
	pff, _ := p.declOf(c27Pkg, "ParamForField")
	if pff == nil {
		c.Lost("ParamForField in %s", c27Pkg)
	}
	var re *regexp.Regexp
	ast.Inspect(pff.Body, func(n ast.Node) bool {
		ce, ok := n.(*ast.CallExpr)
		if !ok || re != nil {
			return true
		}
		f := calleeObjAST(info, ce)
		if f == nil || f.Name() != "FindStringSubmatch" {
			return true
		}
		se, _ := ast.Unparen(ce.Fun).(*ast.SelectorExpr)
		id, _ := ast.Unparen(se.X).(*ast.Ident)
		if id == nil {
			return true
		}
		v, _ := info.Uses[id].(*types.Var)
		if v == nil || v.Parent() != pk.Types.Scope() {
			return true
		}
		for _, file := range pk.Syntax {
			for _, d := range file.Decls {
				gd, ok := d.(*ast.GenDecl)
				if !ok {
					continue
				}
				for _, s := range gd.Specs {
					vs, ok := s.(*ast.ValueSpec)
					if !ok {
						continue
					}
					for i, nm := range vs.Names {
						if info.Defs[nm] != types.Object(v) || i >= len(vs.Values) {
							continue
						}
						if mc, ok := ast.Unparen(vs.Values[i]).(*ast.CallExpr); ok && len(mc.Args) == 1 {
							if cf := calleeObjAST(info, mc); cf != nil && cf.Pkg().Path() == "regexp" && cf.Name() == "MustCompile" {
								if cv, ok := constValue(info, mc.Args[0]); ok && cv.Kind() == constant.String {
									re, _ = regexp.Compile(constant.StringVal(cv))
								}
							}
						}
					}
				}
			}
		}
		return true
	})
	if re == nil || re.NumSubexp() != 4 {
		c.Lost("the constant regexp ParamForField applies to the struct tag (4 capture groups)")
	}
	return re
}

func c27Meta(c *Ctx, p *Prog) {
	pk := p.Pkg(c27Pkg)
	info := pk.TypesInfo
	pff, _ := p.declOf(c27Pkg, "ParamForField")
	lp, _ := p.declOf(c27Pkg, "loadParams")
	if pff == nil || lp == nil {
		c.Lost("ParamForField / loadParams in %s", c27Pkg)
	}
	re := c27TagRegexp(c, p)
	// (2) kinds: constant cases of the largest string switch in ParamForField
	kinds := map[string]bool{}
	ast.Inspect(pff.Body, func(n ast.Node) bool {
		sw, ok := n.(*ast.SwitchStmt)
		if !ok || sw.Tag == nil {
			return true
		}
		cur := map[string]bool{}
		for _, cl := range sw.Body.List {
			for _, e := range cl.(*ast.CaseClause).List {
				if cv, ok := constValue(info, e); ok && cv.Kind() == constant.String {
					cur[constant.StringVal(cv)] = true
				}
			}
		}
		if len(cur) > len(kinds) {
			kinds = cur
		}
		return true
	})
	if len(kinds) < 10 {
		c.Lost("the kind switch of ParamForField (found %d constant cases)", len(kinds))
	}
	// (3) flags: strings.Contains(<3rd result of ParamForField>, "const") in loadParams
	var flagsObj types.Object
	ast.Inspect(lp.Body, func(n ast.Node) bool {
		as, ok := n.(*ast.AssignStmt)
		if !ok || len(as.Rhs) != 1 || len(as.Lhs) != 3 {
			return true
		}
		if ce, ok := ast.Unparen(as.Rhs[0]).(*ast.CallExpr); ok {
			if f := calleeObjAST(info, ce); f != nil && f.Name() == "ParamForField" {
				if id, ok := as.Lhs[2].(*ast.Ident); ok {
					flagsObj = info.ObjectOf(id)
				}
			}
		}
		return true
	})
	if flagsObj == nil {
		c.Lost("loadParams: the flags result of ParamForField")
	}
	flags := map[string]bool{}
	ast.Inspect(lp.Body, func(n ast.Node) bool {
		ce, ok := n.(*ast.CallExpr)
		if !ok || len(ce.Args) != 2 {
			return true
		}
		f := calleeObjAST(info, ce)
		if f == nil || f.Pkg() == nil || f.Pkg().Path() != "strings" || f.Name() != "Contains" {
			return true
		}
		if id, ok := ast.Unparen(ce.Args[0]).(*ast.Ident); ok && info.ObjectOf(id) == flagsObj {
			if cv, ok := constValue(info, ce.Args[1]); ok && cv.Kind() == constant.String {
				flags[constant.StringVal(cv)] = true
			}
		}
		return true
	})
	if len(flags) < 3 {
		c.Lost("loadParams: strings.Contains(flags, <const>) tests (found %d)", len(flags))
	}
	var subs []string
	for _, a := range sortedKeys(flags) {
		for _, b := range sortedKeys(flags) {
			if a != b && strings.Contains(b, a) {
				subs = append(subs, a+" in "+b)
			}
		}
	}
	c.Check(len(subs) == 0, "C27.meta/flag-substrings", p.Pos(lp.Pos()),
		fmt.Sprintf("flags %v: none is a substring of another, so strings.Contains acts as token membership", sortedKeys(flags)),
		fmt.Sprintf("loadParams tests flags with strings.Contains but %v: one flag switches on another", subs))

	// (4) every tagged field
	tn, _ := p.LookupObj(c27Pkg, "Config").(*types.TypeName)
	if tn == nil {
		c.Lost("type %s.Config", c27Pkg)
	}
	st, _ := tn.Type().Underlying().(*types.Struct)
	if st == nil {
		c.Lost("Config is not a struct")
	}
	for i := 0; i < st.NumFields(); i++ {
		f := st.Field(i)
		tag, ok := reflect.StructTag(st.Tag(i)).Lookup("config")
		if !ok || tag == "" {
			continue
		}
		key := "C27.meta/" + f.Name()
		site := p.Pos(f.Pos())
		cap := re.FindStringSubmatch(tag)
		if cap == nil {
			c.Violate(key, site, "tag %q does not match the metadata regexp (ParamForField panics)", tag)
			continue
		}
		var bad []string
		if !kinds[cap[1]] {
			bad = append(bad, fmt.Sprintf("kind %q is not a case of ParamForField", cap[1]))
		}
		if cap[4] != "" {
			for _, tok := range strings.Split(cap[4], ",") {
				if !flags[tok] {
					bad = append(bad, fmt.Sprintf("flag %q is not one loadParams tests (%v): it is silently ignored", tok, sortedKeys(flags)))
				}
			}
		}
		if cap[1] == "oneof" && cap[3] != "" {
			found := false
			for _, o := range strings.Split(cap[2], ",") {
				if strings.EqualFold(o, cap[3]) {
					found = true
				}
			}
			if !found {
				bad = append(bad, fmt.Sprintf("default %q is not among oneof(%s)", cap[3], cap[2]))
			}
		}
		c.Check(len(bad) == 0, key, site, "kind "+cap[1]+", flags ["+cap[4]+"]", strings.Join(bad, "; "))
	}
}
