package main

import (
	"fmt"
	"go/constant"
	"go/token"
	"sort"
	"strings"

	"golang.org/x/tools/go/ssa"
)

// Symbolic integer lengths for C37.marker.
//
// An int-valued SSA value is normalised to a *minimum over linear forms* in a
// few named atoms (P = len(prefix), S = len(suffix), M = maxLength, H = length
// of the hash string) plus opaque atoms for anything else.  +, - and the
// builtin min distribute over that form (c - min(…) does not and is refused).
// Two values are "the same length expression" iff their normal forms are
// equal; `e ≤ b` is proved when one alternative of e differs from the linear
// bound b by a non-positive constant.

type c37Lin struct {
	coef map[string]int64
	k    int64
}

type c37Expr []c37Lin // min over the alternatives

func c37Atom(a string) c37Expr { return c37Expr{{coef: map[string]int64{a: 1}}} }
func c37Konst(k int64) c37Expr { return c37Expr{{coef: map[string]int64{}, k: k}} }

func (l c37Lin) add(o c37Lin, sign int64) c37Lin {
	r := c37Lin{coef: map[string]int64{}, k: l.k + sign*o.k}
	for a, c := range l.coef {
		r.coef[a] = c
	}
	for a, c := range o.coef {
		r.coef[a] += sign * c
		if r.coef[a] == 0 {
			delete(r.coef, a)
		}
	}
	return r
}

func (l c37Lin) String() string {
	var as []string
	for a := range l.coef {
		as = append(as, a)
	}
	sort.Strings(as)
	var sb strings.Builder
	for _, a := range as {
		c := l.coef[a]
		switch {
		case c == 1:
			sb.WriteString("+" + a)
		case c == -1:
			sb.WriteString("-" + a)
		default:
			fmt.Fprintf(&sb, "%+d*%s", c, a)
		}
	}
	if l.k != 0 || len(as) == 0 {
		fmt.Fprintf(&sb, "%+d", l.k)
	}
	return strings.TrimPrefix(sb.String(), "+")
}

func (e c37Expr) canon() []string {
	seen := map[string]bool{}
	var out []string
	for _, l := range e {
		s := l.String()
		if !seen[s] {
			seen[s] = true
			out = append(out, s)
		}
	}
	sort.Strings(out)
	return out
}

func (e c37Expr) String() string {
	c := e.canon()
	if len(c) == 1 {
		return c[0]
	}
	return "min(" + strings.Join(c, ", ") + ")"
}

func (e c37Expr) same(o c37Expr) bool {
	return len(e) > 0 && len(o) > 0 && strings.Join(e.canon(), "|") == strings.Join(o.canon(), "|")
}

func (e c37Expr) plus(o c37Expr, sign int64) (c37Expr, bool) {
	if sign < 0 && len(o) != 1 {
		return nil, false // x - min(…) is a max
	}
	var out c37Expr
	for _, a := range e {
		for _, b := range o {
			out = append(out, a.add(b, sign))
		}
	}
	return out, true
}

// leq: e ≤ b is provable (some alternative of the minimum is b plus a constant ≤ 0).
func (e c37Expr) leq(b c37Lin) bool {
	for _, a := range e {
		d := a.add(b, -1)
		if len(d.coef) == 0 && d.k <= 0 {
			return true
		}
	}
	return false
}

// c37Lens is the naming context: which SSA values are the named atoms.
type c37Lens struct {
	prefix, maxLen ssa.Value
	isSuffix       func(ssa.Value) bool
	hash           ssa.Value                 // the string the shortened name is cut from
	isHashLen      func(call *ssa.Call) bool // a call that yields len(hash) by construction (EncodedLen of the digest size)
}

func (lc *c37Lens) norm(v ssa.Value) (c37Expr, bool) {
	switch x := v.(type) {
	case *ssa.Const:
		if x.Value == nil || x.Value.Kind() != constant.Int {
			return nil, false
		}
		n, exact := constant.Int64Val(x.Value)
		if !exact {
			return nil, false
		}
		return c37Konst(n), true
	case *ssa.Parameter:
		if v == lc.maxLen {
			return c37Atom("M"), true
		}
		return c37Atom("param:" + x.Name()), true
	case *ssa.Convert:
		return lc.norm(x.X)
	case *ssa.ChangeType:
		return lc.norm(x.X)
	case *ssa.BinOp:
		if x.Op != token.ADD && x.Op != token.SUB {
			return c37Atom("val:" + x.Name()), true
		}
		a, ok1 := lc.norm(x.X)
		b, ok2 := lc.norm(x.Y)
		if !ok1 || !ok2 {
			return nil, false
		}
		sign := int64(1)
		if x.Op == token.SUB {
			sign = -1
		}
		return a.plus(b, sign)
	case *ssa.Call:
		if b, ok := x.Call.Value.(*ssa.Builtin); ok {
			switch b.Name() {
			case "len":
				arg := x.Call.Args[0]
				switch {
				case arg == lc.prefix:
					return c37Atom("P"), true
				case lc.hash != nil && arg == lc.hash:
					return c37Atom("H"), true
				case lc.isSuffix != nil && lc.isSuffix(arg):
					return c37Atom("S"), true
				}
				if s, ok := c10StrConst(arg); ok {
					return c37Konst(int64(len(s))), true
				}
				return c37Atom("len:" + arg.Name()), true
			case "min":
				var out c37Expr
				for _, a := range x.Call.Args {
					e, ok := lc.norm(a)
					if !ok {
						return nil, false
					}
					out = append(out, e...)
				}
				return out, len(out) > 0
			}
			return nil, false
		}
		if lc.isHashLen != nil && lc.isHashLen(x) {
			return c37Atom("H"), true
		}
		return c37Atom("call:" + x.Name()), true
	}
	return nil, false
}

// c37Rel is a relation `L op R` known to hold on an If edge (op one of < ≤ == !=).
type c37Rel struct {
	L, R ssa.Value
	Op   string
}

// c37EdgeRel turns an If condition and the polarity of an edge into the integer
// relation that holds on it.
func c37EdgeRel(cond ssa.Value, pol bool) (c37Rel, bool) {
	bo, ok := cond.(*ssa.BinOp)
	if !ok {
		return c37Rel{}, false
	}
	a, b := bo.X, bo.Y
	switch bo.Op {
	case token.GTR: // a > b
		if pol {
			return c37Rel{b, a, "<"}, true
		}
		return c37Rel{a, b, "<="}, true
	case token.GEQ:
		if pol {
			return c37Rel{b, a, "<="}, true
		}
		return c37Rel{a, b, "<"}, true
	case token.LSS:
		if pol {
			return c37Rel{a, b, "<"}, true
		}
		return c37Rel{b, a, "<="}, true
	case token.LEQ:
		if pol {
			return c37Rel{a, b, "<="}, true
		}
		return c37Rel{b, a, "<"}, true
	case token.EQL:
		if pol {
			return c37Rel{a, b, "=="}, true
		}
		return c37Rel{a, b, "!="}, true
	case token.NEQ:
		if pol {
			return c37Rel{a, b, "!="}, true
		}
		return c37Rel{a, b, "=="}, true
	}
	return c37Rel{}, false
}

// bounded: v ≤ bound at instruction `at`: by its normal form, by an If edge that
// every path to `at` crosses, or — for a phi (an `if v > cap { v = cap }` clamp)
// — edge by edge, using the branch conditions fixed in the incoming block.
func (lc *c37Lens) bounded(v ssa.Value, bound c37Lin, at ssa.Instruction, depth int) bool {
	if e, ok := lc.norm(v); ok && e.leq(bound) {
		return true
	}
	establishes := func(cond ssa.Value, pol bool) bool {
		r, ok := c37EdgeRel(cond, pol)
		if !ok || (r.Op != "<" && r.Op != "<=") {
			return false
		}
		l, ok1 := lc.norm(r.L)
		rr, ok2 := lc.norm(r.R)
		ve, ok3 := lc.norm(v)
		return ok1 && ok2 && ok3 && l.same(ve) && rr.leq(bound)
	}
	if at != nil && guardedCut(at, establishes) {
		return true
	}
	if phi, ok := v.(*ssa.Phi); ok && depth > 0 {
		for i, e := range phi.Edges {
			if lc.bounded(e, bound, nil, depth-1) {
				continue
			}
			okEdge := false
			pred := phi.Block().Preds[i]
			gs := guardsOfBlock(pred)
			// the edge itself, if pred ends in an If
			if ifi, isIf := pred.Instrs[len(pred.Instrs)-1].(*ssa.If); isIf && len(pred.Succs) == 2 && pred.Succs[0] != pred.Succs[1] {
				for k, s := range pred.Succs {
					if s == phi.Block() {
						c, pol := stripNot(ifi.Cond, k == 0)
						gs = append(gs, Guard{ifi, c, pol})
					}
				}
			}
			for _, g := range gs {
				r, ok := c37EdgeRel(g.Cond, g.True)
				if !ok || (r.Op != "<" && r.Op != "<=") {
					continue
				}
				l, ok1 := lc.norm(r.L)
				rr, ok2 := lc.norm(r.R)
				ee, ok3 := lc.norm(e)
				if ok1 && ok2 && ok3 && l.same(ee) && rr.leq(bound) {
					okEdge = true
				}
			}
			if !okEdge {
				return false
			}
		}
		return true
	}
	return false
}
