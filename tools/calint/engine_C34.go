package main

// E-RACE (DESIGN §1.3): per function, the variables captured *by reference* by
// goroutine closures spawned in that function, their read/write sets per
// goroutine and for the spawning function, and the happens-before edges the
// function itself establishes (`go` statement; WaitGroup/errgroup Wait joined by
// a Done that runs after the goroutine's accesses).
//
// Reported:
//   * conflict  - a variable (or overlapping field/element path of it) written by
//     one goroutine and accessed by another goroutine that can run concurrently,
//     or by the spawning function at a point reachable from the `go` statement
//     without crossing a Wait that joins the writer;
//   * undecided - the same, where one side is an access the engine cannot
//     classify (address passed to a call, closure invoked at an unknown time);
//   * join problems - goroutine not preceded by Add, constant Add total different
//     from the number of goroutines that signal Done.
//
// Not modelled (stated in the properties that use the engine): races on the
// pointee of a captured pointer or on slice elements, channel joins, locks.
// Accesses to sync/atomic/errgroup-typed variables are synchronisation, not data.

import (
	"fmt"
	"go/constant"
	"go/token"
	"go/types"
	"sort"
	"strings"

	"golang.org/x/tools/go/ssa"
)

const (
	raceRead = iota
	raceWrite
	raceEscape
)

type raceVar struct {
	Root  ssa.Value       // *ssa.Alloc or *ssa.FreeVar of the analysed function
	Name  string          // source name (report only)
	Alloc ssa.Instruction // the Alloc instruction (nil for free variables)
	Sync  bool            // sync primitive: exempt from data-race reporting
}

type raceAccess struct {
	Var        *raceVar
	Thread     int // index into Threads; -1 = the spawning function
	Path       []string
	Kind       int
	Instr      ssa.Instruction   // the accessing instruction (possibly in a nested closure)
	At         []ssa.Instruction // instruction(s) of the thread's top function at which the access happens
	DeferredBy ssa.Instruction   // Defer instruction (top function) if the access runs in a deferred closure
	Anytime    bool              // closure invoked at a time the engine cannot place
	Nested     bool              // performed by a goroutine spawned inside the thread: never covered by the thread's Done
}

type raceThread struct {
	Idx      int
	Spawn    ssa.Instruction // `go` instruction, or the WaitGroup.Go / errgroup.Go call
	Fn       *ssa.Function   // closure body (nil: go of a non-literal function)
	MC       *ssa.MakeClosure
	AutoJoin ssa.Value // group variable root for wg.Go / errgroup.Go
	signals  []raceSignal
	pd       map[*ssa.BasicBlock]map[*ssa.BasicBlock]bool
}

// raceSignal: the thread signals completion on group W.
type raceSignal struct {
	W      ssa.Value       // root in the spawning function
	Defer  ssa.Instruction // `defer W.Done()` in the thread's top function, or the Defer of a closure that calls Done
	Call   ssa.Instruction // plain `W.Done()` call in the top function
	InnerF *ssa.Function   // deferred closure containing the Done call
	InnerC ssa.Instruction
	innerP map[*ssa.BasicBlock]map[*ssa.BasicBlock]bool
}

type raceConflict struct {
	Var       *raceVar
	A, B      *raceAccess
	Undecided bool
	Why       string
}

type raceResult struct {
	Fn        *ssa.Function
	Threads   []*raceThread
	Vars      []*raceVar
	Accesses  []*raceAccess
	Conflicts []raceConflict // goroutine vs goroutine
	ParentC   []raceConflict // goroutine vs spawning function
	JoinBad   []string       // WaitGroup discipline problems
	JoinInfo  []string
	Waits     map[ssa.Value][]ssa.Instruction
}

func raceIsSyncType(t types.Type) bool {
	for {
		if p, ok := t.Underlying().(*types.Pointer); ok {
			t = p.Elem()
			continue
		}
		break
	}
	t = types.Unalias(t)
	n, ok := t.(*types.Named)
	if !ok || n.Obj().Pkg() == nil {
		return false
	}
	switch n.Obj().Pkg().Path() {
	case "sync", "sync/atomic", "golang.org/x/sync/errgroup", "golang.org/x/sync/semaphore":
		return true
	}
	return false
}

// raceRootOf strips loads: `wg` declared as a value is used as &wg (the root
// itself), declared as a pointer it is used as *root.
func raceRootOf(v ssa.Value) ssa.Value {
	for {
		switch x := v.(type) {
		case *ssa.UnOp:
			if x.Op == token.MUL {
				v = x.X
				continue
			}
		case *ssa.FieldAddr:
			// group embedded in a struct variable: not followed
			return nil
		}
		break
	}
	switch v.(type) {
	case *ssa.Alloc, *ssa.FreeVar:
		return v
	}
	return nil
}

func raceGroupCall(ci ssa.CallInstruction, method string) (recv ssa.Value, ok bool) {
	f := calleeOf(ci.Common())
	if f == nil || f.Pkg() == nil || f.Name() != method {
		return nil, false
	}
	pp := f.Pkg().Path()
	rt := recvTypeName(f)
	if !((pp == "sync" && rt == "WaitGroup") || (pp == "golang.org/x/sync/errgroup" && rt == "Group")) {
		return nil, false
	}
	if len(ci.Common().Args) == 0 {
		return nil, false
	}
	return ci.Common().Args[0], true
}

type raceEng struct {
	fn  *ssa.Function
	res *raceResult
	// parentOf maps a free variable of a closure to the bound value in the
	// function that made the closure.
	bind map[*ssa.FreeVar]ssa.Value
	// paramBind maps a parameter of a function that runs as (part of) a goroutine of
	// the analysed function — the callee of `go f(args)`, or a static callee that is
	// handed the address of a shared variable — to the argument bound to it.
	paramBind map[*ssa.Parameter]ssa.Value
	visiting  map[*ssa.Parameter]bool
}

// raceStaticBody: the function a call instruction statically calls, when its body
// is available and it belongs to the package of fn (methods called from a go
// statement / goroutine closure run in that goroutine).
func raceStaticBody(ci ssa.CallInstruction, fn *ssa.Function) *ssa.Function {
	cc := ci.Common()
	if cc.IsInvoke() {
		return nil
	}
	if _, isMC := cc.Value.(*ssa.MakeClosure); isMC {
		return nil
	}
	g := cc.StaticCallee()
	if g == nil || len(g.Blocks) == 0 || g.Pkg == nil || g.Pkg != fn.Pkg {
		return nil
	}
	return g
}

// raceAnalyze runs E-RACE on one function (closures spawned as goroutines by fn;
// goroutines spawned by nested closures are analysed when raceAnalyze is called
// on those closures).
func raceAnalyze(fn *ssa.Function) *raceResult {
	e := &raceEng{fn: fn, res: &raceResult{Fn: fn, Waits: map[ssa.Value][]ssa.Instruction{}}, bind: map[*ssa.FreeVar]ssa.Value{},
		paramBind: map[*ssa.Parameter]ssa.Value{}, visiting: map[*ssa.Parameter]bool{}}
	e.indexBindings(fn)
	res := e.res
	// threads + Wait/Add sites
	type addSite struct {
		in  ssa.Instruction
		n   int64
		cst bool
	}
	adds := map[ssa.Value][]addSite{}
	for _, b := range fn.Blocks {
		for _, in := range b.Instrs {
			switch x := in.(type) {
			case *ssa.Go:
				th := &raceThread{Idx: len(res.Threads), Spawn: x}
				if mc, ok := x.Call.Value.(*ssa.MakeClosure); ok {
					th.MC = mc
					th.Fn = mc.Fn.(*ssa.Function)
				} else if g := raceStaticBody(x, fn); g != nil {
					// `go a.method(args)`: the method body is the goroutine
					th.Fn = g
					for k, a := range x.Call.Args {
						if k < len(g.Params) {
							e.paramBind[g.Params[k]] = a
						}
					}
				}
				res.Threads = append(res.Threads, th)
			case ssa.CallInstruction:
				if recv, ok := raceGroupCall(x, "Go"); ok && len(x.Common().Args) == 2 {
					th := &raceThread{Idx: len(res.Threads), Spawn: x, AutoJoin: raceRootOf(recv)}
					if mc, ok := x.Common().Args[1].(*ssa.MakeClosure); ok {
						th.MC = mc
						th.Fn = mc.Fn.(*ssa.Function)
					}
					res.Threads = append(res.Threads, th)
				}
				if _, isDefer := in.(*ssa.Defer); isDefer {
					continue // a deferred Wait/Add does not order the function's own accesses
				}
				if recv, ok := raceGroupCall(x, "Wait"); ok {
					if r := raceRootOf(recv); r != nil {
						res.Waits[r] = append(res.Waits[r], in)
					}
				}
				if recv, ok := raceGroupCall(x, "Add"); ok && len(x.Common().Args) == 2 {
					if r := raceRootOf(recv); r != nil {
						a := addSite{in: in}
						if cv, ok := constOf(x.Common().Args[1]); ok {
							if n, exact := raceConstInt64(cv); exact {
								a.n, a.cst = n, true
							}
						}
						adds[r] = append(adds[r], a)
					}
				}
			}
		}
	}
	if len(res.Threads) == 0 {
		return res
	}
	for _, th := range res.Threads {
		if th.Fn != nil {
			th.pd = postDominators(th.Fn)
			e.findSignals(th)
		}
	}
	// variables: everything bound into a goroutine closure, plus allocs whose
	// address is passed to a `go` call of a non-literal function.
	seen := map[ssa.Value]*raceVar{}
	addVar := func(root ssa.Value) *raceVar {
		if v, ok := seen[root]; ok {
			return v
		}
		v := &raceVar{Root: root}
		switch r := root.(type) {
		case *ssa.Alloc:
			v.Name, v.Alloc = r.Comment, r
			v.Sync = raceIsSyncType(r.Type())
		case *ssa.FreeVar:
			v.Name = r.Name()
			v.Sync = raceIsSyncType(r.Type())
		default:
			return nil
		}
		seen[root] = v
		res.Vars = append(res.Vars, v)
		return v
	}
	for _, th := range res.Threads {
		if th.MC != nil {
			for _, bnd := range th.MC.Bindings {
				addVar(bnd)
			}
		}
		for _, a := range th.Spawn.(ssa.CallInstruction).Common().Args {
			if r := raceRootOf(a); r != nil && r == a { // &local passed to the goroutine
				addVar(r)
			}
		}
	}
	// accesses
	for _, v := range res.Vars {
		if v.Sync {
			continue
		}
		e.walk(v, -1, fn, v.Root, nil, raceCtx{})
	}
	// conflicts
	for i := 0; i < len(res.Accesses); i++ {
		for j := i + 1; j < len(res.Accesses); j++ {
			a, b := res.Accesses[i], res.Accesses[j]
			if a.Var != b.Var || (a.Kind == raceRead && b.Kind == raceRead) || !racePathsOverlap(a.Path, b.Path) {
				continue
			}
			if a.Thread == -1 && b.Thread == -1 {
				continue
			}
			if a.Thread != -1 && b.Thread == -1 {
				a, b = b, a
			}
			und := a.Kind == raceEscape || b.Kind == raceEscape || a.Anytime || b.Anytime
			if a.Thread == -1 {
				// a: spawning function, b: goroutine
				if a.Anytime || e.parentConcurrent(a, b) {
					res.ParentC = append(res.ParentC, raceConflict{Var: a.Var, A: a, B: b, Undecided: und,
						Why: "reachable from the go statement without crossing a Wait that joins the goroutine's access"})
				}
				continue
			}
			if a.Thread == b.Thread {
				// the same goroutine body racing with another instance of itself
				th := res.Threads[a.Thread]
				if e.cutReach(th.Spawn, th.Spawn, e.cuts(a)) && e.cutReach(th.Spawn, th.Spawn, e.cuts(b)) {
					res.Conflicts = append(res.Conflicts, raceConflict{Var: a.Var, A: a, B: b, Undecided: und,
						Why: "the go statement is in a loop: two instances of the goroutine share the variable"})
				}
				continue
			}
			ta, tb := res.Threads[a.Thread], res.Threads[b.Thread]
			if e.cutReach(ta.Spawn, tb.Spawn, e.cuts(a)) || e.cutReach(tb.Spawn, ta.Spawn, e.cuts(b)) {
				res.Conflicts = append(res.Conflicts, raceConflict{Var: a.Var, A: a, B: b, Undecided: und,
					Why: "both goroutines can be running at the same time"})
			}
		}
	}
	// self-conflict of a single write in a looping go statement (i==j pairs are not enumerated above)
	for _, a := range res.Accesses {
		if a.Thread < 0 || a.Kind == raceRead {
			continue
		}
		th := res.Threads[a.Thread]
		if e.cutReach(th.Spawn, th.Spawn, e.cuts(a)) {
			res.Conflicts = append(res.Conflicts, raceConflict{Var: a.Var, A: a, B: a, Undecided: a.Kind == raceEscape,
				Why: "the go statement is in a loop: two instances of the goroutine write the same variable"})
		}
	}
	// WaitGroup discipline
	groups := map[ssa.Value][]*raceThread{}
	for _, th := range res.Threads {
		ws := map[ssa.Value]bool{}
		for _, s := range th.signals {
			if s.Defer == nil && s.Call == nil {
				// wg.Go / errgroup.Go count themselves; only a Wait is needed
				if len(res.Waits[s.W]) == 0 {
					res.JoinBad = append(res.JoinBad, fmt.Sprintf("goroutine #%d is started with %s.Go but the function never calls %s.Wait", th.Idx+1, raceValName(s.W), raceValName(s.W)))
				} else {
					res.JoinInfo = append(res.JoinInfo, fmt.Sprintf("goroutine #%d started with %s.Go, %d Wait site(s)", th.Idx+1, raceValName(s.W), len(res.Waits[s.W])))
				}
				continue
			}
			ws[s.W] = true
		}
		for w := range ws {
			groups[w] = append(groups[w], th)
		}
	}
	for w, ths := range groups {
		name := raceValName(w)
		if len(res.Waits[w]) == 0 {
			res.JoinBad = append(res.JoinBad, fmt.Sprintf("goroutines signal %s.Done but the function never calls %s.Wait", name, name))
		}
		allConst, sum, loop := true, int64(0), false
		for _, a := range adds[w] {
			if !a.cst {
				allConst = false
			}
			sum += a.n
			if instrReaches(a.in, a.in) {
				loop = true
			}
		}
		for _, th := range ths {
			dom := false
			for _, a := range adds[w] {
				if instrDominates(a.in, th.Spawn) {
					dom = true
				}
			}
			if !dom {
				res.JoinBad = append(res.JoinBad, fmt.Sprintf("go statement #%d is not dominated by %s.Add (Wait may return before the goroutine is counted)", th.Idx+1, name))
			}
			if instrReaches(th.Spawn, th.Spawn) {
				loop = true
			}
		}
		if allConst && !loop && len(adds[w]) > 0 {
			if sum != int64(len(ths)) {
				res.JoinBad = append(res.JoinBad, fmt.Sprintf("%s.Add total is %d but %d goroutine(s) call %s.Done", name, sum, len(ths), name))
			} else {
				res.JoinInfo = append(res.JoinInfo, fmt.Sprintf("%s: Add total %d == %d goroutine(s) signalling Done, %d Wait site(s)", name, sum, len(ths), len(res.Waits[w])))
			}
		} else {
			res.JoinInfo = append(res.JoinInfo, fmt.Sprintf("%s: Add count not constant/straight-line (not compared), %d goroutine(s), %d Wait site(s)", name, len(ths), len(res.Waits[w])))
		}
	}
	sort.Strings(res.JoinBad)
	sort.Strings(res.JoinInfo)
	return res
}

func raceConstInt64(cv constant.Value) (int64, bool) {
	if cv.Kind() != constant.Int {
		return 0, false
	}
	return constant.Int64Val(cv)
}

func raceValName(v ssa.Value) string {
	switch x := v.(type) {
	case *ssa.Alloc:
		return x.Comment
	case *ssa.FreeVar:
		return x.Name()
	}
	return v.Name()
}

func (e *raceEng) indexBindings(f *ssa.Function) {
	for _, b := range f.Blocks {
		for _, in := range b.Instrs {
			if mc, ok := in.(*ssa.MakeClosure); ok {
				cf := mc.Fn.(*ssa.Function)
				for k, bnd := range mc.Bindings {
					if k < len(cf.FreeVars) {
						e.bind[cf.FreeVars[k]] = bnd
					}
				}
				e.indexBindings(cf)
			}
		}
	}
}

// toParentRoot maps a value in a (nested) closure to the root it denotes in the
// analysed function.
func (e *raceEng) toParentRoot(v ssa.Value) ssa.Value {
	// a pointer parameter of a function running in the goroutine stands for the argument
	for i := 0; i < 4; i++ {
		x := v
		for {
			if u, ok := x.(*ssa.UnOp); ok && u.Op == token.MUL {
				x = u.X
				continue
			}
			break
		}
		pa, ok := x.(*ssa.Parameter)
		if !ok {
			break
		}
		b, ok := e.paramBind[pa]
		if !ok {
			return nil
		}
		v = b
	}
	r := raceRootOf(v)
	for r != nil {
		fv, ok := r.(*ssa.FreeVar)
		if !ok || fv.Parent() == e.fn {
			return r
		}
		b, ok := e.bind[fv]
		if !ok {
			return nil
		}
		r = raceRootOf(b)
		if r != b {
			return nil
		}
	}
	return r
}

func (e *raceEng) findSignals(th *raceThread) {
	if th.AutoJoin != nil {
		th.signals = append(th.signals, raceSignal{W: th.AutoJoin})
	}
	for _, b := range th.Fn.Blocks {
		for _, in := range b.Instrs {
			ci, ok := in.(ssa.CallInstruction)
			if !ok {
				continue
			}
			if recv, ok := raceGroupCall(ci, "Done"); ok {
				if w := e.toParentRoot(recv); w != nil {
					if _, isDefer := in.(*ssa.Defer); isDefer {
						th.signals = append(th.signals, raceSignal{W: w, Defer: in})
					} else if _, isCall := in.(*ssa.Call); isCall {
						th.signals = append(th.signals, raceSignal{W: w, Call: in})
					}
				}
				continue
			}
			// defer func() { ...; wg.Done() }()
			if d, ok := in.(*ssa.Defer); ok {
				if mc, ok := d.Call.Value.(*ssa.MakeClosure); ok {
					inner := mc.Fn.(*ssa.Function)
					var pd map[*ssa.BasicBlock]map[*ssa.BasicBlock]bool
					for _, ib := range inner.Blocks {
						for _, iin := range ib.Instrs {
							ic, ok := iin.(*ssa.Call)
							if !ok {
								continue
							}
							if recv, ok := raceGroupCall(ic, "Done"); ok {
								if w := e.toParentRoot(recv); w != nil {
									if pd == nil {
										pd = postDominators(inner)
									}
									if ib == inner.Blocks[0] || pd[inner.Blocks[0]][ib] {
										th.signals = append(th.signals, raceSignal{W: w, Defer: in, InnerF: inner, InnerC: ic, innerP: pd})
									}
								}
							}
						}
					}
				}
			}
		}
	}
}

// covers returns the groups whose Wait is a happens-after of goroutine access a.
func (e *raceEng) covers(a *raceAccess) []ssa.Value {
	if a.Thread < 0 || a.Nested || a.Anytime {
		return nil
	}
	th := e.res.Threads[a.Thread]
	var out []ssa.Value
	for _, s := range th.signals {
		ok := false
		switch {
		case s.Defer == nil && s.Call == nil: // wg.Go / errgroup.Go
			ok = true
		case s.InnerF != nil && a.Instr.Parent() == s.InnerF:
			ok = instrPostDominates(s.innerP, s.InnerC, a.Instr)
		case s.Defer != nil:
			if a.DeferredBy != nil {
				ok = a.DeferredBy != s.Defer && instrDominates(s.Defer, a.DeferredBy)
			} else {
				ok = len(a.At) > 0
				for _, at := range a.At {
					if !(instrDominates(s.Defer, at) || instrPostDominates(th.pd, s.Defer, at)) {
						ok = false
					}
				}
			}
		case s.Call != nil:
			ok = a.DeferredBy == nil && len(a.At) > 0
			for _, at := range a.At {
				if !instrPostDominates(th.pd, s.Call, at) {
					ok = false
				}
			}
		}
		if ok {
			out = append(out, s.W)
		}
	}
	return out
}

// cuts: instructions of the spawning function that end the window in which
// goroutine access a can be concurrent: Waits joining it, and the variable's
// own allocation (a fresh variable per loop iteration).
func (e *raceEng) cuts(a *raceAccess) map[ssa.Instruction]bool {
	c := map[ssa.Instruction]bool{}
	for _, w := range e.covers(a) {
		for _, wi := range e.res.Waits[w] {
			c[wi] = true
		}
	}
	if a.Var.Alloc != nil {
		c[a.Var.Alloc] = true
	}
	return c
}

func (e *raceEng) parentConcurrent(pa, ga *raceAccess) bool {
	th := e.res.Threads[ga.Thread]
	cuts := e.cuts(ga)
	for _, at := range pa.At {
		if e.cutReach(th.Spawn, at, cuts) {
			return true
		}
	}
	return false
}

// cutReach: there is a CFG path from just after `from` to `to` that crosses no
// instruction in cuts.
func (e *raceEng) cutReach(from, to ssa.Instruction, cuts map[ssa.Instruction]bool) bool {
	if from.Parent() != to.Parent() {
		return false
	}
	scan := func(b *ssa.BasicBlock, start int) (found, blocked bool) {
		for i := start; i < len(b.Instrs); i++ {
			in := b.Instrs[i]
			if in == to {
				return true, false
			}
			if cuts[in] {
				return false, true
			}
		}
		return false, false
	}
	found, blocked := scan(from.Block(), instrIndex(from)+1)
	if found {
		return true
	}
	if blocked {
		return false
	}
	seen := map[*ssa.BasicBlock]bool{}
	st := append([]*ssa.BasicBlock{}, from.Block().Succs...)
	for len(st) > 0 {
		b := st[len(st)-1]
		st = st[:len(st)-1]
		if seen[b] {
			continue
		}
		seen[b] = true
		f, bl := scan(b, 0)
		if f {
			return true
		}
		if bl {
			continue
		}
		st = append(st, b.Succs...)
	}
	return false
}

func racePathsOverlap(a, b []string) bool {
	for i := 0; i < len(a) && i < len(b); i++ {
		if a[i] == b[i] {
			continue
		}
		if a[i] == "[?]" && strings.HasPrefix(b[i], "[") || b[i] == "[?]" && strings.HasPrefix(a[i], "[") {
			continue
		}
		return false
	}
	return true
}

// raceCtx places the instruction being visited in the thread's top function.
type raceCtx struct {
	at         []ssa.Instruction // nil: the instruction itself
	deferredBy ssa.Instruction
	anytime    bool
	nested     bool
}

func (e *raceEng) emit(v *raceVar, thread int, path []string, kind int, in ssa.Instruction, cx raceCtx) {
	a := &raceAccess{Var: v, Thread: thread, Path: append([]string{}, path...), Kind: kind, Instr: in,
		At: cx.at, DeferredBy: cx.deferredBy, Anytime: cx.anytime, Nested: cx.nested}
	if a.At == nil {
		a.At = []ssa.Instruction{in}
	}
	e.res.Accesses = append(e.res.Accesses, a)
}

func raceRunDefersOf(f *ssa.Function) []ssa.Instruction {
	var out []ssa.Instruction
	for _, b := range f.Blocks {
		for _, in := range b.Instrs {
			if _, ok := in.(*ssa.RunDefers); ok {
				out = append(out, in)
			}
		}
	}
	return out
}

// walk visits every use of the address value addr (an Alloc/FreeVar or a
// Field/IndexAddr derived from it) inside function f.
func (e *raceEng) walk(v *raceVar, thread int, f *ssa.Function, addr ssa.Value, path []string, cx raceCtx) {
	refs := addr.Referrers()
	if refs == nil {
		return
	}
	for _, ref := range *refs {
		switch r := ref.(type) {
		case *ssa.DebugRef:
		case *ssa.Store:
			if r.Addr == addr {
				e.emit(v, thread, path, raceWrite, r, cx)
			}
			if r.Val == addr {
				e.emit(v, thread, path, raceEscape, r, cx)
			}
		case *ssa.UnOp:
			if r.Op != token.MUL {
				e.emit(v, thread, path, raceEscape, r, cx)
				continue
			}
			e.emit(v, thread, path, raceRead, r, cx)
			if _, isMap := r.Type().Underlying().(*types.Map); isMap {
				e.walkMap(v, thread, r, append(append([]string{}, path...), "{}"), cx)
			}
		case *ssa.FieldAddr:
			e.walk(v, thread, f, r, append(append([]string{}, path...), "."+fieldName(r.X.Type(), r.Field)), cx)
		case *ssa.IndexAddr:
			if r.X != addr {
				e.emit(v, thread, path, raceEscape, r, cx)
				continue
			}
			el := "[?]"
			if cv, ok := constOf(r.Index); ok {
				el = "[" + cv.ExactString() + "]"
			}
			e.walk(v, thread, f, r, append(append([]string{}, path...), el), cx)
		case *ssa.MakeClosure:
			cf := r.Fn.(*ssa.Function)
			for k, bnd := range r.Bindings {
				if bnd != addr || k >= len(cf.FreeVars) {
					continue
				}
				e.walkClosure(v, thread, f, r, cf.FreeVars[k], path, cx)
			}
		case ssa.CallInstruction:
			if !e.walkCallee(v, thread, f, r, addr, path, cx) {
				e.emit(v, thread, path, raceEscape, r, cx)
			}
		default:
			if in, ok := ref.(ssa.Instruction); ok {
				e.emit(v, thread, path, raceEscape, in, cx)
			}
		}
	}
}

// walkCallee: addr is passed as an argument of call instruction r (in f) to a
// function of the same package whose body is available.  The callee's accesses
// through the parameter are the accesses of whoever runs the callee: the calling
// thread for a plain call, the thread's deferred phase for a defer, a new
// goroutine for a go statement.  Returns false if the call cannot be followed.
func (e *raceEng) walkCallee(v *raceVar, thread int, f *ssa.Function, r ssa.CallInstruction, addr ssa.Value, path []string, cx raceCtx) bool {
	g := raceStaticBody(r, e.fn)
	if g == nil || r.Common().Value == addr {
		return false
	}
	followed := false
	for k, a := range r.Common().Args {
		if a != addr {
			continue
		}
		if k >= len(g.Params) || e.visiting[g.Params[k]] {
			return false
		}
		pa := g.Params[k]
		if _, bound := e.paramBind[pa]; !bound {
			e.paramBind[pa] = addr
		}
		ncx := cx
		nthread := thread
		switch r.(type) {
		case *ssa.Go:
			top := f == e.fn && thread == -1
			placed := false
			if top {
				for _, th := range e.res.Threads {
					if th.Spawn == ssa.Instruction(r) && th.Fn == g {
						nthread, ncx, placed = th.Idx, raceCtx{}, true
					}
				}
			}
			if !placed {
				ncx.nested = true
				if thread == -1 {
					ncx.anytime = true
				}
				if ncx.at == nil {
					ncx.at = []ssa.Instruction{r}
				}
			}
		case *ssa.Defer:
			if ncx.at == nil {
				if f == e.fn || (thread >= 0 && f == e.res.Threads[thread].Fn) {
					ncx.at = raceRunDefersOf(f)
					ncx.deferredBy = r
				} else {
					ncx.at = []ssa.Instruction{r}
				}
			}
		default:
			if ncx.at == nil {
				ncx.at = []ssa.Instruction{r}
			}
		}
		e.visiting[pa] = true
		e.walk(v, nthread, g, pa, path, ncx)
		delete(e.visiting, pa)
		followed = true
	}
	return followed
}

func (e *raceEng) walkMap(v *raceVar, thread int, m ssa.Value, path []string, cx raceCtx) {
	refs := m.Referrers()
	if refs == nil {
		return
	}
	for _, ref := range *refs {
		switch r := ref.(type) {
		case *ssa.MapUpdate:
			if r.Map == m {
				e.emit(v, thread, path, raceWrite, r, cx)
			}
		case *ssa.Lookup:
			if r.X == m {
				e.emit(v, thread, path, raceRead, r, cx)
			}
		case *ssa.Range:
			e.emit(v, thread, path, raceRead, r, cx)
		case ssa.CallInstruction:
			if b, ok := r.Common().Value.(*ssa.Builtin); ok {
				switch b.Name() {
				case "delete", "clear":
					e.emit(v, thread, path, raceWrite, r, cx)
				case "len":
					e.emit(v, thread, path, raceRead, r, cx)
				}
			}
		}
	}
}

// walkClosure: addr is bound as free variable fv of closure mc made in f.
func (e *raceEng) walkClosure(v *raceVar, thread int, f *ssa.Function, mc *ssa.MakeClosure, fv *ssa.FreeVar, path []string, cx raceCtx) {
	cf := mc.Fn.(*ssa.Function)
	top := f == e.fn && thread == -1 // closure made directly by the analysed function
	refs := mc.Referrers()
	used := false
	if refs != nil {
		for _, ref := range *refs {
			switch r := ref.(type) {
			case *ssa.DebugRef:
			case *ssa.Go:
				used = true
				if r.Call.Value != mc {
					e.emit(v, thread, path, raceEscape, r, cx)
					continue
				}
				if top {
					// a goroutine of the analysed function
					for _, th := range e.res.Threads {
						if th.Spawn == ssa.Instruction(r) {
							e.walk(v, th.Idx, cf, fv, path, raceCtx{})
						}
					}
				} else {
					ncx := cx
					ncx.nested = true
					if thread == -1 {
						ncx.anytime = true // goroutine spawned by a closure of the spawning function: not placed
					}
					if ncx.at == nil {
						ncx.at = []ssa.Instruction{r}
					}
					e.walk(v, thread, cf, fv, path, ncx)
				}
			case *ssa.Defer:
				used = true
				if r.Call.Value != mc {
					e.emit(v, thread, path, raceEscape, r, cx)
					continue
				}
				ncx := cx
				if ncx.at == nil {
					// runs when the enclosing function (f) runs its defers
					if f == e.fn || (thread >= 0 && f == e.res.Threads[thread].Fn) {
						ncx.at = raceRunDefersOf(f)
						ncx.deferredBy = r
					} else {
						ncx.at = []ssa.Instruction{r}
					}
				}
				e.walk(v, thread, cf, fv, path, ncx)
			case *ssa.Call:
				used = true
				if r.Call.Value == mc {
					ncx := cx
					if ncx.at == nil {
						ncx.at = []ssa.Instruction{r}
					}
					e.walk(v, thread, cf, fv, path, ncx)
					continue
				}
				// wg.Go(closure) / errgroup.Go(closure) spawned by the analysed function
				spawned := false
				if top {
					for _, th := range e.res.Threads {
						if th.Spawn == ssa.Instruction(r) && th.MC == mc {
							e.walk(v, th.Idx, cf, fv, path, raceCtx{})
							spawned = true
						}
					}
				}
				if !spawned {
					ncx := cx
					ncx.anytime = true
					if ncx.at == nil {
						ncx.at = []ssa.Instruction{r}
					}
					e.walk(v, thread, cf, fv, path, ncx)
				}
			default:
				used = true
				ncx := cx
				ncx.anytime = true
				if ncx.at == nil {
					if in, ok := ref.(ssa.Instruction); ok {
						ncx.at = []ssa.Instruction{in}
					}
				}
				e.walk(v, thread, cf, fv, path, ncx)
			}
		}
	}
	_ = used
}

// ---- reporting helpers

func raceKindName(k int) string { return [...]string{"read", "write", "address-escape"}[k] }

func (r *raceResult) describe(p *Prog, a *raceAccess) string {
	who := "spawning function"
	if a.Thread >= 0 {
		who = fmt.Sprintf("goroutine #%d (%s)", a.Thread+1, p.Pos(r.Threads[a.Thread].Spawn.Pos()))
	}
	return fmt.Sprintf("%s of %s%s by %s at %s", raceKindName(a.Kind), a.Var.Name, strings.Join(a.Path, ""), who, p.Pos(a.Instr.Pos()))
}

func (r *raceResult) describeConflicts(p *Prog, cs []raceConflict) (decided, undecided []string) {
	seen := map[string]bool{}
	for _, c := range cs {
		s := fmt.Sprintf("%s: %s / %s (%s)", c.Var.Name, r.describe(p, c.A), r.describe(p, c.B), c.Why)
		if seen[s] {
			continue
		}
		seen[s] = true
		if c.Undecided {
			undecided = append(undecided, s)
		} else {
			decided = append(decided, s)
		}
	}
	sort.Strings(decided)
	sort.Strings(undecided)
	return
}

// summary: per captured variable, who reads and who writes.
func (r *raceResult) summary() string {
	type rw struct{ r, w map[int]bool }
	m := map[*raceVar]*rw{}
	for _, a := range r.Accesses {
		x := m[a.Var]
		if x == nil {
			x = &rw{map[int]bool{}, map[int]bool{}}
			m[a.Var] = x
		}
		if a.Kind == raceRead {
			x.r[a.Thread] = true
		} else {
			x.w[a.Thread] = true
		}
	}
	nW := 0
	for _, x := range m {
		for t := range x.w {
			if t >= 0 {
				nW++
				break
			}
		}
	}
	nSync := 0
	for _, v := range r.Vars {
		if v.Sync {
			nSync++
		}
	}
	return fmt.Sprintf("%d goroutine(s), %d variable(s) captured by reference (%d sync primitives), %d written by a goroutine, %d accesses classified",
		len(r.Threads), len(r.Vars), nSync, nW, len(r.Accesses))
}
