package main

import (
	"fmt"
	"go/token"
	"go/types"
	"os"
	"sort"
	"strings"

	"golang.org/x/tools/go/ssa"
)

const c38Pkg = "cni-plugin/pkg/ipamplugin"

func init() {
	register(&Property{
		ID:        "C38",
		Title:     "CNI delete is idempotent and leaves no address behind",
		Technique: "static analysis: error-tolerance guards, dominance of release calls over success exits, sibling derivation signatures, cut-set reachability from the AutoAssign call, whole-handle guard on handle deletion, interprocedural escape analysis of not-found outcomes of keyed reads (go/ssa over cni-plugin/pkg/ipamplugin and libcalico-go/lib/ipam)",
		DesignRef: "DESIGN.md §3 C38",
		Explanation: "Decides structural necessary conditions on the CNI IPAM plugin: " +
			"(idem) in cmdDel the error of every IPAM call keyed only by the handle ID (ReleaseByHandle, IPsByHandle) is returned only after the ErrorResourceDoesNotExist tolerance; " +
			"(both) every success exit of cmdDel outside the KubeVirt-persistence branch is dominated by ReleaseByHandle(primary handle) and ReleaseByHandle(workload ID); " +
			"(handle) cmdAdd and cmdDel compute the primary and the VM handle ID from the same inputs, and that handle is what cmdAdd passes to AutoAssign/AssignIP; " +
			"(add) after AutoAssign every success exit of cmdAdd has, for each requested family, appended that family's address to the result, and only under PartialFulfillmentError()==nil for that family; " +
			"(rollback) a partial-fulfilment error for one family is returned only after ReleaseIPs of the other family's addresses, unless that family holds none; " +
			"(whole) in libcalico-go/lib/ipam every call of blockReaderWriter.deleteHandle(kvp) is guarded by len(handle.Block)==0 — directly, through a one-argument bool helper returning it (empty()), or a one-argument count of the handle compared with 0 — " +
			"on the handle asserted from that same kvp.Value; a count belonging to one block (decrementBlock's result, a map lookup, a per-version count) is not accepted, because cmdDel's \"handle not found = released\" is only sound if the handle object outlives its last block; " +
			"(notfound) the only ErrorResourceDoesNotExist that ipamClient.ReleaseByHandle / IPsByHandle can return is that of the read of the handle object (backend Get of an IPAMHandleKey): the error of every other keyed read " +
			"(backend/api.Client.Get) that is passed up through the static call tree — the per-block read in releaseByHandle, the IPAM config — crosses an `is ErrorResourceDoesNotExist` = false (or == nil) edge before every return it can reach, " +
			"so a handle entry pointing at a block that no longer exists cannot abort the per-block loop with an error cmdDel swallows as success.",
		NotDecided: "IPAM library behaviour (C19–C21) other than the handle-deletion guard and the not-found escape rule; not-found outcomes of datastore WRITES inside ReleaseByHandle (updateBlock's error is returned as is: it can only be not-found when another releaser deleted the block between the read and the CAS); wrapped errors (fmt.Errorf(%w)) — cmdDel's type assertion does not see through them; the KubeVirt persistence policy (when a VM handle may be released); hard AutoAssign errors return without rollback and rely on the runtime's DEL; lock and timeout handling; that PartialFulfillmentError()==nil means len(IPs) >= NumRequested.",
		Assumptions: []string{
			"go/types + go/ssa (x/tools v0.50.0) model of the current source, CGO_ENABLED=0 build, GOOS=linux",
			"ipam.Interface.AutoAssign returns (IPv4 assignments, IPv6 assignments, error)",
			"the container runtime calls DEL after a failed ADD (CNI spec)",
		},
		Run: runC38,
		Fixtures: []Fixture{
			{Name: "workload-ID release no longer tolerates a missing handle", File: "cni-plugin/pkg/ipamplugin/ipam_plugin.go",
				Old: "if err := calicoClient.IPAM().ReleaseByHandle(ctx, workloadID); err != nil {\n\t\tif _, ok := err.(cerrors.ErrorResourceDoesNotExist); !ok {", New: "if err := calicoClient.IPAM().ReleaseByHandle(ctx, workloadID); err != nil {\n\t\tif ok := false; !ok {", Expect: "C38.idem/cmdDel/ReleaseByHandle"},
			{Name: "VM-path DEL fails when the handle is already gone", File: "cni-plugin/pkg/ipamplugin/ipam_plugin.go",
				Old: "\t\t\tif _, ok := err.(cerrors.ErrorResourceDoesNotExist); !ok {\n\t\t\t\tlogger.WithError(err).Warn(\"Failed to get IPs by handle\")\n\t\t\t\treturn err\n\t\t\t}\n",
				New: "\t\t\tlogger.WithError(err).Warn(\"Failed to get IPs by handle\")\n\t\t\treturn err\n", Expect: "C38.idem/cmdDel/IPsByHandle"},
			{Name: "DEL reports success without releasing when the pod is already gone", File: "cni-plugin/pkg/ipamplugin/ipam_plugin.go",
				Old: "\t\t\tlogger.Info(\"Pod already deleted, releasing by container handle only\")\n", New: "\t\t\tlogger.Info(\"Pod already deleted, releasing by container handle only\")\n\t\t\treturn nil\n", Expect: "C38.both/cmdDel/early-exit"},
			{Name: "workload-ID release dropped", File: "cni-plugin/pkg/ipamplugin/ipam_plugin.go",
				Old: "if err := calicoClient.IPAM().ReleaseByHandle(ctx, workloadID); err != nil {", New: "if err := error(nil); err != nil {", Expect: "C38.both/cmdDel/final-exit"},
			{Name: "DEL derives the handle from another container ID than ADD", File: "cni-plugin/pkg/ipamplugin/ipam_plugin.go",
				Old: "handleID = utils.GetHandleID(conf.Name, args.ContainerID, epIDs.WEPName)\n\t}\n\n\tlogger = logger.WithField(\"HandleID\", handleID)\n\n\tlogger.Info(\"Releasing address using handleID\")",
				New: "handleID = utils.GetHandleID(conf.Name, epIDs.ContainerID, epIDs.WEPName)\n\t}\n\n\tlogger = logger.WithField(\"HandleID\", handleID)\n\n\tlogger.Info(\"Releasing address using handleID\")", Expect: "C38.handle/GetHandleID"},
			{Name: "ADD allocates under a different handle than it computed", File: "cni-plugin/pkg/ipamplugin/ipam_plugin.go",
				Old: "\t\t\tNum6:             num6,\n\t\t\tHandleID:         &handleID,\n", New: "\t\t\tNum6:             num6,\n\t\t\tHandleID:         &epIDs.ContainerID,\n", Expect: "C38.handle/cmdAdd/AutoAssignArgs"},
			{Name: "dual-stack ADD succeeds without the IPv6 address", File: "cni-plugin/pkg/ipamplugin/ipam_plugin.go",
				Old: "\t\tif num6 == 1 {\n\t\t\tif err := v6Assignments.PartialFulfillmentError(); err != nil {", New: "\t\tif num6 == 1 && len(v6Assignments.IPs) > 0 {\n\t\t\tif err := v6Assignments.PartialFulfillmentError(); err != nil {", Expect: "C38.add/holds/v6"},
			{Name: "IPv4 result appended without checking fulfilment", File: "cni-plugin/pkg/ipamplugin/ipam_plugin.go",
				Old: "\t\t\tif err := v4Assignments.PartialFulfillmentError(); err != nil {\n\t\t\t\treturn fmt.Errorf(\"failed to request IPv4 addresses: %w\", err)\n\t\t\t}\n", New: "", Expect: "C38.add/fulfilled/v4"},
			{Name: "IPv4 failure does not release the IPv6 address", File: "cni-plugin/pkg/ipamplugin/ipam_plugin.go",
				Old: "_, _, err := calicoClient.IPAM().ReleaseIPs(cleanupCtx, v6IPs...)", New: "_, _, err := calicoClient.IPAM().ReleaseIPs(cleanupCtx)", Expect: "C38.rollback/v4-short"},
			{Name: "handle deleted when the count of the block just released reaches zero", File: "libcalico-go/lib/ipam/ipam.go",
				Old: "\t\t_, err = handle.decrementBlock(blockCIDR, num)\n\t\tif err != nil {\n\t\t\treturn err\n\t\t}\n\n\t\t// Update / Delete as appropriate.  Since we have been manipulating the\n\t\t// data in the KVPair, just pass this straight back to the client.\n\t\tif handle.empty() {",
				New: "\t\tremaining, err := handle.decrementBlock(blockCIDR, num)\n\t\tif err != nil {\n\t\t\treturn err\n\t\t}\n\n\t\tif *remaining == 0 {", Expect: "C38.whole/ipamClient.decrementHandle/deleteHandle"},
			{Name: "handle deleted when this block has no entry left", File: "libcalico-go/lib/ipam/ipam.go",
				Old: "\t\tif handle.empty() {", New: "\t\tif handle.Block[blockCIDR.String()] == 0 {", Expect: "C38.whole/ipamClient.decrementHandle/deleteHandle"},
			{Name: "emptiness helper looks at one IP version only", File: "libcalico-go/lib/ipam/ipam.go",
				Old: "\t\tif handle.empty() {", New: "\t\tif handle.totalCountByVersion(blockCIDR.Version()) == 0 {", Expect: "C38.whole/ipamClient.decrementHandle/deleteHandle"},
			{Name: "seeded C38-4 shape: a block that no longer exists aborts the release of the handle's other blocks", File: "libcalico-go/lib/ipam/ipam.go",
				Old: "\t\tif err != nil {\n\t\t\tif _, ok := err.(cerrors.ErrorResourceDoesNotExist); ok {\n\t\t\t\t// Block doesn't exist, so all addresses are already\n\t\t\t\t// unallocated.  This can happen when a handle is\n\t\t\t\t// overestimating the number of assigned addresses.\n\t\t\t\treturn nil\n\t\t\t} else {\n\t\t\t\treturn err\n\t\t\t}\n\t\t}\n\n\t\t// Release the IP by handle.\n", New: "\t\tif err != nil {\n\t\t\treturn err\n\t\t}\n\n\t\t// Release the IP by handle.\n", Expect: "C38.notfound/ReleaseByHandle/blockReaderWriter.queryBlock(BlockKey)"},
			{Name: "missing block not tolerated in the retry-exhausted loop of releaseByHandle", File: "libcalico-go/lib/ipam/ipam.go",
				Old: "\t\tif err != nil {\n\t\t\tif _, ok := err.(cerrors.ErrorResourceDoesNotExist); ok {\n\t\t\t\t// Block doesn't exist, so all addresses are already\n\t\t\t\t// unallocated.  This can happen when a handle is\n\t\t\t\t// overestimating the number of assigned addresses.\n\t\t\t\treturn nil\n\t\t\t} else {\n\t\t\t\treturn err\n\t\t\t}\n\t\t}\n\t\tblock := blockFromBackend(config, obj.Value.(*model.AllocationBlock))\n\t\t// We delete the block without waiting", New: "\t\tif err != nil {\n\t\t\treturn err\n\t\t}\n\t\tblock := blockFromBackend(config, obj.Value.(*model.AllocationBlock))\n\t\t// We delete the block without waiting", Expect: "C38.notfound/ReleaseByHandle/blockReaderWriter.queryBlock(BlockKey)"},
			{Name: "missing IPAM config reported as not-found instead of falling back to defaults", File: "libcalico-go/lib/ipam/ipam.go",
				Old: "\t\tif _, ok := err.(cerrors.ErrorResourceDoesNotExist); !ok {\n\t\t\tlog.WithError(err).Error(\"Error getting IPAM config\")\n\t\t\treturn nil, err\n\t\t}\n", New: "\t\tif _, ok := err.(cerrors.ErrorResourceDoesNotExist); ok {\n\t\t\tlog.WithError(err).Error(\"Error getting IPAM config\")\n\t\t\treturn nil, err\n\t\t}\n", Expect: "C38.notfound/ReleaseByHandle/ipamClient.GetIPAMConfig(IPAMConfigKey)"},
			{Name: "IPv6 failure releases the wrong family", File: "cni-plugin/pkg/ipamplugin/ipam_plugin.go",
				Old: "\t\t\t\tfor _, v4 := range v4Assignments.IPs {\n\t\t\t\t\tv4IPs = append(v4IPs, ipam.ReleaseOptions{Address: v4.IP.String()})", New: "\t\t\t\tfor _, v4 := range v6Assignments.IPs {\n\t\t\t\t\tv4IPs = append(v4IPs, ipam.ReleaseOptions{Address: v4.IP.String()})", Expect: "C38.rollback/v6-short"},
		},
	})
}

// --------------------------------------------------------------------- helpers --

// c38IPAMCalls lists invoke-mode calls of ipam.Interface methods with the given name in fn (and closures).
func c38IPAMCalls(fn *ssa.Function, name string) []*ssa.Call {
	var out []*ssa.Call
	allInstrs(fn, true, func(f *ssa.Function, in ssa.Instruction) {
		call, ok := in.(*ssa.Call)
		if !ok || !call.Call.IsInvoke() {
			return
		}
		m := call.Call.Method
		if m.Name() == name && m.Pkg() != nil && strings.HasSuffix(m.Pkg().Path(), c21IpamPkg) {
			out = append(out, call)
		}
	})
	return out
}

var c38ErrType = types.Universe.Lookup("error").Type()

// c38ErrOf returns the error result value(s) of a call.
func c38ErrOf(call *ssa.Call) []ssa.Value {
	if types.Identical(call.Type(), c38ErrType) {
		return []ssa.Value{call}
	}
	var out []ssa.Value
	for _, r := range *call.Referrers() {
		if ex, ok := r.(*ssa.Extract); ok && types.Identical(ex.Type(), c38ErrType) {
			out = append(out, ex)
		}
	}
	return out
}

// c38Mentions: target occurs in the computation of v (operands, values stored
// into local allocs and their fields/elements).
func c38Mentions(v, target ssa.Value) bool {
	seen := map[ssa.Value]bool{}
	var walk func(v ssa.Value, d int) bool
	walk = func(v ssa.Value, d int) bool {
		if v == nil {
			return false
		}
		if v == target {
			return true
		}
		if d == 0 || seen[v] {
			return false
		}
		seen[v] = true
		if al, ok := v.(*ssa.Alloc); ok {
			var fromRefs func(addr ssa.Value) bool
			fromRefs = func(addr ssa.Value) bool {
				refs := addr.Referrers()
				if refs == nil {
					return false
				}
				for _, r := range *refs {
					switch x := r.(type) {
					case *ssa.Store:
						if x.Addr == addr && walk(x.Val, d-1) {
							return true
						}
					case *ssa.FieldAddr:
						if x.X == addr && fromRefs(x) {
							return true
						}
					case *ssa.IndexAddr:
						if x.X == addr && fromRefs(x) {
							return true
						}
					}
				}
				return false
			}
			return fromRefs(al)
		}
		in, ok := v.(ssa.Instruction)
		if !ok {
			return false
		}
		for _, op := range in.Operands(nil) {
			if *op != nil && walk(*op, d-1) {
				return true
			}
		}
		return false
	}
	return walk(v, 30)
}

// c38Sig renders how a value is derived, without local variable names.
func c38Sig(v ssa.Value, depth int) string {
	if depth == 0 {
		return "…"
	}
	switch x := v.(type) {
	case *ssa.Parameter:
		// a parameter of an in-package helper of the entry point: described by
		// what the entry point passes for it (parameter mapping)
		if as := c38Bind[x]; len(as) > 0 && !c38SigBusy[x] {
			c38SigBusy[x] = true
			defer delete(c38SigBusy, x)
			if len(as) == 1 {
				return c38Sig(as[0], depth)
			}
			var vals []string
			for _, a := range as {
				vals = append(vals, c38Sig(a, depth-1))
			}
			sort.Strings(vals)
			return strings.Join(vals, "|")
		}
		for i, p := range x.Parent().Params {
			if p == x {
				return fmt.Sprintf("param%d", i)
			}
		}
	case *ssa.Alloc:
		// a local variable: described by what is assigned to it, not by its name
		var stored []ssa.Value
		for _, r := range *x.Referrers() {
			if st, ok := r.(*ssa.Store); ok && st.Addr == ssa.Value(x) {
				stored = append(stored, st.Val)
			}
		}
		if len(stored) == 0 {
			return "local(" + qualTypeName(x.Type()) + ")"
		}
		if len(stored) == 1 {
			if _, isConst := stored[0].(*ssa.Const); isConst {
				return "local(" + qualTypeName(x.Type()) + ")"
			}
			return c38Sig(stored[0], depth)
		}
		var vals []string
		for _, sv := range stored {
			vals = append(vals, c38Sig(sv, depth-1))
		}
		sort.Strings(vals)
		return strings.Join(vals, "|")
	case *ssa.UnOp:
		if x.Op == token.MUL {
			return c38Sig(x.X, depth)
		}
	case *ssa.FieldAddr:
		return c38Sig(x.X, depth) + "." + fieldName(x.X.Type(), x.Field)
	case *ssa.Field:
		return c38Sig(x.X, depth) + "." + fieldName(x.X.Type(), x.Field)
	case *ssa.Extract:
		return fmt.Sprintf("%s#%d", c38Sig(x.Tuple, depth), x.Index)
	case *ssa.Const:
		if x.Value == nil {
			return "nil"
		}
		return x.Value.ExactString()
	case *ssa.MakeInterface:
		return c38Sig(x.X, depth)
	case *ssa.Convert:
		return c38Sig(x.X, depth)
	case *ssa.ChangeType:
		return c38Sig(x.X, depth)
	case *ssa.Phi:
		var es []string
		for _, e := range x.Edges {
			es = append(es, c38Sig(e, depth-1))
		}
		sort.Strings(es)
		return "phi(" + strings.Join(es, "|") + ")"
	case *ssa.Call:
		name := "<dyn>"
		if f := calleeOf(x.Common()); f != nil {
			name = funcID(f)
		}
		var as []string
		if x.Call.IsInvoke() {
			as = append(as, c38Sig(x.Call.Value, depth-1))
		}
		for _, a := range x.Call.Args {
			as = append(as, c38Sig(a, depth-1))
		}
		return name + "(" + strings.Join(as, ",") + ")"
	}
	return "<" + v.Type().String() + ">"
}

// c38CutReachFrom: target is unreachable from the instruction after `from`
// once accepted If edges are cut and `stop` instructions act as barriers.
func c38CutReachFrom(from, target ssa.Instruction, edge EdgePred, stop func(ssa.Instruction) bool) bool {
	seen := map[*ssa.BasicBlock]bool{}
	type item struct {
		b     *ssa.BasicBlock
		after ssa.Instruction
	}
	st := []item{{from.Block(), from}}
	for len(st) > 0 {
		it := st[len(st)-1]
		st = st[:len(st)-1]
		b := it.b
		if it.after == nil {
			if seen[b] {
				continue
			}
			seen[b] = true
		}
		started := it.after == nil
		barrier := false
		for _, in := range b.Instrs {
			if !started {
				if in == it.after {
					started = true
				}
				continue
			}
			if in == target {
				return false
			}
			if stop != nil && stop(in) {
				barrier = true
				break
			}
		}
		if barrier || isPanicBlock(b) {
			continue
		}
		if ifi, ok := b.Instrs[len(b.Instrs)-1].(*ssa.If); ok && len(b.Succs) == 2 && b.Succs[0] != b.Succs[1] {
			for k, s := range b.Succs {
				cv, pol := stripNot(ifi.Cond, k == 0)
				if edge(cv, pol) {
					continue
				}
				st = append(st, item{s, nil})
			}
			continue
		}
		for _, s := range b.Succs {
			st = append(st, item{s, nil})
		}
	}
	return true
}

// c38RetErr returns the error value a Return carries.  In functions with
// defer+recover go/ssa spills results to an alloc (`*t0 = v; rundefers; t = *t0;
// return t`): the value is then the last store to that alloc in the same block.
func c38RetErr(r *ssa.Return) ssa.Value {
	eo := c21ErrOperand(r)
	if eo == nil {
		return nil
	}
	return c38Unspill(r, eo)
}

// c38Unspill maps a returned operand that is a load of a result alloc to the
// value last stored into it in the return's block.
func c38Unspill(r *ssa.Return, eo ssa.Value) ssa.Value {
	ld, ok := eo.(*ssa.UnOp)
	if !ok || ld.Op != token.MUL {
		return eo
	}
	al, ok := ld.X.(*ssa.Alloc)
	if !ok {
		return eo
	}
	var last ssa.Value
	for _, in := range r.Block().Instrs {
		if in == ssa.Instruction(r) {
			break
		}
		if st, ok := in.(*ssa.Store); ok && st.Addr == ssa.Value(al) {
			last = st.Val
		}
	}
	return last // nil if the store is not in the return's block: callers treat nil as "unknown"
}

func c38IsConst(v ssa.Value, s string) bool {
	cv, ok := constOf(v)
	return ok && cv.ExactString() == s
}

// ------------------------------------------------------------------------ run --

func runC38(c *Ctx) {
	p := c.Load(c38Pkg)
	add := p.Func(c38Pkg, "cmdAdd")
	del := p.Func(c38Pkg, "cmdDel")
	c.Rule("C38.idem", "E-ERR", "cmdDel: the error of every handle-keyed IPAM call (ReleaseByHandle, IPsByHandle) is returned only after the ErrorResourceDoesNotExist tolerance", 4)
	c.Rule("C38.both", "E-ORDER", "cmdDel: every success exit outside the KubeVirt-persistence branch is dominated by ReleaseByHandle(primary handle) and ReleaseByHandle(workload ID)", 2)
	c.Rule("C38.handle", "E-CONST/E-FLOW", "cmdAdd and cmdDel derive GetHandleID / CreateVMHandleID arguments identically; AutoAssign/AssignIP receive that handle", 4)
	c.Rule("C38.add", "E-GUARD/E-PAIR", "cmdAdd after AutoAssign: success exits have appended each requested family's address, and only under PartialFulfillmentError()==nil", 4)
	c.Rule("C38.rollback", "E-GUARD", "cmdAdd: a partial-fulfilment error of one family is returned only after ReleaseIPs of the other family's addresses (or when it holds none)", 2)

	c.Rule("C38.whole", "E-GUARD", "libcalico-go/lib/ipam: an IPAMHandle is deleted only under a test that is a function of the whole handle being deleted (len(handle.Block)==0, directly or through a one-argument helper such as empty()), never under a per-block count", 1)

	c.Rule("C38.notfound", "E-ERR (interprocedural)", "libcalico-go/lib/ipam: the only ErrorResourceDoesNotExist that can be returned by ipamClient.ReleaseByHandle / IPsByHandle — the calls whose not-found cmdDel treats as success — is the one of the read of the handle object (Get of an IPAMHandleKey); the not-found of every other keyed read whose error is passed up (a block the handle points at, the IPAM config) is tested and absorbed before it can reach a return", 5)

	// Families are independent: one lost anchor must not zero the others.
	if add != nil && del != nil {
		c38Isolated(c, func() { c38Idem(c, p, del) })
		c38Isolated(c, func() { c38Both(c, p, del) })
		c38Isolated(c, func() { c38Handle(c, p, add, del) })
		c38Isolated(c, func() { c38Add(c, p, add) })
	}
	c38Isolated(c, func() { c38Whole(c) })
	// the handle-keyed calls whose not-found cmdDel tolerates (C38.idem) must only report the handle's own absence
	c38Isolated(c, func() { c38NotFound(c, c.Load(c21IpamPkg), []string{"ReleaseByHandle", "IPsByHandle"}) })
	c38UseScope(nil)
	if add == nil || del == nil {
		c.Lost("cmdAdd / cmdDel")
	}
}

// c38Isolated runs one rule family; an anchor it loses is recorded (the run
// still ends BROKEN-CHECK / exit 2) but the other families are still decided.
func c38Isolated(c *Ctx, f func()) {
	defer func() {
		if r := recover(); r != nil {
			if al, ok := r.(anchorLost); ok {
				c.broken = append(c.broken, al.msg)
				return
			}
			if os.Getenv("CALINT_DEBUG") != "" {
				panic(r)
			}
			c.broken = append(c.broken, fmt.Sprintf("ENGINE-PANIC: %v", r))
		}
	}()
	f()
}

// ---------------------------------------------------------------------- scope --

// c38Scope is an entry point (cmdAdd / cmdDel) together with the functions of
// its own package it reaches through static calls (closures included), and the
// parameter mapping of those helpers: helper parameter -> the values passed
// for it at the call sites inside the scope.  Computed from the SSA call
// graph; no function is identified by name.
type c38Scope struct {
	root  *ssa.Function
	funcs []*ssa.Function // root first; top-level functions and their closures
	in    map[*ssa.Function]bool
	bind  map[*ssa.Parameter][]ssa.Value
	sites map[*ssa.Function][]*ssa.Call // top-level helper -> its call sites in scope
}

func c38ScopeOf(root *ssa.Function) *c38Scope {
	sc := &c38Scope{root: root, in: map[*ssa.Function]bool{}, bind: map[*ssa.Parameter][]ssa.Value{}, sites: map[*ssa.Function][]*ssa.Call{}}
	queue := []*ssa.Function{root}
	var addFn func(f *ssa.Function)
	addFn = func(f *ssa.Function) {
		if sc.in[f] {
			return
		}
		sc.in[f] = true
		sc.funcs = append(sc.funcs, f)
		for _, af := range f.AnonFuncs {
			addFn(af)
		}
	}
	for len(queue) > 0 {
		f := queue[0]
		queue = queue[1:]
		if sc.in[f] {
			continue
		}
		addFn(f)
		allInstrs(f, true, func(_ *ssa.Function, in ssa.Instruction) {
			call, ok := in.(*ssa.Call)
			if !ok {
				return
			}
			sf := calleeFn(call.Common())
			if sf == nil || sf.Blocks == nil || sf.Parent() != nil || sf.Pkg == nil || sf.Pkg != root.Pkg || sf == root {
				return
			}
			if len(sf.Params) != len(call.Call.Args) {
				return
			}
			sc.sites[sf] = append(sc.sites[sf], call)
			for i, prm := range sf.Params {
				sc.bind[prm] = append(sc.bind[prm], call.Call.Args[i])
			}
			if !sc.in[sf] {
				queue = append(queue, sf)
			}
		})
	}
	return sc
}

// the scope the value walkers (c38Sig, c38HandleClass) currently resolve helper
// parameters and helper results in
var (
	c38Bind    map[*ssa.Parameter][]ssa.Value
	c38InScope map[*ssa.Function]bool
	c38SigBusy = map[*ssa.Parameter]bool{}
)

func c38UseScope(sc *c38Scope) {
	if sc == nil {
		c38Bind, c38InScope = nil, nil
		return
	}
	c38Bind, c38InScope = sc.bind, sc.in
}

// c38Through lets origins() cross the boundary of in-scope helpers: a helper
// parameter stands for what is passed for it, the result of a helper call for
// what the helper returns.
func c38Through(x ssa.Value) []ssa.Value {
	resultsOf := func(call *ssa.Call, idx int) []ssa.Value {
		sf := calleeFn(call.Common())
		if sf == nil || !c38InScope[sf] || sf.Parent() != nil {
			return nil
		}
		var out []ssa.Value
		for _, r := range returnsOf(sf) {
			if r.Block() == sf.Recover || idx >= len(r.Results) {
				continue
			}
			v := c38Unspill(r, r.Results[idx])
			if v == nil {
				return nil
			}
			out = append(out, v)
		}
		return out
	}
	switch y := x.(type) {
	case *ssa.Parameter:
		if as := c38Bind[y]; len(as) > 0 {
			return as
		}
	case *ssa.Call:
		if _, isTuple := y.Type().(*types.Tuple); !isTuple {
			if rs := resultsOf(y, 0); len(rs) > 0 {
				return rs
			}
		}
	case *ssa.Extract:
		if call, ok := y.Tuple.(*ssa.Call); ok {
			if rs := resultsOf(call, y.Index); len(rs) > 0 {
				return rs
			}
		}
	}
	return nil
}

// ---------------------------------------------------------------------- whole --

// c38HandleKVPs walks backwards from a handle value (allocationHandle struct,
// *model.IPAMHandle, or a field of one) to the *model.KVPair(s) whose .Value it
// was asserted from: through loads, embedded-struct literals, type asserts, phis.
func c38HandleKVPs(v ssa.Value) (kvps []ssa.Value, other bool) {
	seen := map[ssa.Value]bool{}
	var walk func(v ssa.Value)
	fieldStores := func(al *ssa.Alloc, idx int) {
		n := 0
		if al.Referrers() != nil {
			for _, r := range *al.Referrers() {
				switch x := r.(type) {
				case *ssa.Store:
					if x.Addr == al {
						n++
						walk(x.Val)
					}
				case *ssa.FieldAddr:
					if x.X != al || (idx >= 0 && x.Field != idx) || x.Referrers() == nil {
						continue
					}
					for _, rr := range *x.Referrers() {
						if st, ok := rr.(*ssa.Store); ok && st.Addr == x {
							n++
							walk(st.Val)
						}
					}
				}
			}
		}
		if n == 0 {
			other = true
		}
	}
	walk = func(v ssa.Value) {
		if v == nil || seen[v] {
			return
		}
		seen[v] = true
		switch x := v.(type) {
		case *ssa.Phi:
			for _, e := range x.Edges {
				walk(e)
			}
		case *ssa.TypeAssert:
			walk(x.X)
		case *ssa.ChangeType:
			walk(x.X)
		case *ssa.MakeInterface:
			walk(x.X)
		case *ssa.Extract:
			walk(x.Tuple)
		case *ssa.Field:
			walk(x.X)
		case *ssa.Alloc:
			fieldStores(x, -1)
		case *ssa.FieldAddr:
			if al, ok := x.X.(*ssa.Alloc); ok {
				fieldStores(al, x.Field)
				return
			}
			walk(x.X)
		case *ssa.UnOp:
			if x.Op != token.MUL {
				other = true
				return
			}
			if fa, ok := x.X.(*ssa.FieldAddr); ok && fieldName(fa.X.Type(), fa.Field) == "Value" && namedTypeName(fa.X.Type()) == "KVPair" {
				kvps = append(kvps, fa.X)
				return
			}
			walk(x.X)
		default:
			other = true
		}
	}
	walk(v)
	return
}

// c38Whole: cmdDel treats "handle not found" as "nothing left to release"
// (C38.idem).  That is only sound if the IPAM library deletes a handle object
// exactly when no block of it holds an address any more.  So every call of
// blockReaderWriter.deleteHandle(kvp) must be guarded by a test that is a
// function of the whole handle in that same kvp — len(handle.Block)==0,
// directly or via a helper whose only input is the handle — and not by a
// count that belongs to one block.
func c38Whole(c *Ctx) {
	p := c.Load(c21IpamPkg)
	delFn := p.Func(c21IpamPkg, "blockReaderWriter.deleteHandle")
	blockF, _ := p.LookupExt("libcalico-go/lib/backend/model", "IPAMHandle.Block").(*types.Var)
	if delFn == nil || blockF == nil {
		c.Lost("ipam.blockReaderWriter.deleteHandle / model.IPAMHandle.Block")
	}
	isZero := func(v ssa.Value) bool {
		cv, ok := constOf(v)
		return ok && cv.ExactString() == "0"
	}
	// lenBlock: v = len(X.Block); returns X.Block's base (the handle)
	lenBlock := func(v ssa.Value) (ssa.Value, bool) {
		call, ok := v.(*ssa.Call)
		if !ok {
			return nil, false
		}
		b, ok := call.Common().Value.(*ssa.Builtin)
		if !ok || b.Name() != "len" {
			return nil, false
		}
		a := call.Common().Args[0]
		if fieldVar(a) != blockF {
			return nil, false
		}
		switch x := a.(type) {
		case *ssa.UnOp:
			if fa, ok := x.X.(*ssa.FieldAddr); ok {
				return fa.X, true
			}
		case *ssa.Field:
			return x.X, true
		}
		return nil, false
	}
	// emptyCmp: cond (taken with polarity pol) establishes len(h.Block) == 0; returns h
	var emptyCmp func(cond ssa.Value, pol bool, depth int) (ssa.Value, bool)
	emptyCmp = func(cond ssa.Value, pol bool, depth int) (ssa.Value, bool) {
		switch x := cond.(type) {
		case *ssa.BinOp:
			l, r, op := x.X, x.Y, x.Op
			if isZero(l) { // 0 op v  ->  v op' 0
				l, r = r, l
				switch op {
				case token.LSS:
					op = token.GTR
				case token.GEQ:
					op = token.LEQ
				}
			}
			if !isZero(r) {
				return nil, false
			}
			var establishes bool
			switch op {
			case token.EQL, token.LEQ:
				establishes = pol
			case token.NEQ, token.GTR:
				establishes = !pol
			default:
				return nil, false
			}
			if !establishes {
				return nil, false
			}
			if h, ok := lenBlock(l); ok {
				return h, true
			}
			// an int-valued helper of the handle alone that reads Block (e.g. a total count), compared with 0
			if call, ok := l.(*ssa.Call); ok && depth > 0 {
				cc := call.Common()
				if sf := calleeFn(cc); sf != nil && sf.Blocks != nil && len(cc.Args) == 1 && len(sf.Params) == 1 {
					if c38ReadsField(sf, blockF) {
						return cc.Args[0], true
					}
				}
			}
		case *ssa.Call:
			// bool helper of the handle alone whose every return is such a comparison over its parameter
			cc := x.Common()
			sf := calleeFn(cc)
			if depth == 0 || sf == nil || sf.Blocks == nil || len(cc.Args) != 1 || len(sf.Params) != 1 {
				return nil, false
			}
			rs := returnsOf(sf)
			if len(rs) == 0 {
				return nil, false
			}
			for _, r := range rs {
				if len(r.Results) != 1 {
					return nil, false
				}
				h, ok := emptyCmp(r.Results[0], pol, depth-1)
				if !ok {
					return nil, false
				}
				rooted := false
				for v, i := h, 0; v != nil && i < 8; i++ {
					if v == ssa.Value(sf.Params[0]) {
						rooted = true
						break
					}
					switch y := v.(type) {
					case *ssa.UnOp:
						v = y.X
					case *ssa.FieldAddr:
						v = y.X
					case *ssa.Field:
						v = y.X
					case *ssa.Alloc:
						v = nil
						if y.Referrers() != nil {
							for _, rr := range *y.Referrers() {
								if st, ok := rr.(*ssa.Store); ok && st.Addr == y {
									v = st.Val
								}
							}
						}
					default:
						v = nil
					}
				}
				if !rooted {
					return nil, false
				}
			}
			return cc.Args[0], true
		}
		return nil, false
	}
	n := 0
	for _, f := range p.AllFuncs() {
		if f.Pkg == nil || f.Pkg.Pkg.Path() != calicoPrefix+c21IpamPkg {
			continue
		}
		for _, cs := range callsIn(f, false, func(g *types.Func) bool { return g == delFn.Object() }) {
			n++
			args := cs.Common().Args
			kvp := args[len(args)-1]
			kvpName := path(kvp)
			if len(kvpName) > 40 {
				kvpName = "the handle's KVPair"
			}
			var seenTests []string
			ok := guardedCut(cs.Instr, func(cond ssa.Value, pol bool) bool {
				h, isEmpty := emptyCmp(cond, pol, 2)
				if !isEmpty {
					return false
				}
				ks, _ := c38HandleKVPs(h)
				for _, k := range ks {
					if k == kvp || path(k) == path(kvp) {
						return true
					}
				}
				seenTests = append(seenTests, "emptiness test on "+path(h)+", which is not the handle in the deleted pair")
				return false
			})
			detail := ""
			if len(seenTests) > 0 {
				detail = " (" + strings.Join(seenTests, "; ") + ")"
			}
			c.Check(ok, "C38.whole/"+fnName(f)+"/deleteHandle", p.Pos(cs.Instr.Pos()),
				"deleteHandle("+kvpName+") only where len(Block)==0 was established for the handle held in that pair",
				fnName(f)+" can reach deleteHandle("+kvpName+") without a test that the handle in that pair has no block left (len(handle.Block)==0 / empty())"+detail+
					": a test on one block's count deletes a handle that still owns addresses in other blocks, and a later release by handle (CNI DEL retry) finds no handle and reports success while the other family's address stays allocated")
		}
	}
	if n == 0 {
		c.Lost("no call of blockReaderWriter.deleteHandle in libcalico-go/lib/ipam")
	}
}

// c38ReadsField: fn (or what it statically calls) reads struct field fv.
func c38ReadsField(fn *ssa.Function, fv *types.Var) bool {
	found := false
	for f := range reachableFuncs([]*ssa.Function{fn}, nil) {
		allInstrs(f, false, func(_ *ssa.Function, in ssa.Instruction) {
			switch x := in.(type) {
			case *ssa.FieldAddr:
				if structField(x.X.Type(), x.Field) == fv && addrIsRead(x) {
					found = true
				}
			case *ssa.Field:
				if structField(x.X.Type(), x.Field) == fv {
					found = true
				}
			}
		})
	}
	return found
}

// ----------------------------------------------------------------------- idem --

func c38Idem(c *Ctx, p *Prog, del *ssa.Function) {
	n := 0
	for _, name := range []string{"ReleaseByHandle", "IPsByHandle"} {
		for _, call := range c38IPAMCalls(del, name) {
			n++
			site := p.Pos(call.Pos())
			key := "C38.idem/cmdDel/" + name
			errs := c38ErrOf(call)
			if len(errs) != 1 {
				c.Undecided(key, site, "error result of %s not found", name)
				continue
			}
			e := errs[0]
			tolerated := func(cond ssa.Value, pol bool) bool {
				if pol {
					return false
				}
				ex, ok := cond.(*ssa.Extract)
				if !ok || ex.Index != 1 {
					return false
				}
				ta, ok := ex.Tuple.(*ssa.TypeAssert)
				return ok && ta.CommaOk && ta.X == e && namedTypeName(ta.AssertedType) == "ErrorResourceDoesNotExist"
			}
			bad := ""
			nRet := 0
			for _, r := range returnsOf(call.Parent()) {
				if r.Block() == call.Parent().Recover {
					continue
				}
				eo := c38RetErr(r)
				if eo == nil || isNilConst(eo) || !c38Mentions(eo, e) {
					continue
				}
				nRet++
				if !guardedCut(r, tolerated) {
					bad = p.Pos(r.Pos())
				}
			}
			c.Check(bad == "", key, site,
				fmt.Sprintf("%d return(s) of this error, all after the ErrorResourceDoesNotExist tolerance", nRet),
				fmt.Sprintf("the error of IPAM().%s is returned at %s without the ErrorResourceDoesNotExist tolerance: a repeated DEL (or a DEL after a failed ADD), when the handle is already gone, fails instead of succeeding", name, bad))
		}
	}
	if n < 3 {
		c.Lost("cmdDel: handle-keyed IPAM calls (%d)", n)
	}
}

// ----------------------------------------------------------------------- both --

// c38HandleClass classifies a handle argument: "primary" (GetHandleID /
// CreateVMHandleID result) or "workload" (built from the endpoint identifiers).
func c38HandleClass(v ssa.Value) string {
	orig := origins(v, c38Through)
	all := len(orig) > 0
	for _, o := range orig {
		call, ok := o.V.(*ssa.Call)
		if !ok {
			all = false
			break
		}
		f := calleeOf(call.Common())
		if f == nil || (f.Name() != "GetHandleID" && f.Name() != "CreateVMHandleID") {
			all = false
		}
	}
	if all {
		return "primary"
	}
	// workload ID: phi of epIDs.ContainerID and Sprintf(ns, pod)
	for _, o := range orig {
		if _, f, _, ok := fieldOf(o.V); ok && f == "ContainerID" {
			return "workload"
		}
	}
	return "other"
}

// c38Derives names the handle derivation a call stands for: a call of
// GetHandleID / CreateVMHandleID, or of an in-scope helper whose every result
// originates in calls of one of them.
func c38Derives(call *ssa.Call) string {
	name := ""
	for _, o := range origins(call, c38Through) {
		oc, ok := o.V.(*ssa.Call)
		if !ok {
			return ""
		}
		fo := calleeOf(oc.Common())
		if fo == nil || (fo.Name() != "CreateVMHandleID" && fo.Name() != "GetHandleID") || (name != "" && name != fo.Name()) {
			return ""
		}
		name = fo.Name()
	}
	return name
}

func c38Both(c *Ctx, p *Prog, del *ssa.Function) {
	c38UseScope(c38ScopeOf(del))
	defer c38UseScope(nil)
	// The condition that selects the VM handle over the container handle.
	var vmCall, ctrCall *ssa.Call
	allInstrs(del, false, func(f *ssa.Function, in ssa.Instruction) {
		if call, ok := in.(*ssa.Call); ok {
			// the derivation call itself, or an in-package helper all of whose
			// results are that derivation
			switch c38Derives(call) {
			case "CreateVMHandleID":
				vmCall = call
			case "GetHandleID":
				ctrCall = call
			}
		}
	})
	if vmCall == nil || ctrCall == nil {
		c.Lost("cmdDel: CreateVMHandleID / GetHandleID calls")
	}
	vmConds := map[ssa.Value]bool{} // cond -> truth value on the VM side
	for _, g := range guardsOf(vmCall) {
		for _, h := range guardsOf(ctrCall) {
			if g.Cond == h.Cond && g.True != h.True {
				vmConds[g.Cond] = g.True
			}
		}
	}
	if len(vmConds) == 0 {
		c.Lost("cmdDel: condition selecting the VM handle")
	}
	rels := c38IPAMCalls(del, "ReleaseByHandle")
	n := 0
	for _, r := range returnsOf(del) {
		if r.Block() == del.Recover {
			continue
		}
		eo := c38RetErr(r)
		if eo == nil || !isNilConst(eo) {
			continue
		}
		n++
		site := p.Pos(r.Pos())
		onVM := false
		for _, g := range guardsOf(r) {
			if t, ok := vmConds[g.Cond]; ok && t == g.True {
				onVM = true
			}
		}
		if onVM {
			c.Ok("C38.both/cmdDel/vm-exit", site, "KubeVirt persistence branch: release is conditional on VM deletion by design (not decided here)")
			continue
		}
		// name the exit by what precedes it: before / after the first IPAM call
		exitKey := "C38.both/cmdDel/early-exit"
		allInstrs(del, false, func(f *ssa.Function, in ssa.Instruction) {
			if call, ok := in.(*ssa.Call); ok && call.Call.IsInvoke() && call.Call.Method.Pkg() != nil &&
				strings.HasSuffix(call.Call.Method.Pkg().Path(), c21IpamPkg) && instrDominates(call, r) {
				exitKey = "C38.both/cmdDel/final-exit"
			}
		})
		prim, work := false, false
		for _, rc := range rels {
			if rc.Parent() != del || !instrDominates(rc, r) {
				continue
			}
			switch c38HandleClass(rc.Call.Args[len(rc.Call.Args)-1]) {
			case "primary":
				prim = true
			case "workload":
				work = true
			}
		}
		c.Check(prim && work, exitKey, site, "dominated by ReleaseByHandle(handleID) and ReleaseByHandle(workloadID)",
			fmt.Sprintf("cmdDel reports success at %s without having released by the primary handle (done=%v) and by the workload ID (done=%v): addresses of this container stay allocated after a successful DEL", site, prim, work))
	}
	if n < 2 {
		c.Lost("cmdDel: success exits (%d): expected the KubeVirt-persistence exit and the final exit", n)
	}
}

// --------------------------------------------------------------------- handle --

func c38Handle(c *Ctx, p *Prog, add, del *ssa.Function) {
	defer c38UseScope(nil)
	scAdd, scDel := c38ScopeOf(add), c38ScopeOf(del)
	// the derivation call is searched in the entry point and in the in-package
	// helpers it reaches; its arguments are described in terms of the entry
	// point's own values (helper parameters are mapped to the call-site arguments)
	find := func(sc *c38Scope, name string) *ssa.Call {
		var out *ssa.Call
		n := 0
		for _, fn := range sc.funcs {
			if fn.Parent() != nil {
				continue // closures: as before, the derivation is expected in a function body proper
			}
			allInstrs(fn, false, func(f *ssa.Function, in ssa.Instruction) {
				if call, ok := in.(*ssa.Call); ok {
					if fo := calleeOf(call.Common()); fo != nil && fo.Name() == name {
						out = call
						n++
					}
				}
			})
		}
		if n != 1 {
			c.Lost("%s (and in-package callees): %d calls of %s", fnName(sc.root), n, name)
		}
		if h := out.Parent(); h != sc.root && len(sc.sites[h]) != 1 {
			c.Lost("%s: %s is called in helper %s, which has %d call sites", fnName(sc.root), name, fnName(h), len(sc.sites[h]))
		}
		return out
	}
	var lost []string
	for _, name := range []string{"GetHandleID", "CreateVMHandleID"} {
		name := name
		c38Isolated2(&lost, func() {
			a, d := find(scAdd, name), find(scDel, name)
			c38UseScope(scAdd)
			sa := c38Sig(a, 7)
			c38UseScope(scDel)
			sd := c38Sig(d, 7)
			c.Check(sa == sd, "C38.handle/"+name, p.Pos(d.Pos()), "ADD and DEL derive the handle identically: "+sa,
				"cmdDel computes the handle as "+sd+" but cmdAdd as "+sa+": DEL releases a handle that ADD never allocated under")
		})
	}
	// what cmdAdd passes to the IPAM library: the literal may sit in cmdAdd or in
	// an in-package helper it calls (closures included)
	c38UseScope(scAdd)
	for _, tn := range []string{"AutoAssignArgs", "AssignIPArgs"} {
		tn := tn
		c38Isolated2(&lost, func() {
			var lits []*ssa.Alloc
			var bare *ssa.Alloc // a literal of the type that sets fields but no HandleID
			for _, fn := range scAdd.funcs {
				allInstrs(fn, false, func(f *ssa.Function, in ssa.Instruction) {
					if al, ok := in.(*ssa.Alloc); ok && namedTypeName(al.Type()) == tn {
						if len(literalFieldStores(al)["HandleID"]) > 0 {
							lits = append(lits, al)
						} else if len(literalFieldStores(al)) > 0 && bare == nil {
							bare = al
						}
					}
				})
			}
			if len(lits) == 0 && bare != nil {
				c.Violate("C38.handle/cmdAdd/"+tn, p.Pos(bare.Pos()), "%s is built without HandleID: the address is allocated under no handle and DEL cannot find it", tn)
				return
			}
			if len(lits) == 0 {
				c.Lost("cmdAdd (and in-package callees): %s literal", tn)
			}
			for _, lit := range lits {
				hs := literalFieldStores(lit)["HandleID"]
				ok := len(hs) > 0 // a request without HandleID allocates under no handle at all
				for _, v := range hs {
					if !c38PtrToPrimary(v) {
						ok = false
					}
				}
				c.Check(ok, "C38.handle/cmdAdd/"+tn, p.Pos(lit.Pos()), tn+".HandleID points at the handle computed by GetHandleID/CreateVMHandleID", tn+".HandleID is not the handle computed by GetHandleID/CreateVMHandleID: DEL cannot find the allocation")
			}
		})
	}
	if len(lost) > 0 {
		panic(anchorLost{strings.Join(lost, "; ")})
	}
}

// c38Isolated2 runs one instance of a family; a lost anchor is collected and
// raised (combined) by the caller after the other instances were decided.
func c38Isolated2(lost *[]string, f func()) {
	defer func() {
		if r := recover(); r != nil {
			if al, ok := r.(anchorLost); ok {
				*lost = append(*lost, al.msg)
				return
			}
			panic(r)
		}
	}()
	f()
}

// c38PtrToPrimary: v is a *string that points at the primary handle — the
// address of a local (or of a spilled helper parameter) every store to which
// is the primary handle, or a pointer parameter of an in-scope helper every
// call site of which passes such an address.
func c38PtrToPrimary(v ssa.Value) bool {
	seen := map[ssa.Value]bool{}
	var rec func(v ssa.Value) bool
	rec = func(v ssa.Value) bool {
		if seen[v] {
			return true
		}
		seen[v] = true
		switch x := v.(type) {
		case *ssa.Alloc:
			nSt := 0
			for _, r := range *x.Referrers() {
				if st, isSt := r.(*ssa.Store); isSt && st.Addr == ssa.Value(x) {
					nSt++
					if c38HandleClass(st.Val) != "primary" {
						return false
					}
				}
			}
			return nSt > 0
		case *ssa.Parameter:
			as := c38Bind[x]
			if len(as) == 0 {
				return false
			}
			for _, a := range as {
				if !rec(a) {
					return false
				}
			}
			return true
		case *ssa.Phi:
			for _, e := range x.Edges {
				if !rec(e) {
					return false
				}
			}
			return len(x.Edges) > 0
		}
		return false
	}
	return rec(v)
}

// ------------------------------------------------------------------------ add --

func c38Add(c *Ctx, p *Prog, entry *ssa.Function) {
	sc := c38ScopeOf(entry)
	c38UseScope(sc)
	defer c38UseScope(nil)
	// The auto-assign block is located by what it does: the function (cmdAdd or
	// an in-package helper it reaches) that holds the AutoAssign call, directly or
	// in a closure.  All conditions below are decided inside that function.
	var aas []*ssa.Call
	for _, fn := range sc.funcs {
		if fn.Parent() == nil {
			aas = append(aas, c38IPAMCalls(fn, "AutoAssign")...)
		}
	}
	if len(aas) != 1 {
		c.Lost("cmdAdd (and in-package callees): AutoAssign calls (%d)", len(aas))
	}
	inner := aas[0]
	add := inner.Parent()
	for add.Parent() != nil {
		add = add.Parent()
	}
	if add != entry {
		// an extracted helper: its success must be cmdAdd's only way on, i.e. the
		// helper is called from within the scope and returns an error last
		if len(sc.sites[add]) == 0 || add.Signature.Results().Len() == 0 ||
			!types.Identical(add.Signature.Results().At(add.Signature.Results().Len()-1).Type(), c38ErrType) {
			c.Lost("cmdAdd: helper %s holding the AutoAssign call does not return an error", fnName(add))
		}
	}
	var outer *ssa.Call // the call in the host itself whose results are the assignments
	if inner.Parent() == add {
		outer = inner
	} else {
		cl := inner.Parent()
		// the closure must return AutoAssign's results in order
		for _, r := range returnsOf(cl) {
			if r.Block() == cl.Recover {
				continue
			}
			for i, res := range r.Results {
				ex, ok := c38Unspill(r, res).(*ssa.Extract)
				if !ok || ex.Tuple != ssa.Value(inner) || ex.Index != i {
					c.Undecided("C38.add/holds/v4", p.Pos(r.Pos()), "closure around AutoAssign does not return its results unchanged")
					return
				}
			}
		}
		allInstrs(add, false, func(f *ssa.Function, in ssa.Instruction) {
			call, ok := in.(*ssa.Call)
			if !ok {
				return
			}
			for _, o := range origins(call.Call.Value, nil) {
				if mc, ok := o.V.(*ssa.MakeClosure); ok && mc.Fn == ssa.Value(cl) {
					outer = call
				}
			}
			if mc, ok := call.Call.Value.(*ssa.MakeClosure); ok && mc.Fn == ssa.Value(cl) {
				outer = call
			}
		})
	}
	if outer == nil {
		c.Lost("cmdAdd: call of the AutoAssign wrapper")
	}
	var fam [2]ssa.Value
	for _, r := range *outer.Referrers() {
		if ex, ok := r.(*ssa.Extract); ok && ex.Index < 2 {
			fam[ex.Index] = ex
		}
	}
	var lit *ssa.Alloc
	allInstrs(add, false, func(f *ssa.Function, in ssa.Instruction) {
		if al, ok := in.(*ssa.Alloc); ok && namedTypeName(al.Type()) == "AutoAssignArgs" && len(literalFieldStores(al)["Num4"]) > 0 {
			lit = al
		}
	})
	if lit == nil || fam[0] == nil || fam[1] == nil {
		c.Lost("cmdAdd: AutoAssignArgs literal / assignment results")
	}
	fs := literalFieldStores(lit)
	if len(fs["Num4"]) != 1 || len(fs["Num6"]) != 1 {
		c.Lost("cmdAdd: Num4/Num6")
	}
	num := [2]ssa.Value{fs["Num4"][0], fs["Num6"][0]}
	names := [2]string{"v4", "v6"}

	notRequested := func(k int) EdgePred {
		return func(cond ssa.Value, pol bool) bool {
			a, b, equal, ok := c21Eq(cond, pol)
			if !ok {
				return false
			}
			for _, pr := range [][2]ssa.Value{{a, b}, {b, a}} {
				if pr[0] != num[k] {
					continue
				}
				if (c38IsConst(pr[1], "1") && !equal) || (c38IsConst(pr[1], "0") && equal) {
					return true
				}
			}
			return false
		}
	}
	isPFE := func(v ssa.Value, k int) bool {
		call, ok := v.(*ssa.Call)
		if !ok {
			return false
		}
		f := calleeOf(call.Common())
		return f != nil && f.Name() == "PartialFulfillmentError" && len(call.Call.Args) == 1 && call.Call.Args[0] == fam[k]
	}
	// appends to Result.IPs per family
	var apps [2][]*ssa.Call
	allInstrs(add, false, func(f *ssa.Function, in ssa.Instruction) {
		call, ok := in.(*ssa.Call)
		if !ok {
			return
		}
		base, elems, _, ok := c21AppendCall(call)
		if !ok || len(elems) != 1 {
			return
		}
		if t, fname, _, isF := fieldOf(base); !isF || fname != "IPs" || t != "Result" {
			return
		}
		for k := 0; k < 2; k++ {
			if c38Mentions(elems[0], fam[k]) {
				apps[k] = append(apps[k], call)
			}
		}
	})
	// success exits
	var exits []*ssa.Return
	for _, r := range returnsOf(add) {
		if r.Block() == add.Recover {
			continue
		}
		eo := c38RetErr(r)
		if eo == nil {
			continue
		}
		if isNilConst(eo) {
			exits = append(exits, r)
			continue
		}
		for _, o := range origins(eo, nil) {
			if call, ok := o.V.(*ssa.Call); ok && calleeOf(call.Common()) != nil && calleeOf(call.Common()).Name() == "PrintResult" {
				exits = append(exits, r)
			}
		}
	}
	if len(exits) == 0 {
		c.Lost("cmdAdd: success exits")
	}
	for k := 0; k < 2; k++ {
		if len(apps[k]) == 0 {
			c.Violate("C38.add/holds/"+names[k], p.Pos(outer.Pos()), "no %s address is ever added to the CNI result", names[k])
			continue
		}
		for _, a := range apps[k] {
			g := guardedCut(a, eqCond(true, func(v ssa.Value) bool { return isPFE(v, k) }, isNilConst))
			c.Check(g, "C38.add/fulfilled/"+names[k], p.Pos(a.Pos()), names[k]+" address added to the result only under PartialFulfillmentError()==nil", "the "+names[k]+" address is added to the result without establishing PartialFulfillmentError()==nil for that family (a short assignment is reported as success)")
		}
		ok := true
		bad := ""
		for _, r := range exits {
			stop := func(in ssa.Instruction) bool {
				for _, a := range apps[k] {
					if in == ssa.Instruction(a) {
						return true
					}
				}
				return false
			}
			if !c38CutReachFrom(outer, r, notRequested(k), stop) {
				ok = false
				bad = p.Pos(r.Pos())
			}
		}
		c.Check(ok, "C38.add/holds/"+names[k], p.Pos(outer.Pos()), fmt.Sprintf("every success exit after AutoAssign either did not request %s or appended its address", names[k]),
			fmt.Sprintf("cmdAdd can succeed (exit at %s) with %s requested but no %s address in the result", bad, names[k], names[k]))
	}

	// rollback
	isLenIPs := func(v ssa.Value, k int) bool {
		call, ok := v.(*ssa.Call)
		if !ok {
			return false
		}
		b, isB := call.Call.Value.(*ssa.Builtin)
		if !isB || b.Name() != "len" {
			return false
		}
		_, fname, base, isF := fieldOf(call.Call.Args[0])
		return isF && fname == "IPs" && base == fam[k]
	}
	for k := 0; k < 2; k++ {
		l := 1 - k
		noRollback := func(cond ssa.Value, pol bool) bool {
			if notRequested(k)(cond, pol) || notRequested(l)(cond, pol) {
				return true
			}
			if x, isNil, ok := c21NilCmp(cond, pol); ok && isNil && (x == fam[k] || x == fam[l]) {
				return true
			}
			bo, ok := cond.(*ssa.BinOp)
			if !ok {
				return false
			}
			// other family holds nothing: len(vL.IPs) > 0 is false
			if isLenIPs(bo.X, l) && c38IsConst(bo.Y, "0") && ((bo.Op == token.GTR && !pol) || (bo.Op == token.EQL && pol) || (bo.Op == token.NEQ && !pol)) {
				return true
			}
			// this family is not short: len(vK.IPs) < numK is false
			if isLenIPs(bo.X, k) && bo.Y == num[k] && ((bo.Op == token.LSS && !pol) || (bo.Op == token.GEQ && pol)) {
				return true
			}
			return false
		}
		released := func(in ssa.Instruction) bool {
			call, ok := in.(*ssa.Call)
			if !ok || !call.Call.IsInvoke() || call.Call.Method.Name() != "ReleaseIPs" {
				return false
			}
			args := call.Call.Args
			return c38Mentions(args[len(args)-1], fam[l]) && !c38Mentions(args[len(args)-1], fam[k])
		}
		nT := 0
		ok := true
		bad := ""
		for _, r := range returnsOf(add) {
			eo := c38RetErr(r)
			if eo == nil || isNilConst(eo) {
				continue
			}
			mentions := false
			allInstrs(add, false, func(f *ssa.Function, in ssa.Instruction) {
				if call, isC := in.(*ssa.Call); isC && isPFE(call, k) && c38Mentions(eo, call) {
					mentions = true
				}
			})
			if !mentions {
				continue
			}
			nT++
			if !c38CutReachFrom(outer, r, noRollback, released) {
				ok = false
				bad = p.Pos(r.Pos())
			}
		}
		if nT == 0 {
			c.Violate("C38.rollback/"+names[k]+"-short", p.Pos(outer.Pos()), "no partial-fulfilment error is returned for %s", names[k])
			continue
		}
		c.Check(ok, "C38.rollback/"+names[k]+"-short", p.Pos(outer.Pos()),
			fmt.Sprintf("the %s partial-fulfilment error is returned only after ReleaseIPs(%s addresses) or when none are held", names[k], names[l]),
			fmt.Sprintf("cmdAdd can return the %s partial-fulfilment error (at %s) while the %s addresses assigned in the same call are still held and were not passed to ReleaseIPs", names[k], bad, names[l]))
	}
}
