package main

import (
	"fmt"
	"go/types"

	"golang.org/x/tools/go/ssa"
)

// C06.hash — the identity hash is a function of the current canonical text.
//
// C06 requires that the canonical text parses back to a selector with the same
// identity hash.  parse always derives the new selector's hash from its new
// text, so the clause holds exactly when, for every *Selector the package hands
// out, UniqueID() is the hash of what String() returns *now*.  Both are cached
// in fields of Selector (T = the field String() returns, H = the field
// UniqueID() returns) and the text can be rebuilt after parsing
// (Selector.AcceptVisitor).  Structural necessary conditions:
//
//   derived  if UniqueID() does not return a cached field, what it returns is
//            computed from T.
//   cowrite  every function that assigns T also assigns H of the same selector
//            on every path through that assignment (recompute or invalidate):
//            the two cached fields are written together.
//   value    every value assigned to H is the empty string (invalidate) or is
//            computed from the text that is current at that point: the value
//            assigned to T in that function, a read of T that is not followed
//            by the function's own assignment of T, the same multi-result call
//            T's value comes from, or a fresh run of the fragment collector.
//   read     if some assignment invalidates H (stores ""), H is read only in
//            functions that recompute it (the lazy getter); everybody else has
//            to go through that getter.

// c06Slice: backward closure of v over instruction operands (phis, local
// allocs' stores); visit returns true to stop at a value.
func c06Slice(v ssa.Value, visit func(ssa.Value) bool) {
	seen := map[ssa.Value]bool{}
	var walk func(v ssa.Value, d int)
	walk = func(v ssa.Value, d int) {
		if v == nil || seen[v] || d > 40 {
			return
		}
		seen[v] = true
		if visit(v) {
			return
		}
		switch x := v.(type) {
		case *ssa.Alloc:
			if refs := x.Referrers(); refs != nil {
				for _, r := range *refs {
					if st, ok := r.(*ssa.Store); ok && st.Addr == x {
						walk(st.Val, d+1)
					}
				}
			}
			return
		case *ssa.Phi:
			for _, e := range x.Edges {
				walk(e, d+1)
			}
			return
		}
		in, ok := v.(ssa.Instruction)
		if !ok {
			return
		}
		for _, op := range in.Operands(nil) {
			if op != nil && *op != nil {
				walk(*op, d+1)
			}
		}
	}
	walk(v, 0)
}

func c06FieldStores(fns []*ssa.Function, fld *types.Var) []*ssa.Store {
	var out []*ssa.Store
	for _, f := range fns {
		allInstrs(f, false, func(_ *ssa.Function, in ssa.Instruction) {
			if st, ok := in.(*ssa.Store); ok {
				if fa, ok := st.Addr.(*ssa.FieldAddr); ok && fieldVar(fa) == fld {
					out = append(out, st)
				}
			}
		})
	}
	return out
}

// c06ReturnedField: the single struct field whose value fn returns (nil if it
// returns something else).
func c06ReturnedField(fn *ssa.Function) (fld *types.Var, other bool) {
	for _, r := range returnsOf(fn) {
		if r.Block() == fn.Recover || len(r.Results) != 1 {
			continue
		}
		for _, o := range origins(r.Results[0], nil) {
			if fv := fieldVar(o.V); fv != nil {
				if fld != nil && fld != fv {
					other = true
				}
				fld = fv
			} else {
				other = true
			}
		}
	}
	return
}

func c06Hash(c *Ctx, p *Prog) {
	sp := p.SSAPkg(c06ParserPkg)
	strFn, idFn := p.Func(c06ParserPkg, "Selector.String"), p.Func(c06ParserPkg, "Selector.UniqueID")
	if sp == nil || strFn == nil || idFn == nil || strFn.Blocks == nil || idFn.Blocks == nil {
		c.Lost("Selector.String / Selector.UniqueID")
	}
	T, otherT := c06ReturnedField(strFn)
	if T == nil || otherT {
		c.Lost("Selector.String() does not return exactly one cached field")
	}
	var pkgFns []*ssa.Function
	for _, f := range p.AllFuncs() {
		if f.Blocks != nil && f.Pkg == sp {
			pkgFns = append(pkgFns, f)
		}
	}
	isLoadOf := func(v ssa.Value, fld *types.Var) bool {
		u, ok := v.(*ssa.UnOp)
		if !ok {
			return false
		}
		_, isFA := u.X.(*ssa.FieldAddr)
		return isFA && fieldVar(u.X) == fld
	}
	// the fragment collector: Node's method of type func([]string) []string
	isCollector := func(v ssa.Value) bool {
		call, ok := v.(*ssa.Call)
		if !ok {
			return false
		}
		var sig *types.Signature
		if call.Common().IsInvoke() {
			sig, _ = call.Common().Method.Type().(*types.Signature)
		} else if fo := calleeOf(call.Common()); fo != nil && fo.Pkg() == sp.Pkg {
			sig, _ = fo.Type().(*types.Signature)
		}
		if sig == nil || sig.Recv() == nil || sig.Params().Len() != 1 || sig.Results().Len() != 1 {
			return false
		}
		isStrs := func(t types.Type) bool {
			sl, ok := t.Underlying().(*types.Slice)
			if !ok {
				return false
			}
			b, ok := sl.Elem().Underlying().(*types.Basic)
			return ok && b.Info()&types.IsString != 0
		}
		return isStrs(sig.Params().At(0).Type()) && isStrs(sig.Results().At(0).Type())
	}

	H, otherH := c06ReturnedField(idFn)
	if H == nil {
		// no cached hash: UniqueID must be computed from T
		ok := false
		for _, r := range returnsOf(idFn) {
			if len(r.Results) == 1 {
				c06Slice(r.Results[0], func(v ssa.Value) bool {
					if isLoadOf(v, T) {
						ok = true
					}
					return ok
				})
			}
		}
		c.Check(ok, "C06.hash/derived/"+fnName(idFn), p.Pos(idFn.Pos()),
			"UniqueID() is computed from Selector."+T.Name()+" on every call",
			"Selector.UniqueID() returns neither a cached field nor a value computed from Selector."+T.Name()+": the identity hash is not a function of the canonical text")
		return
	}
	if otherH {
		c.Undecided("C06.hash/derived/"+fnName(idFn), p.Pos(idFn.Pos()), "Selector.UniqueID() returns a mix of the cached field %s and other values", H.Name())
		return
	}
	if H == T {
		c.Lost("String() and UniqueID() return the same field")
	}

	tStores, hStores := c06FieldStores(pkgFns, T), c06FieldStores(pkgFns, H)
	if len(tStores) == 0 {
		c.Lost("no assignment of Selector.%s", T.Name())
	}
	base := func(st *ssa.Store) ssa.Value { return st.Addr.(*ssa.FieldAddr).X }

	// cowrite
	for _, ts := range tStores {
		f := ts.Parent()
		pd := postDominators(f)
		ok := false
		for _, hs := range hStores {
			if hs.Parent() != f || !c23Same(base(hs), base(ts)) {
				continue
			}
			if instrDominates(hs, ts) || instrPostDominates(pd, hs, ts) {
				ok = true
			}
		}
		c.Check(ok, "C06.hash/cowrite/"+fnName(f), p.Pos(ts.Pos()),
			fmt.Sprintf("%s assigns Selector.%s together with Selector.%s on every path", fnName(f), T.Name(), H.Name()),
			fmt.Sprintf("%s assigns the canonical text Selector.%s but can return without assigning the cached identity hash Selector.%s of the same selector: "+
				"after the text is rebuilt (Selector.AcceptVisitor) UniqueID()/Equal() keep answering for the old text, so parsing String() back yields a selector with a different identity hash",
				fnName(f), T.Name(), H.Name()))
	}

	// value
	invalidates := false
	computes := map[*ssa.Function]bool{}
	for _, hs := range hStores {
		f := hs.Parent()
		key := "C06.hash/value/" + fnName(f)
		if cv, isC := constOf(hs.Val); isC {
			if cv.ExactString() == `""` {
				invalidates = true
				c.Ok(key+"/invalidate", p.Pos(hs.Pos()), "Selector.%s is invalidated (\"\")", H.Name())
			} else {
				c.Violate(key, p.Pos(hs.Pos()), "%s assigns the constant %s to Selector.%s: the identity hash is not computed from the canonical text", fnName(f), cv.ExactString(), H.Name())
			}
			continue
		}
		computes[f] = true
		// the text that is current in f for this selector
		var own []*ssa.Store
		for _, ts := range tStores {
			if ts.Parent() == f && c23Same(base(ts), base(hs)) {
				own = append(own, ts)
			}
		}
		good, stale := false, false
		c06Slice(hs.Val, func(v ssa.Value) bool {
			for _, ts := range own {
				if v == ts.Val {
					good = true
					return true
				}
				// same multi-result call
				if ex, ok := v.(*ssa.Extract); ok {
					if et, ok := ts.Val.(*ssa.Extract); ok && et.Tuple == ex.Tuple {
						good = true
						return true
					}
				}
			}
			if isLoadOf(v, T) {
				ld := v.(*ssa.UnOp)
				if !c23Same(ld.X.(*ssa.FieldAddr).X, base(hs)) {
					return true
				}
				fresh := true
				for _, ts := range own {
					// the function's own assignment of T may come after this read
					if !instrDominates(ts, ld) {
						fresh = false
					}
				}
				if fresh {
					good = true
				} else {
					stale = true
				}
				return true
			}
			if isCollector(v) {
				good = true
				return true
			}
			return false
		})
		bad := ""
		switch {
		case stale:
			bad = fmt.Sprintf("%s computes Selector.%s from a read of Selector.%s that is not preceded by its own assignment of %s: the hash of the previous text is cached", fnName(f), H.Name(), T.Name(), T.Name())
		case !good:
			bad = fmt.Sprintf("%s assigns Selector.%s a value (%s) that is not computed from the canonical text (the value assigned to Selector.%s, a read of it, or a fresh run of the fragment collector)", fnName(f), H.Name(), path(hs.Val), T.Name())
		}
		c.Check(bad == "", key, p.Pos(hs.Pos()),
			fmt.Sprintf("Selector.%s is computed from the current Selector.%s", H.Name(), T.Name()),
			bad+": UniqueID() and String() disagree, so the canonical text parses back to a selector with a different identity hash")
	}

	// read: under an invalidate protocol, H is only read by functions that recompute it
	if invalidates {
		for _, f := range pkgFns {
			if computes[f] {
				continue
			}
			allInstrs(f, false, func(_ *ssa.Function, in ssa.Instruction) {
				if v, ok := in.(ssa.Value); ok && isLoadOf(v, H) {
					c.Violate("C06.hash/read/"+fnName(f), p.Pos(in.Pos()), "%s reads the cached Selector.%s directly although it can be invalidated (\"\"): only the function that recomputes it may read it, everybody else must go through %s()", fnName(f), H.Name(), idFn.Name())
				}
			})
		}
	}
}
