#!/bin/bash
# usage: seedeval_all.sh [parallelism]  — re-evaluates every stored seed against the current rules
# (one worker per property id; each seed is re-run with the property ids recorded in its eval.json).
cd "$(dirname "$0")"; P=${1:-5}
cp bin/calint /tmp/calint-seedall; export CALINT_BIN=/tmp/calint-seedall
ls seeded | sed 's/-[0-9]*$//' | sort -u | xargs -P $P -I{} sh -c '
  for d in seeded/{}-*; do n=${d##*-}
    extra=$(jq -r ".static_checks|keys[]" $d/eval.json 2>/dev/null | grep -v "^{}$" | tr "\n" " ")
    STATIC_ONLY=1 ./seedeval.sh {} $n $extra 2>&1 | grep -E "^\{|DOES NOT APPLY" | sed "s/^/{}-$n /"
  done' 
