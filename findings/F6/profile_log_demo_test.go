package polprog

// Demonstration for finding F6 (property C11: "Compiling any valid configuration
// never fails or crashes"): a Profile with a Log rule is valid, but the BPF policy
// program builder panics with "empty action label".
//   cd /repo/felix/bpf/polprog && CGO_ENABLED=0 go test -overlay /tmp/f6/overlay.json -run TestProfileLogRuleCompiles .
import (
	"testing"

	"github.com/projectcalico/calico/felix/idalloc"
	"github.com/projectcalico/calico/felix/proto"
)

func TestProfileLogRuleCompiles(t *testing.T) {
	for _, where := range []string{"tier", "profile"} {
		t.Run(where, func(t *testing.T) {
			defer func() {
				if r := recover(); r != nil {
					t.Fatalf("builder panicked on a Log rule in a %s: %v", where, r)
				}
			}()
			pol := Policy{Name: "p", Rules: []Rule{{Rule: &proto.Rule{Action: "log"}}, {Rule: &proto.Rule{Action: "allow"}}}}
			rules := Rules{}
			if where == "tier" {
				rules.Tiers = []Tier{{Name: "default", Policies: []Policy{pol}}}
			} else {
				rules.Profiles = []Profile{pol}
			}
			pg := NewBuilder(idalloc.New(), 1, 2, 3, 4, WithAllowDenyJumps(666, 777))
			if _, err := pg.Instructions(rules); err != nil {
				t.Fatalf("Instructions: %v", err)
			}
		})
	}
}
