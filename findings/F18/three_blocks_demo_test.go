// F18 demonstration: a policy rule that needs THREE or more positive "match
// blocks" is rendered to iptables rules that accept packets which do not match
// the third (or a later) block, as soon as the second block matched.
//
// The test renders rules with the real renderer
// (rules.NewRenderer(...).ProtoRuleToIptablesRules), turns every
// generictables.Rule into its iptables text with the real iptables renderer
// (RenderAppend) and evaluates that text, rule by rule, with a small
// interpreter of the iptables semantics that the rendering uses.  The verdict
// of the rendered rules (MarkAccept bit set and RETURN reached) is compared,
// packet by packet, with the reference semantics of the proto.Rule.
//
// Run without writing into /repo:
//
//	mkdir -p /tmp/f18 && echo '{"Replace":{"/repo/felix/rules/zz_three_blocks_demo_test.go":"/verif/findings/F18/three_blocks_demo_test.go"}}' >/tmp/f18/overlay.json
//	cd /repo/felix/rules && . /verif/env.sh && go test -count=1 -overlay /tmp/f18/overlay.json -run TestThreeMatchBlocks .
package rules_test

import (
	"fmt"
	"net"
	"strconv"
	"strings"
	"testing"

	v3 "github.com/projectcalico/api/pkg/apis/projectcalico/v3"

	"github.com/projectcalico/calico/felix/environment"
	"github.com/projectcalico/calico/felix/ipsets"
	"github.com/projectcalico/calico/felix/iptables"
	"github.com/projectcalico/calico/felix/proto"
	"github.com/projectcalico/calico/felix/rules"
	"github.com/projectcalico/calico/felix/types"
)

const (
	f18MarkAccept   = 0x80
	f18MarkPass     = 0x100
	f18MarkScratch0 = 0x200 // "all blocks pass"
	f18MarkScratch1 = 0x400 // "this block passes"
)

// f18Packet is the part of a packet that the rendered rules look at.
type f18Packet struct {
	proto          string // "tcp" / "udp"
	srcIP, dstIP   string
	sport, dport   int
	initialMarkBit uint32 // mark bits already on the packet when the rule is reached
}

func (p f18Packet) String() string {
	return fmt.Sprintf("%s %s:%d -> %s:%d (initial mark %#x)", p.proto, p.srcIP, p.sport, p.dstIP, p.dport, p.initialMarkBit)
}

// f18IPSets models the named-port IP sets: set name -> members "ip,proto:port".
type f18IPSets map[string]map[string]bool

func (s f18IPSets) contains(name, ip, proto string, port int) bool {
	return s[name][fmt.Sprintf("%s,%s:%d", ip, proto, port)]
}

func f18InNet(ip, cidr string) bool {
	_, n, err := net.ParseCIDR(cidr)
	if err != nil {
		panic(err)
	}
	return n.Contains(net.ParseIP(ip))
}

func f18InRanges(port int, prs []*proto.PortRange) bool {
	for _, pr := range prs {
		if int(pr.First) <= port && port <= int(pr.Last) {
			return true
		}
	}
	return false
}

// f18Reference is the data-model semantics of a proto.Rule, restricted to the
// fields used by this demonstration: every populated criterion must hold (AND);
// within a criterion the alternatives are OR-ed; numeric and named ports of one
// direction are OR-ed with each other.
func f18Reference(r *proto.Rule, sets f18IPSets, p f18Packet) bool {
	if r.Protocol != nil && r.Protocol.GetName() != p.proto {
		return false
	}
	if len(r.SrcPorts)+len(r.SrcNamedPortIpSetIds) > 0 {
		ok := f18InRanges(p.sport, r.SrcPorts)
		for _, id := range r.SrcNamedPortIpSetIds {
			ok = ok || sets.contains("cali40"+id, p.srcIP, p.proto, p.sport)
		}
		if !ok {
			return false
		}
	}
	if len(r.DstPorts)+len(r.DstNamedPortIpSetIds) > 0 {
		ok := f18InRanges(p.dport, r.DstPorts)
		for _, id := range r.DstNamedPortIpSetIds {
			ok = ok || sets.contains("cali40"+id, p.dstIP, p.proto, p.dport)
		}
		if !ok {
			return false
		}
	}
	anyNet := func(ip string, cidrs []string) bool {
		for _, c := range cidrs {
			if f18InNet(ip, c) {
				return true
			}
		}
		return false
	}
	if len(r.SrcNet) > 0 && !anyNet(p.srcIP, r.SrcNet) {
		return false
	}
	if len(r.DstNet) > 0 && !anyNet(p.dstIP, r.DstNet) {
		return false
	}
	if anyNet(p.srcIP, r.NotSrcNet) || anyNet(p.dstIP, r.NotDstNet) {
		return false
	}
	return true
}

func f18ParseMark(t *testing.T, s string) (val, mask uint32) {
	parts := strings.Split(s, "/")
	v, err := strconv.ParseUint(parts[0], 0, 32)
	if err != nil {
		t.Fatalf("bad mark %q: %v", s, err)
	}
	m := uint64(0xffffffff)
	if len(parts) == 2 {
		m, err = strconv.ParseUint(parts[1], 0, 32)
		if err != nil {
			t.Fatalf("bad mark %q: %v", s, err)
		}
	}
	return uint32(v), uint32(m)
}

func f18InMultiport(t *testing.T, port int, list string) bool {
	for _, item := range strings.Split(list, ",") {
		lohi := strings.Split(item, ":")
		lo, err := strconv.Atoi(lohi[0])
		if err != nil {
			t.Fatalf("bad multiport %q", list)
		}
		hi := lo
		if len(lohi) == 2 {
			if hi, err = strconv.Atoi(lohi[1]); err != nil {
				t.Fatalf("bad multiport %q", list)
			}
		}
		if lo <= port && port <= hi {
			return true
		}
	}
	return false
}

// f18EvalRule interprets one rendered "-A test <matches> --jump <target> ..."
// line.  It returns the new mark and whether the chain was left with RETURN.
// Any token it does not understand is fatal, so that the interpreter can never
// silently mis-model the rendered rules.
func f18EvalRule(t *testing.T, line string, sets f18IPSets, p f18Packet, mark uint32) (newMark uint32, returned bool, matched bool) {
	tok := strings.Fields(line)
	if len(tok) < 2 || tok[0] != "-A" || tok[1] != "test" {
		t.Fatalf("unexpected rule prefix: %q", line)
	}
	i := 2
	next := func() string {
		if i >= len(tok) {
			t.Fatalf("truncated rule: %q", line)
		}
		s := tok[i]
		i++
		return s
	}
	// negation helper: iptables allows "!" before the option.
	matched = true
	for i < len(tok) && tok[i] != "--jump" {
		neg := false
		opt := next()
		if opt == "!" {
			neg = true
			opt = next()
		}
		var res bool
		switch opt {
		case "-p":
			res = next() == p.proto
		case "--source":
			res = f18InNet(p.srcIP, next())
		case "--destination":
			res = f18InNet(p.dstIP, next())
		case "-m":
			module := next()
			sub := next()
			if sub == "!" {
				neg = true
				sub = next()
			}
			switch module + " " + sub {
			case "multiport --source-ports":
				res = f18InMultiport(t, p.sport, next())
			case "multiport --destination-ports":
				res = f18InMultiport(t, p.dport, next())
			case "set --match-set":
				name, dims := next(), next()
				switch dims {
				case "src,src":
					res = sets.contains(name, p.srcIP, p.proto, p.sport)
				case "dst,dst":
					res = sets.contains(name, p.dstIP, p.proto, p.dport)
				default:
					t.Fatalf("unmodelled ipset dimensions %q in %q", dims, line)
				}
			case "mark --mark":
				val, mask := f18ParseMark(t, next())
				res = mark&mask == val
			default:
				t.Fatalf("unmodelled match %q %q in %q", module, sub, line)
			}
		default:
			t.Fatalf("unmodelled match option %q in %q", opt, line)
		}
		if res == neg {
			matched = false
		}
	}
	if next() != "--jump" {
		t.Fatalf("no --jump in %q", line)
	}
	target := next()
	if !matched {
		return mark, false, false
	}
	switch target {
	case "RETURN":
		if i != len(tok) {
			t.Fatalf("trailing tokens in %q", line)
		}
		return mark, true, true
	case "MARK":
		how := next()
		val, mask := f18ParseMark(t, next())
		if i != len(tok) {
			t.Fatalf("trailing tokens in %q", line)
		}
		switch how {
		case "--set-mark": // zero the mask bits, OR in the value
			return (mark &^ mask) | val, false, true
		case "--set-xmark": // zero the mask bits, XOR in the value
			return (mark &^ mask) ^ val, false, true
		}
		t.Fatalf("unmodelled MARK option %q in %q", how, line)
	}
	t.Fatalf("unmodelled target %q in %q", target, line)
	return
}

// f18Run evaluates the rendered rule list for one packet.  The proto rule is
// an "allow": the rendering accepts the packet iff it sets MarkAccept and then
// RETURNs.  If trace is non-nil, one line per rule is written to it.
func f18Run(t *testing.T, lines []string, sets f18IPSets, p f18Packet, trace *[]string) bool {
	mark := p.initialMarkBit
	for _, l := range lines {
		newMark, returned, matched := f18EvalRule(t, l, sets, p, mark)
		if trace != nil {
			*trace = append(*trace, fmt.Sprintf("    %-105s %-8s AllBlocks(0x200)=%d ThisBlock(0x400)=%d Accept(0x80)=%d",
				l, map[bool]string{true: "MATCH", false: "-"}[matched],
				(newMark&f18MarkScratch0)>>9, (newMark&f18MarkScratch1)>>10, (newMark&f18MarkAccept)>>7))
		}
		mark = newMark
		if returned {
			return mark&f18MarkAccept != 0
		}
	}
	return false
}

func f18Render(r *proto.Rule) []string {
	cfg := rules.Config{
		IPIPEnabled:   true,
		IPSetConfigV4: ipsets.NewIPVersionConfig(ipsets.IPFamilyV4, "cali", nil, nil),
		IPSetConfigV6: ipsets.NewIPVersionConfig(ipsets.IPFamilyV6, "cali", nil, nil),
		MarkAccept:    f18MarkAccept,
		MarkPass:      f18MarkPass,
		MarkScratch0:  f18MarkScratch0,
		MarkScratch1:  f18MarkScratch1,
		MarkDrop:      0x800,
		MarkEndpoint:  0xff000,
	}
	renderer := rules.NewRenderer(cfg, false)
	polID := &types.PolicyID{Name: "default.foo", Kind: v3.KindGlobalNetworkPolicy}
	iptRules := renderer.ProtoRuleToIptablesRules(r, 4,
		rules.RuleOwnerTypePolicy, rules.RuleDirIngress, 0, polID, "default", false)
	var out []string
	for i := range iptRules {
		out = append(out, iptables.NewIptablesRenderer("").RenderAppend(&iptRules[i], "test", "", &environment.Features{}))
	}
	return out
}

func f18TCP() *proto.Protocol {
	return &proto.Protocol{NumberOrName: &proto.Protocol_Name{Name: "tcp"}}
}

func TestThreeMatchBlocks(t *testing.T) {
	// Named-port IP sets: (IP, proto:port) members.
	sets := f18IPSets{
		"cali40np-http":   {"12.1.0.9,tcp:8080": true, "13.0.0.9,tcp:8080": true, "99.0.0.9,tcp:8080": true},
		"cali40np-client": {"10.1.0.9,tcp:4000": true, "11.0.0.9,tcp:4000": true, "98.0.0.9,tcp:4000": true},
	}

	type ruleCase struct {
		name           string
		positiveBlocks int
		rule           *proto.Rule
	}
	cases := []ruleCase{
		{
			// Control: two positive blocks (dst ports, src CIDRs).  What the existing
			// tests cover; rendered correctly.
			name: "2 blocks: dst ports+named | 2 src CIDRs", positiveBlocks: 2,
			rule: &proto.Rule{
				Action: "allow", Protocol: f18TCP(),
				DstPorts:             []*proto.PortRange{{First: 80, Last: 80}, {First: 443, Last: 443}},
				DstNamedPortIpSetIds: []string{"np-http"},
				SrcNet:               []string{"10.1.0.0/16", "11.0.0.0/8"},
				DstNet:               []string{"12.1.0.0/16"}, // single CIDR: inlined in the final rule
			},
		},
		{
			// The reported shape: dst ports + named port | two src CIDRs | two dst CIDRs.
			name: "3 blocks: dst ports+named | 2 src CIDRs | 2 dst CIDRs", positiveBlocks: 3,
			rule: &proto.Rule{
				Action: "allow", Protocol: f18TCP(),
				DstPorts:             []*proto.PortRange{{First: 80, Last: 80}, {First: 443, Last: 443}},
				DstNamedPortIpSetIds: []string{"np-http"},
				SrcNet:               []string{"10.1.0.0/16", "11.0.0.0/8"},
				DstNet:               []string{"12.1.0.0/16", "13.0.0.0/8"},
			},
		},
		{
			// Four positive blocks plus negated CIDR blocks.
			name: "4 blocks: src ports+named | dst ports+named | 2 src CIDRs | 2 dst CIDRs, + negated CIDRs", positiveBlocks: 4,
			rule: &proto.Rule{
				Action: "allow", Protocol: f18TCP(),
				SrcPorts:             []*proto.PortRange{{First: 1000, Last: 2000}},
				SrcNamedPortIpSetIds: []string{"np-client"},
				DstPorts:             []*proto.PortRange{{First: 80, Last: 80}, {First: 443, Last: 443}},
				DstNamedPortIpSetIds: []string{"np-http"},
				SrcNet:               []string{"10.1.0.0/16", "11.0.0.0/8"},
				DstNet:               []string{"12.1.0.0/16", "13.0.0.0/8"},
				NotSrcNet:            []string{"11.5.0.0/16", "11.6.0.0/16"},
				NotDstNet:            []string{"13.5.0.0/16", "13.6.0.0/16"},
			},
		},
	}

	// Candidate field values; the cartesian product covers every combination of
	// "block k matches / does not match" for every rule above.
	srcIPs := []string{"10.1.0.9", "11.0.0.9", "11.5.0.9", "98.0.0.9"}
	dstIPs := []string{"12.1.0.9", "13.0.0.9", "13.6.0.9", "99.0.0.9"}
	sports := []int{1500, 4000, 50000}
	dports := []int{80, 443, 8080, 22}
	var packets []f18Packet
	for _, init := range []uint32{0, f18MarkScratch0 | f18MarkScratch1} {
		for _, s := range srcIPs {
			for _, d := range dstIPs {
				for _, sp := range sports {
					for _, dp := range dports {
						packets = append(packets, f18Packet{"tcp", s, d, sp, dp, init})
					}
				}
			}
		}
		packets = append(packets, f18Packet{"udp", "10.1.0.9", "12.1.0.9", 1500, 80, init})
	}

	// The headline packet for the 3-block rule: matches block 1 (dst port 443) and
	// block 2 (source 10.1.0.9 in 10.1.0.0/16) but NOT block 3 (destination
	// 99.0.0.9 is in neither 12.1.0.0/16 nor 13.0.0.0/8).
	headline := f18Packet{"tcp", "10.1.0.9", "99.0.0.9", 50000, 443, 0}

	for _, c := range cases {
		c := c
		t.Run(c.name, func(t *testing.T) {
			lines := f18Render(c.rule)
			t.Logf("rendered iptables rules (%d positive blocks):\n    %s", c.positiveBlocks, strings.Join(lines, "\n    "))

			wrong, accepted := 0, 0
			for _, p := range packets {
				want := f18Reference(c.rule, sets, p)
				got := f18Run(t, lines, sets, p, nil)
				if want {
					accepted++
				}
				if got != want {
					wrong++
					if wrong <= 5 {
						t.Errorf("packet %v: policy rule matches=%v, rendered iptables rules allow=%v", p, want, got)
					}
				}
			}
			if accepted == 0 {
				t.Fatalf("vacuous: no packet matches the rule")
			}
			t.Logf("%d packets evaluated, %d match the policy rule, %d evaluated WRONGLY by the rendered rules", len(packets), accepted, wrong)
			if wrong > 5 {
				t.Errorf("... %d wrongly evaluated packets in total", wrong)
			}

			if c.positiveBlocks == 3 {
				var trace []string
				got := f18Run(t, lines, sets, headline, &trace)
				want := f18Reference(c.rule, sets, headline)
				t.Logf("mark-bit trace for %v:\n%s", headline, strings.Join(trace, "\n"))
				if got != want {
					t.Errorf("HEADLINE packet %v matches blocks 1 and 2 but not block 3: policy rule matches=%v, rendered iptables rules allow=%v",
						headline, want, got)
				}
			}
		})
	}
}
