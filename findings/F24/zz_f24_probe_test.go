package intdataplane

import (
	"fmt"

	. "github.com/onsi/ginkgo/v2"
	. "github.com/onsi/gomega"
)

// F24: an endpoint that is ACTIVE on interface X and is updated to interface Y, which a preferred
// (lower-id) endpoint owns, is stored as shadowed without its active state on X being removed.
var _ = Describe("F24probe active endpoint renamed onto an interface owned by a preferred endpoint", func() {
	It("leaves no state on the old interface and does not shadow a later sole claimant", func() {
		h := newF22Harness()
		h.update("pod-a", f22IfaceY, "10.0.240.2/32")
		h.update("pod-b", f22IfaceX, "10.0.240.3/32")
		h.apply()
		fmt.Println("F24 step1:", h.snapshot())
		h.update("pod-b", f22IfaceY, "10.0.240.3/32")
		h.apply()
		s2 := h.snapshot()
		fmt.Println("F24 step2 (pod-b renamed X->Y, loses to pod-a):", s2)
		m := h.epMgr
		for id := range m.shadowedWlEndpoints {
			_, alsoActive := m.activeWlEndpoints[id]
			Expect(alsoActive).To(BeFalse(), "endpoint %v is both active and shadowed: %s", id.WorkloadId, s2)
		}
		_, xOwned := m.activeWlIfaceNameToID[f22IfaceX]
		Expect(xOwned).To(BeFalse(), "interface X still carries pod-b's state although pod-b now names Y: %s", s2)
		h.update("pod-c", f22IfaceX, "10.0.240.4/32")
		h.apply()
		s3 := h.snapshot()
		fmt.Println("F24 step3 (pod-c is the only claimant of X):", s3)
		owner, ok := m.activeWlIfaceNameToID[f22IfaceX]
		Expect(ok).To(BeTrue(), s3)
		Expect(owner.WorkloadId).To(ContainSubstring("pod-c"), "the only claimant of X must be active on it: %s", s3)
	})
})
