// F22 demonstration: endpointManager.resolveWorkloadEndpoints() and workload
// endpoints that share an interface name (active / shadowed bookkeeping).
//
// Property (C44): each workload interface carries exactly the state of its
// preferred endpoint.  When several workload endpoints name the same
// interface, the one with the lowest ID (wlIdsAscending) is active and the
// others are shadowed; when the active one goes away the best shadowed one is
// promoted; a removed endpoint leaves no state behind; and the result must not
// depend on how updates are batched or on map iteration order.
//
// Run with:
//
//	go test ./felix/dataplane/linux/ -run TestIntdataplane -ginkgo.focus 'F22'

package intdataplane

import (
	"fmt"
	"sort"
	"strings"
	"time"

	. "github.com/onsi/ginkgo/v2"
	. "github.com/onsi/gomega"
	v3 "github.com/projectcalico/api/pkg/apis/projectcalico/v3"

	"github.com/projectcalico/calico/felix/dataplane/common"
	"github.com/projectcalico/calico/felix/environment"
	"github.com/projectcalico/calico/felix/ipsets"
	"github.com/projectcalico/calico/felix/linkaddrs"
	"github.com/projectcalico/calico/felix/netlinkshim/mocknetlink"
	"github.com/projectcalico/calico/felix/proto"
	"github.com/projectcalico/calico/felix/routetable"
	"github.com/projectcalico/calico/felix/rules"
	"github.com/projectcalico/calico/felix/types"
)

// f22Harness is one real endpoint manager wired to the same mocks that
// endpoint_mgr_test.go uses.
type f22Harness struct {
	epMgr       *endpointManager
	filterTable *mockTable
	routeTable  *mockRouteTable
	status      *statusReportRecorder
}

func newF22Harness() *f22Harness {
	rrConfig := rules.Config{
		IPIPEnabled:            true,
		IPSetConfigV4:          ipsets.NewIPVersionConfig(ipsets.IPFamilyV4, "cali", nil, nil),
		IPSetConfigV6:          ipsets.NewIPVersionConfig(ipsets.IPFamilyV6, "cali", nil, nil),
		MarkAccept:             0x8,
		MarkPass:               0x10,
		MarkScratch0:           0x20,
		MarkScratch1:           0x40,
		MarkDrop:               0x80,
		MarkEndpoint:           0xff00,
		MarkNonCaliEndpoint:    0x0100,
		KubeIPVSSupportEnabled: true,
		WorkloadIfacePrefixes:  []string{"cali", "tap"},
		VXLANPort:              4789,
		VXLANVNI:               4096,
	}
	h := &f22Harness{
		filterTable: newMockTable("filter"),
		routeTable:  &mockRouteTable{index: 0, currentRoutes: map[string][]routetable.Target{}},
		status:      &statusReportRecorder{currentState: map[any]string{}, extraInfo: map[any]any{}},
	}
	mockProcSys := &testProcSys{state: map[string]string{}, pathsThatExist: map[string]bool{}}
	nlDataplane := mocknetlink.New()
	linkAddrsMgr := linkaddrs.New(
		4,
		[]string{"cali"},
		&environment.FakeFeatureDetector{Features: environment.Features{}},
		10*time.Second,
		linkaddrs.WithNetlinkHandleShim(nlDataplane.NewMockNetlink),
	)
	h.epMgr = newEndpointManagerWithShims(
		&endpointManagerConfig{
			kubeIPVSSupportEnabled: rrConfig.KubeIPVSSupportEnabled,
			wlInterfacePrefixes:    []string{"cali"},
			bpfEnabled:             false,
			bpfAttachType:          v3.BPFAttachOptionTCX,
			nft:                    false,
			floatingIPsEnabled:     true,
		},
		newMockTable("raw"),
		newMockTable("mangle"),
		h.filterTable,
		rules.NewRenderer(rrConfig, false),
		h.routeTable,
		4,
		rules.NewEndpointMarkMapper(rrConfig.MarkEndpoint, rrConfig.MarkNonCaliEndpoint),
		h.status.endpointStatusUpdateCallback,
		mockProcSys.write,
		mockProcSys.stat,
		"1",
		nil, // filterMaps
		nil, // flowtableHandler
		&testHEPListener{},
		common.NewCallbacks(),
		linkAddrsMgr,
		nil, // arpTable
		nil, // arpMaps
	)
	return h
}

func f22ID(workload string) *proto.WorkloadEndpointID {
	return &proto.WorkloadEndpointID{OrchestratorId: "k8s", WorkloadId: workload, EndpointId: "eth0"}
}

func (h *f22Harness) update(workload, iface, ipNet string) {
	h.epMgr.OnUpdate(&proto.WorkloadEndpointUpdate{
		Id: f22ID(workload),
		Endpoint: &proto.WorkloadEndpoint{
			State:      "active",
			Mac:        "01:02:03:04:05:06",
			Name:       iface,
			ProfileIds: []string{},
			Tiers:      []*proto.TierInfo{},
			Ipv4Nets:   []string{ipNet},
		},
	})
}

func (h *f22Harness) remove(workload string) {
	h.epMgr.OnUpdate(&proto.WorkloadEndpointRemove{Id: f22ID(workload)})
}

// apply ends the batch exactly like applyUpdates() in endpoint_mgr_test.go, but
// returns the error so that it can be used outside a spec body too.
func (h *f22Harness) apply() {
	if err := h.epMgr.ResolveUpdateBatch(); err != nil {
		panic(err)
	}
	if err := h.epMgr.CompleteDeferredWork(); err != nil {
		panic(err)
	}
}

// snapshot renders everything the endpoint manager holds / has programmed for
// workload endpoints as a deterministic, human-readable string:
//
//   - active=    id->iface(ip) for each entry of activeWlEndpoints
//   - shadowed=  id->iface(ip) for each entry of shadowedWlEndpoints
//   - ifaces=    iface->id     for each entry of activeWlIfaceNameToID
//   - chains=    per-endpoint filter chains (cali-tw-*/cali-fw-*) in the dataplane
//   - dispatch=  interfaces referenced from the workload dispatch chains
//   - routes=    iface->CIDRs  for each interface with a non-empty route set
//   - status=    workload endpoint IDs that have a reported status
func (h *f22Harness) snapshot() string {
	m := h.epMgr
	var active, shadowed, ifaces, chains, dispatch, routes, status []string
	for id, ep := range m.activeWlEndpoints {
		active = append(active, fmt.Sprintf("%s->%s%v", id.WorkloadId, ep.Name, ep.Ipv4Nets))
	}
	for id, ep := range m.shadowedWlEndpoints {
		shadowed = append(shadowed, fmt.Sprintf("%s->%s%v", id.WorkloadId, ep.Name, ep.Ipv4Nets))
	}
	for name, id := range m.activeWlIfaceNameToID {
		ifaces = append(ifaces, fmt.Sprintf("%s->%s", name, id.WorkloadId))
	}
	dispatchIfaces := map[string]bool{}
	for name, chain := range h.filterTable.currentChains {
		if strings.HasPrefix(name, rules.WorkloadToEndpointPfx) || strings.HasPrefix(name, rules.WorkloadFromEndpointPfx) {
			chains = append(chains, name)
		}
		if name == rules.ChainToWorkloadDispatch || name == rules.ChainFromWorkloadDispatch {
			for _, r := range chain.Rules {
				for _, f := range strings.Fields(r.Match.Render()) {
					if strings.HasPrefix(f, "cali") && !strings.HasSuffix(f, "+") {
						dispatchIfaces[f] = true
					}
				}
			}
		}
	}
	for i := range dispatchIfaces {
		dispatch = append(dispatch, i)
	}
	for iface, targets := range h.routeTable.currentRoutes {
		if len(targets) == 0 {
			continue
		}
		var cidrs []string
		for _, t := range targets {
			cidrs = append(cidrs, t.CIDR.String())
		}
		sort.Strings(cidrs)
		routes = append(routes, fmt.Sprintf("%s->%v", iface, cidrs))
	}
	for id := range h.status.currentState {
		if wid, ok := id.(types.WorkloadEndpointID); ok {
			status = append(status, wid.WorkloadId)
		}
	}
	for _, s := range [][]string{active, shadowed, ifaces, chains, dispatch, routes, status} {
		sort.Strings(s)
	}
	return fmt.Sprintf("active=%v shadowed=%v ifaces=%v chains=%v dispatch=%v routes=%v status=%v pending=%d",
		active, shadowed, ifaces, chains, dispatch, routes, status, len(m.pendingWlEpUpdates))
}

const (
	f22IfaceX = "cali12345-ab"
	f22IfaceY = "cali67890-cd"

	// The snapshot of an endpoint manager that holds no workload endpoint at all.
	f22Empty = "active=[] shadowed=[] ifaces=[] chains=[] dispatch=[] routes=[] status=[] pending=0"

	// Outcome depends on Go's randomised map iteration order, so each scenario
	// is replayed on this many fresh endpoint managers.
	f22Runs = 64
)

// tally replays a scenario on fresh endpoint managers and counts the distinct
// final snapshots.
func f22Tally(scenario func(h *f22Harness)) map[string]int {
	outcomes := map[string]int{}
	for i := 0; i < f22Runs; i++ {
		h := newF22Harness()
		scenario(h)
		outcomes[h.snapshot()]++
	}
	return outcomes
}

// f22ExpectSnapshot compares one snapshot, printing both in full on mismatch.
func f22ExpectSnapshot(h *f22Harness, want string) {
	got := h.snapshot()
	ExpectWithOffset(1, got).To(Equal(want), "\n  got:  %s\n  want: %s\n", got, want)
}

func f22Describe(outcomes map[string]int) string {
	var lines []string
	for o, n := range outcomes {
		lines = append(lines, fmt.Sprintf("  %2d/%d runs: %s", n, f22Runs, o))
	}
	sort.Strings(lines)
	return "\n" + strings.Join(lines, "\n") + "\n"
}

var _ = Describe("F22 workload endpoints sharing an interface name", func() {
	// pod-a < pod-b < pod-c in wlIdsAscending order, so pod-a is the preferred one.
	activeAndShadowed := func(h *f22Harness) {
		h.update("pod-a", f22IfaceX, "10.0.240.2/32")
		h.apply()
		h.update("pod-b", f22IfaceX, "10.0.240.3/32")
		h.apply()
	}
	const activeAndShadowedSnapshot = "active=[pod-a->cali12345-ab[10.0.240.2/32]] " +
		"shadowed=[pod-b->cali12345-ab[10.0.240.3/32]] " +
		"ifaces=[cali12345-ab->pod-a] " +
		"chains=[cali-fw-cali12345-ab cali-tw-cali12345-ab] " +
		"dispatch=[cali12345-ab] " +
		"routes=[cali12345-ab->[10.0.240.2/32]] " +
		"status=[pod-a] pending=0"

	It("baseline: lower ID is active, higher ID is shadowed", func() {
		h := newF22Harness()
		activeAndShadowed(h)
		f22ExpectSnapshot(h, activeAndShadowedSnapshot)
	})

	Describe("candidate A: promotion of a shadowed endpoint clobbers that endpoint's own pending update", func() {
		It("control: removing active and shadowed endpoint in two batches leaves nothing behind", func() {
			outcomes := f22Tally(func(h *f22Harness) {
				activeAndShadowed(h)
				h.remove("pod-a")
				h.apply()
				h.remove("pod-b")
				h.apply()
			})
			Expect(outcomes).To(Equal(map[string]int{f22Empty: f22Runs}), f22Describe(outcomes))
		})

		It("A1: removing active and shadowed endpoint in the SAME batch leaves nothing behind", func() {
			outcomes := f22Tally(func(h *f22Harness) {
				activeAndShadowed(h)
				h.remove("pod-a")
				h.remove("pod-b")
				h.apply()
			})
			Expect(outcomes).To(Equal(map[string]int{f22Empty: f22Runs}), f22Describe(outcomes))
		})

		It("A1': same, with the removals arriving in the other order", func() {
			outcomes := f22Tally(func(h *f22Harness) {
				activeAndShadowed(h)
				h.remove("pod-b")
				h.remove("pod-a")
				h.apply()
			})
			Expect(outcomes).To(Equal(map[string]int{f22Empty: f22Runs}), f22Describe(outcomes))
		})

		It("A2: removing the active endpoint and UPDATING the shadowed one in the same batch programs the new data", func() {
			outcomes := f22Tally(func(h *f22Harness) {
				activeAndShadowed(h)
				h.update("pod-b", f22IfaceX, "10.0.240.33/32") // new IP for the shadowed endpoint
				h.remove("pod-a")
				h.apply()
			})
			want := "active=[pod-b->cali12345-ab[10.0.240.33/32]] shadowed=[] " +
				"ifaces=[cali12345-ab->pod-b] " +
				"chains=[cali-fw-cali12345-ab cali-tw-cali12345-ab] " +
				"dispatch=[cali12345-ab] " +
				"routes=[cali12345-ab->[10.0.240.33/32]] " +
				"status=[pod-b] pending=0"
			Expect(outcomes).To(Equal(map[string]int{want: f22Runs}), f22Describe(outcomes))
		})

		It("A3: with two shadowed endpoints, removing the active one and the best shadowed one in the same batch promotes the remaining one", func() {
			outcomes := f22Tally(func(h *f22Harness) {
				activeAndShadowed(h)
				h.update("pod-c", f22IfaceX, "10.0.240.4/32")
				h.apply()
				h.remove("pod-a")
				h.remove("pod-b")
				h.apply()
			})
			want := "active=[pod-c->cali12345-ab[10.0.240.4/32]] shadowed=[] " +
				"ifaces=[cali12345-ab->pod-c] " +
				"chains=[cali-fw-cali12345-ab cali-tw-cali12345-ab] " +
				"dispatch=[cali12345-ab] " +
				"routes=[cali12345-ab->[10.0.240.4/32]] " +
				"status=[pod-c] pending=0"
			Expect(outcomes).To(Equal(map[string]int{want: f22Runs}), f22Describe(outcomes))
		})
	})

	Describe("candidate B: a shadowed endpoint that becomes active keeps its stale shadow entry", func() {
		const renamedSnapshot = "active=[pod-a->cali12345-ab[10.0.240.2/32] pod-b->cali67890-cd[10.0.240.3/32]] " +
			"shadowed=[] " +
			"ifaces=[cali12345-ab->pod-a cali67890-cd->pod-b] " +
			"chains=[cali-fw-cali12345-ab cali-fw-cali67890-cd cali-tw-cali12345-ab cali-tw-cali67890-cd] " +
			"dispatch=[cali12345-ab cali67890-cd] " +
			"routes=[cali12345-ab->[10.0.240.2/32] cali67890-cd->[10.0.240.3/32]] " +
			"status=[pod-a pod-b] pending=0"

		It("B1: moving the shadowed endpoint to its own interface drops its shadow entry", func() {
			h := newF22Harness()
			activeAndShadowed(h)
			h.update("pod-b", f22IfaceY, "10.0.240.3/32")
			h.apply()
			f22ExpectSnapshot(h, renamedSnapshot)
		})

		It("B2: ... and removing the originally active endpoint afterwards does not move it back", func() {
			h := newF22Harness()
			activeAndShadowed(h)
			h.update("pod-b", f22IfaceY, "10.0.240.3/32")
			h.apply()
			h.remove("pod-a")
			h.apply()
			f22ExpectSnapshot(h,
				"active=[pod-b->cali67890-cd[10.0.240.3/32]] shadowed=[] "+
					"ifaces=[cali67890-cd->pod-b] "+
					"chains=[cali-fw-cali67890-cd cali-tw-cali67890-cd] "+
					"dispatch=[cali67890-cd] "+
					"routes=[cali67890-cd->[10.0.240.3/32]] "+
					"status=[pod-b] pending=0")
		})

		It("B3: ... nor roll it back to the data it had while it was shadowed", func() {
			// As B2, but pod-b receives one more update (new IP) on its new interface
			// before pod-a is removed.
			h := newF22Harness()
			activeAndShadowed(h)
			h.update("pod-b", f22IfaceY, "10.0.240.3/32")
			h.apply()
			h.update("pod-b", f22IfaceY, "10.0.240.44/32")
			h.apply()
			h.remove("pod-a")
			h.apply()
			f22ExpectSnapshot(h,
				"active=[pod-b->cali67890-cd[10.0.240.44/32]] shadowed=[] "+
					"ifaces=[cali67890-cd->pod-b] "+
					"chains=[cali-fw-cali67890-cd cali-tw-cali67890-cd] "+
					"dispatch=[cali67890-cd] "+
					"routes=[cali67890-cd->[10.0.240.44/32]] "+
					"status=[pod-b] pending=0")
		})
	})
})
