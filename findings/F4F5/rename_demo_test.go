package intdataplane

// Demonstration for findings F4 and F5 (property C44): when a workload endpoint
// changes interface name, nothing may remain for the old interface name.
// Run (never written into /repo):
//   cd /repo/felix/dataplane/linux && go test -overlay /tmp/f45/overlay.json -run TestRenameCleansUpOldIfaceState .
import (
	"testing"
	"time"

	"github.com/onsi/gomega"
	v3 "github.com/projectcalico/api/pkg/apis/projectcalico/v3"

	"github.com/projectcalico/calico/felix/dataplane/common"
	"github.com/projectcalico/calico/felix/linkaddrs"
	"github.com/projectcalico/calico/felix/environment"
	"github.com/projectcalico/calico/felix/ipsets"
	"github.com/projectcalico/calico/felix/netlinkshim/mocknetlink"
	"github.com/projectcalico/calico/felix/proto"
	"github.com/projectcalico/calico/felix/routetable"
	"github.com/projectcalico/calico/felix/rules"
)

func TestRenameCleansUpOldIfaceState(t *testing.T) {
	gomega.RegisterTestingT(t)
	renderer := rules.NewRenderer(rules.Config{
		IPSetConfigV4:         ipsets.NewIPVersionConfig(ipsets.IPFamilyV4, "cali", nil, nil),
		IPSetConfigV6:         ipsets.NewIPVersionConfig(ipsets.IPFamilyV6, "cali", nil, nil),
		MarkAccept:            0x8,
		MarkPass:              0x10,
		MarkScratch0:          0x20,
		MarkScratch1:          0x40,
		MarkDrop:              0x80,
		MarkEndpoint:          0xff00,
		MarkNonCaliEndpoint:   0x0100,
		WorkloadIfacePrefixes: []string{"cali", "tap"},
	}, false)
	mockProcSys := &testProcSys{state: map[string]string{}, pathsThatExist: map[string]bool{}}
	nlDataplane := mocknetlink.New()
	linkAddrsMgr := linkaddrs.New(4, []string{"cali"},
		&environment.FakeFeatureDetector{Features: environment.Features{}},
		10*time.Second, linkaddrs.WithNetlinkHandleShim(nlDataplane.NewMockNetlink))
	epMgr := newEndpointManagerWithShims(
		&endpointManagerConfig{wlInterfacePrefixes: []string{"cali"}, bpfAttachType: v3.BPFAttachOptionTCX},
		newMockTable("raw"), newMockTable("mangle"), newMockTable("filter"), renderer,
		&mockRouteTable{index: 0, currentRoutes: map[string][]routetable.Target{}},
		4, rules.NewEndpointMarkMapper(0xff00, 0x0100),
		(&statusReportRecorder{currentState: map[any]string{}, extraInfo: map[any]any{}}).endpointStatusUpdateCallback,
		mockProcSys.write, mockProcSys.stat, "1",
		&fakeMapsDataplane{}, &fakeFlowtableHandler{}, &testHEPListener{}, common.NewCallbacks(), linkAddrsMgr, nil, nil,
	)

	id := &proto.WorkloadEndpointID{OrchestratorId: "k8s", WorkloadId: "wl1", EndpointId: "ep1"}
	ep := func(name string) *proto.WorkloadEndpoint {
		return &proto.WorkloadEndpoint{
			Name: name, State: "active", Mac: "01:02:03:04:05:06", Ipv4Nets: []string{"10.0.240.2/24"},
			AllowSpoofedSourcePrefixes: []string{"8.8.8.0/24"},
			Tiers: []*proto.TierInfo{{Name: "default", IngressPolicies: []*proto.PolicyID{
				{Name: "p1", Kind: v3.KindGlobalNetworkPolicy}, {Name: "p2", Kind: v3.KindGlobalNetworkPolicy}}}},
		}
	}
	step := func() {
		if err := epMgr.ResolveUpdateBatch(); err != nil {
			t.Fatal(err)
		}
		if err := epMgr.CompleteDeferredWork(); err != nil {
			t.Fatal(err)
		}
	}
	epMgr.OnUpdate(&proto.WorkloadEndpointUpdate{Id: id, Endpoint: ep("cali-old")})
	step()
	if len(epMgr.policyChainRefCounts) != 1 || len(epMgr.sourceSpoofingConfig) != 1 {
		t.Fatalf("setup: refcounts=%v spoof=%v", epMgr.policyChainRefCounts, epMgr.sourceSpoofingConfig)
	}
	// Same endpoint, new interface name.
	epMgr.OnUpdate(&proto.WorkloadEndpointUpdate{Id: id, Endpoint: ep("cali-new")})
	step()
	if _, ok := epMgr.sourceSpoofingConfig["cali-old"]; ok {
		t.Errorf("F4: RPF-skip entry for old interface name survives rename: %v", epMgr.sourceSpoofingConfig)
	}
	if _, ok := epMgr.ifaceNameToPolicyGroupChainNames["cali-old"]; ok {
		t.Errorf("F5: policy-group chains still recorded for old interface name: %v", epMgr.ifaceNameToPolicyGroupChainNames)
	}
	for chain, n := range epMgr.policyChainRefCounts {
		if n != 1 {
			t.Errorf("F5: policy group chain %s has refcount %d with one live endpoint", chain, n)
		}
	}
	// Remove the endpoint: nothing may remain at all.
	epMgr.OnUpdate(&proto.WorkloadEndpointRemove{Id: id})
	step()
	if len(epMgr.sourceSpoofingConfig) != 0 {
		t.Errorf("F4: RPF-skip state leaked after removal: %v", epMgr.sourceSpoofingConfig)
	}
	if len(epMgr.policyChainRefCounts) != 0 || len(epMgr.ifaceNameToPolicyGroupChainNames) != 0 {
		t.Errorf("F5: policy group state leaked after removal: refcounts=%v names=%v", epMgr.policyChainRefCounts, epMgr.ifaceNameToPolicyGroupChainNames)
	}
}
