package ipam

// Demonstration for finding F7: (ipamClient).AssignIP leaks a handle increment when
// the block write loses a compare-and-swap race.
//
// In AssignIP's retry loop the handle is incremented (incrementHandle) BEFORE the
// block is written (updateBlock).  When updateBlock returns
// ErrorResourceUpdateConflict the loop does `continue` without decrementHandle; the
// retry re-reads the block, assigns the IP again and increments the handle a second
// time.  Afterwards the handle record says "2 addresses in block B" while block B
// holds exactly 1 address for that handle.  (assignFromExistingBlock, the AutoAssign
// path, decrements the handle on every updateBlock error.)
//
// Run (does not write into /repo; uses a Go build overlay):
//
//   mkdir -p /tmp/f7 && cat > /tmp/f7/overlay.json <<'EOF'
//   {"Replace":{"/repo/libcalico-go/lib/ipam/zz_assignip_conflict_demo_test.go":"/verif/findings/F7/assignip_conflict_demo_test.go"}}
//   EOF
//   cd /repo/libcalico-go/lib/ipam && . /verif/env.sh && \
//     go test -count=1 -overlay /tmp/f7/overlay.json -run TestAssignIPConflictKeepsHandleConsistent .
//
// Expected on a correct tree: PASS.  On today's tree: FAIL, handle count 2 vs 1 address.

import (
	"context"
	"fmt"
	"strconv"
	"sync"
	"testing"

	bapi "github.com/projectcalico/calico/libcalico-go/lib/backend/api"
	"github.com/projectcalico/calico/libcalico-go/lib/backend/model"
	cerrors "github.com/projectcalico/calico/libcalico-go/lib/errors"
	"github.com/projectcalico/calico/libcalico-go/lib/ipam/ipamtestutils"
	cnet "github.com/projectcalico/calico/libcalico-go/lib/net"
)

// f7Store is a minimal in-memory backend: key string -> KVPair, with a revision
// counter and real compare-and-swap semantics on Update/DeleteKVP.  Values are
// deep-copied on the way in and out, like a real datastore (callers mutate the
// KVPair they were handed and pass it straight back).
//
// The embedded (nil) bapi.Client supplies the methods IPAM does not use here
// (Apply, Watch, Syncer, ...); calling any of them would panic.
type f7Store struct {
	bapi.Client

	mu   sync.Mutex
	rev  int
	data map[string]*model.KVPair

	// conflictKey: the first Update of this key races with "another client" that
	// rewrites the same object first, so the caller's CAS fails exactly once.
	conflictKey       string
	conflictsInjected int
	log               []string
}

func f7CopyValue(v any) any {
	switch x := v.(type) {
	case *model.AllocationBlock:
		return x.Clone()
	case *model.IPAMHandle:
		c := &model.IPAMHandle{HandleID: x.HandleID, Deleted: x.Deleted, Block: map[string]int{}}
		for k, n := range x.Block {
			c.Block[k] = n
		}
		return c
	case *model.BlockAffinity:
		c := *x
		return &c
	case *model.IPAMConfig:
		c := *x
		return &c
	}
	panic(fmt.Sprintf("f7Store: unexpected value type %T", v))
}

func f7CopyKVP(kvp *model.KVPair) *model.KVPair {
	return &model.KVPair{Key: kvp.Key, Value: f7CopyValue(kvp.Value), Revision: kvp.Revision}
}

func (s *f7Store) nextRev() string {
	s.rev++
	return strconv.Itoa(s.rev)
}

func (s *f7Store) Get(ctx context.Context, key model.Key, revision string) (*model.KVPair, error) {
	s.mu.Lock()
	defer s.mu.Unlock()
	cur, ok := s.data[key.String()]
	if !ok {
		return nil, cerrors.ErrorResourceDoesNotExist{Identifier: key}
	}
	return f7CopyKVP(cur), nil
}

func (s *f7Store) Create(ctx context.Context, object *model.KVPair) (*model.KVPair, error) {
	s.mu.Lock()
	defer s.mu.Unlock()
	k := object.Key.String()
	if _, ok := s.data[k]; ok {
		return nil, cerrors.ErrorResourceAlreadyExists{Identifier: object.Key}
	}
	stored := f7CopyKVP(object)
	stored.Revision = s.nextRev()
	s.data[k] = stored
	s.log = append(s.log, "Create "+k+" -> ok")
	return f7CopyKVP(stored), nil
}

func (s *f7Store) Update(ctx context.Context, object *model.KVPair) (*model.KVPair, error) {
	s.mu.Lock()
	defer s.mu.Unlock()
	k := object.Key.String()
	cur, ok := s.data[k]
	if !ok {
		return nil, cerrors.ErrorResourceDoesNotExist{Identifier: object.Key}
	}
	if k == s.conflictKey && s.conflictsInjected == 0 {
		// Another client wrote this object between our caller's Get and Update
		// (content unchanged, new revision - e.g. it assigned and released an
		// unrelated address).  The CAS check below then fails for real.
		s.conflictsInjected++
		cur.Revision = s.nextRev()
	}
	if object.Revision != "" && object.Revision != cur.Revision {
		s.log = append(s.log, "Update "+k+" -> ErrorResourceUpdateConflict")
		return nil, cerrors.ErrorResourceUpdateConflict{Identifier: object.Key}
	}
	stored := f7CopyKVP(object)
	stored.Revision = s.nextRev()
	s.data[k] = stored
	s.log = append(s.log, "Update "+k+" -> ok")
	return f7CopyKVP(stored), nil
}

func (s *f7Store) DeleteKVP(ctx context.Context, object *model.KVPair) (*model.KVPair, error) {
	return s.Delete(ctx, object.Key, object.Revision)
}

func (s *f7Store) Delete(ctx context.Context, key model.Key, revision string) (*model.KVPair, error) {
	s.mu.Lock()
	defer s.mu.Unlock()
	k := key.String()
	cur, ok := s.data[k]
	if !ok {
		return nil, cerrors.ErrorResourceDoesNotExist{Identifier: key}
	}
	if revision != "" && revision != cur.Revision {
		return nil, cerrors.ErrorResourceUpdateConflict{Identifier: key}
	}
	delete(s.data, k)
	s.log = append(s.log, "Delete "+k+" -> ok")
	return cur, nil
}

func (s *f7Store) List(ctx context.Context, list model.ListInterface, revision string) (*model.KVPairList, error) {
	s.mu.Lock()
	defer s.mu.Unlock()
	out := &model.KVPairList{Revision: strconv.Itoa(s.rev)}
	for _, kvp := range s.data {
		match := false
		switch list.(type) {
		case model.BlockListOptions:
			_, match = kvp.Key.(model.BlockKey)
		case model.IPAMHandleListOptions:
			_, match = kvp.Key.(model.IPAMHandleKey)
		case model.BlockAffinityListOptions:
			_, match = kvp.Key.(model.BlockAffinityKey)
		}
		if match {
			out.KVPairs = append(out.KVPairs, f7CopyKVP(kvp))
		}
	}
	return out, nil
}

func (s *f7Store) Close() error { return nil }

func TestAssignIPConflictKeepsHandleConsistent(t *testing.T) {
	ctx := context.Background()

	const (
		poolCIDR  = "10.0.0.0/24"
		blockCIDR = "10.0.0.0/26" // default IPv4 block size
		handleID  = "f7-handle"
		host      = "f7-host"
	)
	ip := cnet.MustParseIP("10.0.0.5")
	_, blockNet, err := cnet.ParseCIDR(blockCIDR)
	if err != nil {
		t.Fatal(err)
	}
	blockKey := model.BlockKey{CIDR: model.PrefixFromIPNet(*blockNet)}
	handleKey := model.IPAMHandleKey{HandleID: handleID}

	store := &f7Store{data: map[string]*model.KVPair{}, conflictKey: blockKey.String()}
	pools := &ipamtestutils.IPPoolAccessor{Pools: map[string]ipamtestutils.Pool{poolCIDR: {Enabled: true}}}
	ic := NewIPAMClient(store, pools, &ipamtestutils.FakeReservations{})

	// One AssignIP of one specific address with a handle; its first write of the
	// block loses a CAS race once, every other datastore operation succeeds.
	h := handleID
	if err := ic.AssignIP(ctx, AssignIPArgs{IP: ip, HandleID: &h, Hostname: host}); err != nil {
		t.Fatalf("AssignIP returned an error (expected success after one retry): %v", err)
	}
	for _, l := range store.log {
		t.Log("datastore: " + l)
	}
	if store.conflictsInjected != 1 {
		t.Fatalf("test bug: expected exactly one injected conflict on %s, got %d", blockKey, store.conflictsInjected)
	}

	// Read both records back from the datastore.
	bkvp, err := store.Get(ctx, blockKey, "")
	if err != nil {
		t.Fatalf("block %s not in datastore: %v", blockCIDR, err)
	}
	block := bkvp.Value.(*model.AllocationBlock)
	inBlock := 0
	for _, attrIdx := range block.Allocations {
		if attrIdx == nil {
			continue
		}
		if hid := block.Attributes[*attrIdx].HandleID; hid != nil && *hid == handleID {
			inBlock++
		}
	}

	hkvp, err := store.Get(ctx, handleKey, "")
	if err != nil {
		t.Fatalf("handle %s not in datastore: %v", handleID, err)
	}
	handleCount := hkvp.Value.(*model.IPAMHandle).Block[blockNet.String()]

	if inBlock != 1 {
		t.Errorf("block %s holds %d addresses for handle %q, want 1", blockCIDR, inBlock, handleID)
	}
	if handleCount != inBlock {
		t.Errorf("handle/block disagree after AssignIP retried a CAS conflict: handle %q records %d address(es) in block %s, "+
			"but the block holds %d address(es) for that handle (handle.Block=%v)",
			handleID, handleCount, blockCIDR, inBlock, hkvp.Value.(*model.IPAMHandle).Block)
	}

	// Consequence: releasing the one address the handle really owns must remove the
	// handle record; with the leaked increment it survives forever with count 1.
	if _, _, err := ic.ReleaseIPs(ctx, ReleaseOptions{Address: ip.String(), Handle: handleID}); err != nil {
		t.Fatalf("ReleaseIPs: %v", err)
	}
	if left, err := store.Get(ctx, handleKey, ""); err == nil {
		t.Errorf("after releasing its only address, handle %q still exists in the datastore: Block=%v",
			handleID, left.Value.(*model.IPAMHandle).Block)
	}
}
