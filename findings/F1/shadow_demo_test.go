package config_test

// Demonstration for finding F1 (property C27): a value from a LOWER-priority
// source that is shadowed by a higher-priority source must not affect the result.
// Run (never written into /repo):
//   cd /repo/felix/config && go test -overlay /tmp/f1/overlay.json -run TestShadowedInvalidValueIgnored .
import (
	"testing"

	"github.com/projectcalico/calico/felix/config"
)

func TestShadowedInvalidValueIgnored(t *testing.T) {
	c := config.New()
	if _, err := c.UpdateFrom(map[string]string{"ChainInsertMode": "append"}, config.EnvironmentVariable); err != nil {
		t.Fatalf("env: %v", err)
	}
	// Config file (lower priority) carries an invalid value for the same, die-on-fail, parameter.
	_, err := c.UpdateFrom(map[string]string{"ChainInsertMode": "bogus"}, config.ConfigFile)
	if err != nil || c.Err != nil {
		t.Fatalf("shadowed invalid value affected the result: err=%v config.Err=%v", err, c.Err)
	}
	if c.ChainInsertMode != "append" {
		t.Fatalf("ChainInsertMode=%q", c.ChainInsertMode)
	}
}
