package calc_test

// F17 probe: PolicyResolver keeps a policy in pendingPolicyUpdates after its last match stopped.
//
// Differential check of property C01: the dataplane state folded from everything the calculation
// graph emitted after a history must equal what a fresh graph emits when fed only the final
// datastore state.  TestProbePendingPolicy FAILS on the unfixed tree.
//
// Run without writing into /repo (see README.md):
//   go test -count=1 -overlay /tmp/f17/overlay.json -run TestProbePendingPolicy .   (in /repo/felix/calc)
//
// The harness (recorder / run / check) is the one used by the C01 seed demonstrations, inlined
// here under the f17 prefix so that this file is self-contained.

import (
	"fmt"
	"sort"
	"strings"
	"testing"

	v3 "github.com/projectcalico/api/pkg/apis/projectcalico/v3"
	"google.golang.org/protobuf/encoding/prototext"
	googleproto "google.golang.org/protobuf/proto"

	. "github.com/projectcalico/calico/felix/calc"
	"github.com/projectcalico/calico/felix/config"
	"github.com/projectcalico/calico/felix/dataplane/mock"
	"github.com/projectcalico/calico/felix/proto"
	"github.com/projectcalico/calico/lib/std/uniquelabels"
	"github.com/projectcalico/calico/libcalico-go/lib/backend/api"
	"github.com/projectcalico/calico/libcalico-go/lib/backend/model"
	"github.com/projectcalico/calico/libcalico-go/lib/net"
)

// f17Recorder folds the stream of messages into the dataplane state that they describe.
type f17Recorder struct {
	state  map[string]string          // "<kind>/<id>" -> canonical text of the last update
	ipSets map[string]map[string]bool // IP set ID -> members
}

func newF17Recorder() *f17Recorder {
	return &f17Recorder{state: map[string]string{}, ipSets: map[string]map[string]bool{}}
}

func f17Text(m googleproto.Message) string {
	return prototext.MarshalOptions{Multiline: false}.Format(m)
}

func (r *f17Recorder) OnEvent(event any) {
	switch ev := event.(type) {
	case *proto.IPSetUpdate:
		members := map[string]bool{}
		for _, m := range ev.Members {
			members[m] = true
		}
		r.ipSets[ev.Id] = members
		r.state["ipset-type/"+ev.Id] = ev.Type.String()
	case *proto.IPSetDeltaUpdate:
		for _, m := range ev.AddedMembers {
			r.ipSets[ev.Id][m] = true
		}
		for _, m := range ev.RemovedMembers {
			delete(r.ipSets[ev.Id], m)
		}
	case *proto.IPSetRemove:
		delete(r.ipSets, ev.Id)
		delete(r.state, "ipset-type/"+ev.Id)
	case *proto.ActivePolicyUpdate:
		r.state["policy/"+f17Text(ev.Id)] = f17Text(ev.Policy)
	case *proto.ActivePolicyRemove:
		delete(r.state, "policy/"+f17Text(ev.Id))
	case *proto.ActiveProfileUpdate:
		r.state["profile/"+f17Text(ev.Id)] = f17Text(ev.Profile)
	case *proto.ActiveProfileRemove:
		delete(r.state, "profile/"+f17Text(ev.Id))
	case *proto.WorkloadEndpointUpdate:
		r.state["wep/"+f17Text(ev.Id)] = f17Text(ev.Endpoint)
	case *proto.WorkloadEndpointRemove:
		delete(r.state, "wep/"+f17Text(ev.Id))
	case *proto.HostEndpointUpdate:
		r.state["hep/"+f17Text(ev.Id)] = f17Text(ev.Endpoint)
	case *proto.HostEndpointRemove:
		delete(r.state, "hep/"+f17Text(ev.Id))
	case *proto.RouteUpdate:
		r.state["route/"+ev.Dst] = f17Text(ev)
	case *proto.RouteRemove:
		delete(r.state, "route/"+ev.Dst)
	case *proto.VXLANTunnelEndpointUpdate:
		r.state["vtep/"+ev.Node] = f17Text(ev)
	case *proto.VXLANTunnelEndpointRemove:
		delete(r.state, "vtep/"+ev.Node)
	case *proto.HostMetadataUpdate:
		r.state["hostmeta/"+ev.Hostname] = f17Text(ev)
	case *proto.HostMetadataRemove:
		delete(r.state, "hostmeta/"+ev.Hostname)
	case *proto.IPAMPoolUpdate:
		r.state["pool/"+ev.Id] = f17Text(ev.Pool)
	case *proto.IPAMPoolRemove:
		delete(r.state, "pool/"+ev.Id)
	}
}

func (r *f17Recorder) dump() []string {
	var out []string
	for k, v := range r.state {
		out = append(out, k+" => "+v)
	}
	for id, members := range r.ipSets {
		var ms []string
		for m := range members {
			ms = append(ms, m)
		}
		sort.Strings(ms)
		out = append(out, "ipset/"+id+" => "+strings.Join(ms, ","))
	}
	sort.Strings(out)
	return out
}

// f17Step is a batch of updates that is delivered and then (optionally) flushed.
type f17Step struct {
	updates []api.Update
	inSync  bool // signal in-sync after delivering the updates
	flush   bool // flush the graph and the event sequencer after delivering the updates
}

func f17KV(key model.Key, value any) api.Update {
	ut := api.UpdateTypeKVUpdated
	if value == nil {
		ut = api.UpdateTypeKVDeleted
	}
	return api.Update{KVPair: model.KVPair{Key: key, Value: value}, UpdateType: ut}
}

// f17Run drives a fresh calculation graph through the given history and returns the dataplane
// state described by everything it emitted.
func f17Run(routeSource string, history []f17Step) []string {
	conf := config.New()
	conf.FelixHostname = localHostname
	conf.BPFEnabled = true
	conf.RouteSource = routeSource
	conf.Encapsulation = config.Encapsulation{VXLANEnabled: true, VXLANEnabledV6: true}
	rec := newF17Recorder()
	eventBuf := NewEventSequencer(mock.NewMockDataplane())
	eventBuf.Callback = rec.OnEvent
	calcGraph := NewCalculationGraph(eventBuf, NewLookupsCache(), conf, func() {})
	filter := NewValidationFilter(calcGraph, conf)
	for _, step := range history {
		for _, u := range step.updates {
			filter.OnUpdates([]api.Update{u})
		}
		if step.inSync {
			filter.OnStatusUpdated(api.InSync)
		}
		if step.flush {
			calcGraph.Flush()
			eventBuf.Flush()
		}
	}
	return rec.dump()
}

// f17Check runs the history, then runs a fresh graph on finalState only, and compares.
func f17Check(t *testing.T, routeSource string, history []f17Step, finalState []api.Update) {
	t.Helper()
	got := f17Run(routeSource, history)
	want := f17Run(routeSource, []f17Step{{updates: finalState, inSync: true, flush: true}})
	if strings.Join(got, "\n") != strings.Join(want, "\n") {
		t.Errorf("C01 violated: state after history differs from fresh start on the final datastore state.\n"+
			"--- after history:\n%s\n--- fresh start:\n%s\n--- diff:\n%s",
			strings.Join(got, "\n"), strings.Join(want, "\n"), f17Diff(got, want))
	}
}

func f17Diff(got, want []string) string {
	g, w := map[string]bool{}, map[string]bool{}
	for _, s := range got {
		g[s] = true
	}
	for _, s := range want {
		w[s] = true
	}
	var out []string
	for _, s := range got {
		if !w[s] {
			out = append(out, fmt.Sprintf("  only after history: %s", s))
		}
	}
	for _, s := range want {
		if !g[s] {
			out = append(out, fmt.Sprintf("  only in fresh run:  %s", s))
		}
	}
	return strings.Join(out, "\n")
}

func probeEP(labels map[string]string) *model.WorkloadEndpoint {
	return &model.WorkloadEndpoint{
		State: "active", Name: "cali1",
		IPv4Nets: []net.IPNet{mustParseNet("10.0.0.1/32")},
		Labels:   uniquelabels.Make(labels),
	}
}

func probePol(order float64, sel string) *model.Policy {
	return &model.Policy{Tier: "default", Order: &order, Selector: sel,
		InboundRules: []model.Rule{{Action: "allow"}}, Types: []string{"ingress"}}
}

func TestProbePendingPolicy(t *testing.T) {
	tierKey := model.TierKey{Name: "default"}
	o := 100.0
	tier := &model.Tier{Order: &o, DefaultAction: v3.Deny}
	qKey := model.PolicyKey{Name: "q", Kind: v3.KindGlobalNetworkPolicy}
	pKey := model.PolicyKey{Name: "p", Kind: v3.KindGlobalNetworkPolicy}
	history := []f17Step{
		{updates: []api.Update{
			f17KV(tierKey, tier),
			f17KV(localWlEpKey1, probeEP(map[string]string{"b": "b"})),
			f17KV(qKey, probePol(20, "b == 'b'")),
		}, inSync: true, flush: true},
		{updates: []api.Update{
			f17KV(pKey, probePol(10, "b == 'b'")),
			f17KV(pKey, probePol(10, "c == 'c'")),
		}, flush: true},
		{updates: []api.Update{
			f17KV(pKey, probePol(30, "c == 'c'")),
		}, flush: true},
		{updates: []api.Update{
			f17KV(localWlEpKey1, probeEP(map[string]string{"b": "b", "c": "c"})),
		}, flush: true},
	}
	final := []api.Update{
		f17KV(tierKey, tier),
		f17KV(localWlEpKey1, probeEP(map[string]string{"b": "b", "c": "c"})),
		f17KV(qKey, probePol(20, "b == 'b'")),
		f17KV(pKey, probePol(30, "c == 'c'")),
	}
	f17Check(t, "CalicoIPAM", history, final)
}
