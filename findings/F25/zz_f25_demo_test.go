package intdataplane

import (
	"testing"

	"github.com/onsi/gomega"

	"github.com/projectcalico/calico/felix/netlinkshim/mocknetlink"
	"github.com/projectcalico/calico/felix/proto"
)

// F25: a node that HAD an IPv4 address and loses it (but still exists, e.g. keeps its IPv6 address)
// is announced by the calculation graph as a HostMetadataUpdate with an empty Ipv4Addr, not as a
// remove.  The IPv4 proxy-neighbour manager ignored such an update, so the node stayed in the hash
// ring of long-running Felixes while a freshly started Felix never inserts it: two nodes with the
// same current datastore view elect different owners for a load-balancer address (C45).
func TestF25NodeLosingItsAddressLeavesTheRing(t *testing.T) {
	gomega.RegisterTestingT(t)
	mk := func() *proxyNeighManager {
		nl := mocknetlink.New()
		m := newTestProxyNeighManagerWithHostname(nl, map[string]*mockARPClient{}, "node-a")
		t.Cleanup(m.Stop)
		return m
	}
	members := func(m *proxyNeighManager) int { m.nodeRing.Lookup("probe"); return m.nodeRing.Len() }

	old := mk() // long-running Felix: saw node-b with an address, then without
	old.OnUpdate(&proto.HostMetadataUpdate{Hostname: "node-a", Ipv4Addr: "10.0.0.1"})
	old.OnUpdate(&proto.HostMetadataUpdate{Hostname: "node-b", Ipv4Addr: "10.0.0.2", Ipv6Addr: "fd00::2"})
	old.OnUpdate(&proto.HostMetadataUpdate{Hostname: "node-b", Ipv4Addr: "", Ipv6Addr: "fd00::2"})

	fresh := mk() // Felix started afterwards: only ever sees the current state
	fresh.OnUpdate(&proto.HostMetadataUpdate{Hostname: "node-a", Ipv4Addr: "10.0.0.1"})
	fresh.OnUpdate(&proto.HostMetadataUpdate{Hostname: "node-b", Ipv4Addr: "", Ipv6Addr: "fd00::2"})

	if a, b := members(old), members(fresh); a != b {
		t.Fatalf("hash ring depends on history: long-running Felix has %d members, freshly started Felix has %d", a, b)
	}
	for _, vip := range []string{"10.96.0.1", "10.96.0.2", "10.96.0.3", "10.96.0.4", "10.96.0.5", "10.96.0.6", "10.96.0.7", "10.96.0.8"} {
		o1, _ := old.nodeRing.Lookup(vip)
		o2, _ := fresh.nodeRing.Lookup(vip)
		if o1 != o2 {
			t.Fatalf("VIP %s: long-running Felix elects %v, fresh Felix elects %v", vip, o1, o2)
		}
	}
}
