package nftables_test

// Demonstration for finding F9 (property C08): the nftables renderer turns the
// negated ICMP type+code match NOT(type==T && code==C) into
//     icmp type != T code != C
// An nftables rule is the conjunction of its expressions, so that text means
// (type != T) AND (code != C).  A packet with type T and a different code (or a
// different type and code C) satisfies the policy rule's NotICMP match but not
// the rendered rule.  iptables renders "! --icmp-type T/C", which is correct.
//   cd /repo/felix/nftables && go test -overlay /tmp/f9/overlay.json -run TestNotICMPTypeAndCodeSemantics .
import (
	"regexp"
	"strconv"
	"testing"

	"github.com/projectcalico/calico/felix/nftables"
)

// evalConj evaluates a rendered fragment made of `icmp type [!=] N` / `code [!=] N`
// relational expressions as nftables does: every expression must hold.
func evalConj(t *testing.T, frag string, typ, code int) bool {
	re := regexp.MustCompile(`(type|code) (!= )?(\d+)`)
	ms := re.FindAllStringSubmatch(frag, -1)
	if len(ms) == 0 {
		t.Fatalf("cannot interpret %q", frag)
	}
	for _, m := range ms {
		n, _ := strconv.Atoi(m[3])
		v := typ
		if m[1] == "code" {
			v = code
		}
		if (m[2] == "") != (v == n) {
			return false
		}
	}
	return true
}

func TestNotICMPTypeAndCodeSemantics(t *testing.T) {
	frag := nftables.Match().NotICMPTypeAndCode(8, 0).Render()
	t.Logf("rendered: %q", frag)
	for _, pkt := range [][2]int{{8, 0}, {8, 1}, {9, 0}, {9, 1}} {
		want := !(pkt[0] == 8 && pkt[1] == 0) // policy semantics of NotICMP{type 8, code 0}
		if got := evalConj(t, frag, pkt[0], pkt[1]); got != want {
			t.Errorf("packet icmp type %d code %d: policy rule matches=%v, rendered nft rule matches=%v", pkt[0], pkt[1], want, got)
		}
	}
}
