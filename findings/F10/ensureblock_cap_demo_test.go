package ipam

// Demonstration for finding F10: (ipamClient).ensureBlock (public API EnsureBlock)
// never checks IPAMConfig.MaxBlocksPerHost before claiming a new affine block.
//
// ensureBlock builds its blockAssignState with allowNewClaim: true and calls
// findOrClaimBlock without ever comparing the number of blocks the host already owns
// with the configured cap.  autoAssign, which shares findOrClaimBlock, does
//
//	if maxNumBlocks > 0 && numBlocksOwned >= maxNumBlocks { s.allowNewClaim = false }
//
// so that findOrClaimBlock returns ErrBlockLimit instead of claiming.  ensureBlock has
// no such line.  Normally that is hidden because findOrClaimBlock returns the host's
// existing affine block first; but findOrClaimBlock SKIPS an existing affine block that
// is wholly covered by an IPReservation (reservations.MatchesWholeCIDR).  Then it falls
// through to "claim a new block", and the cap is exceeded.
//
// History reproduced here (in-memory datastore, no cluster needed):
//
//	1. IPAM config: StrictAffinity=true, AutoAllocateBlocks=true, MaxBlocksPerHost=1.
//	   Pool 10.0.0.0/24, /26 blocks.
//	2. EnsureBlock(host) -> host claims its first affine block B1 (1 of 1 allowed).
//	3. An IPReservation covering all of B1 is created.
//	4. Control: AutoAssign(host, 1 address) in that state -> ErrBlockLimit, still 1 block.
//	5. EnsureBlock(host) again -> expected ErrBlockLimit (or any error / no new claim);
//	   observed: succeeds and claims a SECOND affine block B2: host holds 2 blocks, cap 1.
//
// Run (does not write into /repo; uses a Go build overlay):
//
//   mkdir -p /tmp/f10 && cat > /tmp/f10/overlay.json <<'EOF'
//   {"Replace":{"/repo/libcalico-go/lib/ipam/zz_ensureblock_cap_demo_test.go":"/verif/findings/F10/ensureblock_cap_demo_test.go"}}
//   EOF
//   cd /repo/libcalico-go/lib/ipam && . /verif/env.sh && \
//     go test -count=1 -overlay /tmp/f10/overlay.json -run TestEnsureBlockRespectsMaxBlocksPerHost .
//
// Expected on a correct tree: PASS.  On today's tree: FAIL, 2 affine blocks with cap 1.

import (
	"context"
	"errors"
	"fmt"
	"sort"
	"strconv"
	"sync"
	"testing"

	v3 "github.com/projectcalico/api/pkg/apis/projectcalico/v3"

	"github.com/projectcalico/calico/libcalico-go/lib/apis/internalapi"
	bapi "github.com/projectcalico/calico/libcalico-go/lib/backend/api"
	"github.com/projectcalico/calico/libcalico-go/lib/backend/model"
	cerrors "github.com/projectcalico/calico/libcalico-go/lib/errors"
	"github.com/projectcalico/calico/libcalico-go/lib/ipam/ipamtestutils"
)

// f10Store is a minimal in-memory backend: key string -> KVPair, with a revision
// counter and real compare-and-swap semantics on Update/Delete.  Values are
// deep-copied on the way in and out, like a real datastore (callers mutate the
// KVPair they were handed and pass it straight back).  No faults are injected:
// every operation behaves like a healthy single-client datastore.
//
// The embedded (nil) bapi.Client supplies the methods IPAM does not use here
// (Watch, Syncer, ...); calling any of them would panic.
type f10Store struct {
	bapi.Client

	mu   sync.Mutex
	rev  int
	data map[string]*model.KVPair
	log  []string
}

func f10CopyValue(v any) any {
	switch x := v.(type) {
	case *model.AllocationBlock:
		return x.Clone()
	case *model.IPAMHandle:
		c := &model.IPAMHandle{HandleID: x.HandleID, Deleted: x.Deleted, Block: map[string]int{}}
		for k, n := range x.Block {
			c.Block[k] = n
		}
		return c
	case *model.BlockAffinity:
		c := *x
		return &c
	case *model.IPAMConfig:
		c := *x
		return &c
	case *internalapi.Node:
		return x.DeepCopy()
	}
	panic(fmt.Sprintf("f10Store: unexpected value type %T", v))
}

func f10CopyKVP(kvp *model.KVPair) *model.KVPair {
	return &model.KVPair{Key: kvp.Key, Value: f10CopyValue(kvp.Value), Revision: kvp.Revision}
}

func (s *f10Store) nextRev() string {
	s.rev++
	return strconv.Itoa(s.rev)
}

func (s *f10Store) Get(ctx context.Context, key model.Key, revision string) (*model.KVPair, error) {
	s.mu.Lock()
	defer s.mu.Unlock()
	cur, ok := s.data[key.String()]
	if !ok {
		return nil, cerrors.ErrorResourceDoesNotExist{Identifier: key}
	}
	return f10CopyKVP(cur), nil
}

func (s *f10Store) Create(ctx context.Context, object *model.KVPair) (*model.KVPair, error) {
	s.mu.Lock()
	defer s.mu.Unlock()
	return s.createLocked(object)
}

func (s *f10Store) createLocked(object *model.KVPair) (*model.KVPair, error) {
	k := object.Key.String()
	if _, ok := s.data[k]; ok {
		return nil, cerrors.ErrorResourceAlreadyExists{Identifier: object.Key}
	}
	stored := f10CopyKVP(object)
	stored.Revision = s.nextRev()
	s.data[k] = stored
	s.log = append(s.log, "Create "+k+" -> ok")
	return f10CopyKVP(stored), nil
}

func (s *f10Store) Update(ctx context.Context, object *model.KVPair) (*model.KVPair, error) {
	s.mu.Lock()
	defer s.mu.Unlock()
	return s.updateLocked(object)
}

func (s *f10Store) updateLocked(object *model.KVPair) (*model.KVPair, error) {
	k := object.Key.String()
	cur, ok := s.data[k]
	if !ok {
		return nil, cerrors.ErrorResourceDoesNotExist{Identifier: object.Key}
	}
	if object.Revision != "" && object.Revision != cur.Revision {
		s.log = append(s.log, "Update "+k+" -> ErrorResourceUpdateConflict")
		return nil, cerrors.ErrorResourceUpdateConflict{Identifier: object.Key}
	}
	stored := f10CopyKVP(object)
	stored.Revision = s.nextRev()
	s.data[k] = stored
	s.log = append(s.log, "Update "+k+" -> ok")
	return f10CopyKVP(stored), nil
}

// Apply = create-or-update (used by SetIPAMConfig).
func (s *f10Store) Apply(ctx context.Context, object *model.KVPair) (*model.KVPair, error) {
	s.mu.Lock()
	defer s.mu.Unlock()
	if _, ok := s.data[object.Key.String()]; ok {
		return s.updateLocked(object)
	}
	return s.createLocked(object)
}

func (s *f10Store) DeleteKVP(ctx context.Context, object *model.KVPair) (*model.KVPair, error) {
	return s.Delete(ctx, object.Key, object.Revision)
}

func (s *f10Store) Delete(ctx context.Context, key model.Key, revision string) (*model.KVPair, error) {
	s.mu.Lock()
	defer s.mu.Unlock()
	k := key.String()
	cur, ok := s.data[k]
	if !ok {
		return nil, cerrors.ErrorResourceDoesNotExist{Identifier: key}
	}
	if revision != "" && revision != cur.Revision {
		return nil, cerrors.ErrorResourceUpdateConflict{Identifier: key}
	}
	delete(s.data, k)
	s.log = append(s.log, "Delete "+k+" -> ok")
	return cur, nil
}

func (s *f10Store) List(ctx context.Context, list model.ListInterface, revision string) (*model.KVPairList, error) {
	s.mu.Lock()
	defer s.mu.Unlock()
	out := &model.KVPairList{Revision: strconv.Itoa(s.rev)}
	for _, kvp := range s.data {
		match := false
		switch opts := list.(type) {
		case model.BlockListOptions:
			var bk model.BlockKey
			bk, match = kvp.Key.(model.BlockKey)
			if match && opts.IPVersion != 0 {
				match = (bk.CIDR.Addr().Is4() && opts.IPVersion == 4) || (!bk.CIDR.Addr().Is4() && opts.IPVersion == 6)
			}
		case model.IPAMHandleListOptions:
			_, match = kvp.Key.(model.IPAMHandleKey)
		case model.BlockAffinityListOptions:
			var ak model.BlockAffinityKey
			ak, match = kvp.Key.(model.BlockAffinityKey)
			if match && opts.Host != "" && ak.Host != opts.Host {
				match = false
			}
			if match && opts.AffinityType != "" && ak.AffinityType != opts.AffinityType {
				match = false
			}
			if match && opts.IPVersion != 0 {
				match = (ak.CIDR.Addr().Is4() && opts.IPVersion == 4) || (!ak.CIDR.Addr().Is4() && opts.IPVersion == 6)
			}
		default:
			panic(fmt.Sprintf("f10Store: unexpected list type %T", list))
		}
		if match {
			out.KVPairs = append(out.KVPairs, f10CopyKVP(kvp))
		}
	}
	return out, nil
}

func (s *f10Store) Close() error { return nil }

// f10AffineBlocks reads the host's BlockAffinity records straight from the datastore.
func f10AffineBlocks(t *testing.T, store *f10Store, host string) []string {
	t.Helper()
	l, err := store.List(context.Background(), model.BlockAffinityListOptions{Host: host, AffinityType: string(AffinityTypeHost), IPVersion: 4}, "")
	if err != nil {
		t.Fatalf("listing block affinities: %v", err)
	}
	var out []string
	for _, kvp := range l.KVPairs {
		k := kvp.Key.(model.BlockAffinityKey)
		out = append(out, fmt.Sprintf("%s(%s)", k.CIDR, kvp.Value.(*model.BlockAffinity).State))
	}
	sort.Strings(out)
	return out
}

// f10BlocksOwned reads the AllocationBlock records whose affinity is "host:<host>".
func f10BlocksOwned(t *testing.T, store *f10Store, host string) []string {
	t.Helper()
	l, err := store.List(context.Background(), model.BlockListOptions{IPVersion: 4}, "")
	if err != nil {
		t.Fatalf("listing blocks: %v", err)
	}
	var out []string
	for _, kvp := range l.KVPairs {
		b := kvp.Value.(*model.AllocationBlock)
		if b.Affinity != nil && *b.Affinity == "host:"+host {
			out = append(out, kvp.Key.(model.BlockKey).CIDR.String())
		}
	}
	sort.Strings(out)
	return out
}

const (
	f10PoolCIDR = "10.0.0.0/24" // 4 x /26 blocks
	f10Host     = "f10-host"
	f10Cap      = 1
)

// f10World builds steps 1-3 of the history: config with cap 1, the host legitimately
// owning exactly one affine block, then an IPReservation covering that whole block.
func f10World(t *testing.T) (Interface, *f10Store, BlockArgs, string) {
	t.Helper()
	ctx := context.Background()

	store := &f10Store{data: map[string]*model.KVPair{}}
	pools := &ipamtestutils.IPPoolAccessor{Pools: map[string]ipamtestutils.Pool{f10PoolCIDR: {Enabled: true, BlockSize: 26}}}
	rsvs := &ipamtestutils.FakeReservations{}
	ic := NewIPAMClient(store, pools, rsvs)

	// The node object IPAM looks up for pool node-selector matching.
	node := internalapi.NewNode()
	node.Name = f10Host
	if _, err := store.Create(ctx, &model.KVPair{Key: model.ResourceKey{Kind: internalapi.KindNode, Name: f10Host}, Value: node}); err != nil {
		t.Fatal(err)
	}

	// 1. IPAM config through the public API.
	if err := ic.SetIPAMConfig(ctx, IPAMConfig{StrictAffinity: true, AutoAllocateBlocks: true, MaxBlocksPerHost: f10Cap}); err != nil {
		t.Fatalf("SetIPAMConfig: %v", err)
	}
	cfg, err := ic.GetIPAMConfig(ctx)
	if err != nil {
		t.Fatal(err)
	}
	if !cfg.StrictAffinity || !cfg.AutoAllocateBlocks || cfg.MaxBlocksPerHost != f10Cap {
		t.Fatalf("test bug: config not stored as intended: %+v", cfg)
	}

	// 2. First block, obtained legitimately with EnsureBlock.  (EnsureBlock requires a
	// HostReservedAttr with at least one reserved address; these are the Windows values.)
	args := BlockArgs{
		Hostname:              f10Host,
		HostReservedAttrIPv4s: &HostReservedAttr{StartOfBlock: 3, EndOfBlock: 1, Handle: "f10-rsvd", Note: "f10"},
	}
	b1, _, err := ic.EnsureBlock(ctx, args)
	if err != nil || b1 == nil {
		t.Fatalf("first EnsureBlock failed: net=%v err=%v", b1, err)
	}
	// EnsureBlock is idempotent while the block is usable.
	again, _, err := ic.EnsureBlock(ctx, args)
	if err != nil || again == nil || again.String() != b1.String() {
		t.Fatalf("test bug: repeated EnsureBlock did not return the same block: %v vs %v (err=%v)", again, b1, err)
	}
	if got := f10AffineBlocks(t, store, f10Host); len(got) != 1 {
		t.Fatalf("test bug: expected exactly 1 affine block after setup, got %v", got)
	}

	// 3. An IPReservation that covers the whole of the host's only block.
	rsvs.Reservations = []v3.IPReservation{{Spec: v3.IPReservationSpec{ReservedCIDRs: []string{b1.String()}}}}
	rsvs.Reservations[0].Name = "f10-reserve-b1"

	return ic, store, args, b1.String()
}

func TestEnsureBlockRespectsMaxBlocksPerHost(t *testing.T) {
	ctx := context.Background()

	// 4. Control: in the very same state, AutoAssign honours the cap.
	{
		ic, store, args, b1 := f10World(t)
		v4, _, err := ic.AutoAssign(ctx, AutoAssignArgs{
			Num4:                  1,
			Hostname:              f10Host,
			HostReservedAttrIPv4s: args.HostReservedAttrIPv4s,
			IntendedUse:           v3.IPPoolAllowedUseWorkload,
		})
		n := 0
		if v4 != nil {
			n = len(v4.IPs)
		}
		aff := f10AffineBlocks(t, store, f10Host)
		t.Logf("control  AutoAssign(1 addr) with B1=%s wholly reserved, cap=%d: assigned=%d err=%v; affine blocks now %v",
			b1, f10Cap, n, err, aff)
		if !errors.Is(err, ErrBlockLimit) || len(aff) != f10Cap {
			t.Logf("control did not behave as described (expected ErrBlockLimit and %d block)", f10Cap)
		}
	}

	// 5. The operation under test.
	ic, store, args, b1 := f10World(t)
	mark := len(store.log)
	b2, _, err := ic.EnsureBlock(ctx, args)

	for _, l := range store.log[mark:] {
		t.Log("datastore during 2nd EnsureBlock: " + l)
	}
	aff := f10AffineBlocks(t, store, f10Host)
	owned := f10BlocksOwned(t, store, f10Host)
	t.Logf("EnsureBlock with B1=%s wholly reserved, cap=%d: returned net=%v err=%v", b1, f10Cap, b2, err)
	t.Logf("host %s block affinities: %v; allocation blocks with affinity host:%s: %v", f10Host, aff, f10Host, owned)

	if err != nil {
		// Refusing is the correct outcome; the cap must still hold.
		if len(aff) > f10Cap {
			t.Errorf("EnsureBlock returned an error (%v) but still left %d affine blocks %v (cap %d)", err, len(aff), aff, f10Cap)
		}
		return
	}
	if len(aff) > f10Cap || len(owned) > f10Cap {
		t.Errorf("MaxBlocksPerHost=%d violated by EnsureBlock: it returned %v with no error and host %q now holds %d block affinities %v "+
			"and %d affine allocation blocks %v (want an error such as ErrBlockLimit %q and at most %d block)",
			f10Cap, b2, f10Host, len(aff), aff, len(owned), owned, ErrBlockLimit, f10Cap)
	}
}
