package checker

// Demonstration for finding F16: the application-layer policy checker (Dikastes,
// app-policy/checker/match.go, func match) never looks at proto.Rule.IpVersion.
//
// The kernel dataplanes only apply a rule to packets of the rule's IP version:
//
//   - iptables/nftables: (*DefaultRuleRenderer).ProtoRuleToIptablesRules starts with
//     ruleCopy := FilterRuleToIPVersion(ipVersion, pRule); if ruleCopy == nil { return nil }
//   - BPF: felix/bpf/polprog/pol_prog_builder.go (writeRule) does the same and skips the rule
//     ("Version mismatch, skipping rule").
//   - felix/rules.FilterRuleToIPVersion returns nil when
//     pRule.IpVersion != 0 && pRule.IpVersion != proto.IPVersion(ipVersion).
//
// match() is the conjunction matchSource && matchDestination && matchRequest && matchL4Protocol;
// none of them reads rule.IpVersion (grep -rn IpVersion /repo/app-policy finds nothing).  Nothing
// upstream of the checker filters by version either: policystore.processActivePolicyUpdate stores
// update.Policy verbatim, and checkPolicy/checkProfile hand policy.InboundRules/OutboundRules
// straight to checkRules -> match.  felix/calc/rule_convert.go sets IpVersion from the v3 rule's
// ipVersion field (or from protocol icmp/icmpv6).
//
// So the rule {Action: "allow", IpVersion: IPV6} (no nets) matches an IPv4 HTTP request in the
// checker (verdict ALLOW), while for the same IPv4 connection the kernel dataplanes do not render
// the rule at all (no match, evaluation falls through to the next rule / tier default).  Mirrored
// for an IPv4-only rule and an IPv6 connection.  With a "deny" action the divergence goes the other
// way (checker denies what the kernel dataplane lets through to later rules).
//
// The test builds the CheckRequest/flow/requestCache exactly as match_test.go does and compares
// the checker's answer with the kernel-dataplane semantics computed by the REAL felix code:
// rules.FilterRuleToIPVersion(<ip version of the connection>, rule) != nil.
//
// Run (does not write into /repo; uses a Go build overlay):
//
//   mkdir -p /tmp/f16 && cat > /tmp/f16/overlay.json <<'EOF'
//   {"Replace":{"/repo/app-policy/checker/zz_ipversion_demo_test.go":"/verif/findings/F16/ipversion_demo_test.go"}}
//   EOF
//   cd /repo/app-policy/checker && . /verif/env.sh && \
//     go test -count=1 -overlay /tmp/f16/overlay.json -run TestRuleIPVersionHonoured .
//
// Expected on a correct tree: PASS.  On today's tree: FAIL for the two version-mismatch cases
// (the ANY / same-version controls pass).

import (
	"fmt"
	"net"
	"testing"

	core "github.com/envoyproxy/go-control-plane/envoy/config/core/v3"
	auth "github.com/envoyproxy/go-control-plane/envoy/service/auth/v3"

	"github.com/projectcalico/calico/app-policy/policystore"
	"github.com/projectcalico/calico/felix/proto"
	"github.com/projectcalico/calico/felix/rules"
)

func f16Request(srcAddr, dstAddr string) *auth.CheckRequest {
	return &auth.CheckRequest{Attributes: &auth.AttributeContext{
		Source: &auth.AttributeContext_Peer{
			Principal: "spiffe://cluster.local/ns/default/sa/sam",
			Address: &core.Address{Address: &core.Address_SocketAddress{
				SocketAddress: &core.SocketAddress{
					Address:       srcAddr,
					Protocol:      core.SocketAddress_TCP,
					PortSpecifier: &core.SocketAddress_PortValue{PortValue: 8458},
				}}},
		},
		Destination: &auth.AttributeContext_Peer{
			Principal: "spiffe://cluster.local/ns/default/sa/ian",
			Address: &core.Address{Address: &core.Address_SocketAddress{
				SocketAddress: &core.SocketAddress{
					Address:       dstAddr,
					Protocol:      core.SocketAddress_TCP,
					PortSpecifier: &core.SocketAddress_PortValue{PortValue: 80},
				}}},
		},
		Request: &auth.AttributeContext_Request{
			Http: &auth.AttributeContext_HttpRequest{
				Method: "GET",
				Path:   "/path",
			},
		},
	}}
}

func f16ActionName(a Action) string {
	switch a {
	case ALLOW:
		return "ALLOW"
	case NO_MATCH:
		return "NO_MATCH"
	}
	return fmt.Sprintf("Action(%d)", int(a))
}

func TestRuleIPVersionHonoured(t *testing.T) {
	const (
		v4Src, v4Dst = "192.168.4.22", "10.54.44.23"
		v6Src, v6Dst = "fd00:1::22", "fd00:2::23"
	)

	cases := []struct {
		name        string
		ruleVersion proto.IPVersion
		src, dst    string
	}{
		// Mismatching cases: these FAIL on today's tree.
		{"IPv6-only rule, IPv4 connection", proto.IPVersion_IPV6, v4Src, v4Dst},
		{"IPv4-only rule, IPv6 connection", proto.IPVersion_IPV4, v6Src, v6Dst},
		// Controls: the two evaluators agree.
		{"ANY rule, IPv4 connection", proto.IPVersion_ANY, v4Src, v4Dst},
		{"ANY rule, IPv6 connection", proto.IPVersion_ANY, v6Src, v6Dst},
		{"IPv4-only rule, IPv4 connection", proto.IPVersion_IPV4, v4Src, v4Dst},
		{"IPv6-only rule, IPv6 connection", proto.IPVersion_IPV6, v6Src, v6Dst},
	}

	for _, tc := range cases {
		t.Run(tc.name, func(t *testing.T) {
			// The rule has an action and an IP version and nothing else.
			rule := &proto.Rule{Action: "allow", IpVersion: tc.ruleVersion}

			req := f16Request(tc.src, tc.dst)
			flow := NewCheckRequestToFlowAdapter(req)
			store := policystore.NewPolicyStore()
			reqCache := NewRequestCache(store, flow)

			// IP version of the connection, taken from what the checker itself sees.
			srcIP, dstIP := flow.GetSourceIP(), flow.GetDestIP()
			if srcIP == nil || dstIP == nil {
				t.Fatalf("test bug: flow has no addresses (src=%v dst=%v)", srcIP, dstIP)
			}
			connVersion := uint8(6)
			if srcIP.To4() != nil {
				connVersion = 4
			}
			if (dstIP.To4() != nil) != (connVersion == 4) {
				t.Fatalf("test bug: mixed-family connection %v -> %v", srcIP, dstIP)
			}

			// Kernel-dataplane semantics, from the real felix code: the iptables/nftables
			// renderer and the BPF program builder both drop the rule for this IP version
			// when FilterRuleToIPVersion returns nil.
			kernelApplies := rules.FilterRuleToIPVersion(connVersion, rule) != nil
			// Cross-check the expectation against the documented meaning of the field.
			if want := tc.ruleVersion == proto.IPVersion_ANY ||
				tc.ruleVersion == proto.IPVersion(connVersion); kernelApplies != want {
				t.Fatalf("unexpected FilterRuleToIPVersion(%d, %v) != nil: %v", connVersion, rule, kernelApplies)
			}

			// The checker's view of the same rule and the same connection.
			checkerMatches := match("", rule, reqCache)
			action, idx := checkRules([]*proto.Rule{rule}, reqCache, "")

			t.Logf("rule{Action:allow IpVersion:%v} conn IPv%d %s -> %s: kernel dataplanes apply rule=%v; "+
				"checker match()=%v checkRules()=(action=%s, index=%d)",
				tc.ruleVersion, connVersion, net.IP(srcIP), net.IP(dstIP), kernelApplies, checkerMatches, f16ActionName(action), idx)

			if checkerMatches != kernelApplies {
				t.Errorf("DIVERGENCE: rule with IpVersion=%v on an IPv%d connection (%s -> %s): "+
					"rules.FilterRuleToIPVersion(%d, rule)!=nil is %v (iptables/nftables/BPF %s the rule) "+
					"but checker match() returned %v",
					tc.ruleVersion, connVersion, srcIP, dstIP, connVersion, kernelApplies,
					map[bool]string{true: "render", false: "do not render"}[kernelApplies], checkerMatches)
			}
			wantAction := NO_MATCH
			if kernelApplies {
				wantAction = ALLOW
			}
			if action != wantAction {
				t.Errorf("DIVERGENCE: checkRules verdict for the one-rule list is %s, kernel-dataplane semantics give %s",
					f16ActionName(action), f16ActionName(wantAction))
			}
		})
	}
}
