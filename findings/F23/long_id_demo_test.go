package hash_test

import (
	"strings"
	"testing"

	"github.com/projectcalico/calico/libcalico-go/lib/hash"
)

// F23: GetLengthLimitedID slices the 43-character base64 hash to maxLength-1-len(prefix)
// characters.  For the nftables name limit (256) that is ~247 > 43: any identity that needs
// shortening there (a policy whose kind/namespace/name exceeds ~248 characters – Kubernetes
// allows 253-character names) panics instead of getting a name.
func TestLongIDWithNftablesLimit(t *testing.T) {
	defer func() {
		if r := recover(); r != nil {
			t.Fatalf("GetLengthLimitedID panicked: %v", r)
		}
	}()
	a := hash.GetLengthLimitedID("cali-pi-", "NetworkPolicy/some-namespace/"+strings.Repeat("a", 250), 256)
	b := hash.GetLengthLimitedID("cali-pi-", "NetworkPolicy/some-namespace/"+strings.Repeat("a", 249)+"b", 256)
	if len(a) > 256 || len(b) > 256 {
		t.Fatalf("names exceed the limit: %d %d", len(a), len(b))
	}
	if a == b {
		t.Fatalf("distinct identities got the same name %q", a)
	}
	if a != hash.GetLengthLimitedID("cali-pi-", "NetworkPolicy/some-namespace/"+strings.Repeat("a", 250), 256) {
		t.Fatalf("same identity, different names")
	}
}
