package cleanupv1_test

import (
	"net"
	"testing"

	"github.com/projectcalico/calico/felix/bpf/conntrack/cleanupv1"
	v4 "github.com/projectcalico/calico/felix/bpf/conntrack/v4"
)

// F19: cleanupv1.ValueV6.Timestamp()/RevTimestamp() index the 56-byte value with the IPv4
// key size (16) instead of the IPv6 key size (40): they return bytes of the embedded
// conntrack key (struct cali_ccq_value.rev_key), not last_seen / rev_last_seen.
func TestCCQValueV6TimestampsRoundTrip(t *testing.T) {
	key := v4.NewKeyV6(6, net.ParseIP("fd00::1:2:3:4"), 1234, net.ParseIP("fd00::5:6:7:8"), 80)
	const ts, revTS = uint64(1111111111111), uint64(2222222222222)
	val := cleanupv1.NewValueV6(key.AsBytes(), ts, revTS)
	if got := val.Timestamp(); got != ts {
		t.Errorf("ValueV6.Timestamp() = %d (%#x), stored last_seen = %d", got, got, ts)
	}
	if got := val.RevTimestamp(); got != revTS {
		t.Errorf("ValueV6.RevTimestamp() = %d (%#x), stored rev_last_seen = %d", got, got, revTS)
	}
	// The IPv4 twin is right.
	k4 := v4.NewKey(6, net.ParseIP("10.0.0.1"), 1234, net.ParseIP("10.0.0.2"), 80)
	v := cleanupv1.NewValue(k4.AsBytes(), ts, revTS)
	if v.Timestamp() != ts || v.RevTimestamp() != revTS {
		t.Errorf("IPv4 twin broken too: %d %d", v.Timestamp(), v.RevTimestamp())
	}
}
