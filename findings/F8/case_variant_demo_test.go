package config_test

// Demonstration for finding F8 (property C27: "the result does not depend on the
// order in which keys are read", quantified over case-variant raw values): two
// case-variant spellings of one parameter inside ONE source are both applied in
// Go map-iteration order, so the effective value changes from call to call.
//   cd /repo/felix/config && go test -overlay /tmp/f8/overlay.json -run TestCaseVariantKeysDeterministic .
import (
	"testing"

	"github.com/projectcalico/calico/felix/config"
)

func TestCaseVariantKeysDeterministic(t *testing.T) {
	seen := map[bool]int{}
	for i := 0; i < 300; i++ {
		c := config.New()
		if _, err := c.UpdateFrom(map[string]string{"Ipv6Support": "true", "ipv6support": "false"}, config.ConfigFile); err != nil {
			t.Fatal(err)
		}
		seen[c.Ipv6Support]++
	}
	if len(seen) != 1 {
		t.Fatalf("effective Ipv6Support depends on map iteration order: %v", seen)
	}
}
