package nat

// Demonstration for finding F13 (property C13): FrontendKey.Affinitykey() takes bytes
// [4:12) of the NAT frontend key as the "frontend affinity key" (addr, port, protocol,
// pad).  In the kernel's struct calico_nat_key byte 11 is not padding but the first
// byte of saddr (the source-range address), so for a frontend with a source range the
// derived key carries a non-zero "pad" byte and never equals the frontend part of the
// affinity-map keys the BPF program writes (struct calico_nat: byte 7 is padding).
// The proxy syncer (registerStickyFrontend / cleanupSticky) compares exactly these.
//   cd /repo/felix/bpf/nat && CGO_ENABLED=0 go test -overlay /tmp/f13/overlay.json -run TestFrontendAffinityKeyIgnoresSourceRange .
import (
	"net"
	"testing"

	"github.com/projectcalico/calico/felix/ip"
)

func TestFrontendAffinityKeyIgnoresSourceRange(t *testing.T) {
	vip := net.ParseIP("10.96.0.10")
	for _, src := range []string{"0.0.0.0/0", "35.0.0.0/8"} {
		fk := NewNATKeySrc(vip, 80, 6, ip.MustParseCIDROrIP(src))
		fromFrontend := fk.AffinityKeyCopy()
		// what the BPF program stores in the affinity map for a client of this frontend
		fromAffinityMap := NewAffinityKey(net.ParseIP("1.2.3.4"), fk).FrontendAffinityKey()
		if fromFrontend != fromAffinityMap {
			t.Errorf("source range %s: key derived from the frontend %v != frontend part of the affinity map key %v",
				src, fromFrontend.AsBytes(), fromAffinityMap.AsBytes())
		}
	}
}
