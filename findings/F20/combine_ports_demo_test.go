package windataplane

import "testing"

// F20: combinePorts() decides "the two port lists have nothing in common" with
// bitset.Len()==0 (Len is the capacity in bits, not the population count), so for
// disjoint port lists it returns "" with a nil error.  An empty port list in an HNS rule
// means "any port": the rule that results from combining `pass tcp/80` in one tier with
// `allow tcp/443` in the next matches every port.
func TestCombineDisjointPorts(t *testing.T) {
	got, err := combinePorts("80", "443")
	if err == nil {
		t.Errorf("combinePorts(80, 443) = %q, nil; disjoint port sets must make the combined rule a no-op (empty string means ANY port)", got)
	}
	got, err = combinePorts("1000-2000", "3000-4000,5000")
	if err == nil {
		t.Errorf("combinePorts(1000-2000, 3000-4000,5000) = %q, nil", got)
	}
	// control: overlapping lists are intersected
	got, err = combinePorts("80,443,8000-8100", "443,8050-9000")
	if err != nil || got != "443,8050-8100" {
		t.Errorf("combinePorts overlap = %q, %v", got, err)
	}
}

// F21 (separate defect, same function): parsePorts sizes its bitset with `2 ^ 16 + 1`
// (XOR = 19, not 65537), so an intersection that includes port 65535 has no clear bit
// after it and combinePorts panics ("bitset said no end of range").
func TestCombinePortsUpTo65535(t *testing.T) {
	defer func() {
		if r := recover(); r != nil {
			t.Errorf("combinePorts(1000-65535, 60000-65535) panicked: %v", r)
		}
	}()
	got, err := combinePorts("1000-65535", "60000-65535")
	if err != nil || got != "60000-65535" {
		t.Errorf("combinePorts = %q, %v; want 60000-65535", got, err)
	}
}
