package calc

import (
	"testing"

	v3 "github.com/projectcalico/api/pkg/apis/projectcalico/v3"

	"github.com/projectcalico/calico/libcalico-go/lib/backend/api"
	"github.com/projectcalico/calico/libcalico-go/lib/backend/model"
)

type probeCB struct{ last []TierInfo }

func (p *probeCB) OnEndpointTierUpdate(_ model.EndpointKey, _ model.Endpoint, _ []EndpointComputedData, _ *EndpointBGPPeer, tiers []TierInfo) {
	p.last = tiers
}

func probeUpd(k model.Key, v any) api.Update {
	return api.Update{KVPair: model.KVPair{Key: k, Value: v}}
}

// Triage probe (throw-away): stale tier DefaultAction after tier deletion, and
// policy tie-break order for names "foo" / "foo-bar".
func TestProbeStaleTierDefaultAction(t *testing.T) {
	tierKey := model.TierKey{Name: "t"}
	order := 10.0
	polKey := model.PolicyKey{Name: "p", Kind: v3.KindGlobalNetworkPolicy}
	epKey := model.WorkloadEndpointKey{Hostname: "h", OrchestratorID: "o", WorkloadID: "w", EndpointID: "e"}
	ep := &model.WorkloadEndpoint{Name: "cali1"}

	run := func(withTierHistory bool) []TierInfo {
		pr := NewPolicyResolver()
		rec := &probeCB{}
		pr.RegisterCallback(rec)
		pr.OnDatamodelStatus(api.InSync)
		if withTierHistory {
			pr.OnUpdate(probeUpd(tierKey, &model.Tier{Order: &order, DefaultAction: v3.Pass}))
		}
		pr.OnUpdate(probeUpd(polKey, &model.Policy{Tier: "t"}))
		pr.OnUpdate(probeUpd(epKey, ep))
		pr.OnPolicyMatch(polKey, epKey)
		pr.Flush()
		if withTierHistory {
			pr.OnUpdate(probeUpd(tierKey, nil))
			pr.Flush()
		}
		return rec.last
	}
	a, b := run(true), run(false)
	t.Logf("history [tier(Pass) created, tier deleted]: %d tier(s) %+v", len(a), a)
	t.Logf("fresh start on the final state:             %d tier(s) %+v", len(b), b)
	if len(a) != len(b) {
		t.Fatalf("DIFFERENT tier count: %d vs %d", len(a), len(b))
	}
	for i := range a {
		if a[i].DefaultAction != b[i].DefaultAction {
			t.Errorf("HISTORY-DEPENDENT: tier %q DefaultAction %q after history vs %q fresh", a[i].Name, a[i].DefaultAction, b[i].DefaultAction)
		}
	}
}

func TestProbePolicyTieBreak(t *testing.T) {
	ps := NewPolicySorter()
	for _, n := range []string{"foo", "foo-bar", "foo.bar", "fooa"} {
		ps.UpdatePolicy(model.PolicyKey{Name: n, Kind: v3.KindGlobalNetworkPolicy}, &policyMetadata{Tier: "default", Order: polMetaDefaultOrder})
	}
	var got []string
	for _, ti := range ps.Sorted() {
		for _, kv := range ti.OrderedPolicies {
			got = append(got, kv.Key.Name)
		}
	}
	t.Logf("emitted order for equal-order policies: %v", got)
	for i := 1; i < len(got); i++ {
		if got[i-1] > got[i] {
			t.Errorf("NOT ASCENDING BY NAME: %q is emitted before %q", got[i-1], got[i])
		}
	}
}
