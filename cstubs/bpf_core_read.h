/* Stub of libbpf's bpf_core_read.h: CO-RE reads are irrelevant to layouts. */
#ifndef __CALINT_BPF_CORE_READ_STUB__
#define __CALINT_BPF_CORE_READ_STUB__
#define bpf_core_field_exists(field...) 1
#define bpf_core_type_exists(type) 1
#define bpf_core_enum_value_exists(enum_type, enum_value) 1
#define bpf_core_enum_value(enum_type, enum_value) (enum_value)
#define BPF_CORE_READ(src, a, ...) ((src)->a)
#define bpf_core_read(dst, sz, src) __builtin_memcpy(dst, src, sz)
#define __builtin_preserve_access_index(x) (x)
#endif
